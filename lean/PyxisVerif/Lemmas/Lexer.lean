import PyxisVerif.Model.Parser
import PyxisVerif.Model.Printer
/-!
# C18 – helper lemmas about the lexer: positions, numbers, rendering
-/
namespace PyxisVerif
namespace C18
open Lex (K Delim Tok Pos)

/-! ## positions lie inside the text -/

theorem advance_line (p : Pos) (xs : List Char) :
    (Lex.advance p xs).1 = p.1 + xs.count '\n' := by
  induction xs generalizing p with
  | nil => simp [Lex.advance]
  | cons x xs ih =>
    obtain ⟨l, c⟩ := p
    by_cases hx : x = '\n'
    · subst hx; simp [Lex.advance, ih]; omega
    · rw [Lex.advance.eq_3 _ _ _ _ (by intro e; exact hx e)]
      simp [ih, hx]

/-- the line of any position computed by the lexer -/
def LineOk (cs : List Char) (p : Pos) : Prop := 1 ≤ p.1 ∧ p.1 ≤ cs.count '\n' + 1

theorem posAt_ok (cs : List Char) (off : Nat) : LineOk cs (Lex.posAt cs off) := by
  simp only [LineOk, Lex.posAt, advance_line]
  have : (cs.take off).count '\n' ≤ cs.count '\n' := (List.take_sublist off cs).count_le _
  omega

theorem posOfRem_ok (cs : List Char) (n : Nat) : LineOk cs (Lex.posOfRem cs n) := posAt_ok cs _

theorem lexL_error_ok (cs : List Char) (p : Pos) (h : Lex.lexL cs = .error p) : LineOk cs p := by
  simp only [Lex.lexL] at h
  split at h
  · cases h
  · cases h; exact posOfRem_ok cs _

theorem lexL_tok_ok (cs : List Char) (ts : List Tok) (h : Lex.lexL cs = .ok ts) :
    ∀ t ∈ ts, LineOk cs t.pos := by
  simp only [Lex.lexL] at h
  split at h
  · cases h
    intro t ht
    simp only [List.mem_map] at ht
    obtain ⟨p, _, rfl⟩ := ht
    exact posOfRem_ok cs _
  · cases h

theorem parse_posOfRem_cases (ts : List Tok) (n : Nat) :
    Parse.posOfRem ts n = (1, 0) ∨ ∃ t ∈ ts, Parse.posOfRem ts n = t.pos := by
  simp only [Parse.posOfRem]
  cases h : ts.drop (ts.length - n) with
  | nil => left; rfl
  | cons t r =>
    right
    exact ⟨t, List.mem_of_mem_drop (by rw [h]; simp), rfl⟩

theorem parseStr_error_ok (s : String) (p : Pos) (h : Parse.parseStr s = .error p) :
    LineOk s.toList p := by
  simp only [Parse.parseStr, Lex.lex] at h
  cases hl : Lex.lexL s.toList with
  | error q => rw [hl] at h; cases h; exact lexL_error_ok _ _ hl
  | ok ts =>
    rw [hl] at h
    simp only [Parse.parseModule] at h
    split at h
    · cases h
    · cases h
      rcases parse_posOfRem_cases ts ‹Nat› with e | ⟨t, ht, e⟩
      · rw [e]; simp [LineOk]
      · rw [e]; exact lexL_tok_ok _ _ hl t ht

/-! ## character classes -/

theorem toNat_eq_of_eq {c k : Char} (h : c = k) : c.toNat = k.toNat := by rw [h]

theorem char_of_toNat {c k : Char} (h : c.toNat = k.toNat) : c = k := by
  apply Char.ext
  apply UInt32.toNat_inj.mp
  exact h

theorem isDigit_iff (c : Char) : c.isDigit = true ↔ 48 ≤ c.toNat ∧ c.toNat ≤ 57 := by
  simp [Char.isDigit, UInt32.le_iff_toNat_le]

theorem isAlpha_iff (c : Char) :
    c.isAlpha = true ↔ (65 ≤ c.toNat ∧ c.toNat ≤ 90) ∨ (97 ≤ c.toNat ∧ c.toNat ≤ 122) := by
  simp [Char.isAlpha, Char.isUpper, Char.isLower, UInt32.le_iff_toNat_le]

theorem isIdStart_iff (c : Char) :
    Lex.isIdStart c = true ↔
      (65 ≤ c.toNat ∧ c.toNat ≤ 90) ∨ (97 ≤ c.toNat ∧ c.toNat ≤ 122) ∨ c.toNat = 95 := by
  simp only [Lex.isIdStart, Bool.or_eq_true, isAlpha_iff, beq_iff_eq]
  constructor
  · rintro (h | h)
    · omega
    · right; right; rw [h]; rfl
  · rintro (h | h | h)
    · left; left; exact h
    · left; right; exact h
    · right; exact char_of_toNat h

theorem isIdCont_iff (c : Char) :
    Lex.isIdCont c = true ↔
      (48 ≤ c.toNat ∧ c.toNat ≤ 57) ∨ (65 ≤ c.toNat ∧ c.toNat ≤ 90) ∨
      (97 ≤ c.toNat ∧ c.toNat ≤ 122) ∨ c.toNat = 95 := by
  simp only [Lex.isIdCont, Char.isAlphanum, Bool.or_eq_true, isAlpha_iff, isDigit_iff, beq_iff_eq]
  constructor
  · rintro ((h | h) | h)
    · omega
    · omega
    · right; right; right; rw [h]; rfl
  · rintro (h | h | h | h)
    · left; right; exact h
    · left; left; left; exact h
    · left; left; right; exact h
    · right; exact char_of_toNat h


theorem char_eq_iff (c k : Char) : c = k ↔ c.toNat = k.toNat :=
  ⟨toNat_eq_of_eq, char_of_toNat⟩

theorem hexVal_some_iff (c : Char) (d : Nat) : Lex.hexVal c = some d ↔
    (48 ≤ c.toNat ∧ c.toNat ≤ 57 ∧ d = c.toNat - 48) ∨
    (97 ≤ c.toNat ∧ c.toNat ≤ 102 ∧ d = c.toNat - 87) ∨
    (65 ≤ c.toNat ∧ c.toNat ≤ 70 ∧ d = c.toNat - 55) := by
  simp only [Lex.hexVal, Char.le_def, UInt32.le_iff_toNat_le, Char.toNat_val]
  have e0 : ('0' : Char).toNat = 48 := rfl
  have e9 : ('9' : Char).toNat = 57 := rfl
  have ea : ('a' : Char).toNat = 97 := rfl
  have ef : ('f' : Char).toNat = 102 := rfl
  have eA : ('A' : Char).toNat = 65 := rfl
  have eF : ('F' : Char).toNat = 70 := rfl
  rw [e0, e9, ea, ef, eA, eF]
  split
  · simp; omega
  · split
    · simp; omega
    · split
      · simp; omega
      · simp; omega

theorem hexVal_none_iff (c : Char) : Lex.hexVal c = none ↔
    ¬ ((48 ≤ c.toNat ∧ c.toNat ≤ 57) ∨ (97 ≤ c.toNat ∧ c.toNat ≤ 102) ∨
       (65 ≤ c.toNat ∧ c.toNat ≤ 70)) := by
  cases h : Lex.hexVal c with
  | none =>
    simp only [true_iff]
    intro hh
    have : ∃ d, Lex.hexVal c = some d := by
      rcases hh with hh | hh | hh
      · exact ⟨_, (hexVal_some_iff c _).2 (Or.inl ⟨hh.1, hh.2, rfl⟩)⟩
      · exact ⟨_, (hexVal_some_iff c _).2 (Or.inr (Or.inl ⟨hh.1, hh.2, rfl⟩))⟩
      · exact ⟨_, (hexVal_some_iff c _).2 (Or.inr (Or.inr ⟨hh.1, hh.2, rfl⟩))⟩
    obtain ⟨d, hd⟩ := this
    rw [h] at hd; cases hd
  | some d =>
    have := (hexVal_some_iff c d).1 h
    simp only [reduceCtorEq, false_iff, Classical.not_not]
    omega

/-! ## numbers -/

/-- positional value of a digit string in base `b`, read left to right from the accumulator
    `v`; `_` is ignored -/
def digitsVal (b : Nat) : Nat → List Char → Nat
  | v, [] => v
  | v, c :: r => if c = '_' then digitsVal b v r else digitsVal b (v * b + (Lex.hexVal c).getD 0) r

/-- `c` is `_` or a digit of base `b` -/
def DigitCh (b : Nat) (c : Char) : Prop := c = '_' ∨ ∃ d, Lex.hexVal c = some d ∧ d < b

/-- the text after a number does not continue it: not `_`, not a (hex) digit -/
def NumStop : List Char → Prop
  | [] => True
  | c :: _ => c ≠ '_' ∧ Lex.hexVal c = none

theorem intLoop_spec (b : Nat) (cs : List Char) (h : ∀ c ∈ cs, DigitCh b c) (tail : List Char)
    (ht : NumStop tail) (empty : Bool) (v : Nat) :
    Lex.intLoop b empty v (cs ++ tail) =
      if empty && cs.all (· == '_') then none else some (digitsVal b v cs, tail) := by
  induction cs generalizing empty v with
  | nil =>
    match tail, ht with
    | [], _ => cases empty <;> simp [Lex.intLoop, digitsVal]
    | c :: r, ht =>
      simp only [NumStop] at ht
      cases empty <;> simp [Lex.intLoop, digitsVal, ht.1, ht.2]
  | cons c cs ih =>
    have hc := h c (by simp)
    have ih' := ih (fun x hx => h x (by simp [hx]))
    rcases hc with hc | ⟨d, hd, hlt⟩
    · subst hc
      simp [Lex.intLoop, digitsVal, ih']
    · have hne : c ≠ '_' := by
        intro e; subst e; simp [Lex.hexVal] at hd
      simp [Lex.intLoop, digitsVal, hne, hd, hlt, ih']


inductive Base where
  | dec | hex | oct | bin
deriving DecidableEq, Repr

def Base.radix : Base → Nat
  | .dec => 10 | .hex => 16 | .oct => 8 | .bin => 2

def Base.pre : Base → List Char
  | .dec => [] | .hex => ['0', 'x'] | .oct => ['0', 'o'] | .bin => ['0', 'b']

/-- `cs` spells a number in base `b`: digits of the base and `_` separators, at least one digit,
    and a decimal number starts with a digit (a leading `_` would make it an identifier) -/
structure Spelling (b : Base) (cs : List Char) : Prop where
  chars : ∀ c ∈ cs, DigitCh b.radix c
  digit : ∃ c ∈ cs, c ≠ '_'
  first : b = .dec → ∃ c r, cs = c :: r ∧ c ≠ '_'

/-- the text after a number: not an identifier character (that would be a suffix or more
    digits) and not a `.` (that would make it a float) -/
def IntTail : List Char → Prop
  | [] => True
  | c :: _ => Lex.isIdCont c = false ∧ c ≠ '.'

theorem numStop_of_intTail {tail : List Char} (h : IntTail tail) : NumStop tail := by
  match tail, h with
  | [], _ => trivial
  | c :: r, h =>
    simp only [IntTail] at h
    have h1 : ¬ _ := fun hh => by have := (isIdCont_iff c).2 hh; rw [h.1] at this; cases this
    refine ⟨?_, (hexVal_none_iff c).2 (fun hh => h1 (by omega))⟩
    intro e; subst e; exact h1 (by decide)

theorem all_us_false {cs : List Char} (h : ∃ c ∈ cs, c ≠ '_') : cs.all (· == '_') = false := by
  obtain ⟨c, hc, hne⟩ := h
  cases hh : cs.all (· == '_') with
  | false => rfl
  | true =>
    rw [List.all_eq_true] at hh
    have := hh c hc
    simp at this; exact absurd this hne

theorem digitCh10 {c : Char} (h : DigitCh 10 c) : c.isDigit = true ∨ c = '_' := by
  rcases h with h | ⟨d, hd, hlt⟩
  · right; exact h
  · left
    rw [isDigit_iff]
    have := (hexVal_some_iff c d).1 hd
    omega

theorem digitCh_not {b : Nat} {c : Char} (k : Char) (hk : Lex.hexVal k = none) (hku : k ≠ '_') :
    DigitCh b c → c ≠ k := by
  intro h e
  subst e
  rcases h with h | ⟨d, hd, _⟩
  · exact hku h
  · rw [hk] at hd; cases hd

theorem intDigits_spec (b : Base) (cs : List Char) (h : Spelling b cs) (tail : List Char)
    (ht : IntTail tail) :
    Lex.intDigits (b.pre ++ cs ++ tail) = some (digitsVal b.radix 0 cs, tail) := by
  have hl := intLoop_spec b.radix cs h.chars tail (numStop_of_intTail ht) true 0
  rw [all_us_false h.digit] at hl
  simp only [Bool.and_false, Bool.false_eq_true, if_false] at hl
  cases b with
  | hex => simpa [Base.pre, Lex.intDigits, Base.radix] using hl
  | oct => simpa [Base.pre, Lex.intDigits, Base.radix] using hl
  | bin => simpa [Base.pre, Lex.intDigits, Base.radix] using hl
  | dec =>
    obtain ⟨c, r, rfl, hc⟩ := h.first rfl
    have hch := h.chars
    simp only [Base.pre, List.nil_append, List.cons_append] at hl ⊢
    -- the second character cannot be `x`, `o`, `b`
    have h2 : ∀ k : Char, Lex.isIdCont k = true → Lex.hexVal k = none ∨ 10 ≤ (Lex.hexVal k).getD 0 →
        k ≠ '_' → ∀ r', r ++ tail ≠ k :: r' := by
      intro k hk1 hk2 hk3 r' e
      cases r with
      | nil =>
        simp only [List.nil_append] at e
        subst e
        simp only [IntTail] at ht
        rw [hk1] at ht; exact absurd ht.1 (by simp)
      | cons x xs =>
        simp only [List.cons_append, List.cons.injEq] at e
        have hx := hch x (by simp)
        rw [e.1] at hx
        rcases hx with hx | ⟨d, hd, hlt⟩
        · exact hk3 hx
        · rcases hk2 with hk2 | hk2
          · rw [hk2] at hd; cases hd
          · rw [hd] at hk2; simp at hk2; simp [Base.radix] at hlt; omega
    unfold Lex.intDigits
    split
    · rename_i r' heq
      simp only [List.cons.injEq] at heq
      exact absurd heq.2 (h2 'x' (by decide) (Or.inl (by decide)) (by decide) _)
    · rename_i r' heq
      simp only [List.cons.injEq] at heq
      exact absurd heq.2 (h2 'o' (by decide) (Or.inl (by decide)) (by decide) _)
    · rename_i r' heq
      simp only [List.cons.injEq] at heq
      exact absurd heq.2 (h2 'b' (by decide) (Or.inr (by decide)) (by decide) _)
    · exact hl

end C18
end PyxisVerif
