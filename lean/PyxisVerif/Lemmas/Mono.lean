import PyxisVerif.Spec.C09
import PyxisVerif.Lemmas.C09
import PyxisVerif.Lemmas.C10
import PyxisVerif.Lemmas.C12
import PyxisVerif.Lemmas.Worklist
/-!
# `Mono` for the concrete attempt of pyxis (vftable-free fragment) and the link between
`resolveLoop` and the abstract worklist `Work.Run`
-/
namespace PyxisVerif.Mono
open C09 Work Layout

/-- `y` is the answer after more items were resolved: a final answer (`ok`, `err`, `panic`) never changes -/
def Stab {α} (x y : Res α) : Prop := x ≠ .defer → y = x

theorem Stab.rfl' {α} (x : Res α) : Stab x x := fun _ => rfl
theorem Stab.of_eq {α} {x y : Res α} (h : y = x) : Stab x y := fun _ => h
theorem Stab.defer {α} (y : Res α) : Stab .defer y := fun h => absurd rfl h

/-! ## A. functions that read the key set only -/

section keys
variable (r r' : Registry) (h : ∀ p, r'.contains p = r.contains p)
include h

theorem resolveTy_fun : r'.resolveTy = r.resolveTy := by
  funext scope t; exact resolveTy_congr r r' h scope t

theorem paddingType_fun : r'.paddingType = r.paddingType := by
  funext n
  simp only [Registry.paddingType]
  rw [resolveString_congr r r' [] "u8" (fun p _ => h p) (fun p _ => h p)]

theorem buildArg_fun : buildArg r' = buildArg r := by
  funext scope a
  cases a <;> simp only [buildArg, resolveTy_fun r r' h]

theorem buildFunction_fun : buildFunction r' = buildFunction r := by
  funext scope isV f
  unfold buildFunction
  simp only [buildArg_fun r r' h, resolveTy_fun r r' h]

theorem convertVfuncs_fun : convertVfuncs r' = convertVfuncs r := by
  funext scope size fns
  unfold convertVfuncs
  simp only [buildFunction_fun r r' h]

theorem stmtStep_fun : stmtStep r' = stmtStep r := by
  funext scope acc ist
  unfold stmtStep
  simp only [convertVfuncs_fun r r' h, resolveTy_fun r r' h]

theorem addImplFns_fun : addImplFns r' = addImplFns r := by
  funext scope impl acc
  unfold addImplFns
  simp only [buildFunction_fun r r' h]

theorem nameRegions_fun : nameRegions r' = nameRegions r := by
  funext off ps
  induction ps generalizing off with
  | nil => simp only [nameRegions]
  | cons p ps ih =>
    unfold nameRegions
    simp only [paddingType_fun r r' h, ih]

end keys

/-! ## B. reads of resolved entries -/

/-- every by-value dependency of `t` is resolved in `r` -/
def KnownD (r : Registry) (t : DTy) : Prop :=
  ∀ p ∈ byValue t, ∃ i res, r.get p = some i ∧ i.resolved? = some res

def KnownR (r : Registry) : RTy → Prop
  | .data t => KnownD r t
  | .fn .. => True

theorem dsize_ok (r : Registry) (t : DTy) : ∃ o, t.size r = .ok o := by
  induction t with
  | raw p => exact ⟨_, rfl⟩
  | cptr t _ => exact ⟨_, rfl⟩
  | mptr t _ => exact ⟨_, rfl⟩
  | arr t n ih =>
    obtain ⟨o, ho⟩ := ih
    simp only [DTy.size, ho]
    cases o with
    | none => exact ⟨_, rfl⟩
    | some s => simp only []; split <;> exact ⟨_, rfl⟩

theorem rsize_ok (r : Registry) (t : RTy) : ∃ o, t.size r = .ok o := by
  cases t with
  | data t => exact dsize_ok r t
  | fn cc args ret => exact ⟨_, rfl⟩

theorem knownD_of_size (r : Registry) (t : DTy) (s : Nat) (h : t.size r = .ok (some s)) : KnownD r t := by
  induction t generalizing s with
  | raw q =>
    intro p hp
    simp only [byValue, List.mem_singleton] at hp
    subst hp
    simp only [DTy.size, Res.ok.injEq] at h
    cases hg : r.get p with
    | none => rw [hg] at h; simp at h
    | some i =>
      rw [hg] at h
      simp only [Option.bind_some, Option.map_eq_some_iff] at h
      obtain ⟨x, hx, _⟩ := h
      exact ⟨i, x, rfl, hx⟩
  | cptr t _ => intro p hp; simp [byValue] at hp
  | mptr t _ => intro p hp; simp [byValue] at hp
  | arr t n ih =>
    simp only [DTy.size] at h
    obtain ⟨o, ho⟩ := dsize_ok r t
    rw [ho] at h
    cases o with
    | none => simp at h
    | some s0 => exact ih s0 ho

theorem knownR_of_size (r : Registry) (t : RTy) (s : Nat) (h : t.size r = .ok (some s)) : KnownR r t := by
  cases t with
  | data t => exact knownD_of_size r t s h
  | fn cc args ret => trivial

theorem get_known_mono (r r' : Registry) (hle : RegLe r r') (p : Path) (i : ItemDef) (res : Resolved)
    (hi : r.get p = some i) (hr : i.resolved? = some res) :
    ∃ i', r'.get p = some i' ∧ i'.resolved? = some res :=
  get_resolved_mono r r' hle p i res hi hr

theorem get_none_mono (r r' : Registry) (hle : RegLe r r') (p : Path) (hi : r.get p = none) : r'.get p = none := by
  have := hle.keys p
  simp only [Registry.contains, hi, Option.isSome_none] at this
  cases hg : r'.get p with
  | none => rfl
  | some i => rw [hg] at this; simp at this

/-- the base lookup is unchanged for a region whose by-value dependencies are resolved -/
theorem regionNameAndTypeDef_mono (r r' : Registry) (hle : RegLe r r') (reg : Region) (hk : KnownR r reg.ty) :
    regionNameAndTypeDef r' reg = regionNameAndTypeDef r reg := by
  unfold regionNameAndTypeDef
  cases hn : reg.name with
  | none => rfl
  | some name =>
    simp only []
    cases hty : reg.ty with
    | fn cc args ret => rfl
    | data t =>
      cases t with
      | raw p =>
        rw [hty] at hk
        obtain ⟨i, res, hi, hres⟩ := hk p (by simp [byValue])
        obtain ⟨i', hi', hres'⟩ := get_known_mono r r' hle p i res hi hres
        simp only [hi, hi', hres, hres']
      | cptr t => rfl
      | mptr t => rfl
      | arr t n => rfl

theorem defaultablePath_mem (t : DTy) (p : Path) (h : t.defaultablePath = some p) : p ∈ byValue t := by
  induction t with
  | raw q => simp only [DTy.defaultablePath, Option.some.injEq] at h; subst h; simp [byValue]
  | cptr t _ => simp [DTy.defaultablePath] at h
  | mptr t _ => simp [DTy.defaultablePath] at h
  | arr t n ih => simp only [DTy.defaultablePath] at h; simp only [byValue]; exact ih h

theorem foldlM_congr {α β} (f g : β → α → Res β) (l : List α) (b : β) (h : ∀ b, ∀ a ∈ l, f b a = g b a) :
    Res.foldlM f b l = Res.foldlM g b l := by
  induction l generalizing b with
  | nil => rfl
  | cons a l ih =>
    unfold Res.foldlM
    rw [h b a List.mem_cons_self]
    split
    · exact ih _ (fun b x hx => h b x (List.mem_cons_of_mem _ hx))
    all_goals rfl

theorem checkDefaultable_mono (r r' : Registry) (hle : RegLe r r') (regions : List Region)
    (hk : ∀ reg ∈ regions, KnownR r reg.ty) : checkDefaultable r' regions = checkDefaultable r regions := by
  unfold checkDefaultable
  apply foldlM_congr
  intro _ reg hreg
  cases hd : defaultablePath reg.ty with
  | none => rfl
  | some p =>
    simp only []
    have hp : ∃ i res, r.get p = some i ∧ i.resolved? = some res := by
      cases hty : reg.ty with
      | fn cc args ret => rw [hty] at hd; simp [defaultablePath] at hd
      | data t =>
        rw [hty] at hd
        have := hk reg hreg
        rw [hty] at this
        exact this p (defaultablePath_mem t p hd)
    obtain ⟨i, res, hi, hres⟩ := hp
    obtain ⟨i', hi', hres'⟩ := get_known_mono r r' hle p i res hi hres
    simp only [hi, hi', hres, hres']

theorem injectBases_mono (r r' : Registry) (hle : RegLe r r') (regions : List Region) (acc : InjAcc)
    (hk : ∀ reg ∈ regions, KnownR r reg.ty) : injectBases r' regions acc = injectBases r regions acc := by
  unfold injectBases
  apply foldlM_congr
  intro acc ib hib
  have hmem : ib.2 ∈ regions := by
    obtain ⟨p, hp, rfl⟩ := List.mem_map.mp hib
    obtain ⟨x, i⟩ := p
    rw [List.mem_zipIdx_iff_getElem?] at hp
    exact (List.mem_filter.mp (List.mem_of_getElem? hp)).1
  simp only [regionNameAndTypeDef_mono r r' hle ib.2 (hk _ hmem)]

theorem baseVftable_mono (r r' : Registry) (hle : RegLe r r') (fb : Option Region)
    (hk : ∀ b, fb = some b → KnownR r b.ty) : baseVftable r' fb = baseVftable r fb := by
  unfold baseVftable
  cases fb with
  | none => rfl
  | some b => simp only [regionNameAndTypeDef_mono r r' hle b (hk b rfl)]

/-! ## C. placement -/

theorem Stab.elim {α} {x y : Res α} (h : Stab x y) : x = .defer ∨ y = x := by
  by_cases e : x = .defer
  · exact .inl e
  · exact .inr (h e)

theorem ralign_of_size (r : Registry) (t : RTy) (s : Nat) (h : t.size r = .ok (some s)) : (t.align r).isSome := by
  cases t with
  | data t =>
    obtain ⟨a, ha⟩ := C12.dsize_align r t s h
    simp [RTy.align, ha]
  | fn cc args ret => rfl

theorem toPField_mono (r r' : Registry) (hle : RegLe r r') (addr : Option Nat) (reg : Region) (s : Nat)
    (hs : reg.ty.size r = .ok (some s)) : toPField r' addr reg = toPField r addr reg :=
  pfield_mono_lem r r' hle addr reg s hs (ralign_of_size r reg.ty s hs)

/-- the processing of one pending field by the placement loop -/
def step {β} (st : St β) (f : PField β) : Res (St β) :=
  match f.addr with
  | some a =>
    if a < st.2 then .err "attempted to insert padding, but overlapped with existing region"
    else
      match pushPad st (a - st.2) with
      | .ok st1 => pushField st1 f
      | .defer => .defer
      | .err m => .err m
      | .panic s => .panic s
  | none => pushField st f

theorem place_cons {β} (st : St β) (f : PField β) (fs : List (PField β)) :
    place st (f :: fs) = (match step st f with
      | .ok st2 => place st2 fs
      | .defer => .defer
      | .err m => .err m
      | .panic s => .panic s) := by
  rw [place]
  unfold step
  cases f.addr with
  | none => simp only []; cases pushField st f <;> rfl
  | some a =>
    simp only []
    split
    · rfl
    · cases pushPad st (a - st.2) with
      | ok st1 => simp only []; cases pushField st1 f <;> rfl
      | defer => rfl
      | err m => rfl
      | panic m => rfl

theorem pushField_unknown {β} (st : St β) (f : PField β) (h : f.size = .ok none) : pushField st f = .defer := by
  simp only [pushField, h, push]

theorem step_unknown {β} (st : St β) (f g : PField β) (h : f.size = .ok none) (ha : g.addr = f.addr) :
    step st f = .defer ∨ (step st g = step st f ∧ ∀ x, step st f ≠ .ok x) := by
  unfold step
  rw [ha]
  cases f.addr with
  | none => left; exact pushField_unknown st f h
  | some a =>
    simp only []
    split
    · right; exact ⟨rfl, fun x hx => by cases hx⟩
    · cases pushPad st (a - st.2) with
      | ok st1 => left; exact pushField_unknown st1 f h
      | defer => left; rfl
      | err m => right; exact ⟨rfl, fun x hx => by cases hx⟩
      | panic m => right; exact ⟨rfl, fun x hx => by cases hx⟩

theorem place_stab (r r' : Registry) (hle : RegLe r r') (pending : List (Option Nat × Region)) (st : St Region) :
    Stab (place st (pending.map fun p => toPField r p.1 p.2)) (place st (pending.map fun p => toPField r' p.1 p.2)) := by
  induction pending generalizing st with
  | nil => exact Stab.rfl' _
  | cons p ps ih =>
    simp only [List.map_cons]
    rw [place_cons, place_cons]
    obtain ⟨o, ho⟩ := rsize_ok r p.2.ty
    cases o with
    | some s =>
      rw [toPField_mono r r' hle p.1 p.2 s ho]
      cases step st (toPField r p.1 p.2) with
      | ok st2 => exact ih st2
      | defer => exact Stab.rfl' _
      | err m => exact Stab.rfl' _
      | panic m => exact Stab.rfl' _
    | none =>
      rcases step_unknown st (toPField r p.1 p.2) (toPField r' p.1 p.2) ho rfl with hd | ⟨he, hne⟩
      · rw [hd]; exact Stab.defer _
      · rw [he]
        cases hst : step st (toPField r p.1 p.2) with
        | ok st2 => exact absurd hst (hne st2)
        | defer => exact Stab.rfl' _
        | err m => exact Stab.rfl' _
        | panic m => exact Stab.rfl' _

theorem resolve_stab (r r' : Registry) (hle : RegLe r r') (pending : List (Option Nat × Region)) (target : Option Nat) :
    Stab (resolve none (pending.map fun p => toPField r p.1 p.2) target)
      (resolve none (pending.map fun p => toPField r' p.1 p.2) target) := by
  unfold resolve
  simp only []
  rcases (place_stab r r' hle pending ([], 0)).elim with hd | he
  · rw [hd]; exact Stab.defer _
  · rw [he]; exact Stab.rfl' _

/-! ## D. `resolve_regions` without a vftable block -/

/-- the vftable a type without a `vftable` block inherits from its first base -/
def inheritedVft (reg : Registry) (fb : Option Region) : Res (Option Vft) :=
  match baseVftable reg fb with
  | .ok (some (baseName, bv)) => .ok (some { fns := bv.fns, baseField := some baseName, ty := bv.ty })
  | .ok none => .ok none
  | e => e.cast

/-- `resolve_regions` for a type without a `vftable` block, as a function of the registry -/
def rrPure (reg : Registry) (target : Option Nat) (pending : List (Option Nat × Region)) :
    Res (List Region × Option Vft × Nat × List (Placed Region)) :=
  match (match (pending.map (·.2)).find? (·.isBase) with | some b => b.ty.size reg | none => .ok (some 0)) with
  | .ok none => .defer
  | .defer => .defer
  | .err m => .err m
  | .panic m => .panic m
  | .ok (some _) =>
    match inheritedVft reg ((pending.map (·.2)).find? (·.isBase)) with
    | .ok vft =>
      match Layout.resolve none (pending.map fun p => toPField reg p.1 p.2) target with
      | .ok (placed, size) =>
        match nameRegions reg 0 placed with
        | .ok regions => .ok (regions, vft, size, placed)
        | e => e.cast
      | e => e.cast
    | e => e.cast

theorem buildVftable_none (s : State) (owner : Path) (vis : Vis) (fb : Option Region) :
    buildVftable s owner vis fb none = (s, match inheritedVft s.reg fb with
      | .ok vft => .ok (vft, none)
      | e => e.cast) := by
  unfold buildVftable inheritedVft
  simp only []
  congr 1
  cases hb : baseVftable s.reg fb with
  | ok o =>
    cases o with
    | none => rfl
    | some x => rfl
  | defer => rfl
  | err m => rfl
  | panic m => rfl

theorem resolveRegions_none (s : State) (owner : Path) (vis : Vis) (target : Option Nat)
    (pending : List (Option Nat × Region)) :
    resolveRegions s owner vis target pending none = (s, rrPure s.reg target pending) := by
  have tail : ∀ fb : Option Region, (match buildVftable s owner vis fb none with
      | (s1, .ok (vft, vregion)) =>
        (s1,
          match Layout.resolve (vregion.map (toPField s1.reg none)) (pending.map fun p => toPField s1.reg p.1 p.2) target with
          | .ok (placed, size) =>
            match nameRegions s1.reg 0 placed with
            | .ok regions => .ok (regions, vft, size, placed)
            | e => e.cast
          | e => e.cast)
      | (s1, e) => (s1, e.cast)) = (s, match inheritedVft s.reg fb with
        | .ok vft =>
          match Layout.resolve none (pending.map fun p => toPField s.reg p.1 p.2) target with
          | .ok (placed, size) =>
            match nameRegions s.reg 0 placed with
            | .ok regions => .ok (regions, vft, size, placed)
            | e => e.cast
          | e => e.cast
        | e => e.cast) := by
    intro fb
    rw [buildVftable_none]
    cases hv : inheritedVft s.reg fb with
    | ok vft => rfl
    | defer => rfl
    | err m => rfl
    | panic m => rfl
  unfold resolveRegions rrPure
  simp only []
  generalize (pending.map (·.2)).find? (·.isBase) = fb
  cases fb with
  | none => simp only []; exact tail none
  | some b =>
    simp only []
    obtain ⟨o, ho⟩ := rsize_ok s.reg b.ty
    rw [ho]
    cases o with
    | none => rfl
    | some n => simp only []; exact tail (some b)

theorem rsize_mono (r r' : Registry) (hle : RegLe r r') (t : RTy) (s : Nat) (h : t.size r = .ok (some s)) :
    t.size r' = .ok (some s) := by
  cases t with
  | data t => exact size_mono_lem r r' hle t s h
  | fn cc args ret => simp only [RTy.size] at h ⊢; rw [← hle.ps]; exact h

theorem rrPure_stab (r r' : Registry) (hle : RegLe r r') (target : Option Nat) (pending : List (Option Nat × Region)) :
    Stab (rrPure r target pending) (rrPure r' target pending) := by
  unfold rrPure
  generalize (pending.map (·.2)).find? (·.isBase) = fb
  have key : ((match fb with | some b => b.ty.size r | none => Res.ok (some 0)) : Res (Option Nat)) = .ok none ∨
      ∃ n : Nat, ((match fb with | some b => b.ty.size r | none => Res.ok (some 0)) : Res (Option Nat)) = .ok (some n) ∧
        ((match fb with | some b => b.ty.size r' | none => Res.ok (some 0)) : Res (Option Nat)) = .ok (some n) ∧
        inheritedVft r' fb = inheritedVft r fb := by
    cases fb with
    | none => exact .inr ⟨0, rfl, rfl, by simp only [inheritedVft, baseVftable]⟩
    | some b =>
      obtain ⟨o, ho⟩ := rsize_ok r b.ty
      cases o with
      | none => exact .inl ho
      | some n =>
        refine .inr ⟨n, ho, rsize_mono r r' hle b.ty n ho, ?_⟩
        unfold inheritedVft
        rw [baseVftable_mono r r' hle (some b) (fun b' hb' => by cases hb'; exact knownR_of_size r b.ty n ho)]
  rcases key with hd | ⟨n, h1, h2, h3⟩
  · rw [hd]; exact Stab.defer _
  · rw [h1, h2, h3]
    simp only []
    cases inheritedVft r fb with
    | ok vft =>
      simp only []
      rcases (resolve_stab r r' hle pending target).elim with hd | he
      · rw [hd]; exact Stab.defer _
      · rw [he, nameRegions_fun r r' hle.keys]; exact Stab.rfl' _
    | defer => exact Stab.rfl' _
    | err m => exact Stab.rfl' _
    | panic m => exact Stab.rfl' _

/-- `u8` is resolved -/
def U8 (r : Registry) : Prop := ∃ i res, r.get ["u8"] = some i ∧ i.resolved? = some res

theorem paddingType_known (r : Registry) (hu : U8 r) (n : Nat) (t : DTy) (h : r.paddingType n = .ok t) :
    KnownD r t := by
  unfold Registry.paddingType Registry.resolveString at h
  simp only [List.filter_nil, List.reverse_nil, List.find?_nil, List.map_cons, List.nil_append, List.map_nil,
    List.find?_cons] at h
  split at h
  · next t0 ht0 =>
    cases h
    split at ht0
    · next p hp =>
      cases ht0
      split at hp
      · cases hp
        intro q hq
        simp only [byValue, List.mem_singleton] at hq
        subst hq
        exact hu
      · cases hp
    · cases ht0
  · cases h

theorem rrPure_known (r : Registry) (hu : U8 r) (target : Option Nat) (pending : List (Option Nat × Region))
    (regions : List Region) (vft : Option Vft) (size : Nat) (placed : List (Placed Region))
    (h : rrPure r target pending = .ok (regions, vft, size, placed)) : ∀ reg ∈ regions, KnownR r reg.ty := by
  have h' : resolveRegions ⟨[], r⟩ [] .pub target pending none = (⟨[], r⟩, .ok (regions, vft, size, placed)) := by
    rw [resolveRegions_none, h]
  obtain ⟨vregion, hres, hname⟩ := C01.resolveRegions_inv _ _ _ _ _ _ _ _ _ _ _ h'
  have hpl := C02.placed_layouts_lem r vregion pending target placed size hres
  obtain ⟨hlen, hnamed⟩ := C01.nameRegions_types_lem r 0 placed regions hname
  intro reg hreg
  obtain ⟨k, hk, rfl⟩ := List.getElem_of_mem hreg
  have hk' : k < placed.length := hlen ▸ hk
  have hn := hnamed k hk' hk
  unfold C01.NamedAs at hn
  split at hn
  · next r0 hsrc =>
    rw [hn.1]
    exact knownR_of_size r r0.ty _ (hpl _ (List.getElem_mem hk') r0 hsrc).1
  · obtain ⟨t, ht, hty, _⟩ := hn
    rw [hty]
    exact paddingType_known r hu _ t ht

/-! ## E. `type_definition::build` without a vftable block -/

theorem stmtStep_field_vfns (reg : Registry) (scope : List Path) (acc acc' : StmtAcc) (ist : Nat × G.Stmt)
    (hf : C01.isFieldStmt ist.2 = true) (h : stmtStep reg scope acc ist = .ok acc') : acc'.vfns = acc.vfns := by
  obtain ⟨idx, st⟩ := ist
  unfold stmtStep at h
  simp only [] at h
  unfold C01.isFieldStmt at hf
  split at h
  · rename_i vis name ty hfield
    split at h
    · cases h
    · split at h
      · split at h
        · cases h
        · split at h
          · generalize (if (name != "_") = true then some name else none) = ident at h
            split at h
            · cases h
            · cases h; rfl
          · exact absurd h (C01.cast_ne_ok _ _)
      · exact absurd h (C01.cast_ne_ok _ _)
  · rename_i fns hfield
    simp [hfield] at hf

theorem stmtStep_field_np (reg : Registry) (scope : List Path) (acc : StmtAcc) (ist : Nat × G.Stmt)
    (hf : C01.isFieldStmt ist.2 = true) (hu : reg.contains ["u8"] = true) :
    C12.PO C12.NoSite (stmtStep reg scope acc ist) := by
  obtain ⟨idx, st⟩ := ist
  unfold stmtStep
  simp only []
  unfold C01.isFieldStmt at hf
  split
  · split
    · po_triv
    · split
      · split
        · po_triv
        · split
          · split <;> split <;> po_triv
          · next hne => exact C12.PO.cast (C12.resolveTy_np reg scope _ hu) hne
      · next hne => exact C12.PO.cast (C12.PO.foldlM _ _ _ (fun b a _ => C12.fieldAttrStep_np b a)) hne
  · rename_i fns hfield
    simp [hfield] at hf

/-- all statements are plain fields -/
def FieldsOnly (d : G.TypeDef) : Prop := ∀ st ∈ d.stmts, C01.isFieldStmt st = true

theorem stmts_fold_novft (reg : Registry) (scope : List Path) (d : G.TypeDef) (hv : FieldsOnly d)
    (hu : reg.contains ["u8"] = true) :
    C12.PO C12.NoSite (Res.foldlM (stmtStep reg scope) {} (d.stmts.zipIdx.map fun p => (p.2, p.1))) ∧
    ∀ sa, Res.foldlM (stmtStep reg scope) {} (d.stmts.zipIdx.map fun p => (p.2, p.1)) = .ok sa →
      sa.vfns = none ∧ C12.PendOk sa := by
  have hmem : ∀ ist ∈ (d.stmts.zipIdx.map fun p => (p.2, p.1)), C01.isFieldStmt ist.2 = true := by
    intro ist hist
    apply hv
    have := List.mem_map_of_mem (f := (·.2)) hist
    rw [C01.zipIdx_swap_snd] at this
    exact this
  exact C12.PO.foldlM_inv (fun acc : StmtAcc => acc.vfns = none ∧ C12.PendOk acc) _ _ _
    ⟨rfl, fun p hp => by cases hp⟩
    (fun acc ist hist hacc => ⟨stmtStep_field_np reg scope acc ist (hmem ist hist) hu,
      fun acc' h => ⟨(stmtStep_field_vfns reg scope acc acc' ist (hmem ist hist) h).trans hacc.1,
        C12.stmtStep_pend _ _ _ _ _ hacc.2 h⟩⟩)

/-- the part of `type_definition::build` after `resolve_regions` -/
def btTail (reg : Registry) (module1 : Mod) (path : Path) (doc : Option String) (ta : TypeAttrs)
    (regions : List Region) (vft : Option Vft) (size : Nat) (placed : List (Placed Region)) : Res Resolved :=
  let used0 : List String := match vft with | some v => v.fns.map (·.name) | none => []
  match injectBases reg regions { fns := [], used := used0 } with
  | .ok acc1 =>
    match addImplFns reg module1.scope (module1.implFor path) acc1 with
    | .ok acc2 =>
      match (if ta.defaultable then checkDefaultable reg regions else .ok ()) with
      | .ok () =>
        match Layout.alignCheck reg.ps ta.packed ta.align placed size with
        | .ok alignment =>
          .ok { size, align := alignment,
                inner := .type { regions, doc, fns := acc2.fns, vft, singleton := ta.singleton,
                                 copyable := ta.copyable, cloneable := ta.cloneable,
                                 defaultable := ta.defaultable, packed := ta.packed } }
        | e => e.cast
      | e => e.cast
    | e => e.cast
  | e => e.cast

/-- `type_definition::build` for a type without a `vftable` block, as a function of the registry -/
def btPure (reg : Registry) (mf : Option Mod) (path : Path) (d : G.TypeDef) : Res Resolved :=
  match mf with
  | none => .err "failed to get module for path"
  | some module =>
    match G.docOf d.attrs with
    | none => .err "doc attribute must be a string literal"
    | some doc =>
      match Res.foldlM typeAttrStep {} d.attrs with
      | .ok ta =>
        match Res.foldlM (stmtStep reg module.scope) {} (d.stmts.zipIdx.map fun p => (p.2, p.1)) with
        | .ok sa =>
          match rrPure reg ta.targetSize sa.pending with
          | .ok (regions, vft, size, placed) => btTail reg module path doc ta regions vft size placed
          | e => e.cast
        | e => e.cast
      | e => e.cast

theorem buildType_pure (s : State) (path : Path) (vis : Vis) (d : G.TypeDef) (hv : FieldsOnly d)
    (hu : s.reg.contains ["u8"] = true) :
    buildType s path vis d = (s, btPure s.reg (s.moduleFor path) path d) := by
  unfold buildType btPure
  cases hm : s.moduleFor path with
  | none => rfl
  | some module =>
    simp only []
    cases hdoc : G.docOf d.attrs with
    | none => rfl
    | some doc =>
      simp only []
      cases hta : Res.foldlM typeAttrStep {} d.attrs with
      | ok ta =>
        simp only []
        cases hsa : Res.foldlM (stmtStep s.reg module.scope) {} (d.stmts.zipIdx.map fun p => (p.2, p.1)) with
        | ok sa =>
          simp only []
          have hvf := ((stmts_fold_novft s.reg module.scope d hv hu).2 sa hsa).1
          rw [hvf, resolveRegions_none]
          cases hrr : rrPure s.reg ta.targetSize sa.pending with
          | ok x =>
            obtain ⟨regions, vft, size, placed⟩ := x
            simp only [hm]
            rfl
          | defer => rfl
          | err m => rfl
          | panic m => rfl
        | defer => rfl
        | err m => rfl
        | panic m => rfl
      | defer => rfl
      | err m => rfl
      | panic m => rfl

theorem btTail_mono (r r' : Registry) (hle : RegLe r r') (module1 : Mod) (path : Path) (doc : Option String)
    (ta : TypeAttrs) (regions : List Region) (vft : Option Vft) (size : Nat) (placed : List (Placed Region))
    (hk : ∀ reg ∈ regions, KnownR r reg.ty) :
    btTail r' module1 path doc ta regions vft size placed = btTail r module1 path doc ta regions vft size placed := by
  unfold btTail
  simp only [fun acc => injectBases_mono r r' hle regions acc hk, addImplFns_fun r r' hle.keys,
    checkDefaultable_mono r r' hle regions hk, ← hle.ps]

theorem btPure_stab (r r' : Registry) (hle : RegLe r r') (hu : U8 r) (mf : Option Mod) (path : Path) (d : G.TypeDef) :
    Stab (btPure r mf path d) (btPure r' mf path d) := by
  unfold btPure
  cases mf with
  | none => exact Stab.rfl' _
  | some module =>
    simp only []
    cases G.docOf d.attrs with
    | none => exact Stab.rfl' _
    | some doc =>
      simp only []
      cases Res.foldlM typeAttrStep {} d.attrs with
      | ok ta =>
        simp only []
        rw [stmtStep_fun r r' hle.keys]
        cases Res.foldlM (stmtStep r module.scope) {} (d.stmts.zipIdx.map fun p => (p.2, p.1)) with
        | ok sa =>
          simp only []
          rcases (rrPure_stab r r' hle ta.targetSize sa.pending).elim with hd | he
          · rw [hd]; exact Stab.defer _
          · rw [he]
            cases hrr : rrPure r ta.targetSize sa.pending with
            | ok x =>
              obtain ⟨regions, vft, size, placed⟩ := x
              simp only []
              rw [btTail_mono r r' hle module path doc ta regions vft size placed
                (rrPure_known r hu _ _ _ _ _ _ hrr)]
              exact Stab.rfl' _
            | defer => exact Stab.rfl' _
            | err m => exact Stab.rfl' _
            | panic m => exact Stab.rfl' _
        | defer => exact Stab.rfl' _
        | err m => exact Stab.rfl' _
        | panic m => exact Stab.rfl' _
      | defer => exact Stab.rfl' _
      | err m => exact Stab.rfl' _
      | panic m => exact Stab.rfl' _

theorem U8.contains {r : Registry} (hu : U8 r) : r.contains ["u8"] = true := by
  obtain ⟨i, _, hi, _⟩ := hu
  simp [Registry.contains, hi]

theorem moduleFor_congr (s s' : State) (hm : s'.modules = s.modules) (p : Path) : s'.moduleFor p = s.moduleFor p := by
  unfold State.moduleFor State.getModule
  rw [hm]

/-- **`type_definition::build` is monotone**: a final answer is unchanged when more items are resolved -/
theorem buildType_stab (s s' : State) (hm : s'.modules = s.modules) (hle : RegLe s.reg s'.reg) (hu : U8 s.reg)
    (path : Path) (vis : Vis) (d : G.TypeDef) (hv : FieldsOnly d) :
    Stab (buildType s path vis d).2 (buildType s' path vis d).2 := by
  have hc' : s'.reg.contains ["u8"] = true := by rw [hle.keys]; exact hu.contains
  rw [buildType_pure s path vis d hv hu.contains, buildType_pure s' path vis d hv hc', moduleFor_congr s s' hm]
  exact btPure_stab s.reg s'.reg hle hu _ path d

/-- **`enum_definition::build` is monotone** -/
theorem buildEnum_stab (s s' : State) (hm : s'.modules = s.modules) (hle : RegLe s.reg s'.reg)
    (path : Path) (d : G.EnumDef) : Stab (buildEnum s path d) (buildEnum s' path d) := by
  unfold buildEnum
  rw [moduleFor_congr s s' hm, resolveTy_fun s.reg s'.reg hle.keys]
  cases s.moduleFor path with
  | none => exact Stab.rfl' _
  | some module =>
    simp only []
    cases s.reg.resolveTy module.scope d.ty with
    | ok ty =>
      simp only []
      obtain ⟨o, ho⟩ := dsize_ok s.reg ty
      cases o with
      | none => rw [ho]; exact Stab.defer _
      | some size =>
        obtain ⟨a, ha⟩ := C12.dsize_align s.reg ty size ho
        rw [ho, size_mono_lem s.reg s'.reg hle ty size ho, ha, align_mono_lem s.reg s'.reg hle ty a ha]
        exact Stab.rfl' _
    | defer => exact Stab.rfl' _
    | err m => exact Stab.rfl' _
    | panic m => exact Stab.rfl' _

/-! ## F. no panic without a vftable block -/

open C12 in
theorem btPure_np (s : State) (hs : StateOk s) (path : Path) (d : G.TypeDef) (hv : FieldsOnly d) :
    PO NoSite (btPure s.reg (s.moduleFor path) path d) := by
  unfold btPure
  cases hmod : s.moduleFor path with
  | none => po_triv
  | some module =>
    simp only []
    split
    · po_triv
    · split
      · next ta hta =>
        have hst := stmts_fold_novft s.reg module.scope d hv hs.u8c
        split
        · next sa hsa =>
          have hpend := (hst.2 sa hsa).2
          have sh := resolveRegions_shape s path .pub ta.targetSize sa.pending none hs hpend
          rw [resolveRegions_none] at sh
          split
          · next regions vft size placed hrr =>
            have h' : resolveRegions s path .pub ta.targetSize sa.pending none
                = (s, .ok (regions, vft, size, placed)) := by rw [resolveRegions_none, hrr]
            obtain ⟨vregion, hres, hname⟩ := C01.resolveRegions_inv _ _ _ _ _ _ _ _ _ _ _ h'
            have hreg := hs.reg
            obtain ⟨hgood, hsum⟩ := resolve_good _ _ _ _ _ hres
              (by
                intro v hv s0 hs0
                cases vregion with
                | none => cases hv
                | some _ =>
                  simp only [Option.map_some, Option.some.injEq] at hv; subst hv
                  exact rty_good hreg _ s0 hs0)
              (by
                intro f hf s0 hs0
                obtain ⟨p, _, rfl⟩ := List.mem_map.mp hf
                exact rty_good hreg _ s0 hs0)
            unfold btTail
            simp only []
            split
            · split
              · split
                · split
                  · po_triv
                  · next hne => exact PO.cast (alignCheck_np _ _ _ _ _ hgood hsum) hne
                · next hne =>
                  refine PO.cast ?_ (fun a ha => hne ha)
                  split
                  · exact checkDefaultable_np _ _
                  · po_triv
              · next hne => exact PO.cast (addImplFns_np _ _ _ _ hs.u8c) hne
            · next hne => exact PO.cast (injectBases_np _ _ _ (nameRegions_named _ _ _ _ hname)) hne
          · next hne => exact PO.cast sh.2 (fun a ha => hne a.1 a.2.1 a.2.2.1 a.2.2.2 ha)
        · next hne => exact PO.cast hst.1 hne
      · next hne => exact PO.cast (PO.foldlM _ _ _ (fun b a _ => typeAttrStep_np b a)) hne

/-! ## G. the concrete attempt as an abstract one, and `Mono` -/

/-- an entry of the initial registry with its definition resolved as `R` says -/
def resItem (R : Reg Path Resolved) (p : Path) (i : ItemDef) : ItemDef :=
  match i.state, R p with
  | .unres _, some r => { i with state := .res r }
  | _, _ => i

/-- the concrete state of the abstract registry `R` over the initial state `s0` -/
def stateOf (s0 : State) (R : Reg Path Resolved) : State :=
  { s0 with reg := { s0.reg with types := s0.reg.types.map fun e => (e.1, resItem R e.1 e.2) } }

theorem lookup_map_val {α β} [BEq α] [LawfulBEq α] (f : α → β → β) (l : List (α × β)) (q : α) :
    List.lookup q (l.map fun e => (e.1, f e.1 e.2)) = (List.lookup q l).map (f q) := by
  induction l with
  | nil => rfl
  | cons e l ih =>
    obtain ⟨k, v⟩ := e
    by_cases hq : q = k
    · subst hq; simp
    · have hq' : (q == k) = false := by simpa using hq
      simp only [List.map_cons, List.lookup_cons, hq', ih]

theorem get_stateOf (s0 : State) (R : Reg Path Resolved) (p : Path) :
    (stateOf s0 R).reg.get p = (s0.reg.get p).map (resItem R p) := by
  simp only [stateOf, Registry.get]
  exact lookup_map_val (resItem R) s0.reg.types p

theorem resItem_res (R : Reg Path Resolved) (p : Path) (i : ItemDef) (r : Resolved) (h : i.state = .res r) :
    resItem R p i = i := by
  unfold resItem; rw [h]

theorem resItem_none (R : Reg Path Resolved) (p : Path) (i : ItemDef) (h : R p = none) : resItem R p i = i := by
  unfold resItem; rw [h]; cases i.state <;> rfl

theorem resItem_some (R : Reg Path Resolved) (p : Path) (i : ItemDef) (d : G.Item) (v : Resolved)
    (hi : i.state = .unres d) (h : R p = some v) : resItem R p i = { i with state := .res v } := by
  unfold resItem; rw [h, hi]

theorem resItem_fields (R : Reg Path Resolved) (p : Path) (i : ItemDef) :
    (resItem R p i).vis = i.vis ∧ (resItem R p i).path = i.path ∧ (resItem R p i).cat = i.cat := by
  unfold resItem; split <;> exact ⟨rfl, rfl, rfl⟩

theorem stateOf_le (s0 : State) (R R' : Reg Path Resolved) (h : Reg.le R R') :
    RegLe (stateOf s0 R).reg (stateOf s0 R').reg := by
  refine ⟨rfl, ?_, ?_⟩
  · intro p
    simp only [Registry.contains, get_stateOf, Option.isSome_map]
  · intro p i hi
    rw [get_stateOf] at hi
    cases h0 : s0.reg.get p with
    | none => rw [h0] at hi; cases hi
    | some i0 =>
      rw [h0] at hi
      simp only [Option.map_some, Option.some.injEq] at hi
      subst hi
      refine ⟨resItem R' p i0, by rw [get_stateOf, h0]; rfl, ?_, ?_, ?_, ?_⟩
      · rw [(resItem_fields R' p i0).1, (resItem_fields R p i0).1]
      · rw [(resItem_fields R' p i0).2.1, (resItem_fields R p i0).2.1]
      · rw [(resItem_fields R' p i0).2.2, (resItem_fields R p i0).2.2]
      · cases hst : i0.state with
        | res r => left; rw [resItem_res R' p i0 r hst, resItem_res R p i0 r hst]
        | unres d =>
          cases hR : R p with
          | some v => left; rw [resItem_some R p i0 d v hst hR, resItem_some R' p i0 d v hst (h p v hR)]
          | none =>
            rw [resItem_none R p i0 hR]
            cases hR' : R' p with
            | none => left; rw [resItem_none R' p i0 hR']
            | some v =>
              right
              rw [resItem_some R' p i0 d v hst hR']
              simp [ItemDef.isResolved, ItemDef.resolved?, hst]

theorem stateOf_u8 (s0 : State) (R : Reg Path Resolved) (hu : U8 s0.reg) : U8 (stateOf s0 R).reg := by
  obtain ⟨i, res, hi, hres⟩ := hu
  refine ⟨i, res, ?_, hres⟩
  rw [get_stateOf, hi]
  simp only [Option.map_some, Option.some.injEq]
  unfold ItemDef.resolved? at hres
  split at hres
  · next r hr => exact resItem_res R _ i r hr
  · cases hres

def toOut : Res Resolved → Out Resolved
  | .ok r => .done r
  | .defer => .defer
  | .err _ => .fail
  | .panic _ => .fail

/-- pyxis's attempt on item `k` of the initial state `s0`, from the abstract registry `R` -/
def attempt (s0 : State) (R : Reg Path Resolved) (k : Path) : Out Resolved :=
  match s0.reg.get k with
  | none => .defer
  | some i =>
    if i.isPredefined then .defer else
    match i.state with
    | .res _ => .defer
    | .unres d =>
      match d.inner with
      | .type td => toOut (buildType (stateOf s0 R) k d.vis td).2
      | .enum ed => toOut (buildEnum (stateOf s0 R) k ed)

/-- no unresolved type definition of the registry has a `vftable` block -/
def NoVftS (s : State) : Prop :=
  ∀ p i d td, s.reg.get p = some i → i.state = .unres d → d.inner = .type td → FieldsOnly td

theorem toOut_stab {x y : Res Resolved} (h : Stab x y) (hne : toOut x ≠ .defer) : toOut y = toOut x := by
  rw [h (fun e => hne (by rw [e]; rfl))]

theorem attempt_stab (s0 : State) (hu : U8 s0.reg) (hv : NoVftS s0) (R R' : Reg Path Resolved) (hle : Reg.le R R')
    (k : Path) (hne : attempt s0 R k ≠ .defer) : attempt s0 R' k = attempt s0 R k := by
  unfold attempt at hne ⊢
  cases hg : s0.reg.get k with
  | none => rfl
  | some i =>
    simp only [hg] at hne ⊢
    split
    · rfl
    · next hp =>
      rw [if_neg hp] at hne
      cases hst : i.state with
      | res r => rfl
      | unres d =>
        simp only [hst] at hne ⊢
        cases hin : d.inner with
        | type td =>
          simp only [hin] at hne ⊢
          exact toOut_stab (buildType_stab (stateOf s0 R) (stateOf s0 R') rfl (stateOf_le s0 R R' hle) (stateOf_u8 s0 R hu) k d.vis td
            (hv k i d td hg hst hin)) hne
        | enum ed =>
          simp only [hin] at hne ⊢
          exact toOut_stab (buildEnum_stab (stateOf s0 R) (stateOf s0 R') rfl (stateOf_le s0 R R' hle) k ed) hne

/-- **`Mono` for the concrete attempt** (types without `vftable` blocks): once an attempt on an item answers
    "resolved to `v`" or "error", it gives the same answer after any further resolution -/
theorem attempt_mono (s0 : State) (hu : U8 s0.reg) (hv : NoVftS s0) : Mono (attempt s0) where
  done := by
    intro R R' k v hle h
    rw [attempt_stab s0 hu hv R R' hle k (by rw [h]; exact fun e => by cases e), h]
  fail := by
    intro R R' k hle h
    rw [attempt_stab s0 hu hv R R' hle k (by rw [h]; exact fun e => by cases e), h]

/-! ## H. one attempt, one round, the whole loop: every state reached is `stateOf` of a `Run` registry -/

theorem lookup_of_mem {α β} [BEq α] [LawfulBEq α] (l : List (α × β)) (hn : (l.map (·.1)).Nodup) (k : α) (v : β)
    (h : (k, v) ∈ l) : List.lookup k l = some v := by
  induction l with
  | nil => cases h
  | cons e l ih =>
    obtain ⟨k', v'⟩ := e
    simp only [List.map_cons, List.nodup_cons] at hn
    rw [List.lookup_cons]
    rcases List.mem_cons.mp h with h | h
    · cases h; simp
    · have hne : k ≠ k' := fun e => hn.1 (e ▸ List.mem_map.mpr ⟨(k, v), h, rfl⟩)
      have : (k == k') = false := by simpa using hne
      rw [this]; exact ih hn.2 h

/-- `k` is an unresolved, not predefined item of the initial state -/
def Pending (s0 : State) (k : Path) : Prop :=
  ∃ i d, s0.reg.get k = some i ∧ i.isPredefined = false ∧ i.state = .unres d

theorem stateOf_upd (s0 : State) (hn : (s0.reg.types.map (·.1)).Nodup) (R : Reg Path Resolved) (k : Path)
    (i : ItemDef) (d : G.Item) (r : Resolved) (hi : s0.reg.get k = some i) (hu : i.state = .unres d)
    (hR : R k = none) :
    { stateOf s0 R with reg := (stateOf s0 R).reg.setState k (.res r) } = stateOf s0 (upd R k r) := by
  simp only [stateOf, Registry.setState, List.map_map]
  congr 2
  apply List.map_congr_left
  intro e he
  simp only [Function.comp]
  have hge : s0.reg.get e.1 = some e.2 := lookup_of_mem s0.reg.types hn e.1 e.2 he
  by_cases hk : e.1 = k
  · have hei : e.2 = i := by rw [hk, hi] at hge; cases hge; rfl
    have h1 : resItem R e.1 e.2 = e.2 := resItem_none R e.1 e.2 (by rw [hk]; exact hR)
    have h2 : resItem (upd R k r) e.1 e.2 = { e.2 with state := .res r } :=
      resItem_some _ e.1 e.2 d r (by rw [hei]; exact hu) (by simp [upd, hk])
    rw [h1, h2]
    simp [hk]
  · have h2 : resItem (upd R k r) e.1 e.2 = resItem R e.1 e.2 := by
      unfold resItem
      simp [upd, hk]
    rw [h2]
    simp [hk]

theorem isPredefined_resItem (R : Reg Path Resolved) (p : Path) (i : ItemDef) :
    (resItem R p i).isPredefined = i.isPredefined := by
  unfold ItemDef.isPredefined; rw [(resItem_fields R p i).2.2]

theorem mem_ulist_stateOf (s0 : State) (hn : (s0.reg.types.map (·.1)).Nodup) (R : Reg Path Resolved) (k : Path) :
    k ∈ C10.ulist (stateOf s0 R).reg ↔ Pending s0 k ∧ R k = none := by
  simp only [C10.ulist, stateOf, List.mem_map, List.mem_filter]
  constructor
  · rintro ⟨e', ⟨⟨e, he, rfl⟩, hf⟩, rfl⟩
    simp only [isPredefined_resItem, Bool.and_eq_true, Bool.not_eq_eq_eq_not, Bool.not_true] at hf
    have hge : s0.reg.get e.1 = some e.2 := lookup_of_mem s0.reg.types hn e.1 e.2 he
    cases hst : e.2.state with
    | res r =>
      rw [resItem_res R e.1 e.2 r hst] at hf
      simp [ItemDef.isResolved, ItemDef.resolved?, hst] at hf
    | unres d =>
      cases hR : R e.1 with
      | some v =>
        rw [resItem_some R e.1 e.2 d v hst hR] at hf
        simp [ItemDef.isResolved, ItemDef.resolved?] at hf
      | none => exact ⟨⟨e.2, d, hge, hf.1, hst⟩, rfl⟩
  · rintro ⟨⟨i, d, hi, hpre, hst⟩, hR⟩
    refine ⟨(k, resItem R k i), ⟨⟨(k, i), C14.mem_of_lookup _ _ _ hi, rfl⟩, ?_⟩, rfl⟩
    rw [resItem_none R k i hR]
    simp [hpre, ItemDef.isResolved, ItemDef.resolved?, hst]

theorem attempt_pending (s0 : State) (R : Reg Path Resolved) (k : Path) (h : attempt s0 R k ≠ .defer) :
    Pending s0 k := by
  unfold attempt at h
  cases hg : s0.reg.get k with
  | none => simp [hg] at h
  | some i =>
    simp only [hg] at h
    cases hp : i.isPredefined with
    | true => simp [hp] at h
    | false =>
      cases hst : i.state with
      | res r => simp [hp, hst] at h
      | unres d => exact ⟨i, d, hg, hp, hst⟩

/-- what one attempt on a pending item does to `stateOf s0 R` -/
theorem attemptItem_sim (s0 : State) (hn : (s0.reg.types.map (·.1)).Nodup) (hv : NoVftS s0)
    (R : Reg Path Resolved) (hok : C12.StateOk (stateOf s0 R)) (k : Path) (hp : Pending s0 k) :
    (∀ v, R k = some v → attemptItem (stateOf s0 R) k = (stateOf s0 R, .ok ())) ∧
    (R k = none →
      match attempt s0 R k with
      | .done v => attemptItem (stateOf s0 R) k = (stateOf s0 (upd R k v), .ok ())
      | .defer => attemptItem (stateOf s0 R) k = (stateOf s0 R, .ok ())
      | .fail => ∃ m, attemptItem (stateOf s0 R) k = (stateOf s0 R, .err m)) := by
  obtain ⟨i, d, hi, hpre, hst⟩ := hp
  have hg : (stateOf s0 R).reg.get k = some (resItem R k i) := by rw [get_stateOf, hi]; rfl
  constructor
  · intro v hR
    rw [resItem_some R k i d v hst hR] at hg
    unfold attemptItem
    simp only [hg]
  · intro hR
    rw [resItem_none R k i hR] at hg
    unfold attemptItem attempt
    simp only [hg, hi, hpre, hst, Bool.false_eq_true, if_false]
    cases hin : d.inner with
    | type td =>
      simp only []
      have hfo := hv k i d td hi hst hin
      rw [buildType_pure (stateOf s0 R) k d.vis td hfo hok.u8c]
      simp only []
      have hnp := btPure_np (stateOf s0 R) hok k td hfo
      cases hb : btPure (stateOf s0 R).reg ((stateOf s0 R).moduleFor k) k td with
      | ok r =>
        simp only [toOut]
        rw [stateOf_upd s0 hn R k i d r hi hst hR]
      | defer => simp only [toOut]
      | err m => simp only [toOut]; exact ⟨m, rfl⟩
      | panic m => exact (hnp m hb).elim
    | enum ed =>
      simp only []
      have hnp := C12.buildEnum_po (stateOf s0 R) k ed hok.u8c
      cases hb : buildEnum (stateOf s0 R) k ed with
      | ok r =>
        simp only [toOut]
        rw [stateOf_upd s0 hn R k i d r hi hst hR]
      | defer => simp only [toOut]
      | err m => simp only [toOut]; exact ⟨m, rfl⟩
      | panic m => exact (hnp m hb).elim

/-- the abstract registry of the initial state: nothing resolved by the loop yet -/
def R0 : Reg Path Resolved := fun _ => none

theorem stateOf_R0 (s0 : State) : stateOf s0 R0 = s0 := by
  have : (s0.reg.types.map fun e => (e.1, resItem R0 e.1 e.2)) = s0.reg.types := by
    conv => rhs; rw [← List.map_id s0.reg.types]
    apply List.map_congr_left
    intro e _
    rw [resItem_none R0 e.1 e.2 rfl]; rfl
  simp only [stateOf, this]

theorem Reg.le_refl (R : Reg Path Resolved) : Reg.le R R := fun _ _ h => h
theorem Reg.le_trans {R1 R2 R3 : Reg Path Resolved} (h1 : Reg.le R1 R2) (h2 : Reg.le R2 R3) : Reg.le R1 R3 :=
  fun k v h => h2 k v (h1 k v h)

/-- what a round over `l` from `R` to `R'` with result `x` tells -/
def RoundPost (s0 : State) (l : List Path) (R R' : Reg Path Resolved) : Res Unit → Prop
  | .ok () => ((∀ k ∈ l, R k = none → attempt s0 R k = .defer) ∧ R' = R) ∨ ∃ k ∈ l, R k = none ∧ (R' k).isSome
  | .err _ => ∃ R'' k, Run (attempt s0) R0 R'' ∧ R'' k = none ∧ attempt s0 R'' k = .fail
  | _ => False

theorem RoundPost.skip {s0 : State} {p : Path} {ps : List Path} {R R' : Reg Path Resolved} {x : Res Unit}
    (hp : R p = none → attempt s0 R p = .defer) (h : RoundPost s0 ps R R' x) : RoundPost s0 (p :: ps) R R' x := by
  cases x with
  | ok u =>
    cases u
    rcases h with ⟨h1, h2⟩ | ⟨k, hk, h1, h2⟩
    · left
      refine ⟨?_, h2⟩
      intro k hk hR
      rcases List.mem_cons.mp hk with rfl | hk
      · exact hp hR
      · exact h1 k hk hR
    · right; exact ⟨k, List.mem_cons_of_mem _ hk, h1, h2⟩
  | err m => exact h
  | defer => exact h
  | panic m => exact h

theorem RoundPost.step {s0 : State} {p : Path} {ps : List Path} {R R' : Reg Path Resolved} {v : Resolved}
    {x : Res Unit} (hp : R p = none) (hle : Reg.le (upd R p v) R') (h : RoundPost s0 ps (upd R p v) R' x) :
    RoundPost s0 (p :: ps) R R' x := by
  cases x with
  | ok u =>
    cases u
    right
    refine ⟨p, List.mem_cons_self, hp, ?_⟩
    rw [hle p v (by simp [upd])]; rfl
  | err m => exact h
  | defer => exact h
  | panic m => exact h

theorem runRound_sim (s0 : State) (hn : (s0.reg.types.map (·.1)).Nodup) (hv : NoVftS s0)
    (l : List Path) (hl : ∀ k ∈ l, Pending s0 k) (R : Reg Path Resolved)
    (hrun : Run (attempt s0) R0 R) (hok : C12.StateOkB (stateOf s0 R)) :
    ∃ R', Run (attempt s0) R0 R' ∧ C12.StateOkB (stateOf s0 R') ∧ Reg.le R R' ∧
      (runRound (stateOf s0 R) l).1 = stateOf s0 R' ∧ RoundPost s0 l R R' (runRound (stateOf s0 R) l).2 := by
  induction l generalizing R with
  | nil => exact ⟨R, hrun, hok, Reg.le_refl R, rfl, .inl ⟨fun k hk => (by cases hk), rfl⟩⟩
  | cons p ps ih =>
    have hps : ∀ k ∈ ps, Pending s0 k := fun k hk => hl k (List.mem_cons_of_mem _ hk)
    have hsim := attemptItem_sim s0 hn hv R hok.ok p (hl p List.mem_cons_self)
    have hok1 := C12.attemptItem_ok (stateOf s0 R) p hok
    cases hR : R p with
    | some v =>
      have ha := hsim.1 v hR
      have e : runRound (stateOf s0 R) (p :: ps) = runRound (stateOf s0 R) ps := by rw [runRound, ha]
      obtain ⟨R', h1, h2, h3, h4, h5⟩ := ih hps R hrun hok
      rw [e]
      exact ⟨R', h1, h2, h3, h4, h5.skip (fun h => by rw [hR] at h; cases h)⟩
    | none =>
      have h2 := hsim.2 hR
      cases hat : attempt s0 R p with
      | done v =>
        rw [hat] at h2
        simp only [] at h2
        have e : runRound (stateOf s0 R) (p :: ps) = runRound (stateOf s0 (upd R p v)) ps := by rw [runRound, h2]
        rw [h2] at hok1
        obtain ⟨R', i1, i2, i3, i4, i5⟩ := ih hps (upd R p v) (Run.step R p v hrun hR hat) hok1
        rw [e]
        exact ⟨R', i1, i2, Reg.le_trans (le_upd R p v hR) i3, i4, i5.step hR i3⟩
      | defer =>
        rw [hat] at h2
        simp only [] at h2
        have e : runRound (stateOf s0 R) (p :: ps) = runRound (stateOf s0 R) ps := by rw [runRound, h2]
        obtain ⟨R', i1, i2, i3, i4, i5⟩ := ih hps R hrun hok
        rw [e]
        exact ⟨R', i1, i2, i3, i4, i5.skip (fun _ => hat)⟩
      | fail =>
        rw [hat] at h2
        simp only [] at h2
        obtain ⟨m, hm⟩ := h2
        have e : runRound (stateOf s0 R) (p :: ps) = (stateOf s0 R, .err m) := by rw [runRound, hm]
        rw [e]
        exact ⟨R, hrun, hok, Reg.le_refl R, rfl, ⟨R, p, hrun, hR, hat⟩⟩

/-- what the outcome of the resolution loop tells about the abstract run -/
def LoopPost (s0 : State) (prio : List Path) : BuildOutcome → Prop
  | .ok s' => ∃ R', Run (attempt s0) R0 R' ∧ s' = stateOf s0 R' ∧ (stateOf s0 R').reg.unresolved prio = []
  | .nonterm l => ∃ R', Run (attempt s0) R0 R' ∧ l = (stateOf s0 R').reg.unresolved prio ∧ l ≠ [] ∧
      (∀ k, R' k = none → attempt s0 R' k = .defer)
  | .err _ => ∃ R'' k, Run (attempt s0) R0 R'' ∧ R'' k = none ∧ attempt s0 R'' k = .fail
  | .panic _ => False
  | .fuel => True

theorem resolveLoop_sim (s0 : State) (hn : (s0.reg.types.map (·.1)).Nodup) (hv : NoVftS s0) (prio : List Path)
    (fuel : Nat) (R : Reg Path Resolved) (hrun : Run (attempt s0) R0 R) (hok : C12.StateOkB (stateOf s0 R)) :
    LoopPost s0 prio (resolveLoop prio fuel (stateOf s0 R)) := by
  induction fuel generalizing R with
  | zero => simp [resolveLoop, LoopPost]
  | succ n ih =>
    unfold resolveLoop
    simp only []
    split
    · next he => exact ⟨R, hrun, rfl, List.isEmpty_iff.mp he⟩
    · next hne =>
      have hmem : ∀ k, k ∈ (stateOf s0 R).reg.unresolved prio ↔ Pending s0 k ∧ R k = none := by
        intro k
        rw [C10.unresolved_eq, List.mem_mergeSort]
        exact mem_ulist_stateOf s0 hn R k
      obtain ⟨R', h1, h2, h3, h4, h5⟩ := runRound_sim s0 hn hv ((stateOf s0 R).reg.unresolved prio)
        (fun k hk => ((hmem k).mp hk).1) R hrun hok
      generalize runRound (stateOf s0 R) ((stateOf s0 R).reg.unresolved prio) = rr at h4 h5 ⊢
      obtain ⟨s1, res⟩ := rr
      simp only [] at h4 h5
      subst h4
      cases res with
      | ok u =>
        cases u
        simp only []
        split
        · next hcond =>
          simp only [Bool.and_eq_true, beq_iff_eq] at hcond
          rcases h5 with ⟨hdef, hRR⟩ | ⟨k, hk, hRk, hR'k⟩
          · refine ⟨R, hrun, rfl, ?_, ?_⟩
            · intro e; rw [e] at hne; exact hne rfl
            · intro k hk
              by_cases hd : attempt s0 R k = .defer
              · exact hd
              · exact hdef k ((hmem k).mpr ⟨attempt_pending s0 R k hd, hk⟩) hk
          · exfalso
            rw [hcond.1] at hk
            rw [C10.unresolved_eq, List.mem_mergeSort] at hk
            have := ((mem_ulist_stateOf s0 hn R' k).mp hk).2
            rw [this] at hR'k
            cases hR'k
        · exact ih R' h1 h2
      | err m => exact h5
      | defer => exact h5.elim
      | panic m => exact h5.elim

/-! ## I. any two runs agree -/

theorem Run.dom (s0 : State) {R : Reg Path Resolved} (r : Run (attempt s0) R0 R) (k : Path) (v : Resolved)
    (h : R k = some v) : Pending s0 k := by
  induction r with
  | start => simp [R0] at h
  | step R k' v' rR hk ha ih =>
    by_cases e : k = k'
    · subst e
      exact attempt_pending s0 R k (by rw [ha]; intro e; cases e)
    · exact ih (by simpa [upd, e] using h)

/-- every pending item is resolved -/
def Total (s0 : State) (R : Reg Path Resolved) : Prop := ∀ k, Pending s0 k → (R k).isSome
/-- every unresolved item defers -/
def Stuck (s0 : State) (R : Reg Path Resolved) : Prop := ∀ k, R k = none → attempt s0 R k = .defer

theorem total_of_unresolved_nil (s0 : State) (hn : (s0.reg.types.map (·.1)).Nodup) (R : Reg Path Resolved)
    (prio : List Path) (h : (stateOf s0 R).reg.unresolved prio = []) : Total s0 R := by
  intro k hp
  cases hR : R k with
  | some v => rfl
  | none =>
    have h1 : k ∈ (stateOf s0 R).reg.unresolved prio := by
      rw [C10.unresolved_eq, List.mem_mergeSort]
      exact (mem_ulist_stateOf s0 hn R k).mpr ⟨hp, hR⟩
    rw [h] at h1
    cases h1

section agree
variable (s0 : State) (hm : Mono (attempt s0)) {R1 R2 : Reg Path Resolved}
  (r1 : Run (attempt s0) R0 R1) (r2 : Run (attempt s0) R0 R2)
include hm r1 r2

theorem total_total (t1 : Total s0 R1) (t2 : Total s0 R2) : R1 = R2 := by
  funext k
  cases h1 : R1 k with
  | none =>
    cases h2 : R2 k with
    | none => rfl
    | some v2 =>
      have := t1 k (Run.dom s0 r2 k v2 h2)
      rw [h1] at this; cases this
  | some v1 =>
    cases h2 : R2 k with
    | none =>
      have := t2 k (Run.dom s0 r1 k v1 h1)
      rw [h2] at this; cases this
    | some v2 => rw [Run.compat hm r1 r2 k v1 v2 h1 h2]

theorem total_stuck (t1 : Total s0 R1) (st : Stuck s0 R2) (k : Path) (hk : Pending s0 k) (hR : R2 k = none) :
    False := by
  have le := Run.stuck_is_top hm r2 st r1
  have h1 := t1 k hk
  cases e : R1 k with
  | none => rw [e] at h1; cases h1
  | some v => rw [le k v e] at hR; cases hR

theorem stuck_stuck (st1 : Stuck s0 R1) (st2 : Stuck s0 R2) : R1 = R2 := by
  have le1 := Run.stuck_is_top hm r2 st2 r1
  have le2 := Run.stuck_is_top hm r1 st1 r2
  funext k
  cases h1 : R1 k with
  | none =>
    cases h2 : R2 k with
    | none => rfl
    | some v2 => rw [le2 k v2 h2] at h1; cases h1
  | some v1 => rw [le1 k v1 h1]

theorem fail_total (k : Path) (hk : R1 k = none) (hf : attempt s0 R1 k = .fail) (t2 : Total s0 R2) : False := by
  have h2 := Run.fail_stable hm r1 hk hf r2
  have := t2 k (attempt_pending s0 R1 k (by rw [hf]; intro e; cases e))
  rw [h2] at this; cases this

theorem fail_stuck (k : Path) (hk : R1 k = none) (hf : attempt s0 R1 k = .fail) (st2 : Stuck s0 R2) : False := by
  have h2 := Run.fail_stable hm r1 hk hf r2
  have le := Run.stuck_is_top hm r2 st2 r1
  have := hm.fail R1 R2 k le hf
  rw [st2 k h2] at this; cases this

end agree

/-- two outcomes of the resolution loop agree: same final state, or the same set of unresolved items,
    or both an error -/
def Agree : BuildOutcome → BuildOutcome → Prop
  | .ok s1, .ok s2 => s1 = s2
  | .nonterm l1, .nonterm l2 => l1.Perm l2
  | .err _, .err _ => True
  | .fuel, _ => True
  | _, .fuel => True
  | _, _ => False

theorem u8_of_ok {s : State} (hs : C12.StateOk s) : U8 s.reg := by
  obtain ⟨i, hi, hr⟩ := hs.reg.u8
  obtain ⟨res, hres⟩ := Option.isSome_iff_exists.mp hr
  exact ⟨i, res, hi, hres⟩

theorem nonempty_mem {α} (l : List α) (h : l ≠ []) : ∃ a, a ∈ l := by
  cases l with
  | nil => exact absurd rfl h
  | cons a l => exact ⟨a, List.mem_cons_self⟩

/-- **the resolution loop is independent of the priority** (vftable-free fragment) -/
theorem loops_agree (s0 : State) (hs : C12.StateOkB s0) (hv : NoVftS s0) (p1 p2 : List Path) (f1 f2 : Nat) :
    Agree (resolveLoop p1 f1 s0) (resolveLoop p2 f2 s0) := by
  have hn := hs.ok.reg.keys
  have hm := attempt_mono s0 (u8_of_ok hs.ok) hv
  have hs' : C12.StateOkB (stateOf s0 R0) := by rw [stateOf_R0]; exact hs
  have h1 := resolveLoop_sim s0 hn hv p1 f1 R0 Run.start hs'
  have h2 := resolveLoop_sim s0 hn hv p2 f2 R0 Run.start hs'
  rw [stateOf_R0] at h1 h2
  have unstuck : ∀ (prio : List Path) (R : Reg Path Resolved) (l : List Path),
      l = (stateOf s0 R).reg.unresolved prio → l ≠ [] → ∃ k, Pending s0 k ∧ R k = none := by
    intro prio R l hl hne
    obtain ⟨k, hk⟩ := nonempty_mem l hne
    rw [hl, C10.unresolved_eq, List.mem_mergeSort] at hk
    exact ⟨k, (mem_ulist_stateOf s0 hn R k).mp hk⟩
  generalize resolveLoop p1 f1 s0 = o1 at h1 ⊢
  generalize resolveLoop p2 f2 s0 = o2 at h2 ⊢
  cases o1 with
  | ok s1 =>
    obtain ⟨R1, r1, e1, u1⟩ := h1
    have t1 := total_of_unresolved_nil s0 hn R1 p1 u1
    cases o2 with
    | ok s2 =>
      obtain ⟨R2, r2, e2, u2⟩ := h2
      have t2 := total_of_unresolved_nil s0 hn R2 p2 u2
      show s1 = s2
      rw [e1, e2, total_total s0 hm r1 r2 t1 t2]
    | nonterm l2 =>
      obtain ⟨R2, r2, e2, ne2, st2⟩ := h2
      obtain ⟨k, hk, hR⟩ := unstuck p2 R2 l2 e2 ne2
      exact total_stuck s0 hm r1 r2 t1 st2 k hk hR
    | err m2 =>
      obtain ⟨R2, k, r2, hk, hf⟩ := h2
      exact fail_total s0 hm r2 r1 k hk hf t1
    | panic m2 => exact h2
    | fuel => trivial
  | nonterm l1 =>
    obtain ⟨R1, r1, e1, ne1, st1⟩ := h1
    cases o2 with
    | ok s2 =>
      obtain ⟨R2, r2, e2, u2⟩ := h2
      have t2 := total_of_unresolved_nil s0 hn R2 p2 u2
      obtain ⟨k, hk, hR⟩ := unstuck p1 R1 l1 e1 ne1
      exact total_stuck s0 hm r2 r1 t2 st1 k hk hR
    | nonterm l2 =>
      obtain ⟨R2, r2, e2, ne2, st2⟩ := h2
      show l1.Perm l2
      rw [e1, e2, stuck_stuck s0 hm r1 r2 st1 st2, C10.unresolved_eq, C10.unresolved_eq]
      exact (List.mergeSort_perm _ _).trans (List.mergeSort_perm _ _).symm
    | err m2 =>
      obtain ⟨R2, k, r2, hk, hf⟩ := h2
      exact fail_stuck s0 hm r2 r1 k hk hf st1
    | panic m2 => exact h2
    | fuel => trivial
  | err m1 =>
    obtain ⟨R1, k, r1, hk, hf⟩ := h1
    cases o2 with
    | ok s2 =>
      obtain ⟨R2, r2, e2, u2⟩ := h2
      exact fail_total s0 hm r1 r2 k hk hf (total_of_unresolved_nil s0 hn R2 p2 u2)
    | nonterm l2 =>
      obtain ⟨R2, r2, e2, ne2, st2⟩ := h2
      exact fail_stuck s0 hm r1 r2 k hk hf st2
    | err m2 => trivial
    | panic m2 => exact h2
    | fuel => trivial
  | panic m1 => exact h1.elim
  | fuel => trivial

end PyxisVerif.Mono
