import PyxisVerif.Props.C01
import PyxisVerif.Props.C02
import PyxisVerif.Props.C04
import PyxisVerif.Props.C05
import PyxisVerif.Props.C06
import PyxisVerif.Props.C07
import PyxisVerif.Lemmas.C15
/-!
# Run-time clauses of C04 / C05 / C07: a small operational semantics of the three emitted method bodies

`Emit.methodS` prints three body shapes:

* `call-slot fn args`   – `(self.vftable().<fn>)(args…)`: a call through the slot of the emitted
  `<T>Vftable` struct whose *field is named* `fn`;
* `call-addr A … args`  – a call of the function at absolute address `A`;
* `call-field b fn args` – `self.<b>.<fn>(args…)`: the method `fn` of the type of field `b`, run on that field;

and `Emit.typeItems` prints the accessor `vftable()` (`vftacc`) that reads the own field `vftable` or
delegates to `self.<base>.vftable()`.

## Specification part (definitions only)

*Modelled, not pyxis code*: what these Rust expressions do when they run, over the emitted items of a
registry.  Where a field sits is decided by the modelled compiler (`RustSem.offsets`) from the emitted
field list (`td.regions`), each field type having the layout of its emitted definition – the layouts
recorded in the registry (`C02.rtyLayout … (C02.regLayout reg)`, the instance `Props/C02.lean` uses;
`Props/C02Global.lean` shows that they are the ones the compiler computes recursively).
-/
namespace PyxisVerif.Exec
open Gen Layout

/-- byte-addressed memory of pointer-sized words, enough for vftable dispatch -/
abbrev Mem := Nat → Nat

/-- what a wrapper does to the outside world: exactly the calls it performs
    (`args`: the actual arguments in the order passed, the receiver where the signature has it) -/
structure CallEvent where
  target : Nat
  args : List Nat
deriving Repr, DecidableEq

/-- the resolved type definition behind a registry path (what `Emit.typeItems` prints for it) -/
def typeDefn? (reg : Registry) (p : Path) : Option TypeDefn :=
  match reg.get p with
  | none => none
  | some i =>
    match i.resolved? with
    | none => none
    | some r => match r.inner with | .type td => some td | .enum _ => none

/-- what the modelled compiler knows about a field: size and alignment of the field's type -/
def fldOf (reg : Registry) (r : Region) : Option RustSem.Fld :=
  (C02.rtyLayout reg.ps (C02.regLayout reg) r.ty).map fun sa => ⟨sa.1, sa.2⟩

def fldsOf (reg : Registry) : List Region → Option (List RustSem.Fld)
  | [] => some []
  | r :: rs =>
    match fldOf reg r, fldsOf reg rs with
    | some f, some fs => some (f :: fs)
    | _, _ => none

/-- byte offsets of the fields of the emitted struct, in declaration order (modelled rustc) -/
def fieldOffsets (reg : Registry) (td : TypeDefn) : Option (List Nat) :=
  (fldsOf reg td.regions).map (RustSem.offsets td.packed 0)

/-- position of the field named `name` in the emitted struct -/
def fieldIndex (td : TypeDefn) (name : String) : Option Nat :=
  td.regions.findIdx? fun r => r.name == some name

/-- `offset_of!(T, name)` -/
def fieldOffset (reg : Registry) (td : TypeDefn) (name : String) : Option Nat :=
  match fieldIndex td name, fieldOffsets reg td with
  | some k, some offs => offs[k]?
  | _, _ => none

/-- the (struct) type of the field named `name` -/
def fieldTypePath (td : TypeDefn) (name : String) : Option Path :=
  match td.regions.find? (fun r => r.name == some name) with
  | some r => match r.ty with | .data (.raw p) => some p | _ => none
  | none => none

/-- the methods `Emit.typeItems` prints in the `impl` block of a type, in order -/
def emittedMethods (td : TypeDefn) : List SFunc :=
  td.fns.filter (!·.isInternal) ++
    (match td.vft with | some v => v.fns.filter (!·.isInternal) | none => [])

/-- method lookup by name in the emitted `impl` block -/
def findMethod (td : TypeDefn) (name : String) : Option SFunc :=
  (emittedMethods td).find? (·.name == name)

/-- the actual arguments of an emitted call (`args (f.args.map callArgS)`): the declared parameters in
    declared order, a receiver standing for the object's address and every other parameter for the next
    argument value; `none` when the number of values is not the number of non-receiver parameters -/
def passArgs : List SArg → Nat → List Nat → Option (List Nat)
  | [], _, [] => some []
  | [], _, _ :: _ => none
  | a :: as, self, vals =>
    if a.isSelf then (passArgs as self vals).map (self :: ·)
    else match vals with
      | [] => none
      | v :: vs => (passArgs as self vs).map (v :: ·)

/-- **modelled**: the emitted accessor `vftable()` of the type at `ty`, run on an object at `self`:
    `self.vftable` (a read of the pointer-sized own field) or `self.<base>.vftable()` (the accessor of
    the base field's type on the sub-object); `fuel` bounds the depth of the hierarchy -/
def execVftable (reg : Registry) (mem : Mem) : Nat → Path → Nat → Option Nat
  | 0, _, _ => none
  | fuel + 1, ty, self =>
    match typeDefn? reg ty with
    | none => none
    | some td =>
      match td.vft with
      | none => none
      | some v =>
        match v.baseField with
        | none => (fieldOffset reg td vftableFieldName).map fun o => mem (self + o)
        | some b =>
          match fieldTypePath td b, fieldOffset reg td b with
          | some bp, some o => execVftable reg mem fuel bp (self + o)
          | _, _ => none

/-- **modelled**: running the emitted method `f` of the (resolved) type at registry path `ty` on an
    object at address `self` with argument values `args` (the non-receiver arguments, in order);
    the result is the list of calls performed.  `fuel` bounds the forwarding depth and the depth of the
    accessor chain.

    * body through the vftable: read the vftable pointer `vt` through the emitted accessor, then the slot
      that is the field *named* `fn` of the emitted vftable struct the accessor's return type points to
      (at the offset the modelled compiler gives that field), and call what is stored there;
    * body at address `A`: call `A`;
    * body forwarded to `(b, h)`: look up the type of field `b`, find its method `h`, and run it on the
      sub-object at `self + offset_of(b)` with the same argument values. -/
def execMethod (reg : Registry) (mem : Mem) : Nat → Path → SFunc → Nat → List Nat → Option (List CallEvent)
  | fuel, ty, f, self, args =>
    match f.body with
    | .addr a => (passArgs f.args self args).map fun as => [⟨a, as⟩]
    | .vft fn =>
      match typeDefn? reg ty with
      | none => none
      | some td =>
        match td.vft with
        | none => none
        | some v =>
          match v.ty with
          | .cptr (.raw vp) =>
            match typeDefn? reg vp, execVftable reg mem fuel ty self with
            | some vtd, some vt =>
              match fieldOffset reg vtd fn, passArgs f.args self args with
              | some o, some as => some [⟨mem (vt + o), as⟩]
              | _, _ => none
            | _, _ => none
          | _ => none
    | .field b h =>
      match fuel with
      | 0 => none
      | fuel' + 1 =>
        match typeDefn? reg ty with
        | none => none
        | some td =>
          match fieldTypePath td b, fieldOffset reg td b with
          | some bp, some o =>
            match typeDefn? reg bp with
            | none => none
            | some btd =>
              match findMethod btd h with
              | none => none
              | some g => execMethod reg mem fuel' bp g (self + o) args
          | _, _ => none

/-- C01's answer: `(offset, field)` for every emitted source field – the own vftable pointer at 0, every
    declared field at `C01.specOffsets` (the right-hand side of `C01.placed_at_spec`) -/
def declaredOffsets {β} (vptr : Option (PField β)) (fields : List (PField β)) : List (Nat × β) :=
  (match vptr with | some v => (if C01.emitted v then [(0, v.val)] else []) | none => []) ++
  ((fields.zip (C01.specOffsets (match vptr with | some v => (if C01.emitted v then C01.fsize v else 0) | none => 0)
      fields)).filter (fun p => C01.emitted p.1)).map (fun p => (p.2, p.1.val))


/-- what rustc demands of the emitted struct before anything runs: no two fields of the same name (E0124) -/
def DistinctFields (td : TypeDefn) : Prop := (td.regions.map (·.name)).Nodup

/-- … and of the emitted `impl` block: no two methods of the same name (E0592) -/
def DistinctMethods (td : TypeDefn) : Prop := ((emittedMethods td).map (·.name)).Nodup

/-- a declared parameter that is a receiver -/
def isRecv : G.Arg → Bool | .named .. => false | _ => true

/-! ## Lemma part -/

/-! ### unfolding -/

theorem execMethod_addr (reg : Registry) (mem : Mem) (fuel : Nat) (ty : Path) (f : SFunc) (self : Nat) (args : List Nat)
    (a : Nat) (h : f.body = .addr a) :
    execMethod reg mem fuel ty f self args = (passArgs f.args self args).map fun as => [⟨a, as⟩] := by
  unfold execMethod
  simp only [h]

theorem execMethod_field (reg : Registry) (mem : Mem) (fuel : Nat) (ty : Path) (f : SFunc) (self : Nat) (args : List Nat)
    (b h : String) (td btd : TypeDefn) (bp : Path) (o : Nat) (g : SFunc)
    (hb : f.body = .field b h) (hty : typeDefn? reg ty = some td)
    (hbp : fieldTypePath td b = some bp) (ho : fieldOffset reg td b = some o)
    (hB : typeDefn? reg bp = some btd) (hm : findMethod btd h = some g) :
    execMethod reg mem (fuel + 1) ty f self args = execMethod reg mem fuel bp g (self + o) args := by
  rw [execMethod]
  simp only [hb, hty, hbp, ho, hB, hm]

theorem execMethod_vft (reg : Registry) (mem : Mem) (fuel : Nat) (ty : Path) (f : SFunc) (self : Nat) (args : List Nat)
    (fn : String) (td vtd : TypeDefn) (v : Vft) (vp : Path) (vt o : Nat)
    (hb : f.body = .vft fn) (hty : typeDefn? reg ty = some td) (hv : td.vft = some v)
    (hvty : v.ty = .cptr (.raw vp)) (hvtd : typeDefn? reg vp = some vtd)
    (hacc : execVftable reg mem fuel ty self = some vt) (ho : fieldOffset reg vtd fn = some o) :
    execMethod reg mem fuel ty f self args = (passArgs f.args self args).map fun as => [⟨mem (vt + o), as⟩] := by
  rw [execMethod]
  simp only [hb, hty, hv, hvty, hvtd, hacc, ho]
  cases passArgs f.args self args <;> rfl

theorem passArgs_noSelf (as : List SArg) (self : Nat) (vals : List Nat)
    (h : ∀ a ∈ as, a.isSelf = false) (hl : vals.length = as.length) : passArgs as self vals = some vals := by
  induction as generalizing vals with
  | nil =>
    cases vals with
    | nil => rfl
    | cons v vs => simp at hl
  | cons a as ih =>
    cases vals with
    | nil => simp at hl
    | cons v vs =>
      have ha : a.isSelf = false := h a (by simp)
      simp only [passArgs, ha, Bool.false_eq_true, if_false]
      rw [ih vs (fun x hx => h x (by simp [hx])) (by simpa using hl)]
      rfl

theorem passArgs_recvFirst (a : SArg) (as : List SArg) (self : Nat) (vals : List Nat)
    (ha : a.isSelf = true) (h : ∀ x ∈ as, x.isSelf = false) (hl : vals.length = as.length) :
    passArgs (a :: as) self vals = some (self :: vals) := by
  simp only [passArgs, ha, if_true]
  rw [passArgs_noSelf as self vals h hl]
  rfl

/-- every region of a generated vftable struct is a function pointer: pointer-sized, pointer-aligned -/
theorem fldsOf_vftable (reg : Registry) (owner : Path) (fns : List SFunc) :
    fldsOf reg (fns.map (functionToRegion owner)) = some (List.replicate fns.length ⟨reg.ps, reg.ps⟩) := by
  induction fns with
  | nil => rfl
  | cons f fs ih =>
    simp only [List.map_cons, fldsOf, ih, List.length_cons, List.replicate_succ]
    rfl

theorem findIdx?_names (fns : List SFunc) (owner : Path) (k : Nat) (f : SFunc) (hk : fns[k]? = some f)
    (hnd : (fns.map (·.name)).Nodup) :
    (fns.map (functionToRegion owner)).findIdx? (fun r => r.name == some f.name) = some k := by
  induction fns generalizing k with
  | nil => simp at hk
  | cons g gs ih =>
    rw [List.map_cons, List.findIdx?_cons]
    cases k with
    | zero =>
      simp only [List.getElem?_cons_zero, Option.some.injEq] at hk
      subst hk
      simp [functionToRegion]
    | succ k =>
      simp only [List.getElem?_cons_succ] at hk
      simp only [List.map_cons, List.nodup_cons] at hnd
      have hne : g.name ≠ f.name := by
        intro e
        apply hnd.1
        rw [e]
        exact List.mem_map.mpr ⟨f, List.mem_of_getElem? hk, rfl⟩
      have : ((functionToRegion owner g).name == some f.name) = false := by
        simp [functionToRegion, hne]
      rw [this]
      simp only [Bool.false_eq_true, if_false]
      rw [ih k hk hnd.2]
      rfl

/-- **slot offset in the emitted vftable struct**: the field named after the function in slot `k` sits at
    byte `k * ps` (field lookup by name, offsets by the modelled compiler) -/
theorem slot_field_offset (reg : Registry) (owner : Path) (fns : List SFunc) (vtd : TypeDefn)
    (hreg : vtd.regions = fns.map (functionToRegion owner)) (hpk : vtd.packed = false)
    (k : Nat) (f : SFunc) (hk : fns[k]? = some f)
    (hnd : (fns.map (·.name)).Nodup) (hps : 0 < reg.ps) :
    fieldOffset reg vtd f.name = some (k * reg.ps) := by
  unfold fieldOffset fieldIndex fieldOffsets
  rw [hreg, hpk, findIdx?_names fns owner k f hk hnd, fldsOf_vftable]
  simp only [Option.map_some]
  rw [C04.slot_offset reg.ps fns.length hps]
  have hlt : k < fns.length := by
    rcases List.getElem?_eq_some_iff.mp hk with ⟨h, _⟩
    exact h
  simp [hlt]

theorem typeDefn?_of_get (reg : Registry) (p : Path) (i : ItemDef) (r : Resolved) (td : TypeDefn)
    (hg : reg.get p = some i) (hs : i.state = .res r) (hin : r.inner = .type td) : typeDefn? reg p = some td := by
  unfold typeDefn?
  simp only [hg, ItemDef.resolved?, hs, hin]

theorem typeDefn?_inv (reg : Registry) (p : Path) (td : TypeDefn) (h : typeDefn? reg p = some td) :
    ∃ i r, reg.get p = some i ∧ i.state = .res r ∧ r.inner = .type td := by
  unfold typeDefn? at h
  split at h
  · cases h
  · next i hg =>
    split at h
    · cases h
    · next r hr =>
      split at h
      · next td' hin => cases h; exact ⟨i, r, hg, C02.resolved?_eq hr, hin⟩
      · cases h

/-- registry-level form of the C04 run-time clause -/
theorem vfunc_calls_slot (reg : Registry) (mem : Mem) (fuel : Nat) (ty : Path) (f : SFunc) (self : Nat) (args : List Nat)
    (td vtd : TypeDefn) (v : Vft) (vp owner : Path) (k vt : Nat)
    (hty : typeDefn? reg ty = some td) (hv : td.vft = some v) (hvty : v.ty = .cptr (.raw vp))
    (hvtd : typeDefn? reg vp = some vtd) (hreg : vtd.regions = v.fns.map (functionToRegion owner))
    (hpk : vtd.packed = false) (hk : v.fns[k]? = some f) (hb : f.body = .vft f.name)
    (hnd : (v.fns.map (·.name)).Nodup) (hps : 0 < reg.ps)
    (hacc : execVftable reg mem fuel ty self = some vt) :
    execMethod reg mem fuel ty f self args =
      (passArgs f.args self args).map fun as => [⟨mem (vt + k * reg.ps), as⟩] :=
  execMethod_vft reg mem fuel ty f self args f.name td vtd v vp vt _ hb hty hv hvty hvtd hacc
    (slot_field_offset reg owner v.fns vtd hreg hpk k f hk hnd hps)

theorem vfunc_built (reg0 : Registry) (scope : List Path) (size : Option Nat) (gfns : List G.Func) (out : List SFunc)
    (hconv : convertVfuncs reg0 scope size gfns = .ok out)
    (pos : List Nat) (hpos : C04.specPositions 0 (gfns.map C04.declIndex) = some pos)
    (j : Nat) (gf : G.Func) (p : Nat) (hj : gfns[j]? = some gf) (hp : pos[j]? = some p) :
    ∃ sf, buildFunction reg0 scope true gf = .ok sf ∧ out[p]? = some sf ∧ sf.body = .vft sf.name ∧ sf.name = gf.name := by
  obtain ⟨pos', built, len, hpos', hbuilt, hlen, _, _, hz, _⟩ := C04.slots reg0 scope size gfns out hconv
  rw [hpos] at hpos'
  cases hpos'
  obtain ⟨hl, hpt⟩ := C15.mapM'_ok _ gfns built hbuilt
  obtain ⟨hjl, hje⟩ := List.getElem?_eq_some_iff.mp hj
  have hjb : j < built.length := by rw [hl]; exact hjl
  have hb := hpt j hjl hjb
  rw [hje] at hb
  obtain ⟨hbody, hname⟩ := C04.vfunc_body reg0 scope gf built[j] hb
  refine ⟨built[j], hb, ?_, by rw [hbody, hname], hname⟩
  apply hz (p, built[j])
  rw [List.mem_iff_getElem?]
  refine ⟨j, ?_⟩
  rw [List.getElem?_zip_eq_some]
  exact ⟨hp, List.getElem?_eq_getElem hjb⟩

/-! ### monotonicity in the registry -/

theorem regLayout_mono {r r' : Registry} (he : C02.Ext r r') (p : Path) (x : Nat × Nat)
    (h : C02.regLayout r p = some x) : C02.regLayout r' p = some x := by
  unfold C02.regLayout at h ⊢
  cases hg : r.get p with
  | none => simp [hg] at h
  | some i =>
    simp only [hg, Option.bind_some] at h
    have hres : i.isResolved = true := by
      unfold ItemDef.isResolved
      cases hr : i.resolved? with
      | none => simp [hr] at h
      | some _ => rfl
    rw [he.res' hg hres]
    exact h

theorem tyLayout_mono {r r' : Registry} (he : C02.Ext r r') (t : DTy) (x : Nat × Nat)
    (h : C02.tyLayout r.ps (C02.regLayout r) t = some x) : C02.tyLayout r'.ps (C02.regLayout r') t = some x := by
  induction t generalizing x with
  | raw p => exact regLayout_mono he p x h
  | cptr t _ => simp only [C02.tyLayout] at h ⊢; rw [he.ps]; exact h
  | mptr t _ => simp only [C02.tyLayout] at h ⊢; rw [he.ps]; exact h
  | arr t n ih =>
    simp only [C02.tyLayout] at h ⊢
    cases hx : C02.tyLayout r.ps (C02.regLayout r) t with
    | none => simp [hx] at h
    | some y =>
      rw [ih y hx]
      rw [hx] at h
      exact h

theorem fldOf_mono {r r' : Registry} (he : C02.Ext r r') (rg : Region) (f : RustSem.Fld)
    (h : fldOf r rg = some f) : fldOf r' rg = some f := by
  unfold fldOf at h ⊢
  cases hx : C02.rtyLayout r.ps (C02.regLayout r) rg.ty with
  | none => simp [hx] at h
  | some y =>
    have : C02.rtyLayout r'.ps (C02.regLayout r') rg.ty = some y := by
      cases hty : rg.ty with
      | data t => rw [hty] at hx; exact tyLayout_mono he t y hx
      | fn cc a rt =>
        rw [hty] at hx
        simp only [C02.rtyLayout] at hx ⊢
        rw [he.ps]; exact hx
    rw [this]
    rw [hx] at h
    exact h

theorem fldsOf_mono {r r' : Registry} (he : C02.Ext r r') (rs : List Region) (fs : List RustSem.Fld)
    (h : fldsOf r rs = some fs) : fldsOf r' rs = some fs := by
  induction rs generalizing fs with
  | nil => exact h
  | cons rg rs ih =>
    simp only [fldsOf] at h ⊢
    cases h1 : fldOf r rg with
    | none => simp [h1] at h
    | some f =>
      cases h2 : fldsOf r rs with
      | none => simp [h1, h2] at h
      | some fs' =>
        rw [fldOf_mono he rg f h1, ih fs' h2]
        simp only [h1, h2] at h
        exact h

theorem fieldOffset_mono {r r' : Registry} (he : C02.Ext r r') (td : TypeDefn) (name : String) (o : Nat)
    (h : fieldOffset r td name = some o) : fieldOffset r' td name = some o := by
  unfold fieldOffset fieldOffsets at h ⊢
  cases hk : fieldIndex td name with
  | none => simp [hk] at h
  | some k =>
    cases hf : fldsOf r td.regions with
    | none => simp [hk, hf] at h
    | some fs =>
      rw [fldsOf_mono he _ fs hf]
      simp only [hk, hf] at h
      exact h

theorem typeDefn?_mono {r r' : Registry} (he : C02.Ext r r') (p : Path) (td : TypeDefn)
    (h : typeDefn? r p = some td) : typeDefn? r' p = some td := by
  unfold typeDefn? at h ⊢
  cases hg : r.get p with
  | none => simp [hg] at h
  | some i =>
    simp only [hg] at h
    have hres : i.isResolved = true := by
      unfold ItemDef.isResolved
      cases hr : i.resolved? with
      | none => simp [hr] at h
      | some _ => rfl
    rw [he.res' hg hres]
    exact h

/-- the accessor's result stays what it is when the registry grows -/
theorem execVftable_mono {r r' : Registry} (he : C02.Ext r r') (mem : Mem) (fuel : Nat) (ty : Path) (self vt : Nat)
    (h : execVftable r mem fuel ty self = some vt) : execVftable r' mem fuel ty self = some vt := by
  induction fuel generalizing ty self with
  | zero => simp [execVftable] at h
  | succ n ih =>
    rw [execVftable] at h ⊢
    cases htd : typeDefn? r ty with
    | none => simp [htd] at h
    | some td =>
      rw [typeDefn?_mono he ty td htd]
      simp only [htd] at h ⊢
      cases hv : td.vft with
      | none => simp [hv] at h
      | some v =>
        simp only [hv] at h ⊢
        cases hb : v.baseField with
        | none =>
          simp only [hb] at h ⊢
          cases ho : fieldOffset r td vftableFieldName with
          | none => simp [ho] at h
          | some o => rw [fieldOffset_mono he td _ o ho]; rw [ho] at h; exact h
        | some b =>
          simp only [hb] at h ⊢
          cases hbp : fieldTypePath td b with
          | none => simp [hbp] at h
          | some bp =>
            cases ho : fieldOffset r td b with
            | none => simp [hbp, ho] at h
            | some o =>
              rw [fieldOffset_mono he td _ o ho]
              simp only [hbp, ho] at h ⊢
              exact ih bp (self + o) h

/-- the events of a method stay what they are when the registry grows (resolved items never change) -/
theorem execMethod_mono {r r' : Registry} (he : C02.Ext r r') (mem : Mem) (fuel : Nat) (ty : Path) (f : SFunc)
    (self : Nat) (args : List Nat) (evs : List CallEvent)
    (h : execMethod r mem fuel ty f self args = some evs) : execMethod r' mem fuel ty f self args = some evs := by
  induction fuel generalizing ty f self with
  | zero =>
    rw [execMethod] at h ⊢
    cases hb : f.body with
    | addr a => simp only [hb] at h ⊢; exact h
    | field b hn => simp [hb] at h
    | vft fn =>
      simp only [hb] at h ⊢
      cases htd : typeDefn? r ty with
      | none => simp [htd] at h
      | some td =>
        simp only [htd] at h
        cases hv : td.vft with
        | none => simp [hv] at h
        | some v =>
          simp only [hv] at h
          split at h
          · next vp hvty => simp [execVftable] at h
          · cases h
  | succ n ih =>
    rw [execMethod] at h ⊢
    cases hb : f.body with
    | addr a => simp only [hb] at h ⊢; exact h
    | field b hn =>
      simp only [hb] at h ⊢
      cases htd : typeDefn? r ty with
      | none => simp [htd] at h
      | some td =>
        rw [typeDefn?_mono he ty td htd]
        simp only [htd] at h ⊢
        cases hbp : fieldTypePath td b with
        | none => simp [hbp] at h
        | some bp =>
          cases ho : fieldOffset r td b with
          | none => simp [hbp, ho] at h
          | some o =>
            rw [fieldOffset_mono he td _ o ho]
            simp only [hbp, ho] at h ⊢
            cases hB : typeDefn? r bp with
            | none => simp [hB] at h
            | some btd =>
              rw [typeDefn?_mono he bp btd hB]
              simp only [hB] at h ⊢
              cases hm : findMethod btd hn with
              | none => simp [hm] at h
              | some g =>
                simp only [hm] at h ⊢
                exact ih bp g (self + o) h
    | vft fn =>
      simp only [hb] at h ⊢
      cases htd : typeDefn? r ty with
      | none => simp [htd] at h
      | some td =>
        rw [typeDefn?_mono he ty td htd]
        simp only [htd] at h ⊢
        cases hv : td.vft with
        | none => simp [hv] at h
        | some v =>
          simp only [hv] at h ⊢
          split at h
          · next vp hvty =>
            cases hvtd : typeDefn? r vp with
            | none => simp [hvtd] at h
            | some vtd =>
              cases hacc : execVftable r mem (n + 1) ty self with
              | none => simp [hvtd, hacc] at h
              | some vt =>
                rw [typeDefn?_mono he vp vtd hvtd, execVftable_mono he mem _ ty self vt hacc]
                simp only [hvtd, hacc] at h ⊢
                cases ho : fieldOffset r vtd fn with
                | none => simp [ho] at h
                | some o =>
                  rw [fieldOffset_mono he vtd fn o ho]
                  rw [ho] at h
                  exact h
          · cases h

/-! ### layout of an accepted type -/

theorem fldsOf_of_forall (reg : Registry) (rs : List Region) (fs : List RustSem.Fld) (hl : rs.length = fs.length)
    (h : ∀ k (h1 : k < rs.length) (h2 : k < fs.length), fldOf reg rs[k] = some fs[k]) : fldsOf reg rs = some fs := by
  induction rs generalizing fs with
  | nil =>
    cases fs with
    | nil => rfl
    | cons f fs => simp at hl
  | cons r rs ih =>
    cases fs with
    | nil => simp at hl
    | cons f fs =>
      have h0 := h 0 (by simp) (by simp)
      simp only [List.getElem_cons_zero] at h0
      have := ih fs (by simpa using hl) (fun k h1 h2 => by
        have := h (k + 1) (by simpa using h1) (by simpa using h2)
        simpa using this)
      simp only [fldsOf, h0, this]

theorem fldOf_source (reg : Registry) (rg : Region) (s a : Nat) (hs : rg.ty.size reg = .ok (some s))
    (ha : rg.ty.align reg = some a) : fldOf reg rg = some ⟨s, a⟩ := by
  unfold fldOf
  cases hty : rg.ty with
  | data t =>
    rw [hty] at hs ha
    simp only [C02.rtyLayout]
    rw [C02.embedding_uses_recorded reg t s a hs ha]
    rfl
  | fn cc args ret =>
    rw [hty] at hs ha
    simp only [RTy.size, RTy.align, Res.ok.injEq, Option.some.injEq] at hs ha
    subst hs; subst ha
    rfl

theorem fldOf_padding (reg : Registry) (hp : C02.PrimsOk reg) (rg : Region) (n : Nat)
    (h : rg.ty = .data (.arr (.raw ["u8"]) n)) : fldOf reg rg = some ⟨n, 1⟩ := by
  unfold fldOf
  rw [h]
  have : C02.regLayout reg ["u8"] = some (1, 1) := by
    unfold C02.regLayout
    rw [hp ("u8", 1) (by decide)]
    rfl
  simp only [C02.rtyLayout, C02.tyLayout, this, Option.map_some, Nat.one_mul]

/-- the fields of an accepted type, as handed to the modelled compiler: placed region `k` with the size
    and alignment pyxis placed it with -/
theorem fldsOf_placed (reg : Registry) (hp : C02.PrimsOk reg)
    (vptr : Option Region) (pending : List (Option Nat × Region))
    (target : Option Nat) (placed : List (Placed Region)) (size : Nat)
    (h : resolve (vptr.map (toPField reg none)) (pending.map fun p => toPField reg p.1 p.2) target = .ok (placed, size))
    (regions : List Region) (hn : nameRegions reg 0 placed = .ok regions) :
    fldsOf reg regions = some (placed.map C01.toFld) := by
  obtain ⟨hlen, hnamed⟩ := C01.nameRegions_types_lem reg 0 placed regions hn
  apply fldsOf_of_forall reg regions _ (by simp [hlen])
  intro k h1 h2
  have hk : k < placed.length := by rw [← hlen]; exact h1
  have hna := hnamed k hk h1
  have hkind := C02.placed_kinds reg vptr pending target placed size h placed[k] (List.getElem_mem hk)
  simp only [List.getElem_map, C01.toFld]
  unfold C01.NamedAs at hna
  rcases hkind with ⟨rg, hsrc, hsz, hal⟩ | ⟨hsrc, hal⟩
  · simp only [hsrc] at hna
    obtain ⟨a, ha⟩ : ∃ a, rg.ty.align reg = some a :=
      Option.isSome_iff_exists.mp (Mono.ralign_of_size reg rg.ty _ hsz)
    rw [← hal, ha]
    simp only [Option.getD_some]
    exact fldOf_source reg regions[k] _ a (by rw [hna.1]; exact hsz) (by rw [hna.1]; exact ha)
  · simp only [hsrc] at hna
    obtain ⟨t, ht, hty, _⟩ := hna
    rw [hal]
    simp only [Option.getD_some]
    exact fldOf_padding reg hp regions[k] _ (by rw [hty, C02.paddingType_eq reg _ t ht])

theorem find_key {α β} [BEq β] [LawfulBEq β] (l : List α) (key : α → β) (k : Nat) (x : α) (hk : l[k]? = some x)
    (hnd : (l.map key).Nodup) :
    l.findIdx? (fun y => key y == key x) = some k ∧ l.find? (fun y => key y == key x) = some x := by
  induction l generalizing k with
  | nil => simp at hk
  | cons g gs ih =>
    rw [List.findIdx?_cons, List.find?_cons]
    cases k with
    | zero =>
      simp only [List.getElem?_cons_zero, Option.some.injEq] at hk
      subst hk
      simp
    | succ k =>
      simp only [List.getElem?_cons_succ] at hk
      simp only [List.map_cons, List.nodup_cons] at hnd
      have hne : key g ≠ key x := by
        intro e
        apply hnd.1
        rw [e]
        exact List.mem_map.mpr ⟨x, List.mem_of_getElem? hk, rfl⟩
      have : (key g == key x) = false := by simp [hne]
      rw [this]
      simp only [Bool.false_eq_true, if_false]
      obtain ⟨i1, i2⟩ := ih k hk hnd.2
      rw [i1, i2]
      exact ⟨rfl, rfl⟩

theorem fieldIndex_of_nodup (td : TypeDefn) (k : Nat) (rg : Region) (b : String) (hk : td.regions[k]? = some rg)
    (hb : rg.name = some b) (hnd : (td.regions.map (·.name)).Nodup) :
    fieldIndex td b = some k ∧ td.regions.find? (fun r => r.name == some b) = some rg := by
  have := find_key td.regions (·.name) k rg hk hnd
  simp only [hb] at this
  unfold fieldIndex
  exact this

theorem findMethod_of_nodup (td : TypeDefn) (f : SFunc) (hf : f ∈ emittedMethods td)
    (hnd : ((emittedMethods td).map (·.name)).Nodup) : findMethod td f.name = some f := by
  obtain ⟨k, hk⟩ := List.mem_iff_getElem?.mp hf
  exact (find_key (emittedMethods td) (·.name) k f hk hnd).2

/-- offset of a field found at position `k` of the emitted struct -/
theorem fieldOffset_at (reg : Registry) (td : TypeDefn) (k : Nat) (rg : Region) (b : String) (fs : List RustSem.Fld)
    (hk : td.regions[k]? = some rg) (hb : rg.name = some b) (hnd : (td.regions.map (·.name)).Nodup)
    (hf : fldsOf reg td.regions = some fs) :
    fieldOffset reg td b = (RustSem.offsets td.packed 0 fs)[k]? := by
  unfold fieldOffset fieldOffsets
  rw [(fieldIndex_of_nodup td k rg b hk hb hnd).1, hf]
  rfl

theorem alignUp_zero (a : Nat) : RustSem.alignUp 0 a = 0 := by
  unfold RustSem.alignUp
  split
  · rfl
  · next h =>
    have : (0 + a - 1) / a = 0 := by
      apply Nat.div_eq_of_lt
      omega
    rw [this, Nat.zero_mul]

/-- the first field of a `repr(C)` struct is at offset 0 -/
theorem offsets_head (packed : Bool) (f : RustSem.Fld) (fs : List RustSem.Fld) :
    (RustSem.offsets packed 0 (f :: fs))[0]? = some 0 := by
  simp only [RustSem.offsets, List.getElem?_cons_zero, Option.some.injEq]
  split
  · rfl
  · exact alignUp_zero _

theorem offsets_exact {β} (ps : Nat) (packed : Bool) (align? : Option Nat)
    (vptr : Option (PField β)) (fields : List (PField β)) (target : Option Nat)
    (placed : List (Placed β)) (size a : Nat)
    (h : resolve vptr fields target = .ok (placed, size))
    (ha : alignCheck ps packed align? placed size = .ok a) :
    ((RustSem.offsets packed 0 (placed.map C01.toFld)).zip placed).filterMap (fun p => p.2.src.map fun v => (p.1, v)) =
      declaredOffsets vptr fields := by
  have hex := C01.field_offsets_exact ps packed align? vptr fields target placed size a h ha
  cases vptr <;> exact hex

/-- **where C01 puts it**: for an accepted type (placement, alignment block and naming accepted), the
    field named `b` of the emitted struct is, for the modelled compiler, at the offset the description
    gives it (`C01.specOffsets`; the own vftable pointer at 0) -/
theorem fieldOffset_declared (reg : Registry) (hp : C02.PrimsOk reg)
    (vptr : Option Region) (pending : List (Option Nat × Region)) (target align? : Option Nat)
    (placed : List (Placed Region)) (size a : Nat) (td : TypeDefn)
    (h : resolve (vptr.map (toPField reg none)) (pending.map fun p => toPField reg p.1 p.2) target = .ok (placed, size))
    (ha : alignCheck reg.ps td.packed align? placed size = .ok a)
    (hn : nameRegions reg 0 placed = .ok td.regions)
    (hnd : (td.regions.map (·.name)).Nodup)
    (o : Nat) (rg : Region) (b : String) (hb : rg.name = some b)
    (hmem : (o, rg) ∈ declaredOffsets (vptr.map (toPField reg none)) (pending.map fun p => toPField reg p.1 p.2)) :
    fieldOffset reg td b = some o ∧ td.regions.find? (fun r => r.name == some b) = some rg := by
  rw [← offsets_exact reg.ps td.packed align? _ _ target placed size a h ha] at hmem
  obtain ⟨p, hp1, hp2⟩ := List.mem_filterMap.mp hmem
  obtain ⟨k, hk⟩ := List.mem_iff_getElem?.mp hp1
  obtain ⟨hk1, hk2⟩ := List.getElem?_zip_eq_some.mp hk
  cases hsrc : p.2.src with
  | none => simp [hsrc] at hp2
  | some v =>
    simp only [hsrc, Option.map_some, Option.some.injEq, Prod.mk.injEq] at hp2
    obtain ⟨ho, hv⟩ := hp2
    subst hv
    obtain ⟨hlen, hnamed⟩ := C01.nameRegions_types_lem reg 0 placed td.regions hn
    obtain ⟨hkl, hke⟩ := List.getElem?_eq_some_iff.mp hk2
    have hkr : k < td.regions.length := by rw [hlen]; exact hkl
    have hna := hnamed k hkl hkr
    unfold C01.NamedAs at hna
    rw [hke, hsrc] at hna
    have hreg : td.regions[k]? = some v := by
      rw [List.getElem?_eq_getElem hkr, hna.2 (by rw [hb]; rfl)]
    have hf := fldsOf_placed reg hp vptr pending target placed size h td.regions hn
    refine ⟨?_, (fieldIndex_of_nodup td k v b hreg hb hnd).2⟩
    rw [fieldOffset_at reg td k v b _ hreg hb hnd hf, hk1, ho]

/-! ### the accessor -/

theorem execVftable_own (reg : Registry) (mem : Mem) (fuel : Nat) (ty : Path) (self : Nat) (td : TypeDefn) (v : Vft) (o : Nat)
    (hty : typeDefn? reg ty = some td) (hv : td.vft = some v) (hb : v.baseField = none)
    (ho : fieldOffset reg td vftableFieldName = some o) :
    execVftable reg mem (fuel + 1) ty self = some (mem (self + o)) := by
  rw [execVftable]
  simp only [hty, hv, hb, ho, Option.map_some]

theorem execVftable_base (reg : Registry) (mem : Mem) (fuel : Nat) (ty : Path) (self : Nat) (td : TypeDefn) (v : Vft)
    (b : String) (bp : Path) (o : Nat)
    (hty : typeDefn? reg ty = some td) (hv : td.vft = some v) (hb : v.baseField = some b)
    (hbp : fieldTypePath td b = some bp) (ho : fieldOffset reg td b = some o) :
    execVftable reg mem (fuel + 1) ty self = execVftable reg mem fuel bp (self + o) := by
  rw [execVftable]
  simp only [hty, hv, hb, hbp, ho]

/-- the own pointer is the first field of the emitted struct, at offset 0 -/
theorem own_pointer_offset (reg : Registry) (hp : C02.PrimsOk reg)
    (ptr : Region) (pending : List (Option Nat × Region)) (target : Option Nat)
    (placed : List (Placed Region)) (size : Nat) (td : TypeDefn)
    (hname : ptr.name = some vftableFieldName) (harr : ptr.ty.isArray = false)
    (h : resolve ((some ptr).map (toPField reg none)) (pending.map fun p => toPField reg p.1 p.2) target = .ok (placed, size))
    (hn : nameRegions reg 0 placed = .ok td.regions) :
    fieldOffset reg td vftableFieldName = some 0 ∧ td.regions.head? = some ptr := by
  obtain ⟨sz, rest, _, hor⟩ := C06.pointer_first _ _ target placed size h
  rcases hor with ⟨_, hisarr⟩ | hpl
  · simp only [toPField] at hisarr
    rw [harr] at hisarr
    cases hisarr
  · have hf := fldsOf_placed reg hp (some ptr) pending target placed size h td.regions hn
    obtain ⟨hlen, hnamed⟩ := C01.nameRegions_types_lem reg 0 placed td.regions hn
    rw [hpl] at hlen hnamed hf
    cases hr : td.regions with
    | nil => rw [hr] at hlen; simp at hlen
    | cons r0 rs =>
      have hna := hnamed 0 (by simp) (by rw [hr]; simp)
      unfold C01.NamedAs at hna
      simp only [List.getElem_cons_zero, toPField] at hna
      have hr0 : r0 = ptr := by
        have := hna.2 (by rw [hname]; rfl)
        simpa [hr] using this
      subst hr0
      refine ⟨?_, rfl⟩
      unfold fieldOffset fieldOffsets fieldIndex
      rw [hf, hr]
      simp only [List.findIdx?_cons, hname, beq_self_eq_true, if_true, Option.map_some, List.map_cons]
      exact offsets_head _ _ _

/-! ### arguments and methods -/

theorem specArgs_isSelf (reg : Registry) (scope : List Path) (gas : List G.Arg) (sas : List SArg)
    (h : C05.specArgs reg scope gas = some sas) : sas.map SArg.isSelf = gas.map isRecv := by
  induction gas generalizing sas with
  | nil => simp only [C05.specArgs, Option.some.injEq] at h; subst h; rfl
  | cons a as ih =>
    cases a with
    | constSelf =>
      simp only [C05.specArgs] at h
      cases hr : C05.specArgs reg scope as with
      | none => simp [hr] at h
      | some r => simp only [hr, Option.map_some, Option.some.injEq] at h; subst h; simp [ih r hr, SArg.isSelf, isRecv]
    | mutSelf =>
      simp only [C05.specArgs] at h
      cases hr : C05.specArgs reg scope as with
      | none => simp [hr] at h
      | some r => simp only [hr, Option.map_some, Option.some.injEq] at h; subst h; simp [ih r hr, SArg.isSelf, isRecv]
    | named n t =>
      simp only [C05.specArgs] at h
      split at h
      · cases hr : C05.specArgs reg scope as with
        | none => simp [hr] at h
        | some r => simp only [hr, Option.map_some, Option.some.injEq] at h; subst h; simp [ih r hr, SArg.isSelf, isRecv]
      · cases h

/-- `passArgs` looks at the parameter list only to see which parameters are receivers -/
theorem passArgs_congr (as bs : List SArg) (h : as.map SArg.isSelf = bs.map SArg.isSelf) (self : Nat) (vals : List Nat) :
    passArgs as self vals = passArgs bs self vals := by
  induction as generalizing bs vals with
  | nil =>
    cases bs with
    | nil => rfl
    | cons b bs => simp at h
  | cons a as ih =>
    cases bs with
    | nil => simp at h
    | cons b bs =>
      simp only [List.map_cons, List.cons.injEq] at h
      simp only [passArgs, h.1]
      split
      · rw [ih bs h.2]
      · cases vals with
        | nil => rfl
        | cons v vs => simp only []; rw [ih bs h.2]

/-- receiver first, then named parameters: the actual arguments are the object's address followed by the values -/
theorem passArgs_of_decl_recv (sas : List SArg) (gas : List G.Arg) (hm : sas.map SArg.isSelf = gas.map isRecv)
    (recv : G.Arg) (named : List G.Arg) (hg : gas = recv :: named) (hr : isRecv recv = true)
    (hn : ∀ x ∈ named, isRecv x = false) (self : Nat) (vals : List Nat) (hl : vals.length = named.length) :
    passArgs sas self vals = some (self :: vals) := by
  subst hg
  cases sas with
  | nil => simp at hm
  | cons a as =>
    simp only [List.map_cons, List.cons.injEq] at hm
    apply passArgs_recvFirst a as self vals (by rw [hm.1]; exact hr)
    · intro x hx
      have hx' : x.isSelf ∈ as.map SArg.isSelf := List.mem_map.mpr ⟨x, hx, rfl⟩
      rw [hm.2] at hx'
      obtain ⟨y, hy, hxy⟩ := List.mem_map.mp hx'
      rw [← hxy]; exact hn y hy
    · have := congrArg List.length hm.2
      simp only [List.length_map] at this
      omega

theorem passArgs_of_decl_static (sas : List SArg) (gas : List G.Arg) (hm : sas.map SArg.isSelf = gas.map isRecv)
    (hn : ∀ x ∈ gas, isRecv x = false) (self : Nat) (vals : List Nat) (hl : vals.length = gas.length) :
    passArgs sas self vals = some vals := by
  apply passArgs_noSelf
  · intro x hx
    have hx' : x.isSelf ∈ sas.map SArg.isSelf := List.mem_map.mpr ⟨x, hx, rfl⟩
    rw [hm] at hx'
    obtain ⟨y, hy, hxy⟩ := List.mem_map.mp hx'
    rw [← hxy]; exact hn y hy
  · have := congrArg List.length hm
    simp only [List.length_map] at this
    omega

/-- the functions `Build.injectBases` hands to `addFunctions` for a base are emitted methods of that base,
    when they are re-exposable -/
theorem mem_emitted_of_fns (btd : TypeDefn) (f : SFunc) (hf : f ∈ btd.fns) (hi : f.isInternal = false) :
    f ∈ emittedMethods btd := by
  unfold emittedMethods
  exact List.mem_append_left _ (List.mem_filter.mpr ⟨hf, by simp [hi]⟩)

theorem mem_emitted_of_vft (btd : TypeDefn) (v : Vft) (hv : btd.vft = some v) (f : SFunc) (hf : f ∈ v.fns)
    (hi : f.isInternal = false) : f ∈ emittedMethods btd := by
  unfold emittedMethods
  rw [hv]
  exact List.mem_append_right _ (List.mem_filter.mpr ⟨hf, by simp [hi]⟩)

/-! ### declared offsets, the base supplying the vftable -/

theorem declaredOffsets_eq {β} (vptr : Option (PField β)) (fields : List (PField β)) :
    declaredOffsets vptr fields = C01.vhead vptr ++ C01.specSrc (C01.vstart vptr) fields := rfl

theorem mem_specSrc {β} (e : Nat) (fields : List (PField β)) (f : PField β) (hf : f ∈ fields)
    (hem : C01.emitted f = true) : ∃ o, (o, f.val) ∈ C01.specSrc e fields := by
  induction fields generalizing e with
  | nil => cases hf
  | cons g gs ih =>
    rw [C01.specSrc_cons]
    rcases List.mem_cons.mp hf with rfl | hf
    · exact ⟨_, List.mem_append_left _ (by rw [if_pos hem]; exact List.mem_singleton.mpr rfl)⟩
    · obtain ⟨o, ho⟩ := ih _ hf
      exact ⟨o, List.mem_append_right _ ho⟩

/-- a field of a named (non-array) type is always emitted -/
theorem emitted_of_raw (reg : Registry) (addr : Option Nat) (rg : Region) (p : Path) (h : rg.ty = .data (.raw p)) :
    C01.emitted (toPField reg addr rg) = true := by
  unfold C01.emitted toPField
  simp [h, RTy.isArray, DTy.isArray]

/-- every declared field of a named type has a declared offset -/
theorem declared_of_pending {reg : Registry} (vptr : Option (PField Region)) (pending : List (Option Nat × Region))
    (rg : Region) (p : Path) (hrg : rg ∈ pending.map (·.2)) (hty : rg.ty = .data (.raw p)) :
    ∃ o, (o, rg) ∈ declaredOffsets vptr (pending.map fun q => toPField reg q.1 q.2) := by
  obtain ⟨q, hq, rfl⟩ := List.mem_map.mp hrg
  obtain ⟨o, ho⟩ := mem_specSrc (C01.vstart vptr) (pending.map fun q => toPField reg q.1 q.2) (toPField reg q.1 q.2)
    (List.mem_map.mpr ⟨q, hq, rfl⟩) (emitted_of_raw reg q.1 q.2 p hty)
  exact ⟨o, by rw [declaredOffsets_eq]; exact List.mem_append_right _ ho⟩

/-- the first declared field, written without an address, in a type without own vftable pointer: offset 0 -/
theorem declared_first {reg : Registry} (rg : Region) (rest : List (Option Nat × Region)) (p : Path)
    (hty : rg.ty = .data (.raw p)) :
    (0, rg) ∈ declaredOffsets none (((none, rg) :: rest).map fun q => toPField reg q.1 q.2) := by
  rw [declaredOffsets_eq, List.map_cons, C01.specSrc_cons]
  apply List.mem_append_right
  apply List.mem_append_left
  rw [if_pos (emitted_of_raw reg none rg p hty)]
  exact List.mem_singleton.mpr rfl

theorem baseVftable_some_inv (reg : Registry) (fb : Option Region) (bn : String) (bv : Vft)
    (h : baseVftable reg fb = .ok (some (bn, bv))) :
    ∃ rg p btd, fb = some rg ∧ rg.name = some bn ∧ rg.ty = .data (.raw p) ∧ typeDefn? reg p = some btd ∧
      btd.vft = some bv := by
  unfold baseVftable at h
  split at h
  · cases h
  · next b =>
    split at h
    · next name td hr =>
      simp only [Res.ok.injEq] at h
      cases hv : td.vft with
      | none => simp [hv] at h
      | some v =>
        simp only [hv, Option.map_some, Option.some.injEq, Prod.mk.injEq] at h
        obtain ⟨rfl, rfl⟩ := h
        unfold regionNameAndTypeDef at hr
        split at hr
        · cases hr
        · next nm hnm =>
          split at hr
          · next p hty =>
            split at hr
            · cases hr
            · next item hg =>
              split at hr
              · cases hr
              · next res hres =>
                split at hr
                · next td' hin =>
                  simp only [Res.ok.injEq, Option.some.injEq, Prod.mk.injEq] at hr
                  obtain ⟨rfl, rfl⟩ := hr
                  exact ⟨b, p, _, rfl, hnm, hty, typeDefn?_of_get reg p item res _ hg (C02.resolved?_eq hres) hin, hv⟩
                · cases hr
          · cases hr
    · cases h
    · next hne hne2 =>
      exfalso
      cases hr : regionNameAndTypeDef reg b with
      | ok x =>
        cases x with
        | none => exact hne2 hr
        | some y => exact hne y.1 y.2 hr
      | defer => simp [hr, Res.cast] at h
      | err m => simp [hr, Res.cast] at h
      | panic m => simp [hr, Res.cast] at h

theorem fieldTypePath_of_find (td : TypeDefn) (b : String) (rg : Region) (bp : Path)
    (hfind : td.regions.find? (fun r => r.name == some b) = some rg) (hrty : rg.ty = .data (.raw bp)) :
    fieldTypePath td b = some bp := by
  unfold fieldTypePath
  simp only [hfind, hrty]

/-! ### decomposition of `type_definition::build` -/

/-- full decomposition of an accepted `type_definition::build` -/
theorem buildType_parts (s s1 : State) (path : Path) (vis : Vis) (d : G.TypeDef) (r : Resolved)
    (h : buildType s path vis d = (s1, .ok r)) :
    ∃ (module module1 : Mod) (ta : TypeAttrs) (sa : StmtAcc) (vft : Option Vft) (vregion : Option Region)
      (placed : List (Placed Region)) (acc1 acc2 : InjAcc) (td : TypeDefn),
      s.moduleFor path = some module ∧ s1.moduleFor path = some module1 ∧
      Res.foldlM (stmtStep s.reg module.scope) {} (d.stmts.zipIdx.map fun p => (p.2, p.1)) = .ok sa ∧
      buildVftable s path vis ((sa.pending.map (·.2)).find? (·.isBase)) sa.vfns = (s1, .ok (vft, vregion)) ∧
      resolve (vregion.map (toPField s1.reg none)) (sa.pending.map fun p => toPField s1.reg p.1 p.2) ta.targetSize
        = .ok (placed, r.size) ∧
      nameRegions s1.reg 0 placed = .ok td.regions ∧
      alignCheck s1.reg.ps td.packed ta.align placed r.size = .ok r.align ∧
      injectBases s1.reg td.regions
        { fns := [], used := match vft with | some v => v.fns.map (·.name) | none => [] } = .ok acc1 ∧
      addImplFns s1.reg module1.scope (module1.implFor path) acc1 = .ok acc2 ∧
      r.inner = .type td ∧ td.fns = acc2.fns ∧ td.vft = vft := by
  unfold buildType at h
  split at h
  · simp only [Prod.mk.injEq] at h; exact absurd h.2 (by simp)
  · rename_i module hmod
    split at h
    · simp only [Prod.mk.injEq] at h; exact absurd h.2 (by simp)
    · rename_i doc _
      split at h
      · rename_i ta _
        split at h
        · rename_i sa hsa
          split at h
          · rename_i s1' regions vft size placed hrr
            simp only [Prod.mk.injEq] at h
            obtain ⟨rfl, h⟩ := h
            split at h
            · cases h
            · rename_i module1 hmod1
              split at h
              · rename_i acc1 hacc1
                split at h
                · rename_i acc2 hacc2
                  split at h
                  · split at h
                    · rename_i alignment hal
                      cases h
                      -- now open `resolveRegions`
                      unfold resolveRegions at hrr
                      simp only [] at hrr
                      split at hrr
                      · simp only [Prod.mk.injEq] at hrr; exact absurd hrr.2 (by simp)
                      · simp only [Prod.mk.injEq] at hrr; exact absurd hrr.2 (by simp)
                      · simp only [Prod.mk.injEq] at hrr; exact absurd hrr.2 (by simp)
                      · simp only [Prod.mk.injEq] at hrr; exact absurd hrr.2 (by simp)
                      · split at hrr
                        · rename_i s1'' vft' vregion hb
                          simp only [Prod.mk.injEq] at hrr
                          obtain ⟨rfl, hrr⟩ := hrr
                          split at hrr
                          · rename_i placed' size' hr
                            split at hrr
                            · rename_i regions' hn
                              simp only [Res.ok.injEq, Prod.mk.injEq] at hrr
                              obtain ⟨rfl, rfl, rfl, rfl⟩ := hrr
                              exact ⟨module, module1, ta, sa, _, vregion, _, acc1, acc2, _, hmod, hmod1, hsa, hb, hr, hn,
                                hal, hacc1, hacc2, rfl, rfl, rfl⟩
                            · exact absurd hrr (C01.cast_ne_ok _ _)
                          · exact absurd hrr (C01.cast_ne_ok _ _)
                        · simp only [Prod.mk.injEq] at hrr
                          exact absurd hrr.2 (C01.cast_ne_ok _ _)
                    · exact absurd h (C01.cast_ne_ok _ _)
                  · exact absurd h (C01.cast_ne_ok _ _)
                · exact absurd h (C01.cast_ne_ok _ _)
              · exact absurd h (C01.cast_ne_ok _ _)
          · simp only [Prod.mk.injEq] at h; exact absurd h.2 (C01.cast_ne_ok _ _)
        · simp only [Prod.mk.injEq] at h; exact absurd h.2 (C01.cast_ne_ok _ _)
      · simp only [Prod.mk.injEq] at h; exact absurd h.2 (C01.cast_ne_ok _ _)

/-- an accepted `vftable::build` for a type with a vftable block: the generated struct is in the registry
    under its path, and the type's table is the block's with that struct as accessor return type -/
theorem buildVftable_some_inv (s s1 : State) (owner : Path) (vis : Vis) (fb : Option Region) (fns : List SFunc)
    (v : Option Vft) (ptr : Option Region)
    (h : buildVftable s owner vis fb (some fns) = (s1, .ok (v, ptr))) :
    (vftablePath owner = none ∧ v = none ∧ ptr = none ∧ s1 = s) ∨
    ∃ item, buildVftableItem s.reg owner vis fns = some item ∧ s1.reg.get item.path = some item ∧
      C02.Ext s.reg s1.reg ∧
      ∃ bf, v = some { fns := fns, baseField := bf, ty := .cptr (.raw item.path) } := by
  cases hi : buildVftableItem s.reg owner vis fns with
  | none =>
    left
    have hp : vftablePath owner = none := by
      unfold buildVftableItem at hi
      cases hvp : vftablePath owner with
      | none => rfl
      | some q => simp [hvp] at hi
    unfold buildVftable at h
    simp only [hi, Prod.mk.injEq, Res.ok.injEq] at h
    obtain ⟨rfl, rfl, rfl⟩ := h
    exact ⟨hp, rfl, rfl, rfl⟩
  | some item =>
    right
    have hck := C06.buildVftable_ok_inv s s1 owner vis fb fns item (v, ptr) hi h
    have hreach := C02.buildVftable_reach2 s owner vis fb (some fns)
    rw [h] at hreach
    simp only [] at hreach
    refine ⟨item, rfl, ?_, ?_, ?_⟩
    · cases hc : (match s.reg.get item.path with | some e => e != item | none => false) with
      | true =>
        unfold buildVftable at h
        simp only [hi] at h
        rw [if_pos (by exact hc)] at h
        cases h
      | false =>
        cases ha : s.addItem item with
        | ok s1' =>
          rw [C06.buildVftable_eq s s1' owner vis fb fns item hi hc ha] at h
          simp only [Prod.mk.injEq] at h
          obtain ⟨rfl, _⟩ := h
          rw [C14.addItem_reg s s1' item ha]
          exact C02.get_add_same _ _
        | defer => unfold buildVftable at h; simp only [hi, ha] at h; rw [if_neg (by rw [Bool.not_eq_true]; exact hc)] at h; simp [Res.cast] at h
        | err m => unfold buildVftable at h; simp only [hi, ha] at h; rw [if_neg (by rw [Bool.not_eq_true]; exact hc)] at h; simp [Res.cast] at h
        | panic m => unfold buildVftable at h; simp only [hi, ha] at h; rw [if_neg (by rw [Bool.not_eq_true]; exact hc)] at h; simp [Res.cast] at h
    · rcases hreach with rfl | ⟨vis', fns', item', _, hfree, ha⟩
      · exact C02.Ext.refl _
      · exact (C02.addItem_ext s s1 item' ha hfree).1
    · unfold C06.vftCheck at hck
      split at hck
      · next bn bv _ =>
        split at hck
        · cases hck
        · split at hck
          · cases hck
          · simp only [Res.ok.injEq, Prod.mk.injEq] at hck
            exact ⟨some bn, hck.1.symm⟩
      · simp only [Res.ok.injEq, Prod.mk.injEq] at hck
        exact ⟨none, hck.1.symm⟩
      · next hne1 hne2 =>
        exfalso
        cases hb : baseVftable s1.reg fb with
        | ok x =>
          cases x with
          | none => exact hne2 hb
          | some y => exact hne1 y.1 y.2 hb
        | defer => simp [hb, Res.cast] at hck
        | err m => simp [hb, Res.cast] at hck
        | panic m => simp [hb, Res.cast] at hck

/-- no block: the state is unchanged -/
theorem buildVftable_none_state (s s1 : State) (owner : Path) (vis : Vis) (fb : Option Region)
    (x : Res (Option Vft × Option Region)) (h : buildVftable s owner vis fb none = (s1, x)) : s1 = s := by
  unfold buildVftable at h
  simp only [Prod.mk.injEq] at h
  exact h.1.symm

/-- in every case the registry only grows -/
theorem buildVftable_ext (s s1 : State) (owner : Path) (vis : Vis) (fb : Option Region) (vfns : Option (List SFunc))
    (x : Res (Option Vft × Option Region)) (h : buildVftable s owner vis fb vfns = (s1, x)) : C02.Ext s.reg s1.reg := by
  have hreach := C02.buildVftable_reach2 s owner vis fb vfns
  rw [h] at hreach
  rcases hreach with rfl | ⟨vis', fns', item', _, hfree, ha⟩
  · exact C02.Ext.refl _
  · exact (C02.addItem_ext s s1 item' ha hfree).1

theorem stmtStep_vfns (reg : Registry) (scope : List Path) (acc acc' : StmtAcc) (idx : Nat) (st : G.Stmt)
    (h : stmtStep reg scope acc (idx, st) = .ok acc') :
    ((∃ vis name ty, st.field = .field vis name ty) ∧ acc'.vfns = acc.vfns) ∨
    (idx = 0 ∧ ∃ gfns size sfs, st.field = .vftable gfns ∧ vftableSizeAttr st.attrs = .ok size ∧
      convertVfuncs reg scope size gfns = .ok sfs ∧ acc'.vfns = some sfs) := by
  unfold stmtStep at h
  simp only [] at h
  split at h
  · rename_i vis name ty hf
    left
    refine ⟨⟨vis, name, ty, hf⟩, ?_⟩
    split at h
    · cases h
    · split at h
      · split at h
        · cases h
        · split at h
          · generalize (if (name != "_") = true then some name else none) = ident at h
            split at h
            · cases h
            · cases h; rfl
          · exact absurd h (C01.cast_ne_ok _ _)
      · exact absurd h (C01.cast_ne_ok _ _)
  · rename_i fns hf
    right
    split at h
    · cases h
    · next hidx =>
      split at h
      · cases h
      · split at h
        · next size hsize =>
          split at h
          · next sfs hconv =>
            cases h
            exact ⟨by simpa using hidx, fns, size, sfs, hf, hsize, hconv, rfl⟩
          · exact absurd h (C01.cast_ne_ok _ _)
        · exact absurd h (C01.cast_ne_ok _ _)

/-- after the first statement `vfns` does not change (a later vftable block is an error) -/
theorem stmts_vfns_keep (reg : Registry) (scope : List Path) (l : List (Nat × G.Stmt)) (hl : ∀ e ∈ l, 0 < e.1)
    (acc acc' : StmtAcc) (h : Res.foldlM (stmtStep reg scope) acc l = .ok acc') : acc'.vfns = acc.vfns := by
  induction l generalizing acc with
  | nil => simp only [Res.foldlM, Res.ok.injEq] at h; rw [h]
  | cons e es ih =>
    unfold Res.foldlM at h
    split at h
    · next acc1 h1 =>
      rw [ih (fun x hx => hl x (by simp [hx])) acc1 h]
      obtain ⟨idx, st⟩ := e
      rcases stmtStep_vfns reg scope acc acc1 idx st h1 with ⟨_, hs⟩ | ⟨h0, _⟩
      · exact hs
      · have := hl (idx, st) (by simp)
        simp only [] at this
        omega
    all_goals cases h

/-- **the vftable block is what the type's table is built from**: if the first statement is a vftable block,
    the loop's `vfns` is `convertVfuncs` of that block (with the block's `#[size]`) -/
theorem stmts_vfns_of_block (reg : Registry) (scope : List Path) (stmts : List G.Stmt) (sa : StmtAcc)
    (h : Res.foldlM (stmtStep reg scope) {} (stmts.zipIdx.map fun p => (p.2, p.1)) = .ok sa)
    (st : G.Stmt) (gfns : List G.Func) (hst : stmts[0]? = some st) (hf : st.field = .vftable gfns) :
    ∃ size out, vftableSizeAttr st.attrs = .ok size ∧ convertVfuncs reg scope size gfns = .ok out ∧
      sa.vfns = some out := by
  cases stmts with
  | nil => simp at hst
  | cons s0 rest =>
    simp only [List.getElem?_cons_zero, Option.some.injEq] at hst
    subst hst
    simp only [List.zipIdx_cons, List.map_cons] at h
    unfold Res.foldlM at h
    split at h
    · next acc1 h1 =>
      have hkeep := stmts_vfns_keep reg scope _ (by
        intro e he
        obtain ⟨p, hp, rfl⟩ := List.mem_map.mp he
        have := (List.mem_zipIdx hp).1
        simp only []
        omega) acc1 sa h
      rcases stmtStep_vfns reg scope {} acc1 0 s0 h1 with ⟨⟨_, _, _, hfld⟩, _⟩ | ⟨_, gfns', size, sfs, hfld, hsize, hconv, hnew⟩
      · rw [hf] at hfld; cases hfld
      · rw [hf] at hfld
        cases hfld
        exact ⟨size, sfs, hsize, hconv, by rw [hkeep, hnew]⟩
    all_goals cases h

theorem primsOk_ext {r r' : Registry} (he : C02.Ext r r') (h : C02.PrimsOk r) : C02.PrimsOk r' :=
  fun nm hnm => he.res' (h nm hnm) (C02.predefItem_resolved nm)

/-! ### where forwarders come from -/

theorem regionNameAndTypeDef_inv (reg : Registry) (rg : Region) (b : String) (btd : TypeDefn)
    (hr : regionNameAndTypeDef reg rg = .ok (some (b, btd))) :
    ∃ p, rg.name = some b ∧ rg.ty = .data (.raw p) ∧ typeDefn? reg p = some btd := by
  unfold regionNameAndTypeDef at hr
  split at hr
  · cases hr
  · next nm hnm =>
    split at hr
    · next p hty =>
      split at hr
      · cases hr
      · next item hg =>
        split at hr
        · cases hr
        · next res hres =>
          split at hr
          · next td' hin =>
            simp only [Res.ok.injEq, Option.some.injEq, Prod.mk.injEq] at hr
            obtain ⟨rfl, rfl⟩ := hr
            exact ⟨p, hnm, hty, typeDefn?_of_get reg p item res _ hg (C02.resolved?_eq hres) hin⟩
          · cases hr
    · cases hr

/-- where a re-exposed function comes from: a base region of the type, whose (resolved) type's associated
    functions or vftable functions were handed to `addFunctions` -/
def Forwards (reg : Registry) (regions : List Region) (g : SFunc) : Prop :=
  ∃ rg ∈ regions, rg.isBase = true ∧ ∃ (b : String) (bp : Path) (btd : TypeDefn) (fs : List SFunc) (used : List String),
    rg.name = some b ∧ rg.ty = .data (.raw bp) ∧ typeDefn? reg bp = some btd ∧
    (fs = btd.fns ∨ ∃ v, btd.vft = some v ∧ fs = v.fns) ∧ g ∈ C07.specInject b used fs

theorem injectBases_forwarders (reg : Registry) (regions : List Region) (acc acc' : InjAcc)
    (h : injectBases reg regions acc = .ok acc') :
    ∀ g ∈ acc'.fns, g ∈ acc.fns ∨ Forwards reg regions g := by
  unfold injectBases at h
  have key : ∀ (l : List (Nat × Region)), (∀ e ∈ l, e.2 ∈ regions ∧ e.2.isBase = true) → ∀ (acc acc' : InjAcc),
      Res.foldlM (fun (acc : InjAcc) (ib : Nat × Region) =>
        match regionNameAndTypeDef reg ib.2 with
        | .ok none => .ok acc
        | .ok (some (baseName, td)) =>
          let acc1 := addFunctions baseName acc td.fns
          .ok (if ib.1 > 0 then
                match td.vft with
                | some v => addFunctions baseName acc1 v.fns
                | none => acc1
              else acc1)
        | e => e.cast) acc l = .ok acc' →
      ∀ g ∈ acc'.fns, g ∈ acc.fns ∨ Forwards reg regions g := by
    intro l
    induction l with
    | nil => intro _ acc acc' hf g hg; simp only [Res.foldlM, Res.ok.injEq] at hf; subst hf; exact Or.inl hg
    | cons e es ih =>
      intro hl acc acc' hf g hg
      unfold Res.foldlM at hf
      split at hf
      · next acc1 h1 =>
        rcases ih (fun x hx => hl x (by simp [hx])) acc1 acc' hf g hg with hin | hfw
        · obtain ⟨hmem, hbase⟩ := hl e (by simp)
          split at h1
          · cases h1; exact Or.inl hin
          · next b btd hr =>
            obtain ⟨bp, hname, hty, hbtd⟩ := regionNameAndTypeDef_inv reg e.2 b btd hr
            simp only [Res.ok.injEq] at h1
            have hA := (C07.addFunctions_spec b acc btd.fns).1
            have hfw1 : ∀ x ∈ (addFunctions b acc btd.fns).fns, x ∈ acc.fns ∨ Forwards reg regions x := by
              intro x hx
              rw [hA] at hx
              rcases List.mem_append.mp hx with hx | hx
              · exact Or.inl hx
              · exact Or.inr ⟨e.2, hmem, hbase, b, bp, btd, btd.fns, acc.used, hname, hty, hbtd, Or.inl rfl, hx⟩
            split at h1
            · split at h1
              · next v hv =>
                subst h1
                have hB := (C07.addFunctions_spec b (addFunctions b acc btd.fns) v.fns).1
                rw [hB] at hin
                rcases List.mem_append.mp hin with hx | hx
                · exact hfw1 g hx
                · exact Or.inr ⟨e.2, hmem, hbase, b, bp, btd, v.fns, _, hname, hty, hbtd, Or.inr ⟨v, hv, rfl⟩, hx⟩
              · subst h1; exact hfw1 g hin
            · subst h1; exact hfw1 g hin
          · exact absurd h1 (C01.cast_ne_ok _ _)
        · exact Or.inr hfw
      all_goals cases hf
  refine key _ ?_ acc acc' h
  intro e he
  obtain ⟨p, hp, rfl⟩ := List.mem_map.mp he
  have := (List.mem_zipIdx hp).2
  simp only [Nat.zero_add, Nat.sub_zero] at this
  have hmem : p.1 ∈ regions.filter (·.isBase) := by rw [this.2]; exact List.getElem_mem _
  exact ⟨(List.mem_filter.mp hmem).1, (List.mem_filter.mp hmem).2⟩

/-- naming keeps base regions as they are: a region of the emitted struct that is marked `#[base]` is the
    source region placed at the same position -/
theorem nameRegions_base (reg : Registry) (off : Nat) (placed : List (Placed Region)) (regions : List Region)
    (h : nameRegions reg off placed = .ok regions) (k : Nat) (rg : Region) (hk : regions[k]? = some rg)
    (hb : rg.isBase = true) : ∃ pl, placed[k]? = some pl ∧ pl.src = some rg := by
  induction placed generalizing off regions k with
  | nil => simp only [nameRegions, Res.ok.injEq] at h; subst h; simp at hk
  | cons p ps ih =>
    unfold nameRegions at h
    split at h
    · next r hr =>
      simp only [] at h
      split at h
      · next rs hrs =>
        simp only [Res.ok.injEq] at h
        subst h
        cases k with
        | zero =>
          simp only [List.getElem?_cons_zero, Option.some.injEq] at hk
          refine ⟨p, rfl, ?_⟩
          cases hn : r.name with
          | none => simp only [hn] at hk; subst hk; simp at hb
          | some n =>
            simp only [hn] at hk
            subst hk
            split at hr
            · next r0 hsrc => cases hr; exact hsrc
            · split at hr
              · cases hr; simp at hb
              · exact absurd hr (C01.cast_ne_ok _ _)
        | succ k =>
          simp only [List.getElem?_cons_succ] at hk ⊢
          exact ih _ rs hrs k hk
      · next hne => exact absurd h (hne _)
    · exact absurd h (C01.cast_ne_ok _ _)

theorem rust_offsets_length (packed : Bool) (o : Nat) (fs : List RustSem.Fld) :
    (RustSem.offsets packed o fs).length = fs.length := by
  induction fs generalizing o with
  | nil => rfl
  | cons f fs ih => simp [RustSem.offsets, ih]

/-- a `#[base]` region of an accepted type has a declared offset, and that is where the modelled compiler
    puts the field -/
theorem base_region_declared (reg : Registry)
    (vptr : Option Region) (pending : List (Option Nat × Region)) (target align? : Option Nat)
    (placed : List (Placed Region)) (size a : Nat) (td : TypeDefn)
    (h : resolve (vptr.map (toPField reg none)) (pending.map fun p => toPField reg p.1 p.2) target = .ok (placed, size))
    (ha : alignCheck reg.ps td.packed align? placed size = .ok a)
    (hn : nameRegions reg 0 placed = .ok td.regions)
    (rg : Region) (hrg : rg ∈ td.regions) (hb : rg.isBase = true) :
    ∃ o, (o, rg) ∈ declaredOffsets (vptr.map (toPField reg none)) (pending.map fun p => toPField reg p.1 p.2) := by
  obtain ⟨k, hk⟩ := List.mem_iff_getElem?.mp hrg
  obtain ⟨pl, hpl, hsrc⟩ := nameRegions_base reg 0 placed td.regions hn k rg hk hb
  rw [← offsets_exact reg.ps td.packed align? _ _ target placed size a h ha]
  obtain ⟨hkl, hke⟩ := List.getElem?_eq_some_iff.mp hpl
  have hko : k < (RustSem.offsets td.packed 0 (placed.map C01.toFld)).length := by
    rw [rust_offsets_length, List.length_map]; exact hkl
  refine ⟨(RustSem.offsets td.packed 0 (placed.map C01.toFld))[k], ?_⟩
  apply List.mem_filterMap.mpr
  refine ⟨((RustSem.offsets td.packed 0 (placed.map C01.toFld))[k], pl), ?_, by simp [hsrc]⟩
  apply List.mem_iff_getElem?.mpr
  refine ⟨k, ?_⟩
  rw [List.getElem?_zip_eq_some]
  exact ⟨List.getElem?_eq_getElem hko, hpl⟩

/-! ### the accessor of a type whose pointer a base supplies -/

/-- the accessor of a type whose pointer is supplied by its first base (with or without a vftable block of its
    own): the base's accessor on the base sub-object, at the offset C01 assigns to the base field -/
theorem accessor_through_base (reg0 : Registry) (hprims : C02.PrimsOk reg0) (fb : Option Region) (bn : String) (bv : Vft)
    (hbv : baseVftable reg0 fb = .ok (some (bn, bv)))
    (pending : List (Option Nat × Region)) (hfb : fb = (pending.map (·.2)).find? (·.isBase))
    (target align? : Option Nat) (placed : List (Placed Region)) (size a : Nat) (td : TypeDefn)
    (hres : resolve ((none : Option Region).map (toPField reg0 none)) (pending.map fun p => toPField reg0 p.1 p.2) target
      = .ok (placed, size))
    (hal : alignCheck reg0.ps td.packed align? placed size = .ok a)
    (hn : nameRegions reg0 0 placed = .ok td.regions) (hdf : DistinctFields td)
    (v : Vft) (hvft : td.vft = some v) (hbf : v.baseField = some bn)
    (reg : Registry) (he : C02.Ext reg0 reg) (ty : Path) (hty : typeDefn? reg ty = some td) :
    ∃ rg bp btd o,
      fb = some rg ∧ rg.name = some bn ∧ rg.ty = .data (.raw bp) ∧
      typeDefn? reg bp = some btd ∧ btd.vft = some bv ∧
      (o, rg) ∈ declaredOffsets none (pending.map fun p => toPField reg0 p.1 p.2) ∧
      fieldOffset reg td bn = some o ∧
      ∀ (mem : Mem) (fuel self : Nat),
        execVftable reg mem (fuel + 1) ty self = execVftable reg mem fuel bp (self + o) := by
  obtain ⟨rg, bp, btd, hfb', hname, hrty, hbtd, hbvft⟩ := baseVftable_some_inv reg0 fb bn bv hbv
  have hmem : rg ∈ pending.map (·.2) := by
    rw [hfb'] at hfb
    exact List.mem_of_find?_eq_some hfb.symm
  obtain ⟨o, ho⟩ := declared_of_pending (reg := reg0) none pending rg bp hmem hrty
  obtain ⟨hoff, hfind⟩ := fieldOffset_declared reg0 hprims none pending target align? placed size a td hres hal hn
    hdf o rg bn hname ho
  have hbp : fieldTypePath td bn = some bp := fieldTypePath_of_find td bn rg bp hfind hrty
  refine ⟨rg, bp, btd, o, hfb', hname, hrty, typeDefn?_mono he bp btd hbtd, hbvft, ho,
    fieldOffset_mono he td bn o hoff, ?_⟩
  intro mem fuel self
  exact execVftable_base reg mem fuel ty self td _ bn bp o hty hvft hbf hbp (fieldOffset_mono he td bn o hoff)

theorem vftablePath_of_item (reg : Registry) (owner : Path) (vis : Vis) (fns : List SFunc) (item : ItemDef)
    (h : buildVftableItem reg owner vis fns = some item) : vftablePath owner = some item.path := by
  unfold buildVftableItem at h
  cases hvp : vftablePath owner with
  | none => simp [hvp] at h
  | some q => simp only [hvp, Option.map_some, Option.some.injEq] at h; subst h; rfl


/-! ### one resolution attempt; provenance of the emitted structs, registry-wide -/

theorem reach2_keeps {s s1 : State} {owner : Path} (hr : C02.Reach2 s s1 owner) (p : Path) (i : ItemDef)
    (hg : s.reg.get p = some i) : s1.reg.get p = some i := by
  rcases hr with rfl | ⟨vis, fns, item, _, hfree, ha⟩
  · exact hg
  · rw [C14.addItem_reg s s1 item ha, C14.get_add]
    by_cases e : p = item.path
    · subst e
      rw [if_pos rfl]
      rcases hfree with hf | hf
      · rw [hf] at hg; cases hg
      · rw [hf] at hg; exact hg
    · rw [if_neg e]; exact hg

/-- **storing the result**: when the attempt on an unresolved type succeeds, the registry after the attempt holds the
    built definition under the type's path and extends the registry the type was built in -/
theorem attempt_registers (s s1 : State) (p : Path) (i : ItemDef) (d : G.Item) (gtd : G.TypeDef) (r : Resolved)
    (td : TypeDefn) (hg : s.reg.get p = some i) (hu : i.state = .unres d) (hd : d.inner = .type gtd)
    (hb : buildType s p d.vis gtd = (s1, .ok r)) (hin : r.inner = .type td) :
    (attemptItem s p).1.reg = s1.reg.setState p (.res r) ∧
    typeDefn? (attemptItem s p).1.reg p = some td ∧
    C02.Ext s1.reg (attemptItem s p).1.reg ∧ C02.Ext s.reg s1.reg := by
  have hreach := C02.buildType_reach2 s p d.vis gtd
  rw [hb] at hreach
  simp only [] at hreach
  have hg1 := reach2_keeps hreach p i hg
  have hreg : (attemptItem s p).1.reg = s1.reg.setState p (.res r) := by
    unfold attemptItem
    simp only [hg, hu, hd, hb]
  have hext01 : C02.Ext s.reg s1.reg := by
    rcases hreach with rfl | ⟨vis', fns', item', _, hfree, ha⟩
    · exact C02.Ext.refl _
    · exact (C02.addItem_ext s s1 item' ha hfree).1
  refine ⟨hreg, ?_, ?_, hext01⟩
  · rw [hreg]
    unfold typeDefn?
    rw [C12.get_setState, if_pos rfl, hg1]
    simp only [Option.map_some, ItemDef.resolved?, hin]
  · rw [hreg]
    exact C02.setState_ext s1.reg p r i d hg1 hu

/-- where an emitted struct of registry `reg` comes from: an accepted `type_definition::build` of the definition
    registered under its path (in a state whose predefined types are intact, and whose post-state `reg` extends),
    or `vftable::build_type` (a generated `<T>Vftable` struct) -/
def Prov (reg : Registry) (p : Path) (i : ItemDef) (r : Resolved) : Prop :=
  (∃ (s s1 : State) (i0 : ItemDef) (item : G.Item) (d : G.TypeDef),
      C02.PrimsOk s.reg ∧ s.reg.get p = some i0 ∧ i0.state = .unres item ∧ item.inner = .type d ∧
      buildType s p item.vis d = (s1, .ok r) ∧ C02.Ext s1.reg reg) ∨
  (∃ (reg0 : Registry) (owner : Path) (vis : Vis) (fns : List SFunc), buildVftableItem reg0 owner vis fns = some i)

/-- **provenance, registry-wide**: every emitted struct (resolved, category `defined`) of the registry has a `Prov` -/
def BuiltReg (reg : Registry) : Prop :=
  ∀ p i r td, reg.get p = some i → i.state = .res r → r.inner = .type td → i.cat = .defined → Prov reg p i r

theorem Prov.mono {r r' : Registry} (he : C02.Ext r r') {p : Path} {i : ItemDef} {res : Resolved}
    (h : Prov r p i res) : Prov r' p i res := by
  rcases h with ⟨s, s1, i0, item, d, h1, h2, h3, h4, h5, h6⟩ | h
  · exact Or.inl ⟨s, s1, i0, item, d, h1, h2, h3, h4, h5, h6.trans he⟩
  · exact Or.inr h

theorem BuiltReg.step {r r' : Registry} (h : BuiltReg r) (he : C02.Ext r r')
    (hnew : ∀ p i, r'.get p = some i → r.get p = some i ∨
      (∀ res td, i.state = .res res → res.inner = .type td → i.cat = .defined → Prov r' p i res)) :
    BuiltReg r' := by
  intro p i res td hg hs hin hc
  rcases hnew p i hg with ho | hn
  · exact (h p i res td ho hs hin hc).mono he
  · exact hn res td hs hin hc

theorem BuiltReg.addItem (s s' : State) (i : ItemDef) (hs : BuiltReg s.reg) (h : s.addItem i = .ok s')
    (hfree : s.reg.get i.path = none ∨ s.reg.get i.path = some i)
    (hr : ∀ res td, i.state = .res res → res.inner = .type td → i.cat = .defined → Prov s'.reg i.path i res) :
    BuiltReg s'.reg := by
  obtain ⟨he, hn⟩ := C02.addItem_ext s s' i h hfree
  refine hs.step he ?_
  intro p j hj
  rcases hn p j hj with ho | ⟨rfl, rfl⟩
  · exact Or.inl ho
  · exact Or.inr hr

theorem new_built (ps : Nat) : BuiltReg (State.new ps).reg := by
  intro p i r td hg _ _ hc
  obtain ⟨nm, _, _, rfl⟩ := C02.new_get_inv ps p i hg
  cases hc

theorem defStep_built (path : Path) (s s' : State) (d : G.Item) (hs : BuiltReg s.reg)
    (h : C14.defStep path s d = .ok s') : BuiltReg s'.reg := by
  unfold C14.defStep at h
  split at h
  · cases h
  · next hc =>
    refine BuiltReg.addItem s s' _ hs h (Or.inl (C02.contains_false_get (by simpa using hc))) ?_
    intro res td hst; cases hst

theorem xtypeStep_built (path : Path) (s s' : State) (xt : String × List G.Attr) (hs : BuiltReg s.reg)
    (h : C14.xtypeStep path s xt = .ok s') : BuiltReg s'.reg := by
  unfold C14.xtypeStep at h
  split at h
  · split at h
    · cases h
    · split at h
      · cases h
      · split at h
        · cases h
        · split at h
          · cases h
          · next hc =>
            refine BuiltReg.addItem s s' _ hs h (Or.inl (C02.contains_false_get (by simpa using hc))) ?_
            intro res td _ _ hcat; cases hcat
  · exact (C14.cast_ne_ok _ _ h).elim

theorem addModule_built (s s' : State) (m : G.Module) (path : Path) (hs : BuiltReg s.reg)
    (h : s.addModule m path = .ok s') : BuiltReg s'.reg := by
  obtain ⟨xvals, doc, s2, _, h1, h2⟩ := C14.addModule_inv s s' m path h
  have k0 : BuiltReg (s.putModule path (C14.newMod m path xvals doc)).reg := hs
  have k2 : BuiltReg s2.reg :=
    (C12.PO.foldlM_inv (S := fun _ => True) (fun s => BuiltReg s.reg) (C14.defStep path) m.defs _ k0
      (fun b d _ hb => ⟨fun _ _ => trivial, fun b' hb' => defStep_built path b b' d hb hb'⟩)).2 s2 h1
  exact (C12.PO.foldlM_inv (S := fun _ => True) (fun s => BuiltReg s.reg) (C14.xtypeStep path) m.xtypes _ k2
      (fun b xt _ hb => ⟨fun _ _ => trivial, fun b' hb' => xtypeStep_built path b b' xt hb hb'⟩)).2 s' h2

theorem reach2_built {s s1 : State} {owner : Path} (hr : C02.Reach2 s s1 owner) (hs : BuiltReg s.reg) :
    BuiltReg s1.reg := by
  rcases hr with rfl | ⟨vis, fns, item, hi, hfree, ha⟩
  · exact hs
  · exact BuiltReg.addItem s s1 item hs ha hfree (fun _ _ _ _ _ => Or.inr ⟨s.reg, owner, vis, fns, hi⟩)

theorem setState_built (reg : Registry) (p : Path) (res : Resolved) (i : ItemDef) (d : G.Item) (hs : BuiltReg reg)
    (hi : reg.get p = some i) (hu : i.state = .unres d)
    (hp : ∀ td, res.inner = .type td → i.cat = .defined →
      Prov (reg.setState p (.res res)) p { i with state := .res res } res) :
    BuiltReg (reg.setState p (.res res)) := by
  refine hs.step (C02.setState_ext reg p res i d hi hu) ?_
  intro q j hq
  simp only [C12.get_setState] at hq
  by_cases e : q = p
  · subst e
    rw [if_pos rfl, hi] at hq
    simp only [Option.map_some, Option.some.injEq] at hq
    subst hq
    right
    intro r' td hr' hin hc
    simp only [IState.res.injEq] at hr'
    subst hr'
    exact hp td hin hc
  · rw [if_neg e] at hq
    exact Or.inl hq

theorem attemptItem_built (s : State) (p : Path) (hp : C02.PrimsOk s.reg) (hs : BuiltReg s.reg) :
    BuiltReg (attemptItem s p).1.reg := by
  unfold attemptItem
  split
  · exact hs
  · next item hget =>
    split
    · exact hs
    · next d hd =>
      split
      · next td htd =>
        have hreach := C02.buildType_reach2 s p d.vis td
        have sh := reach2_built hreach hs
        split
        · next s1 r hb =>
          rw [hb] at sh hreach
          simp only [] at hreach
          have hi := reach2_keeps hreach p item hget
          refine setState_built s1.reg p r item d sh hi hd ?_
          intro _ _ _
          exact Or.inl ⟨s, s1, item, d, td, hp, hget, hd, htd, hb, C02.setState_ext s1.reg p r item d hi hd⟩
        · next s1 hb => rw [hb] at sh; exact sh
        · next s1 m hb => rw [hb] at sh; exact sh
        · next s1 m hb => rw [hb] at sh; exact sh
      · next ed _ =>
        split
        · next r hb =>
          refine setState_built s.reg p r item d hs hget hd ?_
          intro td hin _
          obtain ⟨edn, _, hin', _⟩ := C02.buildEnum_inv s p ed r hb
          rw [hin'] at hin; cases hin
        · exact hs
        · exact hs
        · exact hs

/-- the joint invariant of the build: registry-wide soundness (C02), provenance, a non-zero pointer width -/
def Inv (s : State) : Prop := C02.RegSound s ∧ BuiltReg s.reg ∧ 0 < s.reg.ps

theorem runRound_inv (l : List Path) (s : State) (hs : C12.StateOkB s) (h : Inv s) : Inv (runRound s l).1 := by
  induction l generalizing s with
  | nil => exact h
  | cons p ps ih =>
    have h1 := C12.attemptItem_ok s p hs
    have h2 : Inv (attemptItem s p).1 :=
      ⟨C02.attemptItem_sound s p (C02.ps_pos_of_ok hs.ok) h.1, attemptItem_built s p h.1.prims h.2.1,
       C02.ps_pos_of_ok h1.ok⟩
    unfold runRound
    split
    · next s1 ha => rw [ha] at h1 h2; exact ih s1 h1 h2
    · next s1 e _ ha => rw [ha] at h2; exact h2

theorem resolveLoop_inv (prio : List Path) (fuel : Nat) (s : State) (hs : C12.StateOkB s) (h : Inv s)
    (s' : State) (hl : resolveLoop prio fuel s = .ok s') : Inv s' := by
  induction fuel generalizing s with
  | zero => simp [resolveLoop] at hl
  | succ n ih =>
    unfold resolveLoop at hl
    simp only [] at hl
    split at hl
    · cases hl; exact h
    · have hr := C12.runRound_shape (s.reg.unresolved prio) s hs
      have hr2 := runRound_inv (s.reg.unresolved prio) s hs h
      split at hl
      · next s1 h1 =>
        rw [h1] at hr hr2
        split at hl
        · cases hl
        · exact ih s1 hr.1 hr2 hl
      · cases hl
      · cases hl
      · cases hl

theorem build_inv (s : State) (prio : List Path) (hs : C12.StateOkB s) (h : Inv s)
    (s' : State) (hb : s.build prio = .ok s') : Inv s' := by
  obtain ⟨s1, hl, ms, _, rfl⟩ := C09.build_ok_inv s prio s' hb
  have := resolveLoop_inv prio _ s hs h s1 hl
  exact ⟨this.1.of_reg rfl, this.2.1, this.2.2⟩

theorem initialState_inv (c : Case) (hps : c.ps = 4 ∨ c.ps = 8) (hb : C12.CaseBounded c) (s : State)
    (h : c.initialState = .ok s) : C12.StateOkB s ∧ Inv s := by
  unfold Case.initialState at h
  refine (C12.PO.foldlM_inv (S := fun _ => True) (fun s => C12.StateOkB s ∧ Inv s) _ c.modules _
    ⟨C12.new_okB c.ps hps, C02.new_sound_lem c.ps, new_built c.ps, C02.ps_pos_of_ok (C12.new_okB c.ps hps).ok⟩ ?_).2 s h
  intro b me hme hbI
  cases me with
  | ast path file m =>
    exact ⟨fun _ _ => trivial, fun b' hb' =>
      ⟨C12.addModule_okB b b' m path hbI.1 (hb path file m hme) hb',
       C02.addModule_sound_lem b b' m path hbI.2.1 hb', addModule_built b b' m path hbI.2.2.1 hb',
       C02.ps_pos_of_ok (C12.addModule_okB b b' m path hbI.1 (hb path file m hme) hb').ok⟩⟩
  | text f t => exact ⟨fun _ _ => trivial, fun _ h => by cases h⟩

theorem case_inv (c : Case) (hps : c.ps = 4 ∨ c.ps = 8) (hb : C12.CaseBounded c) (s : State)
    (h : c.run = .ok s) : Inv s := by
  unfold Case.run at h
  split at h
  · next s0 hs0 =>
    obtain ⟨h1, h2⟩ := initialState_inv c hps hb s0 hs0
    exact build_inv s0 c.prio h1 h2 s h
  · cases h
  · cases h
  · cases h

theorem vftable_item_plain (reg0 : Registry) (owner : Path) (vis : Vis) (fns : List SFunc) (i : ItemDef) (r : Resolved)
    (td : TypeDefn) (h : buildVftableItem reg0 owner vis fns = some i) (hs : i.state = .res r) (hin : r.inner = .type td) :
    td.fns = [] ∧ td.vft = none := by
  unfold buildVftableItem at h
  cases hvp : vftablePath owner with
  | none => simp [hvp] at h
  | some q =>
    simp only [hvp, Option.map_some, Option.some.injEq] at h
    subst h
    simp only [IState.res.injEq] at hs
    subst hs
    simp only [SInner.type.injEq] at hin
    subst hin
    exact ⟨rfl, rfl⟩


/-! ### recorded layouts are the recursively compiled ones -/

section Compiled
open C02

theorem tyLayout_compiled (reg : Registry) (hit : ItemsSound reg) (t : DTy) (x : Nat × Nat)
    (h : tyLayout reg.ps (regLayout reg) t = some x) : Lay reg (.ty t) x.1 x.2 ∨ Tainted reg (.ty t) := by
  induction t generalizing x with
  | raw p =>
    simp only [tyLayout, regLayout] at h
    cases hg : reg.get p with
    | none => simp [hg] at h
    | some i =>
      simp only [hg, Option.bind_some] at h
      cases hr : i.resolved? with
      | none => simp [hr] at h
      | some r =>
        simp only [hr, Option.map_some, Option.some.injEq] at h
        subst h
        rcases hit p i r hg (resolved?_eq hr) with h | h
        · exact Or.inl (Lay.raw p _ _ h)
        · exact Or.inr (Tainted.raw p h)
  | cptr t _ =>
    simp only [tyLayout, Option.some.injEq] at h
    subst h
    exact Or.inl (Lay.cptr t)
  | mptr t _ =>
    simp only [tyLayout, Option.some.injEq] at h
    subst h
    exact Or.inl (Lay.mptr t)
  | arr t n ih =>
    simp only [tyLayout] at h
    cases hx : tyLayout reg.ps (regLayout reg) t with
    | none => simp [hx] at h
    | some y =>
      simp only [hx, Option.map_some, Option.some.injEq] at h
      subst h
      rcases ih y hx with h | h
      · exact Or.inl (Lay.arr t n y.1 y.2 h)
      · exact Or.inr (Tainted.arr t n h)

/-- the layout the semantics takes for a field's type is the one the modelled compiler computes *recursively* from the
    emitted definitions (`C02.Lay`), unless the type contains `void` by value -/
theorem fldOf_compiled (reg : Registry) (hit : ItemsSound reg) (rg : Region) (f : RustSem.Fld)
    (h : fldOf reg rg = some f) : Lay reg (.rty rg.ty) f.size f.align ∨ Tainted reg (.rty rg.ty) := by
  unfold fldOf at h
  cases hx : rtyLayout reg.ps (regLayout reg) rg.ty with
  | none => simp [hx] at h
  | some y =>
    simp only [hx, Option.map_some, Option.some.injEq] at h
    subst h
    cases hty : rg.ty with
    | data t =>
      rw [hty] at hx
      rcases tyLayout_compiled reg hit t y hx with h | h
      · exact Or.inl (Lay.data t _ _ h)
      · exact Or.inr (Tainted.data t h)
    | fn cc args ret =>
      rw [hty] at hx
      simp only [rtyLayout, Option.some.injEq] at hx
      subst hx
      exact Or.inl (Lay.fn cc args ret)


end Compiled

end PyxisVerif.Exec
