import PyxisVerif.Lemmas.C20E2E
import PyxisVerif.Lemmas.C02Global
/-!
# C20, end to end – an `unknown<N>` gap versus an address on the following field

Helper lemmas for `Props/C20Gap.lean`.

The two descriptions

```text
type T { …, _: unknown<n>, f: X, … }        type T { …, #[address(A)] f: X, … }
```

give the same `type_definition::build` in every state in which (i) `u8` is the predefined one-byte type
(an invariant of every run: `u8ok_visited`) and (ii) the placement loop arrives at the gap at offset
`A - n`.  The chain:

* the statement loop leaves two accumulators that differ in the pending list only: `… (none, gap) ::
  (none, f) …` against `… (some A, f) …` (`GR`, `stmtFold_gap`); statements after the gap are visited
  with an index that is one smaller, which only a `vftable` block could notice, and it is rejected with
  the same message at every index but 0;
* `resolve_regions` places both lists into lists related by `LR` (`Lemmas/C20.lean`): equal region for
  region, except that the gap is a source region on one side and generated padding on the other
  (`resolveFrom_RR`, from `gap_vs_address_RR`);
* the naming pass gives both the same regions (`nameRegions_LR`): an unnamed region gets the name
  `_field_<offset>`, private visibility, no doc comment – whatever the gap statement said –, and keeps
  its type, which is `[u8; n]` on both sides;
* the alignment block looks at sizes and alignments of the placed regions only (`alignCheck_LR`).
-/
namespace PyxisVerif.C20
open Layout

/-! ## `u8` is the predefined one-byte type in every state of a run -/

/-- the registry entry of the predefined `u8` -/
def u8Item : ItemDef := C02.predefItem ("u8", 1)

/-- `u8` still denotes the predefined one-byte type -/
def U8ok (reg : Registry) : Prop := reg.get ["u8"] = some u8Item

theorem u8ok_new (ps : Nat) : U8ok (State.new ps).reg :=
  C02.new_get ps ("u8", 1) (by decide)

theorem u8ok_addItem (s s' : State) (i : ItemDef) (h : s.addItem i = .ok s')
    (hfree : s.reg.get i.path = none) (hu : U8ok s.reg) : U8ok s'.reg :=
  (C02.addItem_ext s s' i h (Or.inl hfree)).1.res' hu rfl

theorem foldlM_keep {α β} (I : β → Prop) (f : β → α → Res β) (hf : ∀ b a b', I b → f b a = .ok b' → I b')
    (l : List α) (b b' : β) (h0 : I b) (h : Res.foldlM f b l = .ok b') : I b' := by
  induction l generalizing b with
  | nil => cases h; exact h0
  | cons a l ih =>
    simp only [Res.foldlM] at h
    cases hx : f b a with
    | ok b1 => rw [hx] at h; exact ih b1 (hf b a b1 h0 hx) h
    | defer => rw [hx] at h; cases h
    | err m => rw [hx] at h; cases h
    | panic m => rw [hx] at h; cases h

theorem u8ok_defStep (path : Path) (s s' : State) (d : G.Item) (hu : U8ok s.reg)
    (h : C14.defStep path s d = .ok s') : U8ok s'.reg := by
  unfold C14.defStep at h
  split at h
  · cases h
  · next hc => exact u8ok_addItem s s' _ h (C02.contains_false_get (by simpa using hc)) hu

theorem u8ok_xtypeStep (path : Path) (s s' : State) (xt : String × List G.Attr) (hu : U8ok s.reg)
    (h : C14.xtypeStep path s xt = .ok s') : U8ok s'.reg := by
  unfold C14.xtypeStep at h
  split at h
  · split at h
    · cases h
    · split at h
      · cases h
      · split at h
        · cases h
        · split at h
          · cases h
          · next hc => exact u8ok_addItem s s' _ h (C02.contains_false_get (by simpa using hc)) hu
  · exact (C14.cast_ne_ok _ _ h).elim

theorem u8ok_addModule (s s' : State) (m : G.Module) (path : Path) (hu : U8ok s.reg)
    (h : s.addModule m path = .ok s') : U8ok s'.reg := by
  obtain ⟨xvals, doc, s2, _, h1, h2⟩ := C14.addModule_inv s s' m path h
  have k0 : U8ok (s.putModule path (C14.newMod m path xvals doc)).reg := hu
  have k2 : U8ok s2.reg :=
    foldlM_keep (fun s => U8ok s.reg) (C14.defStep path) (fun b a b' hb hx => u8ok_defStep path b b' a hb hx)
      m.defs _ s2 k0 h1
  exact foldlM_keep (fun s => U8ok s.reg) (C14.xtypeStep path)
    (fun b a b' hb hx => u8ok_xtypeStep path b b' a hb hx) m.xtypes s2 s' k2 h2

theorem u8ok_initial (c : Case) (s : State) (h : c.initialState = .ok s) : U8ok s.reg := by
  rw [initialState_eq] at h
  generalize hs0 : State.new c.ps = s0 at h
  have h0 : U8ok s0.reg := by rw [← hs0]; exact u8ok_new c.ps
  refine foldlM_keep (fun s => U8ok s.reg) caseStep ?_ c.modules s0 s h0 h
  intro b me b' hb hx
  cases me with
  | ast path file m => exact u8ok_addModule b b' m path hb hx
  | text f t => cases hx

theorem u8ok_keeps {s s' : State} (hk : Keeps ["u8"] s s') (hu : U8ok s.reg) : U8ok s'.reg :=
  hk u8Item _ hu rfl

theorem u8ok_attemptItem (s : State) (q : Path) (hu : U8ok s.reg) : U8ok (attemptItem s q).1.reg :=
  u8ok_keeps (attemptItem_keeps ["u8"] s q) hu

theorem u8ok_visited (c : Case) (s : State) (h : Visited c s) : U8ok s.reg := by
  induction h with
  | init s0 h0 => exact u8ok_initial c s0 h0
  | step s q _ ih => exact u8ok_attemptItem s q ih

theorem u8ok_buildVftable (s : State) (owner : Path) (vis : Vis) (fb : Option Region) (vfns : Option (List SFunc))
    (hu : U8ok s.reg) : U8ok (buildVftable s owner vis fb vfns).1.reg :=
  u8ok_keeps (reach_keeps ["u8"] s _ owner (C10.buildVftable_reach s owner vis fb vfns)) hu

/-- the padding type is `[u8; n]` … -/
theorem paddingType_u8ok (reg : Registry) (hu : U8ok reg) (n : Nat) :
    reg.paddingType n = .ok (.arr (.raw ["u8"]) n) := by
  have hc : reg.contains ["u8"] = true := by unfold Registry.contains; rw [hu]; rfl
  unfold Registry.paddingType Registry.resolveString
  simp [hc]

/-- … of `n` bytes (if that is a `usize`), alignment 1 -/
theorem size_u8arr (reg : Registry) (hu : U8ok reg) (n : Nat) :
    DTy.size reg (.arr (.raw ["u8"]) n) = if n ≤ usizeMax then .ok (some n) else .ok none := by
  unfold U8ok at hu
  simp only [DTy.size, hu, u8Item, C02.predefItem, ItemDef.resolved?, Option.bind_some, Option.map_some,
    Nat.one_mul]

theorem align_u8arr (reg : Registry) (hu : U8ok reg) (n : Nat) :
    DTy.align reg (.arr (.raw ["u8"]) n) = some 1 := by
  unfold U8ok at hu
  simp only [DTy.align, hu, u8Item, C02.predefItem, ItemDef.resolved?, Option.bind_some, Option.map_some]
  rfl

/-! ## the gap region and the two field lists -/

/-- the region the statement loop makes of a gap statement `_: unknown<n>` -/
def gapRegion (vis : G.Vis) (doc : Option String) (n : Nat) : Region :=
  { vis, name := none, doc, ty := .data (.arr (.raw ["u8"]) n), isBase := false }

theorem gapRegion_isGap (reg : Registry) (hu : U8ok reg) (vis : G.Vis) (doc : Option String) (n : Nat) :
    IsGapRegion reg (gapRegion vis doc n) n :=
  ⟨rfl, rfl, _, paddingType_u8ok reg hu n, rfl⟩

theorem toPField_gapRegion (reg : Registry) (hu : U8ok reg) (vis : G.Vis) (doc : Option String) (n : Nat)
    (hn : n ≤ usizeMax) : toPField reg none (gapRegion vis doc n) = gapField (gapRegion vis doc n) n := by
  unfold toPField gapField
  simp only [gapRegion, RTy.size, RTy.align, RTy.isArray, DTy.isArray, size_u8arr reg hu n, align_u8arr reg hu n,
    hn, if_true]

theorem RR.rfl_of_not_ok {r : Region} {n : Nat} (x : Res (St Region)) (h : ∀ a, x ≠ .ok a) : RR r n x x := by
  cases x with
  | ok a => exact (h a rfl).elim
  | defer => trivial
  | err m => rfl
  | panic m => rfl

/-- the placement loop, at the gap: the gap and the field after it against the field with the address
    `offset + n` -/
theorem gap_place (reg : Registry) (hu : U8ok reg) (vis : G.Vis) (doc : Option String) (n : Nat)
    (st : St Region) (g : PField Region) (fs : List (PField Region)) (hg : g.addr = none) :
    RR (gapRegion vis doc n) n (place st (toPField reg none (gapRegion vis doc n) :: g :: fs))
      (place st ({ g with addr := some (st.2 + n) } :: fs)) := by
  by_cases hn : n ≤ usizeMax
  · rw [toPField_gapRegion reg hu vis doc n hn]
    exact gap_vs_address_RR st _ n g fs hg
  · have e1 : place st (toPField reg none (gapRegion vis doc n) :: g :: fs) = .defer := by
      rw [place_cons]
      simp only [placeStep, toPField, pushField, push, gapRegion, RTy.size, size_u8arr reg hu n, hn, if_false,
        Res.bind]
    have e2 : place st ({ g with addr := some (st.2 + n) } :: fs) = .defer := by
      rw [place_cons]
      have h1 : ¬ (st.2 + n < st.2) := by omega
      have h2 : st.2 + n - st.2 = n := by omega
      have h3 : ¬ (n = 0) := by intro h; rw [h] at hn; exact hn (Nat.zero_le _)
      have h4 : ¬ (st.2 + n ≤ usizeMax) := by omega
      simp only [placeStep, h1, if_false, h2, pushPad, push, h3, false_and, h4, Res.bind]
    rw [e1, e2]
    trivial

theorem LR.sum_eq {r : Region} {n : Nat} {a b : List (Placed Region)} (h : LR r n a b) :
    sumSizes a = sumSizes b := by
  have := h.map_eq
  have h2 := congrArg (fun l => (l.map Prod.fst).sum) this
  simpa [sumSizes, List.map_map, Function.comp_def] using h2

/-- `resolve` on two field lists whose placements are related -/
theorem resolveFrom_RR (r : Region) (n : Nat) (start : Res (St Region)) (fs fs' : List (PField Region))
    (target : Option Nat) (h : ∀ st0, start = .ok st0 → RR r n (place st0 fs) (place st0 fs')) :
    RR r n (resolveFrom start fs target) (resolveFrom start fs' target) := by
  cases start with
  | ok st0 =>
    have hp := h st0 rfl
    unfold resolveFrom
    simp only []
    cases h1 : place st0 fs <;> cases h2 : place st0 fs' <;> rw [h1, h2] at hp <;> simp only [RR] at hp
      <;> simp only [RR]
    · next a b =>
      have ht : RR r n (padTail a target) (padTail b target) := by
        unfold padTail
        cases target with
        | none => exact hp
        | some t =>
          simp only [← hp.1]
          by_cases c : a.2 < t
          · simp only [c, if_true]; exact push_congr r n a b hp _ _ _ _
          · simp only [c, if_false]; exact hp
      cases h3 : padTail a target <;> cases h4 : padTail b target <;> rw [h3, h4] at ht <;> simp only [RR] at ht
        <;> simp only []
      · next a2 b2 =>
        rw [← ht.2.sum_eq]
        cases target with
        | none => exact ⟨rfl, ht.2⟩
        | some t =>
          simp only []
          by_cases c : sumSizes a2.1 ≠ t
          · rw [if_pos c, if_pos c]
          · rw [if_neg c, if_neg c]; exact ⟨rfl, ht.2⟩
      · exact ht
      · exact ht
    · exact hp
    · exact hp
  | defer => trivial
  | err m => rfl
  | panic m => rfl

/-! ## the naming pass and the alignment block on related placements -/

theorem PR.size_eq {r : Region} {n : Nat} {p q : Placed Region} (h : PR r n p q) : p.size = q.size := by
  rcases h with rfl | ⟨_, _, h1, h2, _⟩
  · rfl
  · rw [h1, h2]

theorem PR.align_eq {r : Region} {n : Nat} {p q : Placed Region} (h : PR r n p q) : p.align = q.align := by
  rcases h with rfl | ⟨_, _, _, _, h3⟩
  · rfl
  · exact h3

/-- the naming pass does not see the difference between the source gap and generated padding -/
theorem nameRegions_LR (reg : Registry) (r : Region) (n : Nat) (hr : IsGapRegion reg r n)
    (ps qs : List (Placed Region)) (h : LR r n ps qs) (off : Nat) :
    nameRegions reg off ps = nameRegions reg off qs := by
  induction h generalizing off with
  | nil => rfl
  | @cons p q ps qs hp _ ih =>
    rcases hp with rfl | ⟨h1, h2, h3, h4, _⟩
    · rw [nameRegions.eq_def]
      conv => rhs; rw [nameRegions.eq_def]
      simp only [ih]
    · obtain ⟨hn, _, t, ht, hty⟩ := hr
      rw [nameRegions.eq_def]
      conv => rhs; rw [nameRegions.eq_def]
      simp only [h1, h2, h3, h4, ht, hn, hty, ih]

theorem lcmAll_LR {r : Region} {n : Nat} {ps qs : List (Placed Region)} (h : LR r n ps qs) :
    lcmAll ps = lcmAll qs := by
  unfold lcmAll
  generalize (1 : Nat) = acc
  induction h generalizing acc with
  | nil => rfl
  | cons hp _ ih =>
    simp only [Res.foldlM, hp.align_eq]
    split
    · exact ih _
    · rfl
    · rfl
    · rfl

theorem fieldsAligned_LR {r : Region} {n : Nat} {ps qs : List (Placed Region)} (h : LR r n ps qs) (off : Nat) :
    fieldsAligned off ps = fieldsAligned off qs := by
  induction h generalizing off with
  | nil => rfl
  | cons hp _ ih =>
    simp only [fieldsAligned, hp.align_eq, hp.size_eq, ih]

theorem requestedAlign_LR {r : Region} {n : Nat} {ps qs : List (Placed Region)} (h : LR r n ps qs) (ps0 : Nat)
    (al : Option Nat) : requestedAlign ps0 al ps = requestedAlign ps0 al qs := by
  cases h with
  | nil => rfl
  | cons hp ht =>
    cases ht with
    | nil => simp only [requestedAlign, hp.align_eq]
    | cons _ _ => rfl

/-- the alignment block looks at the sizes and alignments of the placed regions only -/
theorem alignCheck_LR {r : Region} {n : Nat} {ps qs : List (Placed Region)} (h : LR r n ps qs) (ps0 : Nat)
    (packed : Bool) (al : Option Nat) (size : Nat) :
    alignCheck ps0 packed al ps size = alignCheck ps0 packed al qs size := by
  unfold alignCheck
  rw [requestedAlign_LR h, lcmAll_LR h, fieldsAligned_LR h]

/-! ## the statement loop -/

/-- the statement is a gap: an unnamed field `_: unknown<n>` (any visibility), whose attributes contain
    neither `#[base]` nor `#[address(..)]` and no malformed doc attribute -/
def IsGapStmt (gap : G.Stmt) (n : Nat) : Prop :=
  (∃ vis, gap.field = .field vis "_" (.unk n)) ∧ (G.docOf gap.attrs).isSome = true ∧
    Res.foldlM fieldAttrStep {} gap.attrs = .ok {}

/-- the statement accumulators of the two descriptions: the same, except that the `K`-th pending field is the
    gap region `gr` in the first, and is absent from the second, where the field after it carries the address `A` -/
def GR (gr : Region) (A K : Nat) (acc acc' : StmtAcc) : Prop :=
  acc'.vfns = acc.vfns ∧ ∃ ppre r ppost, ppre.length = K ∧
    acc.pending = ppre ++ (none, gr) :: (none, r) :: ppost ∧ acc'.pending = ppre ++ (some A, r) :: ppost

theorem none_beq_ident (ident : Option String) (h : ident.isSome = true) : ((none : Option String) == ident) = false := by
  cases ident with
  | none => cases h
  | some x => rfl

theorem GR.names {gr : Region} {A K : Nat} {acc acc' : StmtAcc} (h : GR gr A K acc acc') (hn : gr.name = none)
    (ident : Option String) :
    (ident.isSome && acc'.pending.any (fun p => p.2.name == ident))
      = (ident.isSome && acc.pending.any (fun p => p.2.name == ident)) := by
  obtain ⟨_, ppre, r, ppost, _, h1, h2⟩ := h
  rw [h1, h2]
  cases hi : ident.isSome with
  | false => rfl
  | true => simp only [List.any_append, List.any_cons, hn, none_beq_ident ident hi, Bool.false_or]

/-- a statement after the gap: visited at different (non-zero) positions, from related accumulators -/
theorem stmtStep_GR (gr : Region) (hn : gr.name = none) (A K : Nat) (reg : Registry) (scope : List Path)
    (acc acc' : StmtAcc) (h : GR gr A K acc acc') (idx idx' : Nat) (hi : idx ≠ 0) (hi' : idx' ≠ 0) (st : G.Stmt) :
    RelRes (GR gr A K) (stmtStep reg scope acc (idx, st)) (stmtStep reg scope acc' (idx', st)) := by
  unfold stmtStep
  simp only []
  cases hf : st.field with
  | field vis name ty =>
    simp only []
    cases G.docOf st.attrs with
    | none => exact Or.inl ⟨rfl, fun a h => by cases h⟩
    | some doc =>
      simp only []
      cases Res.foldlM fieldAttrStep {} st.attrs with
      | ok fa =>
        simp only []
        by_cases hb : (fa.isBase && name == "_") = true
        · rw [if_pos hb, if_pos hb]; exact Or.inl ⟨rfl, fun a h => by cases h⟩
        · rw [if_neg hb, if_neg hb]
          cases reg.resolveTy scope ty with
          | ok t =>
            simp only []
            generalize (if (name != "_") = true then some name else none) = ident
            rw [h.names hn ident]
            by_cases hd : (ident.isSome && acc.pending.any fun p => p.2.name == ident) = true
            · rw [if_pos hd, if_pos hd]; exact Or.inl ⟨rfl, fun a h => by cases h⟩
            · rw [if_neg hd, if_neg hd]
              refine Or.inr ⟨_, _, rfl, rfl, h.1, ?_⟩
              obtain ⟨_, ppre, r, ppost, hk, h1, h2⟩ := h
              exact ⟨ppre, r, ppost ++ [(fa.address, { vis, name := ident, doc, ty := .data t, isBase := fa.isBase })],
                hk, by simp [h1], by simp [h2]⟩
          | defer => exact Or.inl ⟨rfl, fun a h => by cases h⟩
          | err m => exact Or.inl ⟨rfl, fun a h => by cases h⟩
          | panic m => exact Or.inl ⟨rfl, fun a h => by cases h⟩
      | defer => exact Or.inl ⟨rfl, fun a h => by cases h⟩
      | err m => exact Or.inl ⟨rfl, fun a h => by cases h⟩
      | panic m => exact Or.inl ⟨rfl, fun a h => by cases h⟩
  | vftable fns =>
    have e1 : (idx != 0) = true := by simpa using hi
    have e2 : (idx' != 0) = true := by simpa using hi'
    simp only [e1, e2, if_true]
    exact Or.inl ⟨rfl, fun a h => by cases h⟩

/-- the statements after the gap -/
theorem fold_GR (gr : Region) (hn : gr.name = none) (A K : Nat) (reg : Registry) (scope : List Path)
    (l : List G.Stmt) (i j : Nat) (acc acc' : StmtAcc) (h : GR gr A K acc acc') :
    RelRes (GR gr A K)
      (Res.foldlM (stmtStep reg scope) acc ((l.zipIdx (i + 1)).map fun p => (p.2, p.1)))
      (Res.foldlM (stmtStep reg scope) acc' ((l.zipIdx (j + 1)).map fun p => (p.2, p.1))) := by
  induction l generalizing i j acc acc' with
  | nil => exact Or.inr ⟨acc, acc', rfl, rfl, h⟩
  | cons a l ih =>
    simp only [List.zipIdx_cons, List.map_cons, Res.foldlM]
    rcases stmtStep_GR gr hn A K reg scope acc acc' h (i + 1) (j + 1) (by omega) (by omega) a
      with ⟨he, hne⟩ | ⟨c, c', h1, h2, hr⟩
    · rw [← he]
      cases hx : stmtStep reg scope acc (i + 1, a) with
      | ok c => exact (hne c hx).elim
      | defer => exact Or.inl ⟨rfl, fun a h => by cases h⟩
      | err m => exact Or.inl ⟨rfl, fun a h => by cases h⟩
      | panic m => exact Or.inl ⟨rfl, fun a h => by cases h⟩
    · rw [h1, h2]
      exact ih (i + 1) (j + 1) c c' hr

/-- the gap statement adds the gap region to the pending fields -/
theorem stmtStep_gapStmt (reg : Registry) (hu : U8ok reg) (scope : List Path) (acc : StmtAcc) (idx : Nat)
    (gap : G.Stmt) (n : Nat) (vis : G.Vis) (doc : Option String)
    (hf : gap.field = .field vis "_" (.unk n)) (hdoc : G.docOf gap.attrs = some doc)
    (hfa : Res.foldlM fieldAttrStep {} gap.attrs = .ok {}) :
    stmtStep reg scope acc (idx, gap)
      = .ok { acc with pending := acc.pending ++ [(none, gapRegion vis doc n)] } := by
  unfold stmtStep
  simp only [hf, hdoc, hfa, Registry.resolveTy, paddingType_u8ok reg hu n]
  simp [gapRegion]

theorem any_gap (gr : Region) (hn : gr.name = none) (l : List (Option Nat × Region)) (ident : Option String) :
    (ident.isSome && (l ++ [(none, gr)]).any (fun p => p.2.name == ident))
      = (ident.isSome && l.any (fun p => p.2.name == ident)) := by
  cases hi : ident.isSome with
  | false => rfl
  | true => simp only [List.any_append, List.any_cons, List.any_nil, hn, none_beq_ident ident hi, Bool.or_false]

/-- the field after the gap, against the same field with the address, from the accumulator before the gap -/
theorem stmtStep_gap_st (gr : Region) (hn : gr.name = none) (A : Nat) (reg : Registry) (scope : List Path)
    (acc : StmtAcc) (idx idx' : Nat) (st : G.Stmt) (vis : G.Vis) (name : String) (ty : G.Ty)
    (hf : st.field = .field vis name ty) (hna : NoAddrAttr st) :
    RelRes (GR gr A acc.pending.length)
      (stmtStep reg scope { acc with pending := acc.pending ++ [(none, gr)] } (idx, st))
      (stmtStep reg scope acc (idx', withAddr st A)) := by
  unfold stmtStep
  simp only [show (withAddr st A).field = st.field from rfl, hf]
  rw [show (withAddr st A).attrs = st.attrs ++ [addrAttr A] from rfl, addrAttr, docOf_append_fn]
  cases G.docOf st.attrs with
  | none => exact Or.inl ⟨rfl, fun a h => by cases h⟩
  | some doc =>
    simp only []
    have hfa := fieldAttrs_withAddr st A
    rw [show (withAddr st A).attrs = st.attrs ++ [addrAttr A] from rfl, addrAttr] at hfa
    rw [hfa]
    cases hfold : Res.foldlM fieldAttrStep {} st.attrs with
    | ok fa =>
      simp only [Res.bind]
      by_cases hb : (fa.isBase && name == "_") = true
      · rw [if_pos hb, if_pos hb]; exact Or.inl ⟨rfl, fun a h => by cases h⟩
      · rw [if_neg hb, if_neg hb]
        cases reg.resolveTy scope ty with
        | ok t =>
          simp only []
          generalize (if (name != "_") = true then some name else none) = ident
          rw [any_gap gr hn acc.pending ident]
          by_cases hd : (ident.isSome && acc.pending.any fun p => p.2.name == ident) = true
          · rw [if_pos hd, if_pos hd]; exact Or.inl ⟨rfl, fun a h => by cases h⟩
          · rw [if_neg hd, if_neg hd]
            refine Or.inr ⟨_, _, rfl, rfl, rfl, ?_⟩
            exact ⟨acc.pending, _, [], rfl, by rw [hna fa hfold]; simp, rfl⟩
        | defer => exact Or.inl ⟨rfl, fun a h => by cases h⟩
        | err m => exact Or.inl ⟨rfl, fun a h => by cases h⟩
        | panic m => exact Or.inl ⟨rfl, fun a h => by cases h⟩
    | defer => exact Or.inl ⟨rfl, fun a h => by cases h⟩
    | err m => exact Or.inl ⟨rfl, fun a h => by cases h⟩
    | panic m => exact Or.inl ⟨rfl, fun a h => by cases h⟩

/-- the statement loop of the two descriptions -/
theorem stmtFold_gap (A : Nat) (reg : Registry) (hu : U8ok reg) (scope : List Path) (spre spost : List G.Stmt)
    (gap st : G.Stmt) (n : Nat) (gvis : G.Vis) (gdoc : Option String)
    (hgf : gap.field = .field gvis "_" (.unk n)) (hgdoc : G.docOf gap.attrs = some gdoc)
    (hgfa : Res.foldlM fieldAttrStep {} gap.attrs = .ok {})
    (vis : G.Vis) (name : String) (ty : G.Ty) (hf : st.field = .field vis name ty) (hna : NoAddrAttr st) :
    RelRes (GR (gapRegion gvis gdoc n) A (spre.filter C01.isFieldStmt).length)
      (Res.foldlM (stmtStep reg scope) {} ((spre ++ gap :: st :: spost).zipIdx.map fun p => (p.2, p.1)))
      (Res.foldlM (stmtStep reg scope) {} ((spre ++ withAddr st A :: spost).zipIdx.map fun p => (p.2, p.1))) := by
  simp only [List.zipIdx_append, List.zipIdx_cons, List.map_append, List.map_cons, foldlM_append]
  cases hp : Res.foldlM (stmtStep reg scope) {} (List.map (fun p => (p.2, p.1)) spre.zipIdx) with
  | ok acc =>
    have hlen : acc.pending.length = (spre.filter C01.isFieldStmt).length := by
      have := C01.stmts_pending reg scope _ {} acc hp
      rw [C01.zipIdx_swap_snd] at this
      simpa using this
    simp only [Res.bind, Res.foldlM]
    rw [stmtStep_gapStmt reg hu scope acc (0 + spre.length) gap n gvis gdoc hgf hgdoc hgfa]
    simp only []
    rcases stmtStep_gap_st (gapRegion gvis gdoc n) rfl A reg scope acc (0 + spre.length + 1) (0 + spre.length)
        st vis name ty hf hna with ⟨he, hne⟩ | ⟨a, a', h1, h2, hr⟩
    · rw [← he]
      cases hx : stmtStep reg scope { acc with pending := acc.pending ++ [(none, gapRegion gvis gdoc n)] }
          (0 + spre.length + 1, st) with
      | ok c => exact (hne c hx).elim
      | defer => exact Or.inl ⟨rfl, fun a h => by cases h⟩
      | err m => exact Or.inl ⟨rfl, fun a h => by cases h⟩
      | panic m => exact Or.inl ⟨rfl, fun a h => by cases h⟩
    · rw [h1, h2]
      rw [hlen] at hr
      exact fold_GR (gapRegion gvis gdoc n) rfl A _ reg scope spost (0 + spre.length + 1) (0 + spre.length) a a' hr
  | defer => exact Or.inl ⟨rfl, fun a h => by cases h⟩
  | err m => exact Or.inl ⟨rfl, fun a h => by cases h⟩
  | panic m => exact Or.inl ⟨rfl, fun a h => by cases h⟩

/-! ## `resolve_regions` and `type_definition::build` -/

/-- two results of `resolve_regions`: the same regions, vftable and size; placements related by `LR` -/
def OR (r : Region) (n : Nat) (x y : RROut) : Prop :=
  x.1 = y.1 ∧ x.2.1 = y.2.1 ∧ x.2.2.1 = y.2.2.1 ∧ LR r n x.2.2.2 y.2.2.2

theorem rrTail_gap (reg : Registry) (hu : U8ok reg) (ppre ppost : List (Option Nat × Region)) (gvis : G.Vis)
    (gdoc : Option String) (n : Nat) (r : Region) (A : Nat) (target : Option Nat) (vft : Option Vft)
    (vregion : Option Region)
    (hc : ∀ st0 st1, placeStart reg vregion = .ok st0 →
      place st0 (ppre.map fun p => toPField reg p.1 p.2) = .ok st1 → st1.2 + n = A) :
    RelRes (OR (gapRegion gvis gdoc n) n)
      (rrTail reg (ppre ++ (none, gapRegion gvis gdoc n) :: (none, r) :: ppost) target vft vregion)
      (rrTail reg (ppre ++ (some A, r) :: ppost) target vft vregion) := by
  have hRR : RR (gapRegion gvis gdoc n) n
      (resolveFrom (placeStart reg vregion)
        ((ppre ++ (none, gapRegion gvis gdoc n) :: (none, r) :: ppost).map fun p => toPField reg p.1 p.2) target)
      (resolveFrom (placeStart reg vregion)
        ((ppre ++ (some A, r) :: ppost).map fun p => toPField reg p.1 p.2) target) := by
    apply resolveFrom_RR
    intro st0 h0
    simp only [List.map_append, List.map_cons, place_append]
    cases hp : place st0 (ppre.map fun p => toPField reg p.1 p.2) with
    | ok st1 =>
      simp only [Res.bind]
      have h := gap_place reg hu gvis gdoc n st1 (toPField reg none r)
        (ppost.map fun p => toPField reg p.1 p.2) rfl
      rw [hc st0 st1 h0 hp] at h
      exact h
    | defer => trivial
    | err m => rfl
    | panic m => rfl
  unfold rrTail
  simp only [resolve_placeStart]
  revert hRR
  generalize resolveFrom (placeStart reg vregion)
    ((ppre ++ (none, gapRegion gvis gdoc n) :: (none, r) :: ppost).map fun p => toPField reg p.1 p.2) target = X
  generalize resolveFrom (placeStart reg vregion)
    ((ppre ++ (some A, r) :: ppost).map fun p => toPField reg p.1 p.2) target = Y
  intro hRR
  cases X <;> cases Y <;> simp only [RR] at hRR
  · next a b =>
    obtain ⟨pa, sa⟩ := a
    obtain ⟨pb, sb⟩ := b
    obtain ⟨hsz, hlr⟩ := hRR
    simp only [] at hsz hlr ⊢
    rw [nameRegions_LR reg _ n (gapRegion_isGap reg hu gvis gdoc n) pa pb hlr 0]
    cases nameRegions reg 0 pb with
    | ok regions => exact Or.inr ⟨_, _, rfl, rfl, rfl, rfl, hsz, hlr⟩
    | defer => exact Or.inl ⟨rfl, fun a h => by cases h⟩
    | err m => exact Or.inl ⟨rfl, fun a h => by cases h⟩
    | panic m => exact Or.inl ⟨rfl, fun a h => by cases h⟩
  · exact Or.inl ⟨rfl, fun a h => by cases h⟩
  · subst hRR; exact Or.inl ⟨rfl, fun a h => by cases h⟩
  · subst hRR; exact Or.inl ⟨rfl, fun a h => by cases h⟩

theorem resolveRegions_fb (s : State) (owner : Path) (vis : Vis) (target : Option Nat)
    (pending : List (Option Nat × Region)) (vfns : Option (List SFunc)) (fb : Option Region)
    (hfb : (pending.map (·.2)).find? (·.isBase) = fb) :
    resolveRegions s owner vis target pending vfns =
      match (match fb with | some b => b.ty.size s.reg | none => .ok (some 0)) with
      | .ok none => (s, .defer)
      | .defer => (s, .defer)
      | .err m => (s, .err m)
      | .panic m => (s, .panic m)
      | .ok (some _) =>
        match buildVftable s owner vis fb vfns with
        | (s1, .ok (vft, vregion)) => (s1, rrTail s1.reg pending target vft vregion)
        | (s1, e) => (s1, e.cast) := by
  subst hfb
  rfl

theorem btAfter_OR (s1 : State) (path : Path) (doc : Option String) (ta : TypeAttrs) (r : Region) (n : Nat)
    (a b : RROut) (h : OR r n a b) : btAfter s1 path doc ta a = btAfter s1 path doc ta b := by
  obtain ⟨a1, a2, a3, a4⟩ := a
  obtain ⟨b1, b2, b3, b4⟩ := b
  obtain ⟨h1, h2, h3, h4⟩ := h
  simp only [] at h1 h2 h3 h4
  subst h1 h2 h3
  unfold btAfter
  simp only [alignCheck_LR h4]

theorem btCore_gap (s : State) (path : Path) (vis : Vis) (doc : Option String) (ta : TypeAttrs)
    (target : Option Nat) (sa sa' : StmtAcc) (gvis : G.Vis) (gdoc : Option String) (n A K : Nat)
    (hu : U8ok s.reg) (har : GR (gapRegion gvis gdoc n) A K sa sa')
    (hc : ∀ s1 vft vregion st0 st1,
      buildVftable s path vis ((sa.pending.map (·.2)).find? (·.isBase)) sa.vfns = (s1, .ok (vft, vregion)) →
      placeStart s1.reg vregion = .ok st0 →
      place st0 ((sa.pending.take K).map fun p => toPField s1.reg p.1 p.2) = .ok st1 → st1.2 + n = A) :
    btCore s path vis doc ta target sa' = btCore s path vis doc ta target sa := by
  obtain ⟨hv, ppre, r, ppost, hk, h1, h2⟩ := har
  have hfb : (sa'.pending.map (·.2)).find? (·.isBase) = (sa.pending.map (·.2)).find? (·.isBase) := by
    rw [h1, h2]
    simp [List.find?_append, gapRegion]
  unfold btCore
  rw [resolveRegions_fb s path vis target sa'.pending sa'.vfns _ hfb,
      resolveRegions_fb s path vis target sa.pending sa.vfns _ rfl, hv]
  generalize hfbd : (sa.pending.map (·.2)).find? (·.isBase) = fb at hc
  generalize (match fb with | some b => b.ty.size s.reg | none => Res.ok (some 0)) = X
  cases X with
  | ok o =>
    cases o with
    | none => rfl
    | some v =>
      simp only []
      have hu1 := u8ok_buildVftable s path vis fb sa.vfns hu
      cases hb : buildVftable s path vis fb sa.vfns with
      | mk s1 res =>
        rw [hb] at hu1
        cases res with
        | ok x =>
          obtain ⟨vft, vregion⟩ := x
          simp only []
          rw [h1, h2]
          have hrel := rrTail_gap s1.reg hu1 ppre ppost gvis gdoc n r A target vft vregion (by
            intro st0 st1 h0 hp
            refine hc s1 vft vregion st0 st1 hb h0 ?_
            rw [h1, List.take_left' hk]
            exact hp)
          rcases hrel with ⟨he, hne⟩ | ⟨a, b, e1, e2, hor⟩
          · rw [← he]
          · rw [e1, e2]
            simp only []
            rw [btAfter_OR s1 path doc ta _ n a b hor]
        | defer => rfl
        | err m => rfl
        | panic m => rfl
  | defer => rfl
  | err m => rfl
  | panic m => rfl

/-- one attempt: in a state in which `u8` is the predefined type and the natural offset of the gap, if
    determined, is `A - n`, `type_definition::build` gives the same answer and the same new state -/
theorem buildType_gap (s : State) (path : Path) (vis : Vis) (td : G.TypeDef) (spre spost : List G.Stmt)
    (gap st : G.Stmt) (fvis : G.Vis) (name : String) (ty : G.Ty) (n A : Nat) (hu : U8ok s.reg)
    (hs : td.stmts = spre ++ gap :: st :: spost) (hgap : IsGapStmt gap n)
    (hf : st.field = .field fvis name ty) (hna : NoAddrAttr st)
    (hoff : ∀ a, naturalOffset s path vis td (spre.filter C01.isFieldStmt).length = some a → a + n = A) :
    buildType s path vis { td with stmts := spre ++ withAddr st A :: spost } = buildType s path vis td := by
  obtain ⟨⟨gvis, hgf⟩, hgd, hgfa⟩ := hgap
  obtain ⟨gdoc, hgdoc⟩ := Option.isSome_iff_exists.mp hgd
  cases h1 : s.moduleFor path with
  | none => unfold buildType; simp only [h1]
  | some module =>
    cases h2 : G.docOf td.attrs with
    | none => unfold buildType; simp only [h1, h2]
    | some doc =>
      cases h3 : Res.foldlM typeAttrStep {} td.attrs with
      | ok ta =>
        rcases stmtFold_gap A s.reg hu module.scope spre spost gap st n gvis gdoc hgf hgdoc hgfa fvis name ty hf hna
          with ⟨he, hn⟩ | ⟨sa, sa', e1, e2, har⟩
        · unfold buildType
          simp only [h1, h2, h3, hs, ← he]
        · rw [← hs] at e1
          rw [buildType_core s path vis td module doc ta sa h1 h2 h3 e1,
              buildType_core s path vis { td with stmts := spre ++ withAddr st A :: spost } module doc ta sa' h1 h2 h3 e2]
          refine btCore_gap s path vis doc ta ta.targetSize sa sa' gvis gdoc n A _ hu har ?_
          intro s1 vft vregion st0 st1 hb h0 hp
          apply hoff
          unfold naturalOffset
          simp only [h1, e1, hb, h0, hp]
      | defer => unfold buildType; simp only [h1, h2, h3]
      | err m => unfold buildType; simp only [h1, h2, h3]
      | panic m => unfold buildType; simp only [h1, h2, h3]

/-! ## whole cases -/

/-- a field statement (not a `vftable` block) without an `#[address(..)]` attribute -/
def IsPlainFieldStmt (st : G.Stmt) : Prop := C01.isFieldStmt st = true ∧ NoAddrAttr st

theorem IsPlainFieldStmt.field {st : G.Stmt} (h : IsPlainFieldStmt st) :
    ∃ vis name ty, st.field = .field vis name ty := by
  have h1 := h.1
  unfold C01.isFieldStmt at h1
  cases hf : st.field with
  | field vis name ty => exact ⟨vis, name, ty, rfl⟩
  | vftable fns => rw [hf] at h1; cases h1

/-- the definition `d` (a type) with the gap statement (`_gap`, at position `spre.length`) removed and
    `#[address(A)]` added to the field statement `st` that followed it -/
def gapRewrite (d : G.Item) (td : G.TypeDef) (spre spost : List G.Stmt) (_gap st : G.Stmt) (A : Nat) : G.Item :=
  { d with inner := .type { td with stmts := spre ++ withAddr st A :: spost } }

theorem gap_to_address_run_lem (c c' : Case) (p : Path) (d : G.Item) (td : G.TypeDef) (spre spost : List G.Stmt)
    (gap st : G.Stmt) (n A : Nat)
    (hd : d.inner = .type td) (hs : td.stmts = spre ++ gap :: st :: spost)
    (hgap : IsGapStmt gap n) (hst : IsPlainFieldStmt st)
    (hrep : ReplacedDef c c' p d (gapRewrite d td spre spost gap st A))
    (hside : ∀ s, Visited c s → ∀ i, s.reg.get p = some i → i.state = .unres d →
      ∀ a, naturalOffset s p d.vis td (spre.filter C01.isFieldStmt).length = some a → a + n = A) :
    c'.run = mapO (swapS p d (gapRewrite d td spre spost gap st A)) c.run := by
  obtain ⟨fvis, name, ty, hf⟩ := hst.field
  refine run_replaced_on c c' p d _ hrep rfl rfl ?_ (Visited c) (fun s0 h0 => .init s0 h0)
    (fun s q hs => .step s q hs) ?_
  · unfold isTypeDef gapRewrite; rw [hd]
  · intro s hv i hg hst'
    have e1 : attemptDef s p d = buildType s p d.vis td := by unfold attemptDef; rw [hd]
    have e2 : attemptDef s p (gapRewrite d td spre spost gap st A)
        = buildType s p d.vis { td with stmts := spre ++ withAddr st A :: spost } := rfl
    rw [e1, e2]
    exact buildType_gap s p d.vis td spre spost gap st fvis name ty n A (u8ok_visited c s hv) hs hgap hf hst.2
      (hside s hv i hg hst')

/-- `ReplacedDef` read in the other direction -/
theorem ReplacedDef.symm {c c' : Case} {p : Path} {d d' : G.Item} (h : ReplacedDef c c' p d d')
    (hname : d'.name = d.name) : ReplacedDef c' c p d' d := by
  obtain ⟨j, k, path, file, m, hj, hk, hp, rfl⟩ := h
  obtain ⟨hjl, hje⟩ := List.getElem?_eq_some_iff.mp hj
  obtain ⟨hkl, hke⟩ := List.getElem?_eq_some_iff.mp hk
  refine ⟨j, k, path, file, { m with defs := m.defs.set k d' }, ?_, ?_, ?_, ?_⟩
  · simp [hjl]
  · simp [hkl]
  · rw [hname]; exact hp
  · have e1 : (m.defs.set k d').set k d = m.defs := by
      rw [List.set_set, ← hke]; exact List.set_getElem_self hkl
    have e2 : (c.modules.set j (.ast path file { m with defs := m.defs.set k d' })).set j (.ast path file m)
        = c.modules := by
      rw [List.set_set, ← hje]; exact List.set_getElem_self hjl
    simp only [e1]
    rw [show ({ m with defs := m.defs } : G.Module) = m from rfl, e2]

/-- the states a case can visit when `p` is the only unresolved item and one attempt resolves it:
    the initial state, and states in which `p` is resolved -/
theorem visited_single (c : Case) (p : Path) (s0 : State) (h0 : c.initialState = .ok s0)
    (hall : s0.reg.types.all (fun e => e.1 == p || e.2.isResolved) = true)
    (hres : (((attemptItem s0 p).1.reg.get p).bind (·.resolved?)).isSome = true)
    (s : State) (hv : Visited c s) : s = s0 ∨ ∃ i r, s.reg.get p = some i ∧ i.state = .res r := by
  induction hv with
  | init s1 h1 => rw [h0] at h1; cases h1; exact Or.inl rfl
  | step s q _ ih =>
    rcases ih with rfl | ⟨i, r, hg, hr⟩
    · by_cases hq : q = p
      · subst hq
        right
        cases hg : (attemptItem s q).1.reg.get q with
        | none => rw [hg] at hres; cases hres
        | some i =>
          rw [hg] at hres
          simp only [Option.bind_some, ItemDef.resolved?] at hres
          cases hst : i.state with
          | unres d => rw [hst] at hres; cases hres
          | res r => exact ⟨i, r, rfl, hst⟩
      · left
        rw [attemptItem_eq]
        cases hg : s.reg.get q with
        | none => rfl
        | some item =>
          simp only []
          have hm := C14.mem_of_lookup s.reg.types q item hg
          have := List.all_eq_true.mp hall _ hm
          simp only [Bool.or_eq_true, beq_iff_eq, hq, false_or] at this
          unfold ItemDef.isResolved ItemDef.resolved? at this
          cases hst : item.state with
          | unres d => rw [hst] at this; cases this
          | res r => rfl
    · exact Or.inr ⟨i, r, attemptItem_keeps p s q i r hg hr, hr⟩

/-! ## `IsGapStmt`, syntactically -/

theorem fieldAttrStep_other (fa : FieldAttrs) (a : G.Attr) (h1 : a ≠ .ident "base")
    (h2 : ∀ args, a ≠ .fn "address" args) : fieldAttrStep fa a = .ok fa := by
  unfold fieldAttrStep
  split
  · exact (h1 rfl).elim
  · exact (h2 _ rfl).elim
  · rfl

theorem fieldAttrs_other (l : List G.Attr) (fa : FieldAttrs)
    (h : ∀ a ∈ l, a ≠ .ident "base" ∧ ∀ args, a ≠ .fn "address" args) :
    Res.foldlM fieldAttrStep fa l = .ok fa := by
  induction l with
  | nil => rfl
  | cons a l ih =>
    simp only [Res.foldlM]
    rw [fieldAttrStep_other fa a (h a List.mem_cons_self).1 (h a List.mem_cons_self).2]
    exact ih (fun b hb => h b (List.mem_cons_of_mem _ hb))

/-- the step of the fold in `G.docOf` -/
def docStep (acc : Option (Option String)) (a : G.Attr) : Option (Option String) :=
  match acc with
  | none => none
  | some doc =>
    match a with
    | .assign "doc" (.str v) =>
      match doc with
      | none => some (some v)
      | some d => some (some (d ++ "\n" ++ v))
    | .assign "doc" _ => none
    | _ => some doc

theorem docOf_eq_fold (l : List G.Attr) : G.docOf l = l.foldl docStep (some none) := rfl

theorem docStep_isSome (acc : Option (Option String)) (a : G.Attr) (ha : acc.isSome = true)
    (h : ∀ e, a = .assign "doc" e → ∃ v, e = .str v) : (docStep acc a).isSome = true := by
  cases acc with
  | none => cases ha
  | some doc =>
    unfold docStep
    simp only []
    split
    · cases doc <;> rfl
    · next e hne =>
      obtain ⟨v, hv⟩ := h e rfl
      exact (hne v hv).elim
    · rfl

theorem docOf_isSome (l : List G.Attr) (h : ∀ a ∈ l, ∀ e, a = .assign "doc" e → ∃ v, e = .str v) :
    (G.docOf l).isSome = true := by
  rw [docOf_eq_fold]
  have H : ∀ acc : Option (Option String), acc.isSome = true → (l.foldl docStep acc).isSome = true := by
    induction l with
    | nil => intro acc ha; exact ha
    | cons a l ih =>
      intro acc ha
      simp only [List.foldl_cons]
      exact ih (fun b hb => h b (List.mem_cons_of_mem _ hb)) _
        (docStep_isSome acc a ha (h a List.mem_cons_self))
  exact H _ rfl

/-- a `_: unknown<n>` statement whose attributes are doc comments and attributes other than `#[base]`,
    `#[address(..)]` is a gap statement; in particular the plain `_: unknown<n>` -/
theorem isGapStmt_of_attrs (vis : G.Vis) (n : Nat) (attrs : List G.Attr)
    (h : ∀ a ∈ attrs, a ≠ .ident "base" ∧ (∀ args, a ≠ .fn "address" args) ∧
      ∀ e, a = .assign "doc" e → ∃ v, e = .str v) :
    IsGapStmt { field := .field vis "_" (.unk n), attrs } n :=
  ⟨⟨vis, rfl⟩, docOf_isSome attrs (fun a ha => (h a ha).2.2),
    fieldAttrs_other attrs {} (fun a ha => ⟨(h a ha).1, (h a ha).2.1⟩)⟩

theorem isGapStmt_plain (vis : G.Vis) (n : Nat) : IsGapStmt { field := .field vis "_" (.unk n), attrs := [] } n :=
  isGapStmt_of_attrs vis n [] (fun a ha => by cases ha)

end PyxisVerif.C20
