import PyxisVerif.Spec.C07
/-! helper lemmas for C07 -/
namespace PyxisVerif.C07
open Gen

/-- the body of the loop of `addFunctions` -/
def injStep (baseName : String) (acc : InjAcc) (f : SFunc) : InjAcc :=
  let name := if acc.used.contains f.name then fmtRenamed baseName f.name else f.name
  let f' := { f with name, body := .field baseName f.name }
  { fns := acc.fns ++ [f'], used := name :: acc.used }

theorem addFunctions_nil (base : String) (acc : InjAcc) : addFunctions base acc [] = acc := rfl

theorem addFunctions_cons (base : String) (acc : InjAcc) (f : SFunc) (fs : List SFunc) :
    addFunctions base acc (f :: fs)
      = if reexposable f then addFunctions base (injStep base acc f) fs else addFunctions base acc fs := by
  unfold addFunctions
  rw [List.filter_cons]
  by_cases c : reexposable f = true
  · have c' : (f.isPublic && !f.isInternal) = true := c
    simp only [c, c', if_true, List.foldl_cons]; rfl
  · have c' : (f.isPublic && !f.isInternal) = false := by
      have : reexposable f = false := by simpa using c
      exact this
    simp only [c, c']; rfl

theorem addFunctions_spec_lem (base : String) (acc : InjAcc) (fs : List SFunc) :
    (addFunctions base acc fs).fns = acc.fns ++ specInject base acc.used fs
    ∧ (addFunctions base acc fs).used = usedAfter base acc.used fs := by
  induction fs generalizing acc with
  | nil => simp [addFunctions_nil, specInject, usedAfter]
  | cons f fs ih =>
    rw [addFunctions_cons]
    unfold specInject usedAfter
    by_cases c : reexposable f = true
    · simp only [c, if_true]
      obtain ⟨h1, h2⟩ := ih (injStep base acc f)
      rw [h1, h2]
      simp only [injStep, fmtRenamed, renamed, List.append_assoc, List.singleton_append, and_self]
    · simp only [c]
      exact ih acc

theorem every_public_reexposed_lem (base : String) (used : List String) (fs : List SFunc) (f : SFunc)
    (hf : f ∈ fs) (hp : f.vis = .pub) (hi : f.isInternal = false) :
    ∃ g ∈ specInject base used fs, g.body = .field base f.name ∧ (g.name = f.name ∨ g.name = renamed base f.name)
      ∧ g.args = f.args ∧ g.ret = f.ret ∧ g.cc = f.cc ∧ g.vis = .pub := by
  induction fs generalizing used with
  | nil => cases hf
  | cons f0 fs ih =>
    unfold specInject
    rcases List.mem_cons.mp hf with rfl | hf'
    · have c : reexposable f = true := by simp [reexposable, hp, hi]
      simp only [c, if_true]
      refine ⟨_, List.mem_cons_self, rfl, ?_, rfl, rfl, rfl, hp⟩
      by_cases c2 : used.contains f.name = true
      · right; simp only [c2, if_true]
      · left
        have c3 : used.contains f.name = false := by simpa using c2
        simp only [c3]; rfl
    · by_cases c : reexposable f0 = true
      · simp only [c, if_true]
        obtain ⟨g, hg, hh⟩ := ih _ hf'
        exact ⟨g, List.mem_cons_of_mem _ hg, hh⟩
      · simp only [c]
        exact ih _ hf'

theorem private_not_reexposed_lem (base : String) (used : List String) (fs : List SFunc) :
    ∀ g ∈ specInject base used fs, ∃ f ∈ fs, f.vis = .pub ∧ f.isInternal = false ∧ g.body = .field base f.name := by
  induction fs generalizing used with
  | nil => intro g hg; simp [specInject] at hg
  | cons f0 fs ih =>
    intro g hg
    unfold specInject at hg
    by_cases c : reexposable f0 = true
    · simp only [c, if_true] at hg
      have c2 : f0.vis = .pub ∧ f0.isInternal = false := by simpa [reexposable] using c
      rcases List.mem_cons.mp hg with rfl | hg'
      · exact ⟨f0, List.mem_cons_self, c2.1, c2.2, rfl⟩
      · obtain ⟨f, hf, hh⟩ := ih _ g hg'
        exact ⟨f, List.mem_cons_of_mem _ hf, hh⟩
    · simp only [c] at hg
      obtain ⟨f, hf, hh⟩ := ih _ g hg
      exact ⟨f, List.mem_cons_of_mem _ hf, hh⟩

theorem injectBases_step_lem (reg : Registry) (acc : InjAcc) (i : Nat) (r : Region) (name : String) (td : TypeDefn)
    (h : regionNameAndTypeDef reg r = .ok (some (name, td))) :
    Res.foldlM (fun (acc : InjAcc) (ib : Nat × Region) =>
        match regionNameAndTypeDef reg ib.2 with
        | .ok none => .ok acc
        | .ok (some (baseName, td)) =>
          let acc1 := addFunctions baseName acc td.fns
          .ok (if ib.1 > 0 then
                match td.vft with
                | some v => addFunctions baseName acc1 v.fns
                | none => acc1
              else acc1)
        | e => e.cast) acc [(i, r)]
      = .ok (let acc1 := addFunctions name acc td.fns
             if i > 0 then (match td.vft with | some v => addFunctions name acc1 v.fns | none => acc1) else acc1) := by
  simp [Res.foldlM, h]

theorem forwarder_shape_lem (f : SFunc) (fld fn : String) (h : f.body = .field fld fn) :
    ∃ hd, Emit.methodS f = Sexp.mk "method" (hd ++
      [Sexp.mk "call-field" [.str fld, .str fn, Sexp.mk "args" ((f.args.filter (!·.isSelf)).map Emit.callArgS)]]) := by
  refine ⟨[Emit.docsS f.doc, Emit.visS f.vis, .str f.name, Sexp.mk "params" (f.args.map Emit.paramS),
    Emit.optTyS f.ret], ?_⟩
  unfold Emit.methodS
  rw [h]
  rfl

theorem conversions_emitted_lem (reg : Registry) (path : Path) (size align : Nat) (vis : Vis) (td : TypeDefn) :
    let name := path.getLast?.getD ""
    let hier := Emit.dfsHierarchy reg (reg.types.length + 1) td []
    ∃ pre, Emit.typeItems reg path size align vis td = pre ++
      (hier.flatMap fun (fp, ty) =>
        if occurrences hier ty > 1 then
          [Sexp.mk "conflict" [.str ("_CONFLICTING_" ++ Emit.upper (unraw name) ++ "_" ++ "_".intercalate (fp.map fun s => Emit.upper (unraw s)))]]
        else
          [Sexp.mk "asref" [.str name, .str (Emit.rtyStr ty), Sexp.mk "fp" (fp.map .str)],
           Sexp.mk "asmut" [.str name, .str (Emit.rtyStr ty), Sexp.mk "fp" (fp.map .str)]]) ++
      [Sexp.mk "asref" [.str name, .str name, Sexp.mk "fp" []], Sexp.mk "asmut" [.str name, .str name, Sexp.mk "fp" []]] := by
  intro name hier
  unfold Emit.typeItems
  exact ⟨_, rfl⟩

theorem dfs_unfold_lem (reg : Registry) (fuel : Nat) (td : TypeDefn) (fields : List String) :
    Emit.dfsHierarchy reg (fuel + 1) td fields =
      (td.regions.filter (·.isBase)).flatMap fun r =>
        match regionNameAndTypeDef reg r with
        | .ok (some (name, btd)) => (fields ++ [name], r.ty) :: Emit.dfsHierarchy reg fuel btd (fields ++ [name])
        | _ => [] := by
  rw [Emit.dfsHierarchy]
  rfl

end PyxisVerif.C07
