import PyxisVerif.Spec.C07
/-! helper lemmas for C07 -/
namespace PyxisVerif.C07
open Gen
end PyxisVerif.C07
