import PyxisVerif.Spec.C12
/-! helper lemmas for C12 -/
namespace PyxisVerif.C12
end PyxisVerif.C12
