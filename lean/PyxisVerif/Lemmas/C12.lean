import PyxisVerif.Spec.C12
import PyxisVerif.Lemmas.C02
import PyxisVerif.Lemmas.C04
import PyxisVerif.Lemmas.C10
import PyxisVerif.Lemmas.Layout
/-! helper lemmas for C12 -/
namespace PyxisVerif.C12
open C09

/-! ## definitions used by the `_partial` statements

The model keeps integer literals as unbounded `Int`s; pyxis (and the parser model, `Parser.lean:213`)
only ever produces literals in `isize` range.  The alignment bound `≤ 2 ^ 63` of `RegOk.aligns` – which
is what excludes the overflow panic of `util::lcm` – needs that range for the `#[align(N)]` attributes
of type definitions and extern types. -/

/-- every integer literal of an attribute list is in `isize` range -/
def AttrsBounded (attrs : List G.Attr) : Prop :=
  ∀ n args z, G.Attr.fn n args ∈ attrs → G.Expr.int z ∈ args → isizeMin ≤ z ∧ z ≤ isizeMax

/-- the attributes of a type definition carry `isize` literals -/
def ItemBounded (d : G.Item) : Prop :=
  match d.inner with
  | .type td => AttrsBounded td.attrs
  | .enum _ => True

/-- the attributes of the type definitions and extern types of a module carry `isize` literals -/
structure ModuleBounded (m : G.Module) : Prop where
  defs : ∀ d ∈ m.defs, ItemBounded d
  xtypes : ∀ xt ∈ m.xtypes, AttrsBounded xt.2

/-- the not yet resolved definitions in the registry carry `isize` literals -/
def Lits (s : State) : Prop := ∀ p i d, s.reg.get p = some i → i.state = .unres d → ItemBounded d

/-- `StateOk` plus: the not yet resolved definitions in the registry carry `isize` literals -/
structure StateOkB (s : State) : Prop where
  ok : StateOk s
  lits : Lits s

/-! ## outcomes that can only panic at sites in `S` -/

/-- `r` is not a panic, or a panic at a site satisfying `S` -/
def PO (S : String → Prop) {α} (r : Res α) : Prop := ∀ site, r = .panic site → S site

/-- no panic at all -/
abbrev NoSite : String → Prop := fun _ => False
/-- only the modelled allocation limit -/
abbrev Alloc : String → Prop := fun site => site = allocSite

theorem PO.mono {S T : String → Prop} {α} {r : Res α} (h : PO S r) (hst : ∀ x, S x → T x) : PO T r :=
  fun site hs => hst site (h site hs)

theorem PO.alloc {α} {r : Res α} (h : PO NoSite r) : PO Alloc r := h.mono (fun _ hf => hf.elim)

theorem PO.ok {S α} (a : α) : PO S (Res.ok a) := fun _ h => by cases h
theorem PO.err {S α} (m : String) : PO S (Res.err m : Res α) := fun _ h => by cases h
theorem PO.defer {S α} : PO S (Res.defer : Res α) := fun _ h => by cases h

theorem PO.cast {S α β} {e : Res α} (h : PO S e) (hne : ∀ a, e = .ok a → False) : PO S (e.cast : Res β) := by
  cases e with
  | ok a => exact (hne a rfl).elim
  | defer => exact PO.defer
  | err m => exact PO.err m
  | panic s => intro site hs; simp only [Res.cast, Res.panic.injEq] at hs; exact h site (by rw [hs])

theorem PO.foldlM {S α β} (f : β → α → Res β) (l : List α) (b : β) (hf : ∀ b a, a ∈ l → PO S (f b a)) :
    PO S (Res.foldlM f b l) := by
  induction l generalizing b with
  | nil => exact PO.ok b
  | cons a as ih =>
    unfold Res.foldlM
    have h1 := hf b a (by simp)
    split
    · exact ih _ (fun b a ha => hf b a (by simp [ha]))
    · exact PO.defer
    · exact PO.err _
    · next s hs => intro site h; cases h; exact h1 _ hs

/-- fold with an invariant on the accumulator -/
theorem PO.foldlM_inv {S α β} (I : β → Prop) (f : β → α → Res β) (l : List α) (b : β) (h0 : I b)
    (hf : ∀ b a, a ∈ l → I b → PO S (f b a) ∧ ∀ b', f b a = .ok b' → I b') :
    PO S (Res.foldlM f b l) ∧ ∀ b', Res.foldlM f b l = .ok b' → I b' := by
  induction l generalizing b with
  | nil => exact ⟨PO.ok b, fun b' h => by cases h; exact h0⟩
  | cons a as ih =>
    unfold Res.foldlM
    obtain ⟨h1, h2⟩ := hf b a (by simp) h0
    split
    · next b1 hb1 => exact ih b1 (h2 b1 hb1) (fun b a ha => hf b a (by simp [ha]))
    · exact ⟨PO.defer, fun _ h => by cases h⟩
    · exact ⟨PO.err _, fun _ h => by cases h⟩
    · next s hs => exact ⟨fun site h => by cases h; exact h1 _ hs, fun _ h => by cases h⟩

theorem PO.mapM' {S α β} (f : α → Res β) (l : List α) (hf : ∀ a ∈ l, PO S (f a)) : PO S (Res.mapM' f l) := by
  induction l with
  | nil => exact PO.ok _
  | cons a as ih =>
    unfold Res.mapM'
    have h1 := hf a (by simp)
    have h2 := ih (fun a ha => hf a (by simp [ha]))
    split
    · split
      · exact PO.ok _
      · exact PO.defer
      · exact PO.err _
      · next s hs => intro site h; cases h; exact h2 _ hs
    · exact PO.defer
    · exact PO.err _
    · next s hs => intro site h; cases h; exact h1 _ hs

/-- closes `h : e = .panic site` when every branch of `e` is visibly not a panic -/
macro "no_panic_at " h:ident : tactic =>
  `(tactic| repeat' (first | (cases $h:ident; done) | (split at $h:ident)))

/-! ## the modelled allocation limit -/

theorem makePadding_panic (out : List SFunc) (target : Nat) (site : String)
    (h : makePadding out target = .panic site) : site = allocSite ∧ target > paddingLoopBound := by
  unfold makePadding at h
  simp only [] at h
  split at h
  · next hgt => cases h; exact ⟨rfl, by omega⟩
  · cases h

theorem makePadding_po (out : List SFunc) (target : Nat) : PO Alloc (makePadding out target) :=
  fun site h => (makePadding_panic out target site h).1

/-! ## attribute loops -/

theorem fnAttrStep_np (isV : Bool) (st : FnAttrSt) (a : G.Attr) : PO NoSite (fnAttrStep isV st a) := by
  intro site h; unfold fnAttrStep at h; no_panic_at h

theorem indexAttr_np (attrs : List G.Attr) : PO NoSite (indexAttr attrs) := by
  unfold indexAttr
  apply PO.foldlM
  intro b a _ site h; no_panic_at h

theorem typeAttrStep_np (st : TypeAttrs) (a : G.Attr) : PO NoSite (typeAttrStep st a) := by
  intro site h; unfold typeAttrStep at h; no_panic_at h

theorem fieldAttrStep_np (st : FieldAttrs) (a : G.Attr) : PO NoSite (fieldAttrStep st a) := by
  intro site h; unfold fieldAttrStep at h; no_panic_at h

theorem vftableSizeAttr_np (attrs : List G.Attr) : PO NoSite (vftableSizeAttr attrs) := by
  unfold vftableSizeAttr
  apply PO.foldlM
  intro b a _ site h; no_panic_at h

theorem enumAttrStep_np (st : EnumAttrs) (a : G.Attr) : PO NoSite (enumAttrStep st a) := by
  intro site h; unfold enumAttrStep at h; no_panic_at h

theorem xvalAddress_np (attrs : List G.Attr) : PO NoSite (xvalAddress attrs) := by
  unfold xvalAddress
  apply PO.foldlM
  intro b a _ site h; no_panic_at h

theorem xtypeAttrStep_np (st : XTypeAttrs) (a : G.Attr) : PO NoSite (xtypeAttrStep st a) := by
  intro site h; unfold xtypeAttrStep at h; no_panic_at h

theorem addItem_np (s : State) (i : ItemDef) : PO NoSite (s.addItem i) := by
  intro site h; unfold State.addItem at h; no_panic_at h

/-! ## lookups and types -/

theorem paddingType_np (r : Registry) (n : Nat) (h : r.contains ["u8"] = true) : PO NoSite (r.paddingType n) := by
  intro site hs
  unfold Registry.paddingType Registry.resolveString at hs
  simp [h] at hs

theorem resolveTy_np (r : Registry) (scope : List Path) (t : G.Ty) (h : r.contains ["u8"] = true) :
    PO NoSite (r.resolveTy scope t) := by
  induction t with
  | cptr t ih => intro site hs; unfold Registry.resolveTy at hs; split at hs; · cases hs
                 · exact ih site hs
  | mptr t ih => intro site hs; unfold Registry.resolveTy at hs; split at hs; · cases hs
                 · exact ih site hs
  | arr t n ih => intro site hs; unfold Registry.resolveTy at hs; split at hs; · cases hs
                  · exact ih site hs
  | ident s => intro site hs; unfold Registry.resolveTy at hs; split at hs <;> cases hs
  | unk n => exact paddingType_np r n h

theorem dsize_np (r : Registry) (t : DTy) : PO NoSite (t.size r) := by
  induction t with
  | raw p => intro site h; simp [DTy.size] at h
  | cptr t _ => intro site h; simp [DTy.size] at h
  | mptr t _ => intro site h; simp [DTy.size] at h
  | arr t n ih =>
    intro site h
    unfold DTy.size at h
    split at h
    · split at h <;> cases h
    · exact ih site h

theorem rsize_np (r : Registry) (t : RTy) : PO NoSite (t.size r) := by
  cases t with
  | data t => exact dsize_np r t
  | fn cc args ret => intro site h; simp [RTy.size] at h

/-- an alignment the layout arithmetic cannot overflow on -/
def GoodAl (a : Nat) : Prop := Layout.isPow2 a = true ∧ a ≤ 2 ^ 63

theorem goodAl_one : GoodAl 1 := ⟨by decide, by decide⟩

theorem goodAl_ps {r : Registry} (hr : RegOk r) : GoodAl r.ps :=
  ⟨hr.ps_pow2, Nat.le_trans hr.ps_small (by decide)⟩

theorem GoodAl.pos {a : Nat} (h : GoodAl a) : 1 ≤ a := C01.isPow2_pos a h.1

theorem dalign_good {r : Registry} (hr : RegOk r) (t : DTy) (a : Nat) (h : t.align r = some a) : GoodAl a := by
  induction t with
  | raw p =>
    simp only [DTy.align] at h
    cases hg : r.get p with
    | none => simp [hg] at h
    | some i =>
      simp only [hg, Option.bind_some] at h
      cases hs : i.state with
      | unres d => simp [ItemDef.resolved?, hs] at h
      | res res =>
        simp only [ItemDef.resolved?, hs, Option.map_some, Option.some.injEq] at h
        subst h
        exact hr.aligns p i res hg hs
  | cptr t _ => simp only [DTy.align, Option.some.injEq] at h; subst h; exact goodAl_ps hr
  | mptr t _ => simp only [DTy.align, Option.some.injEq] at h; subst h; exact goodAl_ps hr
  | arr t n ih => exact ih h

theorem dsize_align (r : Registry) (t : DTy) (s : Nat) (h : t.size r = .ok (some s)) : ∃ a, t.align r = some a := by
  induction t generalizing s with
  | raw p =>
    simp only [DTy.size, Res.ok.injEq] at h
    simp only [DTy.align]
    cases hg : r.get p with
    | none => simp [hg] at h
    | some i =>
      simp only [hg, Option.bind_some] at h ⊢
      cases hs : i.resolved? with
      | none => simp [hs] at h
      | some res => exact ⟨res.align, rfl⟩
  | cptr t _ => exact ⟨r.ps, rfl⟩
  | mptr t _ => exact ⟨r.ps, rfl⟩
  | arr t n ih =>
    unfold DTy.size at h
    simp only [DTy.align]
    split at h
    · next s' hs' => exact ih s' hs'
    · next hne => exact absurd h (hne s)

/-- a region type whose size is known has a good alignment -/
theorem rty_good {r : Registry} (hr : RegOk r) (t : RTy) (s : Nat) (h : t.size r = .ok (some s)) :
    ∃ a, t.align r = some a ∧ GoodAl a := by
  cases t with
  | data t =>
    obtain ⟨a, ha⟩ := dsize_align r t s h
    exact ⟨a, ha, dalign_good hr t a ha⟩
  | fn cc args ret => exact ⟨r.ps, rfl, goodAl_ps hr⟩

/-! ## the placement loop -/

open Layout in
/-- a placed region with a good alignment -/
def GoodPl {β} (p : Placed β) : Prop := ∃ a, p.align = some a ∧ GoodAl a

open Layout in
/-- invariant of the `Regions` accumulator -/
def J {β} (st : St β) : Prop := (∀ p ∈ st.1, GoodPl p) ∧ sumSizes st.1 = st.2 ∧ st.2 ≤ usizeMax

open Layout in
def FieldGood {β} (f : PField β) : Prop := ∀ s, f.size = .ok (some s) → ∃ a, f.align = some a ∧ GoodAl a

open Layout in
theorem push_np {β} (st : St β) (sz : Res (Option Nat)) (al : Option Nat) (arr : Bool) (src : Option β)
    (h : PO NoSite sz) : PO NoSite (push st sz al arr src) := by
  intro site hs
  unfold push at hs
  split at hs
  · cases hs
  · split at hs
    · cases hs
    · split at hs <;> cases hs
  · cases hs
  · cases hs
  · cases hs; exact h _ rfl

open Layout in
theorem pushField_np {β} (st : St β) (f : PField β) (h : PO NoSite f.size) : PO NoSite (pushField st f) :=
  push_np _ _ _ _ _ h

open Layout in
theorem pushPad_np {β} (st : St β) (n : Nat) : PO NoSite (pushPad st n) :=
  push_np _ _ _ _ _ (PO.ok _)

open Layout in
theorem J_nil {β} : J (([], 0) : St β) := by
  refine ⟨fun p hp => ?_, rfl, Nat.zero_le _⟩
  cases hp

open Layout in
theorem push_J {β} (st st' : St β) (sz : Res (Option Nat)) (al : Option Nat) (arr : Bool) (src : Option β)
    (hj : J st) (hal : ∀ s, sz = .ok (some s) → ∃ a, al = some a ∧ GoodAl a)
    (h : push st sz al arr src = .ok st') : J st' := by
  unfold push at h
  split at h
  · cases h
  · next s =>
    split at h
    · cases h; exact hj
    · split at h
      · next hle =>
        cases h
        obtain ⟨j1, j2, j3⟩ := hj
        refine ⟨?_, ?_, hle⟩
        · intro p hp
          rcases List.mem_append.mp hp with hp | hp
          · exact j1 p hp
          · simp only [List.mem_singleton] at hp
            subst hp
            exact hal s rfl
        · simp [C01.sumSizes_append, C01.sumSizes_cons, C01.sumSizes_nil, j2]
      · cases h
  · cases h
  · cases h
  · cases h

open Layout in
theorem place_np {β} (fs : List (PField β)) (st : St β) (h : ∀ f ∈ fs, PO NoSite f.size) :
    PO NoSite (place st fs) := by
  induction fs generalizing st with
  | nil => exact PO.ok _
  | cons f fs ih =>
    have hf := h f (by simp)
    have ih' := fun st => ih st (fun g hg => h g (by simp [hg]))
    intro site hs
    unfold place at hs
    split at hs
    · split at hs
      · cases hs
      · split at hs
        · split at hs
          · exact ih' _ site hs
          · cases hs
          · cases hs
          · next s1 h1 => exact (pushField_np _ _ hf _ h1).elim
        · cases hs
        · cases hs
        · next s1 h1 => exact (pushPad_np _ _ _ h1).elim
    · split at hs
      · exact ih' _ site hs
      · cases hs
      · cases hs
      · next s1 h1 => exact (pushField_np _ _ hf _ h1).elim

open Layout in
theorem place_J {β} (fs : List (PField β)) (st st' : St β) (hj : J st) (hf : ∀ f ∈ fs, FieldGood f)
    (h : place st fs = .ok st') : J st' := by
  induction fs generalizing st with
  | nil => simp only [place] at h; cases h; exact hj
  | cons f fs ih =>
    have hfs : ∀ g ∈ fs, FieldGood g := fun g hg => hf g (by simp [hg])
    rcases C01.place_cons_inv st st' f fs h with ⟨_, st2, h2, h3⟩ | ⟨a, _, _, st1, st2, h1, h2, h3⟩
    · exact ih st2 (push_J _ _ _ _ _ _ hj (hf f (by simp)) h2) hfs h3
    · have j1 : J st1 := push_J _ _ _ _ _ _ hj (fun _ _ => ⟨1, rfl, goodAl_one⟩) h1
      exact ih st2 (push_J _ _ _ _ _ _ j1 (hf f (by simp)) h2) hfs h3

open Layout in
theorem padTail_np {β} (st : St β) (t : Option Nat) : PO NoSite (padTail st t) := by
  intro site hs
  unfold padTail at hs
  split at hs
  · split at hs
    · exact pushPad_np _ _ _ hs
    · cases hs
  · cases hs

open Layout in
theorem padTail_J {β} (st st' : St β) (t : Option Nat) (hj : J st) (h : padTail st t = .ok st') : J st' := by
  unfold padTail at h
  split at h
  · split at h
    · exact push_J _ _ _ _ _ _ hj (fun _ _ => ⟨1, rfl, goodAl_one⟩) h
    · cases h; exact hj
  · cases h; exact hj

open Layout in
theorem resolve_np {β} (vptr : Option (PField β)) (fields : List (PField β)) (target : Option Nat)
    (hv : ∀ v, vptr = some v → PO NoSite v.size) (hf : ∀ f ∈ fields, PO NoSite f.size) :
    PO NoSite (resolve vptr fields target) := by
  intro site hs
  unfold resolve at hs
  split at hs
  · split at hs
    · split at hs
      · simp only [] at hs
        split at hs
        · split at hs <;> cases hs
        · cases hs
      · cases hs
      · cases hs
      · next s1 h1 => exact (padTail_np _ _ _ h1).elim
    · cases hs
    · cases hs
    · next s1 h1 => exact (place_np _ _ hf _ h1).elim
  · cases hs
  · cases hs
  · next s1 h1 =>
    cases vptr with
    | none => cases h1
    | some v => exact (pushField_np _ _ (hv v rfl) _ h1).elim

open Layout in
theorem resolve_good {β} (vptr : Option (PField β)) (fields : List (PField β)) (target : Option Nat)
    (placed : List (Placed β)) (size : Nat) (h : resolve vptr fields target = .ok (placed, size))
    (hv : ∀ v, vptr = some v → FieldGood v) (hf : ∀ f ∈ fields, FieldGood f) :
    (∀ p ∈ placed, GoodPl p) ∧ sumSizes placed ≤ usizeMax := by
  obtain ⟨st0, st1, st2, h0, h1, h2, rfl, _, _⟩ := C01.resolve_inv vptr fields target placed size h
  have j0 : J st0 := by
    cases vptr with
    | none => cases h0; exact J_nil
    | some v => exact push_J ([], 0) st0 _ _ _ _ J_nil (hv v rfl) h0
  obtain ⟨k1, k2, k3⟩ := padTail_J st1 st2 target (place_J fields st0 st1 j0 hf h1) h2
  exact ⟨k1, by rw [k2]; exact k3⟩

/-! ## the alignment block -/

theorem goodAl_dvd {a b : Nat} (ha : GoodAl a) (hb : GoodAl b) : a ∣ b ∨ b ∣ a := by
  obtain ⟨i, rfl⟩ := (Layout.isPow2_iff a).mp ha.1
  obtain ⟨j, rfl⟩ := (Layout.isPow2_iff b).mp hb.1
  rcases Nat.le_total i j with h | h
  · exact Or.inl (Nat.pow_dvd_pow 2 h)
  · exact Or.inr (Nat.pow_dvd_pow 2 h)

theorem lcmStep_good (acc x : Nat) (ha : GoodAl acc) (hx : GoodAl x) :
    ∃ m, Layout.lcmStep acc x = .ok m ∧ GoodAl m := by
  have hap := ha.pos
  have hxp := hx.pos
  have hu : (2 : Nat) ^ 63 ≤ usizeMax := by decide
  rcases goodAl_dvd ha hx with hd | hd
  · have hg : Nat.gcd acc x = acc := Nat.gcd_eq_left hd
    have hdiv : acc / acc = 1 := Nat.div_self hap
    refine ⟨x, ?_, hx⟩
    unfold Layout.lcmStep
    rw [hg, hdiv, Nat.one_mul]
    have := hx.2
    rw [if_neg (by omega), if_neg (by omega)]
  · have hg : Nat.gcd acc x = x := Nat.gcd_eq_right hd
    refine ⟨acc, ?_, ha⟩
    unfold Layout.lcmStep
    rw [hg, Nat.div_mul_cancel hd]
    have := ha.2
    rw [if_neg (by omega), if_neg (by omega)]

open Layout in
theorem lcmAll_good {β} (rs : List (Placed β)) (h : ∀ p ∈ rs, GoodPl p) : PO NoSite (lcmAll rs) := by
  unfold lcmAll
  refine (PO.foldlM_inv GoodAl _ rs 1 goodAl_one ?_).1
  intro acc r hr hacc
  obtain ⟨a, ha, hga⟩ := h r hr
  simp only [ha]
  obtain ⟨m, hm, hgm⟩ := lcmStep_good acc a hacc hga
  rw [hm]
  exact ⟨PO.ok _, fun b' hb => by cases hb; exact hgm⟩

open Layout in
theorem fieldsAligned_np {β} (rs : List (Placed β)) (off : Nat) (h : ∀ p ∈ rs, GoodPl p)
    (hsum : off + sumSizes rs ≤ usizeMax) : PO NoSite (fieldsAligned off rs) := by
  induction rs generalizing off with
  | nil => exact PO.ok _
  | cons r rs ih =>
    obtain ⟨a, ha, hga⟩ := h r (by simp)
    have hap := hga.pos
    rw [C01.sumSizes_cons] at hsum
    intro site hs
    unfold fieldsAligned at hs
    simp only [ha] at hs
    split at hs
    · omega
    · split at hs
      · cases hs
      · split at hs
        · omega
        · exact ih (off + r.size) (fun p hp => h p (by simp [hp])) (by omega) site hs

open Layout in
theorem alignCheck_np {β} (ps : Nat) (packed : Bool) (al : Option Nat) (rs : List (Placed β)) (size : Nat)
    (h : ∀ p ∈ rs, GoodPl p) (hsum : sumSizes rs ≤ usizeMax) : PO NoSite (alignCheck ps packed al rs size) := by
  intro site hs
  unfold alignCheck at hs
  split at hs
  · split at hs <;> cases hs
  · simp only [] at hs
    split at hs
    · cases hs
    · next hp =>
      split at hs
      · split at hs
        · cases hs
        · split at hs
          · split at hs
            · next h0 =>
              have := C01.isPow2_pos _ (by simpa using hp)
              omega
            · split at hs <;> cases hs
          · cases hs
          · cases hs
          · next s1 h1 => exact (fieldsAligned_np rs 0 h (by omega) _ h1).elim
      · cases hs
      · cases hs
      · next s1 h1 => exact (lcmAll_good rs h _ h1).elim

open Layout in
theorem alignCheck_good {β} (ps : Nat) (packed : Bool) (al : Option Nat) (rs : List (Placed β)) (size a : Nat)
    (hps : GoodAl ps) (hal : ∀ x, al = some x → x ≤ 2 ^ 63) (h : ∀ p ∈ rs, GoodPl p)
    (hok : alignCheck ps packed al rs size = .ok a) : GoodAl a := by
  cases packed with
  | true =>
    rw [(C01.alignCheck_packed_inv ps al rs size a hok).1]
    exact goodAl_one
  | false =>
    obtain ⟨h1, h2, -⟩ := C01.alignCheck_unpacked_inv ps al rs size a hok
    refine ⟨h2, ?_⟩
    clear hok
    rw [h1]
    unfold requestedAlign
    split
    · next x => exact hal x rfl
    · split
      · next r0 =>
        split
        · next x hx =>
          obtain ⟨y, hy, hgy⟩ := h r0 (by simp)
          rw [hx] at hy; cases hy
          exact hgy.2
        · exact hps.2
      · exact hps.2

/-! ## functions and vftables -/

theorem PO.of_panic {S α β} {x : Res α} {s : String} (h : PO S x) (hs : x = .panic s) : PO S (Res.panic s : Res β) := by
  intro site h'; cases h'; exact h _ hs

macro "po_triv" : tactic => `(tactic| first | exact PO.ok _ | exact PO.err _ | exact PO.defer)

theorem buildArg_np (reg : Registry) (scope : List Path) (a : G.Arg) (h : reg.contains ["u8"] = true) :
    PO NoSite (buildArg reg scope a) := by
  unfold buildArg
  split
  · po_triv
  · po_triv
  · split
    · po_triv
    · po_triv
    · po_triv
    · next s hs => exact (resolveTy_np reg scope _ h).of_panic hs

theorem buildFunction_np (reg : Registry) (scope : List Path) (isV : Bool) (f : G.Func)
    (h : reg.contains ["u8"] = true) : PO NoSite (buildFunction reg scope isV f) := by
  unfold buildFunction
  split
  · po_triv
  · split
    · split
      · po_triv
      · split
        · simp only []
          split
          · po_triv
          · next hne =>
            refine PO.cast ?_ hne
            split
            · po_triv
            · split
              · po_triv
              · po_triv
              · po_triv
              · next s hs => exact (resolveTy_np reg scope _ h).of_panic hs
        · next hne => exact PO.cast (PO.mapM' _ _ (fun a _ => buildArg_np reg scope a h)) hne
    · next hne => exact PO.cast (PO.foldlM _ _ _ (fun b a _ => fnAttrStep_np isV b a)) hne

theorem slotStep_po (reg : Registry) (scope : List Path) (out : List SFunc) (f : G.Func)
    (h : reg.contains ["u8"] = true) : PO Alloc (C04.slotStep reg scope out f) := by
  unfold C04.slotStep
  split
  · split
    · split
      · po_triv
      · next hne => exact PO.cast (buildFunction_np reg scope true f h).alloc hne
    · split
      · split
        · po_triv
        · exact makePadding_po _ _
      · po_triv
  · next hne => exact PO.cast (indexAttr_np _).alloc hne

theorem convertVfuncs_po (reg : Registry) (scope : List Path) (size : Option Nat) (fns : List G.Func)
    (h : reg.contains ["u8"] = true) : PO Alloc (convertVfuncs reg scope size fns) := by
  rw [C04.convertVfuncs_eq]
  split
  · split
    · split
      · po_triv
      · exact makePadding_po _ _
    · po_triv
  · exact PO.foldlM _ _ _ (fun out f _ => slotStep_po reg scope out f h)

theorem stmtStep_po (reg : Registry) (scope : List Path) (acc : StmtAcc) (ist : Nat × G.Stmt)
    (h : reg.contains ["u8"] = true) : PO Alloc (stmtStep reg scope acc ist) := by
  obtain ⟨idx, st⟩ := ist
  unfold stmtStep
  simp only []
  split
  · split
    · po_triv
    · split
      · split
        · po_triv
        · split
          · split <;> split <;> po_triv
          · next hne => exact PO.cast (resolveTy_np reg scope _ h).alloc hne
      · next hne => exact PO.cast (PO.foldlM _ _ _ (fun b a _ => fieldAttrStep_np b a)).alloc hne
  · split
    · po_triv
    · split
      · po_triv
      · split
        · split
          · po_triv
          · next hne => exact PO.cast (convertVfuncs_po reg scope _ _ h) hne
        · next hne => exact PO.cast (vftableSizeAttr_np _).alloc hne

/-- base regions collected by the statement loop are named -/
def PendOk (acc : StmtAcc) : Prop := ∀ p ∈ acc.pending, p.2.isBase = true → p.2.name.isSome = true

theorem stmtStep_pend (reg : Registry) (scope : List Path) (acc acc' : StmtAcc) (ist : Nat × G.Stmt)
    (ha : PendOk acc) (h : stmtStep reg scope acc ist = .ok acc') : PendOk acc' := by
  obtain ⟨idx, st⟩ := ist
  unfold stmtStep at h
  simp only [] at h
  split at h
  · rename_i vis name ty hf
    split at h
    · cases h
    · split at h
      · rename_i fa _
        split at h
        · cases h
        · rename_i hbase
          split at h
          · split at h
            · split at h
              · cases h
              · cases h
                intro p hp hb
                rcases List.mem_append.mp hp with hp | hp
                · exact ha p hp hb
                · simp only [List.mem_singleton] at hp
                  subst hp
                  rfl
            · rename_i hname
              split at h
              · cases h
              · cases h
                intro p hp hb
                rcases List.mem_append.mp hp with hp | hp
                · exact ha p hp hb
                · simp only [List.mem_singleton] at hp
                  subst hp
                  simp only at hb
                  simp only [hb, Bool.true_and, beq_iff_eq] at hbase
                  simp only [bne_iff_ne, ne_eq, Decidable.not_not] at hname
                  exact absurd hname hbase
          · exact absurd h (C01.cast_ne_ok _ _)
      · exact absurd h (C01.cast_ne_ok _ _)
  · split at h
    · cases h
    · split at h
      · cases h
      · split at h
        · split at h
          · cases h; exact ha
          · exact absurd h (C01.cast_ne_ok _ _)
        · exact absurd h (C01.cast_ne_ok _ _)

theorem regionNameAndTypeDef_np (reg : Registry) (r : Region) (h : r.name.isSome = true) :
    PO NoSite (regionNameAndTypeDef reg r) := by
  unfold regionNameAndTypeDef
  split
  · next hn => rw [hn] at h; cases h
  · split
    · split
      · po_triv
      · split
        · po_triv
        · split <;> po_triv
    · po_triv

theorem baseVftable_np (reg : Registry) (fb : Option Region) (h : ∀ b, fb = some b → b.name.isSome = true) :
    PO NoSite (baseVftable reg fb) := by
  unfold baseVftable
  split
  · po_triv
  · next b =>
    split
    · po_triv
    · po_triv
    · next h1 h2 =>
      refine PO.cast (regionNameAndTypeDef_np reg b (h b rfl)) ?_
      intro a ha
      cases a with
      | none => exact h2 ha
      | some x => exact h1 x.1 x.2 ha

theorem vftCheck_np (reg : Registry) (fb : Option Region) (fns : List SFunc) (p : Path)
    (h : ∀ b, fb = some b → b.name.isSome = true) : PO NoSite (C06.vftCheck reg fb fns p) := by
  unfold C06.vftCheck
  split
  · split
    · po_triv
    · split <;> po_triv
  · po_triv
  · next h1 h2 =>
    refine PO.cast (baseVftable_np _ fb h) ?_
    intro a ha
    cases a with
    | none => exact h2 ha
    | some x => exact h1 x.1 x.2 ha

/-- `vftable::build` does not panic, and the only change it makes to the state is adding the generated item -/
theorem buildVftable_shape (s : State) (owner : Path) (vis : Vis) (fb : Option Region) (vfns : Option (List SFunc))
    (h : ∀ b, fb = some b → b.name.isSome = true) :
    PO NoSite (buildVftable s owner vis fb vfns).2 ∧
    ((buildVftable s owner vis fb vfns).1 = s ∨
      ∃ fns item, buildVftableItem s.reg owner vis fns = some item ∧
        s.addItem item = .ok (buildVftable s owner vis fb vfns).1) := by
  cases vfns with
  | none =>
    refine ⟨?_, Or.inl rfl⟩
    unfold buildVftable
    simp only []
    split
    · po_triv
    · po_triv
    · next h1 h2 =>
      refine PO.cast (baseVftable_np _ fb h) ?_
      intro a ha
      cases a with
      | none => exact h2 ha
      | some x => exact h1 x.1 x.2 ha
  | some fns =>
    cases hi : buildVftableItem s.reg owner vis fns with
    | none =>
      have e : buildVftable s owner vis fb (some fns) = (s, .ok (none, none)) := by
        unfold buildVftable; simp only [hi]
      rw [e]; exact ⟨PO.ok _, Or.inl rfl⟩
    | some item =>
      cases hc : (match s.reg.get item.path with | some e => e != item | none => false) with
      | true =>
        have e : buildVftable s owner vis fb (some fns) =
            (s, .err "generated vftable type conflicts with another definition of that name") := by
          unfold buildVftable; simp only [hi]
          rw [if_pos (by exact hc)]
        rw [e]; exact ⟨PO.err _, Or.inl rfl⟩
      | false =>
        cases ha : s.addItem item with
        | ok s1 =>
          rw [C06.buildVftable_eq s s1 owner vis fb fns item hi hc ha]
          exact ⟨vftCheck_np _ _ _ _ h, Or.inr ⟨fns, item, hi, ha⟩⟩
        | defer =>
          have e : buildVftable s owner vis fb (some fns) = (s, .defer) := by
            unfold buildVftable; simp only [hi, ha]
            rw [if_neg (by rw [Bool.not_eq_true]; exact hc)]
            rfl
          rw [e]; exact ⟨PO.defer, Or.inl rfl⟩
        | err m =>
          have e : buildVftable s owner vis fb (some fns) = (s, .err m) := by
            unfold buildVftable; simp only [hi, ha]
            rw [if_neg (by rw [Bool.not_eq_true]; exact hc)]
            rfl
          rw [e]; exact ⟨PO.err _, Or.inl rfl⟩
        | panic m =>
          exact absurd ha (fun hp => addItem_np s item m hp)

/-! ## naming the regions -/

theorem nameRegions_np (reg : Registry) (ps : List (Layout.Placed Region)) (off : Nat)
    (h : reg.contains ["u8"] = true) : PO NoSite (nameRegions reg off ps) := by
  induction ps generalizing off with
  | nil => exact PO.ok _
  | cons p ps ih =>
    unfold nameRegions
    split
    · simp only []
      split
      · po_triv
      · exact ih _
    · next hne =>
      refine PO.cast ?_ hne
      split
      · po_triv
      · split
        · po_triv
        · next hne2 => exact PO.cast (paddingType_np reg _ h) hne2

theorem nameRegions_named (reg : Registry) (ps : List (Layout.Placed Region)) (off : Nat) (regions : List Region)
    (h : nameRegions reg off ps = .ok regions) : ∀ r ∈ regions, r.name.isSome = true := by
  induction ps generalizing off regions with
  | nil => simp only [nameRegions] at h; cases h; intro r hr; cases hr
  | cons p ps ih =>
    unfold nameRegions at h
    split at h
    · next r0 _ =>
      simp only [] at h
      split at h
      · next rs hrs =>
        cases h
        intro r hr
        rcases List.mem_cons.mp hr with rfl | hr
        · cases hn : r0.name <;> simp [hn]
        · exact ih _ rs hrs r hr
      · next hne => exact absurd h (hne _)
    · exact absurd h (C01.cast_ne_ok _ _)
/-! ## the invariant under `add_item` and `set_state` -/

theorem moduleFor_addItem (s s' : State) (i : ItemDef) (h : s.addItem i = .ok s') (p : Path) (m : Mod)
    (hm : s.moduleFor p = some m) : ∃ m', s'.moduleFor p = some m' := by
  unfold State.moduleFor at hm ⊢
  split at hm
  · cases hm
  · next parent hp =>
    obtain ⟨dp, hdp⟩ := C14.addItem_getModule s s' i h parent m hm
    exact ⟨_, hdp⟩

theorem addItem_parent (s s' : State) (i : ItemDef) (h : s.addItem i = .ok s') :
    ∃ m, s.moduleFor i.path = some m := by
  unfold State.addItem at h
  unfold State.moduleFor
  split at h
  · cases h
  · next parent hp =>
    split at h
    · cases h
    · next m hm => exact ⟨m, hm⟩

theorem regOk_add {r : Registry} (hr : RegOk r) (i : ItemDef)
    (hal : ∀ res, i.state = .res res → GoodAl res.align)
    (hu8 : i.path = ["u8"] → i.isResolved = true) : RegOk (r.add i) := by
  refine ⟨hr.ps_pow2, hr.ps_small, ?_, ?_, ?_, ?_⟩
  · obtain ⟨j, hj, hjr⟩ := hr.u8
    rw [C14.get_add]
    by_cases hp : ["u8"] = i.path
    · rw [if_pos hp]; exact ⟨i, rfl, hu8 hp.symm⟩
    · rw [if_neg hp]; exact ⟨j, hj, hjr⟩
  · have := C10.keys_add r i
    unfold C10.keys at this
    rw [this, List.nodup_cons]
    exact ⟨by simp, List.Nodup.sublist List.filter_sublist hr.keys⟩
  · intro p j hj
    rw [C14.get_add] at hj
    by_cases hp : p = i.path
    · rw [if_pos hp] at hj; cases hj; exact hp.symm
    · rw [if_neg hp] at hj; exact hr.wellKeyed p j hj
  · intro p j res hj hres
    rw [C14.get_add] at hj
    by_cases hp : p = i.path
    · rw [if_pos hp] at hj; cases hj; exact hal res hres
    · rw [if_neg hp] at hj; exact hr.aligns p j res hj hres

theorem addItem_ok (s s' : State) (i : ItemDef) (hs : StateOk s) (h : s.addItem i = .ok s')
    (hal : ∀ res, i.state = .res res → GoodAl res.align)
    (hu8 : i.path = ["u8"] → i.isResolved = true) : StateOk s' := by
  have hreg := C14.addItem_reg s s' i h
  refine ⟨?_, ?_⟩
  · rw [hreg]; exact regOk_add hs.reg i hal hu8
  · intro p j hj hnp
    rw [hreg, C14.get_add] at hj
    by_cases hp : p = i.path
    · subst hp
      obtain ⟨m, hm⟩ := addItem_parent s s' i h
      exact moduleFor_addItem s s' i h _ m hm
    · rw [if_neg hp] at hj
      obtain ⟨m, hm⟩ := hs.parents p j hj hnp
      exact moduleFor_addItem s s' i h p m hm

theorem addItem_lits (s s' : State) (i : ItemDef) (hl : Lits s) (h : s.addItem i = .ok s')
    (hlit : ∀ d, i.state = .unres d → ItemBounded d) : Lits s' := by
  have hreg := C14.addItem_reg s s' i h
  intro p j d hj hd
  rw [hreg, C14.get_add] at hj
  by_cases hp : p = i.path
  · rw [if_pos hp] at hj; cases hj; exact hlit d hd
  · rw [if_neg hp] at hj; exact hl p j d hj hd

theorem get_setState (r : Registry) (p q : Path) (x : IState) :
    (r.setState p x).get q = if q = p then (r.get q).map (fun i => { i with state := x }) else r.get q := by
  unfold Registry.setState Registry.get
  simp only
  induction r.types with
  | nil => simp
  | cons e l ih =>
    obtain ⟨k, v⟩ := e
    by_cases hk : k = p
    · subst hk
      by_cases hq : q = k
      · subst hq; simp
      · have : (q == k) = false := by simpa using hq
        simp only [List.map_cons, beq_self_eq_true, if_true, List.lookup_cons, this, ih, if_neg hq]
    · have hk' : (k == p) = false := by simpa using hk
      by_cases hq : q = k
      · subst hq; simp [hk]
      · have : (q == k) = false := by simpa using hq
        simp only [List.map_cons, hk', Bool.false_eq_true, if_false, List.lookup_cons, this, ih]

theorem setState_ok (s : State) (p : Path) (r : Resolved) (hs : StateOk s) (hr : GoodAl r.align) :
    StateOk { s with reg := s.reg.setState p (.res r) } := by
  refine ⟨⟨hs.reg.ps_pow2, hs.reg.ps_small, ?_, ?_, ?_, ?_⟩, ?_⟩
  · obtain ⟨j, hj, hjr⟩ := hs.reg.u8
    simp only [get_setState, hj]
    by_cases hp : ["u8"] = p
    · rw [if_pos hp]; exact ⟨_, rfl, rfl⟩
    · rw [if_neg hp]; exact ⟨j, rfl, hjr⟩
  · have := C10.keys_setState s.reg p (.res r)
    unfold C10.keys at this
    simp only [this]; exact hs.reg.keys
  · intro q j hj
    simp only [get_setState] at hj
    by_cases hp : q = p
    · rw [if_pos hp] at hj
      cases hg : s.reg.get q with
      | none => simp [hg] at hj
      | some j0 =>
        simp only [hg, Option.map_some, Option.some.injEq] at hj
        subst hj
        exact hs.reg.wellKeyed q j0 hg
    · rw [if_neg hp] at hj; exact hs.reg.wellKeyed q j hj
  · intro q j res hj hres
    simp only [get_setState] at hj
    by_cases hp : q = p
    · rw [if_pos hp] at hj
      cases hg : s.reg.get q with
      | none => simp [hg] at hj
      | some j0 =>
        simp only [hg, Option.map_some, Option.some.injEq] at hj
        subst hj
        simp only [IState.res.injEq] at hres
        subst hres
        exact hr
    · rw [if_neg hp] at hj; exact hs.reg.aligns q j res hj hres
  · intro q j hj hnp
    simp only [get_setState] at hj
    by_cases hp : q = p
    · rw [if_pos hp] at hj
      cases hg : s.reg.get q with
      | none => simp [hg] at hj
      | some j0 =>
        simp only [hg, Option.map_some, Option.some.injEq] at hj
        subst hj
        exact hs.parents q j0 hg hnp
    · rw [if_neg hp] at hj; exact hs.parents q j hj hnp

theorem setState_lits (s : State) (p : Path) (r : Resolved) (hl : Lits s) :
    Lits { s with reg := s.reg.setState p (.res r) } := by
  intro q j d hj hd
  simp only [get_setState] at hj
  by_cases hp : q = p
  · rw [if_pos hp] at hj
    cases hg : s.reg.get q with
    | none => simp [hg] at hj
    | some j0 =>
      simp only [hg, Option.map_some, Option.some.injEq] at hj
      subst hj
      cases hd
  · rw [if_neg hp] at hj; exact hl q j d hj hd

theorem StateOk.u8c {s : State} (hs : StateOk s) : s.reg.contains ["u8"] = true := by
  obtain ⟨j, hj, _⟩ := hs.reg.u8
  simp [Registry.contains, hj]
/-! ## `resolve_regions` -/

theorem vftableItem_ok (s s1 : State) (owner : Path) (vis : Vis) (fns : List SFunc) (item : ItemDef)
    (hs : StateOk s) (hi : buildVftableItem s.reg owner vis fns = some item) (ha : s.addItem item = .ok s1) :
    StateOk s1 ∧ (Lits s → Lits s1) := by
  unfold buildVftableItem at hi
  obtain ⟨q, _, rfl⟩ := Option.map_eq_some_iff.mp hi
  refine ⟨addItem_ok s s1 _ hs ha ?_ (fun _ => rfl), fun hl => addItem_lits s s1 _ hl ha ?_⟩
  · intro res hres
    simp only [IState.res.injEq] at hres
    subst hres
    exact goodAl_ps hs.reg
  · intro d hd; cases hd

/-- what a step may do to the state: keep the invariant and the modules -/
structure Keeps (s s1 : State) : Prop where
  ok : StateOk s1
  mods : ∀ q m, s.moduleFor q = some m → ∃ m', s1.moduleFor q = some m'
  lits : Lits s → Lits s1

theorem Keeps.refl {s : State} (hs : StateOk s) : Keeps s s := ⟨hs, fun _ m hm => ⟨m, hm⟩, fun h => h⟩

theorem buildVftable_keeps (s : State) (owner : Path) (vis : Vis) (fb : Option Region) (vfns : Option (List SFunc))
    (hs : StateOk s) (h : ∀ b, fb = some b → b.name.isSome = true) :
    Keeps s (buildVftable s owner vis fb vfns).1 := by
  rcases (buildVftable_shape s owner vis fb vfns h).2 with e | ⟨fns, item, hi, ha⟩
  · rw [e]; exact Keeps.refl hs
  · obtain ⟨k1, k2⟩ := vftableItem_ok s _ owner vis fns item hs hi ha
    exact ⟨k1, fun q m hm => moduleFor_addItem s _ item ha q m hm, k2⟩

theorem resolveRegions_shape (s : State) (owner : Path) (vis : Vis) (target : Option Nat)
    (pending : List (Option Nat × Region)) (vfns : Option (List SFunc)) (hs : StateOk s)
    (hp : ∀ p ∈ pending, p.2.isBase = true → p.2.name.isSome = true) :
    Keeps s (resolveRegions s owner vis target pending vfns).1 ∧
      PO NoSite (resolveRegions s owner vis target pending vfns).2 := by
  have hfb : ∀ b, (pending.map (·.2)).find? (·.isBase) = some b → b.name.isSome = true := by
    intro b hb
    have h1 := List.mem_of_find?_eq_some hb
    have h2 := List.find?_some hb
    obtain ⟨p, hp1, rfl⟩ := List.mem_map.mp h1
    exact hp p hp1 h2
  have hk := buildVftable_keeps s owner vis _ vfns hs hfb
  have hn := (buildVftable_shape s owner vis _ vfns hfb).1
  unfold resolveRegions
  simp only []
  split
  · exact ⟨Keeps.refl hs, PO.defer⟩
  · exact ⟨Keeps.refl hs, PO.defer⟩
  · exact ⟨Keeps.refl hs, PO.err _⟩
  · next m hm =>
    exfalso
    split at hm
    · exact rsize_np _ _ _ hm
    · cases hm
  · split
    · next s1 vft vregion hb =>
      rw [hb] at hk hn
      refine ⟨hk, ?_⟩
      simp only []
      split
      · split
        · po_triv
        · next hne => exact PO.cast (nameRegions_np _ _ _ hk.ok.u8c) hne
      · next hne =>
        refine PO.cast (resolve_np _ _ _ ?_ ?_) (fun a ha => hne a.1 a.2 ha)
        · intro v hv
          cases vregion with
          | none => cases hv
          | some r => simp only [Option.map_some, Option.some.injEq] at hv; subst hv; exact rsize_np _ _
        · intro f hf
          obtain ⟨p, _, rfl⟩ := List.mem_map.mp hf
          exact rsize_np _ _
    · next s1 e hne hb =>
      rw [hb] at hk hn
      exact ⟨hk, PO.cast hn (fun a ha => hne a.1 a.2 ha)⟩
/-! ## `type_definition::build` -/

theorem injectBases_np (reg : Registry) (regions : List Region) (acc : InjAcc)
    (h : ∀ r ∈ regions, r.name.isSome = true) : PO NoSite (injectBases reg regions acc) := by
  unfold injectBases
  apply PO.foldlM
  intro acc ib hib
  have hn : ib.2.name.isSome = true := by
    obtain ⟨p, hp, rfl⟩ := List.mem_map.mp hib
    obtain ⟨x, i⟩ := p
    rw [List.mem_zipIdx_iff_getElem?] at hp
    exact h x (List.mem_filter.mp (List.mem_of_getElem? hp)).1
  simp only []
  split
  · po_triv
  · po_triv
  · next h1 h2 =>
    refine PO.cast (regionNameAndTypeDef_np reg _ hn) ?_
    intro a ha
    cases a with
    | none => exact h1 ha
    | some x => exact h2 x.1 x.2 ha

theorem addImplFns_np (reg : Registry) (scope : List Path) (impl : Option G.Impl) (acc : InjAcc)
    (h : reg.contains ["u8"] = true) : PO NoSite (addImplFns reg scope impl acc) := by
  unfold addImplFns
  split
  · po_triv
  · apply PO.foldlM
    intro acc f _
    split
    · po_triv
    · split
      · po_triv
      · next hne => exact PO.cast (buildFunction_np reg scope false f h) hne

theorem checkDefaultable_np (reg : Registry) (regions : List Region) : PO NoSite (checkDefaultable reg regions) := by
  unfold checkDefaultable
  apply PO.foldlM
  intro b a _ site h
  no_panic_at h

theorem tryUsize_le (v : Int) (n : Nat) (h : tryUsize v = some n) (hv : v ≤ isizeMax) : n ≤ 2 ^ 63 := by
  unfold tryUsize at h
  split at h
  · cases h
    unfold isizeMax at hv
    omega
  · cases h

theorem typeAttrStep_bound (st st' : TypeAttrs) (a : G.Attr)
    (ha : ∀ n args z, a = .fn n args → G.Expr.int z ∈ args → isizeMin ≤ z ∧ z ≤ isizeMax)
    (hI : ∀ x, st.align = some x → x ≤ 2 ^ 63) (h : typeAttrStep st a = .ok st') :
    ∀ x, st'.align = some x → x ≤ 2 ^ 63 := by
  unfold typeAttrStep at h
  split at h
  · split at h
    · cases h; exact hI
    · cases h
  · split at h
    · cases h; exact hI
    · cases h
  · next v =>
    split at h
    · next n hn =>
      cases h
      intro x hx
      simp only [Option.some.injEq] at hx
      subst hx
      exact tryUsize_le v n hn (ha _ _ v rfl (by simp)).2
    · cases h
  · cases h; exact hI
  · cases h; exact hI
  · cases h; exact hI
  · cases h; exact hI
  · cases h; exact hI

theorem typeAttrs_bound (attrs : List G.Attr) (hb : AttrsBounded attrs) (ta : TypeAttrs)
    (h : Res.foldlM typeAttrStep {} attrs = .ok ta) : ∀ x, ta.align = some x → x ≤ 2 ^ 63 := by
  refine (PO.foldlM_inv (S := fun _ => True) (fun st : TypeAttrs => ∀ x, st.align = some x → x ≤ 2 ^ 63)
    typeAttrStep attrs {} (fun x hx => by cases hx) ?_).2 ta h
  intro st a hmem hI
  refine ⟨fun _ _ => trivial, fun st' hst => typeAttrStep_bound st st' a ?_ hI hst⟩
  intro n args z hn hz
  subst hn
  exact hb n args z hmem hz

/-- the outcome of building an item: panics only at the allocation limit, and a result has a good alignment -/
def RG (B : Prop) (x : Res Resolved) : Prop := PO Alloc x ∧ (B → ∀ r, x = .ok r → GoodAl r.align)

theorem RG.err {B : Prop} (m : String) : RG B (.err m) := ⟨PO.err m, fun _ _ h => by cases h⟩
theorem RG.defer {B : Prop} : RG B .defer := ⟨PO.defer, fun _ _ h => by cases h⟩
theorem RG.cast {B : Prop} {α} {e : Res α} (h : PO Alloc e) (hne : ∀ a, e = .ok a → False) : RG B e.cast :=
  ⟨PO.cast h hne, fun _ _ hr => absurd hr (C01.cast_ne_ok _ _)⟩

/-- `type_definition::build`: the state keeps the invariant, the only panic is the allocation limit, and
    – when the attribute literals are `isize`s – the alignment of the result is a power of two `≤ 2 ^ 63` -/
theorem buildType_shape (s : State) (path : Path) (vis : Vis) (d : G.TypeDef) (hs : StateOk s) :
    Keeps s (buildType s path vis d).1 ∧ RG (AttrsBounded d.attrs) (buildType s path vis d).2 := by
  unfold buildType
  split
  · exact ⟨Keeps.refl hs, RG.err _⟩
  · next module hmod =>
    split
    · exact ⟨Keeps.refl hs, RG.err _⟩
    · split
      · next ta hta =>
        have hstm := PO.foldlM_inv (S := Alloc) PendOk (stmtStep s.reg module.scope)
          (d.stmts.zipIdx.map fun p => (p.2, p.1)) {} (fun p hp => by cases hp)
          (fun acc ist _ hacc => ⟨stmtStep_po _ _ _ _ hs.u8c, fun acc' h => stmtStep_pend _ _ _ _ _ hacc h⟩)
        split
        · next sa hsa =>
          have hpend := hstm.2 sa hsa
          have sh := resolveRegions_shape s path vis ta.targetSize sa.pending sa.vfns hs hpend
          split
          · next s1 regions vft size placed hrr =>
            rw [hrr] at sh
            obtain ⟨vregion, hres, hname⟩ := C01.resolveRegions_inv _ _ _ _ _ _ _ _ _ _ _ hrr
            have hk : Keeps s s1 := sh.1
            have hreg := hk.ok.reg
            obtain ⟨hgood, hsum⟩ := resolve_good _ _ _ _ _ hres
              (by
                intro v hv s0 hs0
                cases vregion with
                | none => cases hv
                | some _ =>
                  simp only [Option.map_some, Option.some.injEq] at hv; subst hv
                  exact rty_good hreg _ s0 hs0)
              (by
                intro f hf s0 hs0
                obtain ⟨p, _, rfl⟩ := List.mem_map.mp hf
                exact rty_good hreg _ s0 hs0)
            refine ⟨hk, ?_⟩
            simp only []
            split
            · next hnone =>
              obtain ⟨m', hm'⟩ := hk.mods path module hmod
              rw [hm'] at hnone; cases hnone
            · split
              · split
                · split
                  · split
                    · next alignment hal =>
                      refine ⟨PO.ok _, fun hb r hr => ?_⟩
                      cases hr
                      exact alignCheck_good _ _ _ _ _ _ (goodAl_ps hreg) (typeAttrs_bound _ hb ta hta) hgood hal
                    · next hne => exact RG.cast (alignCheck_np _ _ _ _ _ hgood hsum).alloc hne
                  · next hne =>
                    refine RG.cast ?_ (fun a ha => hne ha)
                    split
                    · exact (checkDefaultable_np _ _).alloc
                    · po_triv
                · next hne => exact RG.cast (addImplFns_np _ _ _ _ hk.ok.u8c).alloc hne
              · next hne =>
                exact RG.cast (injectBases_np _ _ _ (nameRegions_named _ _ _ _ hname)).alloc hne
          · next s1 e hne hrr =>
            rw [hrr] at sh
            exact ⟨sh.1, RG.cast sh.2.alloc (fun a ha => hne a.1 a.2.1 a.2.2.1 a.2.2.2 ha)⟩
        · next hne => exact ⟨Keeps.refl hs, RG.cast hstm.1 hne⟩
      · next hne =>
        exact ⟨Keeps.refl hs, RG.cast (PO.foldlM _ _ _ (fun b a _ => typeAttrStep_np b a)).alloc hne⟩
/-! ## `enum_definition::build` -/

theorem enumStmtStep_np (range : Int × Int) (acc : EnumAcc) (st : G.EnumStmt) :
    PO NoSite (enumStmtStep range acc st) := by
  unfold enumStmtStep
  split
  · split
    · po_triv
    · split
      · po_triv
      · simp only []
        split
        · po_triv
        · next hne =>
          refine PO.cast (PO.foldlM _ _ _ ?_) hne
          intro di a _ site h
          no_panic_at h
  · next hne =>
    refine PO.cast ?_ hne
    intro site h
    no_panic_at h

theorem buildEnum_po (s : State) (p : Path) (d : G.EnumDef) (h : s.reg.contains ["u8"] = true) :
    PO NoSite (buildEnum s p d) := by
  unfold buildEnum
  split
  · po_triv
  · split
    · split
      · po_triv
      · split
        · po_triv
        · split
          · po_triv
          · split
            · split
              · po_triv
              · split
                · split
                  · po_triv
                  · split
                    · po_triv
                    · split <;> po_triv
                · next hne => exact PO.cast (PO.foldlM _ _ _ (fun b a _ => enumAttrStep_np b a)) hne
            · next hne => exact PO.cast (PO.foldlM _ _ _ (fun b a _ => enumStmtStep_np _ b a)) hne
      · next h1 h2 =>
        refine PO.cast (dsize_np _ _) ?_
        intro a ha
        cases a with
        | none => exact h1 ha
        | some x => exact h2 x ha
    · next hne => exact PO.cast (resolveTy_np _ _ _ h) hne

theorem buildEnum_shape (s : State) (p : Path) (d : G.EnumDef) (hs : StateOk s) : RG True (buildEnum s p d) := by
  refine ⟨(buildEnum_po s p d hs.u8c).alloc, fun _ r hr => ?_⟩
  obtain ⟨ed, range, _, _, _, hal⟩ := C02.buildEnum_inv s p d r hr
  exact dalign_good hs.reg _ _ hal

/-! ## one attempt -/

/-- under the invariant an attempt panics only at the allocation limit -/
theorem attemptItem_po (s : State) (p : Path) (hs : StateOk s) : PO Alloc (attemptItem s p).2 := by
  unfold attemptItem
  split
  · exact PO.err _
  · split
    · exact PO.ok _
    · next d _ =>
      split
      · next td _ =>
        have sh := (buildType_shape s p d.vis td hs).2.1
        split
        · exact PO.ok _
        · exact PO.ok _
        · exact PO.err _
        · next s1 m hb => rw [hb] at sh; exact sh.of_panic rfl
      · next ed _ =>
        have sh := (buildEnum_shape s p ed hs).1
        split
        · exact PO.ok _
        · exact PO.ok _
        · exact PO.err _
        · next m hb => exact sh.of_panic hb

/-- an attempt keeps the invariant when the literals of the definitions are `isize`s -/
theorem attemptItem_ok (s : State) (p : Path) (hs : StateOkB s) : StateOkB (attemptItem s p).1 := by
  unfold attemptItem
  split
  · exact hs
  · next item hget =>
    split
    · exact hs
    · next d hd =>
      have hbd := hs.lits p item d hget hd
      unfold ItemBounded at hbd
      split
      · next td htd =>
        rw [htd] at hbd
        have sh := buildType_shape s p d.vis td hs.ok
        split
        · next s1 r hb =>
          rw [hb] at sh
          exact ⟨setState_ok s1 p r sh.1.ok (sh.2.2 hbd r rfl), setState_lits s1 p r (sh.1.lits hs.lits)⟩
        · next s1 hb => rw [hb] at sh; exact ⟨sh.1.ok, sh.1.lits hs.lits⟩
        · next s1 m hb => rw [hb] at sh; exact ⟨sh.1.ok, sh.1.lits hs.lits⟩
        · next s1 m hb => rw [hb] at sh; exact ⟨sh.1.ok, sh.1.lits hs.lits⟩
      · next ed _ =>
        have sh := buildEnum_shape s p ed hs.ok
        split
        · next r hb => exact ⟨setState_ok s p r hs.ok (sh.2 trivial r hb), setState_lits s p r hs.lits⟩
        · exact hs
        · exact hs
        · exact hs

theorem runRound_shape (l : List Path) (s : State) (hs : StateOkB s) :
    StateOkB (runRound s l).1 ∧ PO Alloc (runRound s l).2 := by
  induction l generalizing s with
  | nil => exact ⟨hs, PO.ok _⟩
  | cons p ps ih =>
    have h1 := attemptItem_ok s p hs
    have h2 := attemptItem_po s p hs.ok
    unfold runRound
    split
    · next s1 ha => rw [ha] at h1; exact ih s1 h1
    · next s1 e _ ha => rw [ha] at h1 h2; exact ⟨h1, h2⟩

/-! ## the resolution loop and `build` -/

/-- what the resolution loop may end in -/
def LoopGood : BuildOutcome → Prop
  | .ok s1 => StateOkB s1
  | .panic site => site = allocSite
  | _ => True

/-- what a build may end in -/
def BuildGood : BuildOutcome → Prop
  | .panic site => site = allocSite
  | .fuel => False
  | _ => True

theorem resolveLoop_shape (prio : List Path) (fuel : Nat) (s : State) (hs : StateOkB s) :
    LoopGood (resolveLoop prio fuel s) := by
  induction fuel generalizing s with
  | zero => simp [resolveLoop, LoopGood]
  | succ n ih =>
    unfold resolveLoop
    simp only []
    split
    · exact hs
    · have hr := runRound_shape (s.reg.unresolved prio) s hs
      split
      · next s1 h1 =>
        rw [h1] at hr
        split
        · trivial
        · exact ih s1 hr.1
      · trivial
      · next s1 m h1 => rw [h1] at hr; exact hr.2 m rfl
      · trivial

theorem resolveXVals_np (reg : Registry) (m : Mod) (h : reg.contains ["u8"] = true) :
    PO NoSite (resolveXVals reg m) := by
  unfold resolveXVals
  split
  · po_triv
  · next hne =>
    refine PO.cast (PO.mapM' _ _ ?_) hne
    intro ev _
    split
    · po_triv
    · po_triv
    · next h1 h2 =>
      refine PO.cast (resolveTy_np reg _ _ h) ?_
      intro a ha
      exact h1 a ha

theorem build_shape (s : State) (prio : List Path) (hs : StateOkB s) : BuildGood (s.build prio) := by
  have h1 := resolveLoop_shape prio (2 * (s.reg.types.filter fun e => !e.2.isResolved).length + 2) s hs
  have h2 := C10.resolveLoop_ne_fuel prio (2 * (s.reg.types.filter fun e => !e.2.isResolved).length + 2) s
    hs.ok.reg.keys (by have := C10.mu_le s.reg; omega)
  unfold State.build
  simp only []
  split
  · next s1 hrl =>
    rw [hrl] at h1
    split
    · trivial
    · trivial
    · next m hm =>
      exfalso
      refine PO.mapM' (S := NoSite) _ _ ?_ m hm
      intro e _
      split
      · po_triv
      · next hne => exact PO.cast (resolveXVals_np _ _ h1.ok.u8c) hne
    · trivial
  · next x hne =>
    cases hx : resolveLoop prio (2 * (s.reg.types.filter fun e => !e.2.isResolved).length + 2) s with
    | ok s1 => exact absurd hx (hne s1)
    | nonterm f => trivial
    | err m => trivial
    | panic site => rw [hx] at h1; exact h1
    | fuel => exact absurd hx h2

/-! ## `SemanticState::new` -/

/-- `RegOk` without the presence of `u8` -/
structure RegOk0 (r : Registry) : Prop where
  ps_pow2 : Layout.isPow2 r.ps = true
  ps_small : r.ps ≤ 2 ^ 32
  keys : (r.types.map (·.1)).Nodup
  wellKeyed : ∀ p i, r.get p = some i → i.path = p
  aligns : ∀ p i res, r.get p = some i → i.state = .res res → GoodAl res.align

theorem regOk0_add {r : Registry} (hr : RegOk0 r) (i : ItemDef)
    (hal : ∀ res, i.state = .res res → GoodAl res.align) : RegOk0 (r.add i) := by
  refine ⟨hr.ps_pow2, hr.ps_small, ?_, ?_, ?_⟩
  · have := C10.keys_add r i
    unfold C10.keys at this
    rw [this, List.nodup_cons]
    exact ⟨by simp, List.Nodup.sublist List.filter_sublist hr.keys⟩
  · intro p j hj
    rw [C14.get_add] at hj
    by_cases hp : p = i.path
    · rw [if_pos hp] at hj; cases hj; exact hp.symm
    · rw [if_neg hp] at hj; exact hr.wellKeyed p j hj
  · intro p j res hj hres
    rw [C14.get_add] at hj
    by_cases hp : p = i.path
    · rw [if_pos hp] at hj; cases hj; exact hal res hres
    · rw [if_neg hp] at hj; exact hr.aligns p j res hj hres

theorem predefinedAlign_good : ∀ nm ∈ Gen.predefinedTypes, GoodAl (Gen.predefinedAlign nm.2) := by
  intro nm hnm
  simp only [Gen.predefinedTypes, List.mem_cons, List.not_mem_nil, or_false] at hnm
  have h1 : GoodAl 1 := goodAl_one
  have h2 : GoodAl 2 := ⟨(Layout.isPow2_iff 2).mpr ⟨1, rfl⟩, by decide⟩
  have h4 : GoodAl 4 := ⟨(Layout.isPow2_iff 4).mpr ⟨2, rfl⟩, by decide⟩
  have h8 : GoodAl 8 := ⟨(Layout.isPow2_iff 8).mpr ⟨3, rfl⟩, by decide⟩
  have h16 : GoodAl 16 := ⟨(Layout.isPow2_iff 16).mpr ⟨4, rfl⟩, by decide⟩
  rcases hnm with rfl | rfl | rfl | rfl | rfl | rfl | rfl | rfl | rfl | rfl | rfl | rfl | rfl | rfl <;>
    first | exact h1 | exact h2 | exact h4 | exact h8 | exact h16

/-- invariant of the fold in `SemanticState::new` -/
structure NewInv (s : State) : Prop where
  reg : RegOk0 s.reg
  root : (s.getModule []).isSome = true
  pre : ∀ p i, s.reg.get p = some i → i.isPredefined = true ∧ i.isResolved = true

theorem newStep_inv (s : State) (nm : String × Nat) (hs : NewInv s) (hnm : nm ∈ Gen.predefinedTypes) :
    NewInv (C02.newStep s nm) := by
  obtain ⟨h1, h2⟩ := C02.newStep_spec s nm hs.root
  refine ⟨?_, h1, ?_⟩
  · rw [h2]
    refine regOk0_add hs.reg _ ?_
    intro res hres
    simp only [C02.predefItem, IState.res.injEq] at hres
    subst hres
    exact predefinedAlign_good nm hnm
  · intro p i hi
    rw [h2, C14.get_add] at hi
    by_cases hp : p = (C02.predefItem nm).path
    · rw [if_pos hp] at hi; cases hi; exact ⟨rfl, rfl⟩
    · rw [if_neg hp] at hi; exact hs.pre p i hi

theorem new_inv (ps : Nat) (h : ps = 4 ∨ ps = 8) : NewInv (State.new ps) := by
  rw [C02.new_eq]
  have h0 : NewInv { modules := [([], ({} : Mod))], reg := { ps := ps } } := by
    refine ⟨⟨?_, ?_, ?_, ?_, ?_⟩, rfl, ?_⟩
    · rcases h with rfl | rfl
      · exact (Layout.isPow2_iff 4).mpr ⟨2, rfl⟩
      · exact (Layout.isPow2_iff 8).mpr ⟨3, rfl⟩
    · rcases h with rfl | rfl <;> decide
    · exact List.nodup_nil
    · intro p i hi; cases hi
    · intro p i res hi; cases hi
    · intro p i hi; cases hi
  have : ∀ (l : List (String × Nat)) (s : State), (∀ nm ∈ l, nm ∈ Gen.predefinedTypes) → NewInv s →
      NewInv (l.foldl C02.newStep s) := by
    intro l
    induction l with
    | nil => intro s _ hs; exact hs
    | cons x l ih =>
      intro s hl hs
      exact ih _ (fun nm hnm => hl nm (by simp [hnm])) (newStep_inv s x hs (hl x (by simp)))
  exact this _ _ (fun _ h => h) h0

theorem new_okB (ps : Nat) (h : ps = 4 ∨ ps = 8) : StateOkB (State.new ps) := by
  have hi := new_inv ps h
  refine ⟨⟨⟨hi.reg.ps_pow2, hi.reg.ps_small, ?_, hi.reg.keys, hi.reg.wellKeyed, hi.reg.aligns⟩, ?_⟩, ?_⟩
  · exact ⟨_, C02.new_get ps ("u8", 1) (by decide), rfl⟩
  · intro p i hi' hnp
    exact absurd (hi.pre p i hi').1 hnp
  · intro p i d hi' hd
    have := (hi.pre p i hi').2
    simp [ItemDef.isResolved, ItemDef.resolved?, hd] at this
/-! ## `add_module` -/

theorem defStep_np (path : Path) (s : State) (d : G.Item) : PO NoSite (C14.defStep path s d) := by
  unfold C14.defStep
  split
  · po_triv
  · exact addItem_np _ _

theorem xtypeStep_np (path : Path) (s : State) (xt : String × List G.Attr) :
    PO NoSite (C14.xtypeStep path s xt) := by
  unfold C14.xtypeStep
  split
  · split
    · po_triv
    · split
      · po_triv
      · split
        · po_triv
        · split
          · po_triv
          · exact addItem_np _ _
  · next hne => exact PO.cast (PO.foldlM _ _ _ (fun b a _ => xtypeAttrStep_np b a)) hne

theorem xvalStep_np (ev : G.XVal) : PO NoSite (C14.xvalStep ev) := by
  unfold C14.xvalStep
  split
  · po_triv
  · po_triv
  · next h1 h2 =>
    refine PO.cast (xvalAddress_np _) ?_
    intro a ha
    cases a with
    | none => exact h1 ha
    | some x => exact h2 x ha

theorem addModule_np (s : State) (m : G.Module) (path : Path) : PO NoSite (s.addModule m path) := by
  have e : s.addModule m path =
      (match Res.mapM' C14.xvalStep m.xvals with
       | .ok xvals =>
         match G.docOf m.attrs with
         | none => .err "doc attribute must be a string literal"
         | some doc =>
           if m.impls.any (fun b => !(m.defs.any fun d =>
              d.name == b.name && (match d.inner with | .type _ => true | .enum _ => false))) then
             .err "impl block does not belong to a type defined in that module"
           else
           match Res.foldlM (C14.defStep path) (s.putModule path (C14.newMod m path xvals doc)) m.defs with
           | .ok s2 => Res.foldlM (C14.xtypeStep path) s2 m.xtypes
           | e => e
       | e => e.cast) := rfl
  rw [e]
  split
  · split
    · po_triv
    · split
      · po_triv
      · split
        · exact PO.foldlM _ _ _ (fun b a _ => xtypeStep_np path b a)
        · exact PO.foldlM _ _ _ (fun b a _ => defStep_np path b a)
  · next hne => exact PO.cast (PO.mapM' _ _ (fun a _ => xvalStep_np a)) hne

theorem moduleFor_putModule (s : State) (path : Path) (mod : Mod) (q : Path) (m : Mod)
    (h : s.moduleFor q = some m) : ∃ m', (s.putModule path mod).moduleFor q = some m' := by
  unfold State.moduleFor at h ⊢
  split at h
  · cases h
  · next parent hp =>
    unfold State.getModule State.putModule at *
    simp only [List.lookup_cons]
    by_cases hq : parent = path
    · subst hq; simp
    · have : (parent == path) = false := by simpa using hq
      simp only [this]
      rw [C14.lookup_filter_ne _ _ _ hq]
      exact ⟨m, h⟩

theorem putModule_ok (s : State) (path : Path) (mod : Mod) (hs : StateOk s) :
    StateOk (s.putModule path mod) := by
  refine ⟨hs.reg, ?_⟩
  intro p i hi hnp
  obtain ⟨m, hm⟩ := hs.parents p i hi hnp
  exact moduleFor_putModule s path mod p m hm

theorem defStep_ok (path : Path) (s s' : State) (d : G.Item) (hs : StateOk s)
    (h : C14.defStep path s d = .ok s') : StateOk s' := by
  unfold C14.defStep at h
  split at h
  · cases h
  · next hc =>
    refine addItem_ok s s' _ hs h ?_ ?_
    · intro res hres; cases hres
    · intro hp
      simp only at hp
      rw [hp, hs.u8c] at hc
      exact absurd rfl hc

theorem defStep_lits (path : Path) (s s' : State) (d : G.Item) (hl : Lits s) (hd : ItemBounded d)
    (h : C14.defStep path s d = .ok s') : Lits s' := by
  unfold C14.defStep at h
  split at h
  · cases h
  · refine addItem_lits s s' _ hl h ?_
    intro d' hd'
    simp only [IState.unres.injEq] at hd'
    subst hd'
    exact hd

theorem xtypeAttrStep_bound (st st' : XTypeAttrs) (a : G.Attr)
    (ha : ∀ n args z, a = .fn n args → G.Expr.int z ∈ args → isizeMin ≤ z ∧ z ≤ isizeMax)
    (hI : ∀ x, st.align = some x → x ≤ 2 ^ 63) (h : xtypeAttrStep st a = .ok st') :
    ∀ x, st'.align = some x → x ≤ 2 ^ 63 := by
  unfold xtypeAttrStep at h
  split at h
  · split at h
    · cases h; exact hI
    · cases h
  · next v =>
    split at h
    · next n hn =>
      cases h
      intro x hx
      simp only [Option.some.injEq] at hx
      subst hx
      exact tryUsize_le v n hn (ha _ _ v rfl (by simp)).2
    · cases h
  · cases h; exact hI

theorem xtypeAttrs_bound (attrs : List G.Attr) (hb : AttrsBounded attrs) (xa : XTypeAttrs)
    (h : Res.foldlM xtypeAttrStep {} attrs = .ok xa) : ∀ x, xa.align = some x → x ≤ 2 ^ 63 := by
  refine (PO.foldlM_inv (S := fun _ => True) (fun st : XTypeAttrs => ∀ x, st.align = some x → x ≤ 2 ^ 63)
    xtypeAttrStep attrs {} (fun x hx => by cases hx) ?_).2 xa h
  intro st a hmem hI
  refine ⟨fun _ _ => trivial, fun st' hst => xtypeAttrStep_bound st st' a ?_ hI hst⟩
  intro n args z hn hz
  subst hn
  exact hb n args z hmem hz

theorem xtypeStep_ok (path : Path) (s s' : State) (xt : String × List G.Attr) (hs : StateOk s)
    (hb : AttrsBounded xt.2) (h : C14.xtypeStep path s xt = .ok s') : StateOk s' := by
  unfold C14.xtypeStep at h
  split at h
  · next xa hxa =>
    split at h
    · cases h
    · split at h
      · cases h
      · next align hal =>
        split at h
        · cases h
        · next hpow =>
          split at h
          · cases h
          · refine addItem_ok s s' _ hs h ?_ (fun _ => rfl)
            intro res hres
            simp only [IState.res.injEq] at hres
            subst hres
            exact ⟨by simpa using hpow, xtypeAttrs_bound _ hb xa hxa align hal⟩
  · exact (C14.cast_ne_ok _ _ h).elim

theorem xtypeStep_lits (path : Path) (s s' : State) (xt : String × List G.Attr) (hl : Lits s)
    (h : C14.xtypeStep path s xt = .ok s') : Lits s' := by
  unfold C14.xtypeStep at h
  split at h
  · split at h
    · cases h
    · split at h
      · cases h
      · split at h
        · cases h
        · split at h
          · cases h
          · refine addItem_lits s s' _ hl h ?_
            intro d hd; cases hd
  · exact (C14.cast_ne_ok _ _ h).elim

/-- `add_module` keeps `StateOk` when the attributes of its extern types carry `isize` literals -/
theorem addModule_ok' (s s' : State) (m : G.Module) (path : Path) (hs : StateOk s)
    (hx : ∀ xt ∈ m.xtypes, AttrsBounded xt.2) (h : s.addModule m path = .ok s') : StateOk s' := by
  obtain ⟨xvals, doc, s2, _, h1, h2⟩ := C14.addModule_inv s s' m path h
  have k0 := putModule_ok s path (C14.newMod m path xvals doc) hs
  have k2 : StateOk s2 :=
    (PO.foldlM_inv (S := fun _ => True) StateOk (C14.defStep path) m.defs _ k0
      (fun b d _ hb => ⟨fun _ _ => trivial, fun b' hb' => defStep_ok path b b' d hb hb'⟩)).2 s2 h1
  exact (PO.foldlM_inv (S := fun _ => True) StateOk (C14.xtypeStep path) m.xtypes _ k2
      (fun b xt hxt hb => ⟨fun _ _ => trivial, fun b' hb' => xtypeStep_ok path b b' xt hb (hx xt hxt) hb'⟩)).2 s' h2

theorem addModule_lits (s s' : State) (m : G.Module) (path : Path) (hl : Lits s)
    (hd : ∀ d ∈ m.defs, ItemBounded d) (h : s.addModule m path = .ok s') : Lits s' := by
  obtain ⟨xvals, doc, s2, _, h1, h2⟩ := C14.addModule_inv s s' m path h
  have k0 : Lits (s.putModule path (C14.newMod m path xvals doc)) := hl
  have k2 : Lits s2 :=
    (PO.foldlM_inv (S := fun _ => True) Lits (C14.defStep path) m.defs _ k0
      (fun b d hdm hb => ⟨fun _ _ => trivial, fun b' hb' => defStep_lits path b b' d hb (hd d hdm) hb'⟩)).2 s2 h1
  exact (PO.foldlM_inv (S := fun _ => True) Lits (C14.xtypeStep path) m.xtypes _ k2
      (fun b xt _ hb => ⟨fun _ _ => trivial, fun b' hb' => xtypeStep_lits path b b' xt hb hb'⟩)).2 s' h2

theorem addModule_okB (s s' : State) (m : G.Module) (path : Path) (hs : StateOkB s) (hm : ModuleBounded m)
    (h : s.addModule m path = .ok s') : StateOkB s' :=
  ⟨addModule_ok' s s' m path hs.ok hm.xtypes h, addModule_lits s s' m path hs.lits hm.defs h⟩

/-! ## whole cases -/

/-- the AST modules of a case carry `isize` literals in their alignment-relevant attributes -/
def CaseBounded (c : Case) : Prop := ∀ path file m, ModEnt.ast path file m ∈ c.modules → ModuleBounded m

theorem initialState_shape (c : Case) (hps : c.ps = 4 ∨ c.ps = 8) (hb : CaseBounded c) :
    PO NoSite c.initialState ∧ ∀ s, c.initialState = .ok s → StateOkB s := by
  unfold Case.initialState
  refine PO.foldlM_inv StateOkB _ c.modules _ (new_okB c.ps hps) ?_
  intro s me hme hs
  cases me with
  | ast path file m => exact ⟨addModule_np s m path, fun s' h => addModule_okB s s' m path hs (hb path file m hme) h⟩
  | text f t => exact ⟨PO.err _, fun _ h => by cases h⟩

theorem run_shape (c : Case) (hps : c.ps = 4 ∨ c.ps = 8) (hb : CaseBounded c) : BuildGood c.run := by
  obtain ⟨h1, h2⟩ := initialState_shape c hps hb
  unfold Case.run
  split
  · next s hs => exact build_shape s c.prio (h2 s hs)
  · trivial
  · next m hm => exact (h1 m hm).elim
  · trivial
/-! ## the counterexamples to the statements without the literal bound

All of them put a literal `2 ^ 64` – not an `isize`, so not something the parser produces – into an
`#[align(N)]` attribute.  The evaluations are checked by the kernel (`decide +kernel`); `List.mergeSort`
does not reduce there, so the resolution loop is stepped through by hand. -/

/-- the state of an outcome, `State.new 8` if there is none -/
def stateOf (r : Res State) : State := match r with | .ok s => s | _ => State.new 8

theorem eq_ok_stateOf (r : Res State) (h : r.isOk = true) : r = .ok (stateOf r) := by
  cases r <;> first | rfl | cases h

/-- the alignment stored for `p`, if `p` is resolved -/
def alignAt (s : State) (p : Path) : Option Nat := (s.reg.get p).bind fun i => i.resolved?.map (·.align)

theorem alignAt_le {s : State} (hs : StateOk s) (p : Path) (a : Nat) (h : alignAt s p = some a) : a ≤ 2 ^ 63 := by
  unfold alignAt at h
  cases hg : s.reg.get p with
  | none => simp [hg] at h
  | some i =>
    simp only [hg, Option.bind_some] at h
    cases hst : i.state with
    | unres d => simp [ItemDef.resolved?, hst] at h
    | res res =>
      simp only [ItemDef.resolved?, hst, Option.map_some, Option.some.injEq] at h
      subst h
      exact (hs.reg.aligns p i res hg hst).2

/-- `#[size(0), align(18446744073709551616)] extern type X;` -/
def ceExtern : G.Module := { xtypes := [("X", [.fn "size" [.int 0], .fn "align" [.int (2 ^ 64)]])] }

/-- `#[align(18446744073709551616)] type V {}` -/
def ceV : G.Item :=
  { vis := .pub, name := "V", inner := .type { stmts := [], attrs := [.fn "align" [.int (2 ^ 64)]] } }

/-- `#[align(18446744073709551616)] type V {}  type A { v: V }` -/
def ceModule : G.Module :=
  { defs := [ceV, { vis := .pub, name := "A",
                    inner := .type { stmts := [{ field := .field .pub "v" (.ident "V"), attrs := [] }], attrs := [] } }] }

/-- pointer width 8, the one module `ceModule` at the root, no priorities -/
def ceCase : Case := { id := "ce", ps := 8, prio := [], modules := [.ast [] "ce.pyxis" ceModule], extras := [] }

/-- the state of `ceCase` before the build -/
def ceState : State := stateOf ((State.new 8).addModule ceModule [])
/-- … and after the first round, in which `V` was resolved with alignment `2 ^ 64` -/
def ceState2 : State := (runRound ceState [["A"], ["V"]]).1
/-- the overflow check of `util::lcm` -/
def ceSite : String := "util::lcm: acc / gcd * x"

theorem ce_add : (State.new 8).addModule ceModule [] = .ok ceState :=
  eq_ok_stateOf _ (by decide +kernel)

theorem ce_ok : StateOk ceState :=
  addModule_ok' _ _ ceModule [] (new_okB 8 (Or.inr rfl)).ok (fun _ hx => by cases hx) ce_add

theorem ce_unres1 : ceState.reg.unresolved [] = [["A"], ["V"]] := by
  rw [C10.unresolved_eq, (by decide +kernel : C10.ulist ceState.reg = [["A"], ["V"]])]
  exact List.mergeSort_of_pairwise (by decide +kernel)

theorem ce_round1 : runRound ceState [["A"], ["V"]] = (ceState2, .ok ()) := by
  have : (runRound ceState [["A"], ["V"]]).2 = .ok () := by decide +kernel
  rw [← this]; rfl

theorem ce_unres2 : ceState2.reg.unresolved [] = [["A"]] := by
  rw [C10.unresolved_eq, (by decide +kernel : C10.ulist ceState2.reg = [["A"]])]
  exact List.mergeSort_singleton _

theorem ce_round2 : runRound ceState2 [["A"]] = ((runRound ceState2 [["A"]]).1, .panic ceSite) := by
  have : (runRound ceState2 [["A"]]).2 = .panic ceSite := by decide +kernel
  rw [← this]

theorem ce_loop2 (n : Nat) : resolveLoop [] (n + 1) ceState2 = .panic ceSite := by
  unfold resolveLoop
  simp only [ce_unres2]
  rw [ce_round2]
  rfl

theorem ce_loop1 (n : Nat) : resolveLoop [] (n + 2) ceState = .panic ceSite := by
  unfold resolveLoop
  simp only [ce_unres1, ce_round1, ce_unres2]
  exact ce_loop2 n

theorem ce_build : ceState.build [] = .panic ceSite := by
  unfold State.build
  simp only []
  rw [(by decide +kernel : (ceState.reg.types.filter fun e => !e.2.isResolved).length = 2)]
  rw [ce_loop1 4]

theorem ce_run : ceCase.run = .panic ceSite := by
  have : ceCase.initialState = .ok ceState := by
    simp only [Case.initialState, ceCase, Res.foldlM, ce_add]
  unfold Case.run
  rw [this]
  exact ce_build

theorem ceSite_ne : ceSite ≠ allocSite := by decide

end PyxisVerif.C12
