import PyxisVerif.Props.Exec
import PyxisVerif.Props.C02Global
import PyxisVerif.Props.C08
import PyxisVerif.Props.C12
import PyxisVerif.Props.C14
import PyxisVerif.Props.C15
import PyxisVerif.Props.C16
import PyxisVerif.Props.C17
import PyxisVerif.Lemmas.C09Case
/-!
# From per-item theorems to every accepted case: the provenance of every resolved item

`Lemmas/Exec.lean` carries `BuiltReg` (every emitted struct is the result of an accepted
`type_definition::build`, or a generated vftable struct) through a whole run.  This file carries a finer
invariant of the same kind, `AllGood`, for *every* entry of the registry:

* an unresolved entry is a definition written in a module of the case, registered under
  `module path ++ [name]` with the declared visibility (`Declared`);
* a resolved entry has an `Origin`: a predefined type, an extern type, a generated vftable struct, the result
  of an accepted `type_definition::build` of the definition registered under its path, or the result of an accepted
  `enum_definition::build` of the definition registered under its path – the last two in a state that satisfies
  the invariants of the run (`C12.StateOkB`, `Exec.Inv`) and whose (post-)registry the registry extends.

and an invariant `ModsGood (ModOf c)` on the stored modules (each extern value is the conversion of an extern value
written in a module of the case, each stored function block is one written in the case); every item was built in a
state whose modules satisfy it.  `case_good` / `case_type_origin` / `case_enum_origin` / `case_xvals` are the whole-run
theorems; `case_vft_master`, `case_fns_master` and `case_attrs_master` combine them with the decomposition of an
accepted `type_definition::build` (`buildType_full`) into statements about every emitted struct of the final registry.
`Props/CaseLift.lean` uses them to lift the per-item theorems of C01, C06, C08, C15, C16 and C17 to the final
registry and the emitted files of every accepted case.

Not carried: "every resolved item of the registry is listed in the definition paths of its module".  It is false when
two modules of a case have the same path (`add_module` replaces the stored module, whose definition paths start empty
again, while the registry keeps the earlier module's items), so the statements about emitted files go from the files to
the registry (`files_items`), not the other way round.

## Specification part (definitions only)
-/
namespace PyxisVerif.CaseLift
open Gen Layout


/-- `item` is a definition written in a module of the case, and `p` is the path it is registered under -/
def Declared (c : Case) (p : Path) (item : G.Item) : Prop :=
  ∃ path file m, ModEnt.ast path file m ∈ c.modules ∧ item ∈ m.defs ∧ p = path ++ [item.name]

/-- the registry entry `add_module` creates for a definition -/
def declItem (p : Path) (item : G.Item) : ItemDef :=
  { vis := item.vis, path := p, state := .unres item, cat := .defined }

/-- … and what a successful attempt turns it into -/
def builtItem (p : Path) (item : G.Item) (r : Resolved) : ItemDef :=
  { vis := item.vis, path := p, state := .res r, cat := .defined }

/-- where a resolved entry `(p, i)` of registry `reg`, with resolved part `r`, comes from.
    `D` says which definitions are declared, `Q` is what is known of the state an item was built in
    (besides the invariants of the run). -/
inductive Origin (D : Path → G.Item → Prop) (Q : State → Prop) (reg : Registry) (p : Path) (i : ItemDef)
    (r : Resolved) : Prop
  /-- `SemanticState::new` -/
  | predef (nm : String × Nat) (hm : nm ∈ predefinedTypes) (hp : p = [nm.1]) (hi : i = C02.predefItem nm)
  /-- an `extern type` of a module -/
  | extern (size align : Nat)
      (hi : i = { vis := .pub, path := p, state := .res { size, align, inner := .type {} }, cat := .extern })
  /-- `vftable::build_type`: the generated `<T>Vftable` struct of `owner` -/
  | vftable (reg0 : Registry) (owner : Path) (vis : Vis) (fns : List SFunc)
      (hi : buildVftableItem reg0 owner vis fns = some i) (hp : i.path = p)
  /-- an accepted `type_definition::build` of the declared definition `item` registered under `p`, in state `s`
      (post-state `s1`, which `reg` extends) -/
  | type (s s1 : State) (item : G.Item) (d : G.TypeDef)
      (hok : C12.StateOkB s) (hinv : Exec.Inv s) (hQ : Q s) (hD : D p item)
      (hget : s.reg.get p = some (declItem p item)) (hd : item.inner = .type d)
      (hb : buildType s p item.vis d = (s1, .ok r)) (he : C02.Ext s1.reg reg) (hi : i = builtItem p item r)
  /-- an accepted `enum_definition::build` of the declared definition `item` registered under `p`, in state `s`
      (which `reg` extends) -/
  | enum (s : State) (item : G.Item) (d : G.EnumDef)
      (hok : C12.StateOkB s) (hinv : Exec.Inv s) (hQ : Q s) (hD : D p item)
      (hget : s.reg.get p = some (declItem p item)) (hd : item.inner = .enum d)
      (hb : buildEnum s p d = .ok r) (he : C02.Ext s.reg reg) (hi : i = builtItem p item r)

/-- the invariant on one registry entry -/
def Good (D : Path → G.Item → Prop) (Q : State → Prop) (reg : Registry) (p : Path) (i : ItemDef) : Prop :=
  (∀ item, i.state = .unres item → D p item ∧ i = declItem p item) ∧
  (∀ r, i.state = .res r → Origin D Q reg p i r)

/-- **provenance, registry-wide** -/
def AllGood (D : Path → G.Item → Prop) (Q : State → Prop) (reg : Registry) : Prop :=
  ∀ p i, reg.get p = some i → Good D Q reg p i

/-- an extern value written in a module of the case -/
def DeclaredX (c : Case) (path : Path) (gx : G.XVal) : Prop :=
  ∃ file m, ModEnt.ast path file m ∈ c.modules ∧ gx ∈ m.xvals

/-- a function block (`impl`) written in a module of the case -/
def DeclaredImpl (c : Case) (path : Path) (blk : G.Impl) : Prop :=
  ∃ file m, ModEnt.ast path file m ∈ c.modules ∧ blk ∈ m.impls

/-- a function written in a function block for the type registered under `p`, in a module of the case -/
def DeclaredFn (c : Case) (p : Path) (gf : G.Func) : Prop :=
  ∃ path blk, DeclaredImpl c path blk ∧ p = path ++ [blk.name] ∧ gf ∈ blk.fns

/-- the stored extern value `x` is the conversion of the written extern value `gx`: the declared (non-negative)
    address, the same name, visibility and written type -/
def XvOf (gx : G.XVal) (x : XValue) : Prop :=
  ∃ a : Int, C15.declInt "address" gx.attrs = some a ∧ 0 ≤ a ∧ x.addr = a.toNat ∧ x.name = gx.name ∧
    x.vis = gx.vis ∧ x.gty = gx.ty

/-- what a stored module has from the case: every extern value is the conversion of one written in the case under the
    module's path, every stored function block is one written in the case under the module's path, keyed by the path of
    the type it names -/
def ModOf (c : Case) (path : Path) (md : Mod) : Prop :=
  (∀ x ∈ md.xvals, ∃ gx, DeclaredX c path gx ∧ XvOf gx x) ∧
  (∀ ib ∈ md.impls, ∃ blk, DeclaredImpl c path blk ∧ ib = (path ++ [blk.name], blk))

/-- an invariant on the stored modules -/
def ModsGood (P : Path → Mod → Prop) (s : State) : Prop := ∀ e ∈ s.modules, P e.1 e.2

/-- `P` does not look at the definition paths of a module (the only thing `add_item` changes) -/
def DefPathsBlind (P : Path → Mod → Prop) : Prop := ∀ path m dp, P path m → P path { m with defPaths := dp }

/-- the items of an abstract file: what follows the inner-doc node -/
def fileItems : Sexp → List Sexp
  | .list [.sym "file", _, .list (.sym "rs" :: _ :: items)] => items
  | _ => []

/-- the five ways `vftable::build` succeeds for a type at `owner` whose first `#[base]` field is `fb` and whose
    vftable block (if any) converted to `vfns`: the type's table `v` and the pointer region `ptr` handed to the layout
    core.  `reg` is the registry in which the base's table is read. -/
def VftCases (reg : Registry) (owner : Path) (fb : Option Region) (vfns : Option (List SFunc))
    (v : Option Vft) (ptr : Option Region) : Prop :=
  -- no block, no base table: no table
  (vfns = none ∧ ptr = none ∧ v = none ∧ baseVftable reg fb = .ok none) ∨
  -- no block, the first base has a table: inherited unchanged, no pointer of its own
  (vfns = none ∧ ptr = none ∧ ∃ bn bv, baseVftable reg fb = .ok (some (bn, bv)) ∧
    v = some { fns := bv.fns, baseField := some bn, ty := bv.ty }) ∨
  -- a block on a type without a parent path: ignored
  (∃ fns, vfns = some fns ∧ vftablePath owner = none ∧ ptr = none ∧ v = none) ∨
  -- a block, no base table: own table, own pointer
  (∃ fns vpath, vfns = some fns ∧ vftablePath owner = some vpath ∧ baseVftable reg fb = .ok none ∧
    ptr = some (C06.ownPointer vpath) ∧ v = some { fns := fns, baseField := none, ty := .cptr (.raw vpath) }) ∨
  -- a block and a base table: the base's slots are a prefix, the pointer is the base's
  (∃ fns vpath bn bv, vfns = some fns ∧ vftablePath owner = some vpath ∧
    baseVftable reg fb = .ok (some (bn, bv)) ∧ bv.fns <+: fns ∧ (bv.fns.map C06.slotSig) <+: (fns.map C06.slotSig) ∧
    ptr = none ∧ v = some { fns := fns, baseField := some bn, ty := .cptr (.raw vpath) })

/-- what a field statement contributes to the pending fields: its visibility, its name (none for `_`), its docs, its
    resolved type, `#[base]` and `#[address]` -/
def FieldOf (reg : Registry) (scope : List Path) (st : G.Stmt) (q : Option Nat × Region) : Prop :=
  ∃ (vis : Vis) (name : String) (ty : G.Ty) (fa : FieldAttrs) (t : DTy),
    st.field = .field vis name ty ∧ G.docOf st.attrs = some q.2.doc ∧ Res.foldlM fieldAttrStep {} st.attrs = .ok fa ∧
    reg.resolveTy scope ty = .ok t ∧
    q = (fa.address, { vis := vis, name := if name != "_" then some name else none, doc := q.2.doc, ty := .data t,
                       isBase := fa.isBase })

/-! ## Lemma part -/

/-! ### an invariant on the stored modules, through a whole run -/

theorem mapM'_mem {α β} (f : α → Res β) (l : List α) (l' : List β) (h : Res.mapM' f l = .ok l') :
    ∀ b ∈ l', ∃ a ∈ l, f a = .ok b := by
  obtain ⟨hl, hp⟩ := C15.mapM'_ok f l l' h
  intro b hb
  obtain ⟨k, hk, rfl⟩ := List.getElem_of_mem hb
  exact ⟨l[k]'(by omega), List.getElem_mem _, hp k (by omega) hk⟩

theorem addItem_mods {P : Path → Mod → Prop} (hP : DefPathsBlind P) (s s' : State) (i : ItemDef)
    (hs : ModsGood P s) (h : s.addItem i = .ok s') : ModsGood P s' := by
  obtain ⟨parent, m, hm, rfl⟩ := C14.addItem_inv s s' i h
  intro e he
  simp only [List.mem_map] at he
  obtain ⟨e0, he0, rfl⟩ := he
  by_cases hk : (e0.1 == parent) = true
  · rw [if_pos hk]
    have hmem := C14.mem_of_lookup s.modules parent m hm
    have := hP _ _ (if m.defPaths.contains i.path then m.defPaths else i.path :: m.defPaths) (hs (parent, m) hmem)
    have hp : e0.1 = parent := by simpa using hk
    simpa [hp] using this
  · rw [if_neg hk]
    exact hs e0 he0

theorem new_mods {P : Path → Mod → Prop} (hP : DefPathsBlind P) (h0 : P [] {}) (ps : Nat) : ModsGood P (State.new ps) := by
  rw [C02.new_eq]
  have : ∀ (l : List (String × Nat)) (s : State), ModsGood P s → ModsGood P (l.foldl C02.newStep s) := by
    intro l
    induction l with
    | nil => intro s hs; exact hs
    | cons x l ih =>
      intro s hs
      simp only [List.foldl_cons]
      apply ih
      unfold C02.newStep
      split
      · next s' ha => exact addItem_mods hP s s' _ hs ha
      · exact hs
  apply this
  intro e he
  simp only [List.mem_singleton] at he
  subst he
  exact h0

theorem reach2_mods {P : Path → Mod → Prop} (hP : DefPathsBlind P) {s s1 : State} {owner : Path}
    (hr : C02.Reach2 s s1 owner) (hs : ModsGood P s) : ModsGood P s1 := by
  rcases hr with rfl | ⟨vis, fns, item, _, _, ha⟩
  · exact hs
  · exact addItem_mods hP s s1 item hs ha

theorem ModsGood.of_modules {P : Path → Mod → Prop} {s s' : State} (h : ModsGood P s) (e : s'.modules = s.modules) :
    ModsGood P s' := by
  intro x hx
  rw [e] at hx
  exact h x hx

theorem attemptItem_mods {P : Path → Mod → Prop} (hP : DefPathsBlind P) (s : State) (p : Path) (hs : ModsGood P s) :
    ModsGood P (attemptItem s p).1 := by
  unfold attemptItem
  split
  · exact hs
  · split
    · exact hs
    · next d hd =>
      split
      · next td htd =>
        have sh := reach2_mods hP (C02.buildType_reach2 s p d.vis td) hs
        split
        · next s1 r hb => rw [hb] at sh; exact sh.of_modules rfl
        · next s1 hb => rw [hb] at sh; exact sh
        · next s1 m hb => rw [hb] at sh; exact sh
        · next s1 m hb => rw [hb] at sh; exact sh
      · split
        · exact hs.of_modules rfl
        · exact hs
        · exact hs
        · exact hs

theorem runRound_mods {P : Path → Mod → Prop} (hP : DefPathsBlind P) (l : List Path) (s : State) (hs : ModsGood P s) :
    ModsGood P (runRound s l).1 := by
  induction l generalizing s with
  | nil => exact hs
  | cons p ps ih =>
    have h2 := attemptItem_mods hP s p hs
    unfold runRound
    split
    · next s1 ha => rw [ha] at h2; exact ih s1 h2
    · next s1 e _ ha => rw [ha] at h2; exact h2

theorem resolveLoop_mods {P : Path → Mod → Prop} (hP : DefPathsBlind P) (prio : List Path) (fuel : Nat) (s : State)
    (hs : ModsGood P s) (s' : State) (hl : resolveLoop prio fuel s = .ok s') : ModsGood P s' := by
  induction fuel generalizing s with
  | zero => simp [resolveLoop] at hl
  | succ n ih =>
    unfold resolveLoop at hl
    simp only [] at hl
    split at hl
    · cases hl; exact hs
    · have hr2 := runRound_mods hP (s.reg.unresolved prio) s hs
      split at hl
      · next s1 h1 =>
        rw [h1] at hr2
        split at hl
        · cases hl
        · exact ih s1 hr2 hl
      · cases hl
      · cases hl
      · cases hl

theorem addModule_mods {P : Path → Mod → Prop} (hP : DefPathsBlind P) (s s' : State) (m : G.Module) (path : Path)
    (hs : ModsGood P s)
    (hnew : ∀ xvals doc, Res.mapM' C14.xvalStep m.xvals = .ok xvals → P path (C14.newMod m path xvals doc))
    (h : s.addModule m path = .ok s') : ModsGood P s' := by
  obtain ⟨xvals, doc, s2, hx, h1, h2⟩ := C14.addModule_inv s s' m path h
  have k0 : ModsGood P (s.putModule path (C14.newMod m path xvals doc)) := by
    intro e he
    simp only [State.putModule, List.mem_cons, List.mem_filter] at he
    rcases he with rfl | ⟨he, _⟩
    · exact hnew xvals doc hx
    · exact hs e he
  have k2 : ModsGood P s2 :=
    (C12.PO.foldlM_inv (S := fun _ => True) (ModsGood P) (C14.defStep path) m.defs _ k0
      (fun b d _ hb => ⟨fun _ _ => trivial, fun b' hb' => by
        obtain ⟨_, i, _, ha⟩ := C14.defStep_spec path b d b' hb'
        exact addItem_mods hP b b' i hb ha⟩)).2 s2 h1
  exact (C12.PO.foldlM_inv (S := fun _ => True) (ModsGood P) (C14.xtypeStep path) m.xtypes _ k2
      (fun b xt _ hb => ⟨fun _ _ => trivial, fun b' hb' => by
        obtain ⟨_, i, _, ha⟩ := C14.xtypeStep_spec path b xt b' hb'
        exact addItem_mods hP b b' i hb ha⟩)).2 s' h2

theorem modOf_blind (c : Case) : DefPathsBlind (ModOf c) := fun _ _ _ h => h

theorem modOf_root (c : Case) : ModOf c [] {} :=
  ⟨fun x hx => (by cases hx), fun ib hib => (by cases hib)⟩

theorem modOf_new (c : Case) (path : Path) (file : String) (m : G.Module) (hm : ModEnt.ast path file m ∈ c.modules)
    (xvals : List XValue) (doc : Option String) (hx : Res.mapM' C14.xvalStep m.xvals = .ok xvals) :
    ModOf c path (C14.newMod m path xvals doc) := by
  refine ⟨?_, ?_⟩
  · intro x hxm
    obtain ⟨gx, hgx, hstep⟩ := mapM'_mem _ _ _ hx x hxm
    exact ⟨gx, ⟨file, m, hm, hgx⟩, C15.xvalStep_ok gx x hstep⟩
  · intro ib hib
    simp only [C14.newMod, List.mem_map] at hib
    obtain ⟨blk, hblk, rfl⟩ := hib
    exact ⟨blk, ⟨file, m, hm, hblk⟩, rfl⟩

/-! ### the provenance invariant, step by step -/

theorem Origin.mono {D : Path → G.Item → Prop} {Q : State → Prop} {r r' : Registry} (he : C02.Ext r r') {p : Path}
    {i : ItemDef} {res : Resolved} (h : Origin D Q r p i res) : Origin D Q r' p i res := by
  cases h with
  | predef nm hm hp hi => exact .predef nm hm hp hi
  | extern size align hi => exact .extern size align hi
  | vftable reg0 owner vis fns hi hp => exact .vftable reg0 owner vis fns hi hp
  | type s s1 item d hok hinv hQ hD hget hd hb he' hi =>
    exact .type s s1 item d hok hinv hQ hD hget hd hb (he'.trans he) hi
  | enum s item d hok hinv hQ hD hget hd hb he' hi => exact .enum s item d hok hinv hQ hD hget hd hb (he'.trans he) hi

theorem Good.mono {D : Path → G.Item → Prop} {Q : State → Prop} {r r' : Registry} (he : C02.Ext r r') {p : Path}
    {i : ItemDef} (h : Good D Q r p i) : Good D Q r' p i :=
  ⟨h.1, fun res hr => (h.2 res hr).mono he⟩

theorem AllGood.step {D : Path → G.Item → Prop} {Q : State → Prop} {r r' : Registry} (h : AllGood D Q r)
    (he : C02.Ext r r') (hnew : ∀ p i, r'.get p = some i → r.get p = some i ∨ Good D Q r' p i) : AllGood D Q r' := by
  intro p i hg
  rcases hnew p i hg with ho | hn
  · exact (h p i ho).mono he
  · exact hn

theorem AllGood.addItem {D : Path → G.Item → Prop} {Q : State → Prop} (s s' : State) (i : ItemDef)
    (hs : AllGood D Q s.reg) (h : s.addItem i = .ok s')
    (hfree : s.reg.get i.path = none ∨ s.reg.get i.path = some i)
    (hi : Good D Q s'.reg i.path i) : AllGood D Q s'.reg := by
  obtain ⟨he, hn⟩ := C02.addItem_ext s s' i h hfree
  refine hs.step he ?_
  intro p j hj
  rcases hn p j hj with ho | ⟨rfl, rfl⟩
  · exact Or.inl ho
  · exact Or.inr hi

theorem new_good (D : Path → G.Item → Prop) (Q : State → Prop) (ps : Nat) : AllGood D Q (State.new ps).reg := by
  intro p i hg
  obtain ⟨nm, hnm, rfl, rfl⟩ := C02.new_get_inv ps p i hg
  exact ⟨fun item hst => (by cases hst), fun r _ => .predef nm hnm rfl rfl⟩

theorem defStep_good {D : Path → G.Item → Prop} {Q : State → Prop} (path : Path) (s s' : State) (d : G.Item)
    (hs : AllGood D Q s.reg) (hD : D (path ++ [d.name]) d) (h : C14.defStep path s d = .ok s') :
    AllGood D Q s'.reg := by
  unfold C14.defStep at h
  split at h
  · cases h
  · next hc =>
    refine AllGood.addItem s s' _ hs h (Or.inl (C02.contains_false_get (by simpa using hc))) ⟨?_, ?_⟩
    · intro item hst
      simp only [IState.unres.injEq] at hst
      subst hst
      exact ⟨hD, rfl⟩
    · intro r hst; cases hst

theorem xtypeStep_good {D : Path → G.Item → Prop} {Q : State → Prop} (path : Path) (s s' : State)
    (xt : String × List G.Attr) (hs : AllGood D Q s.reg) (h : C14.xtypeStep path s xt = .ok s') :
    AllGood D Q s'.reg := by
  unfold C14.xtypeStep at h
  split at h
  · split at h
    · cases h
    · split at h
      · cases h
      · split at h
        · cases h
        · split at h
          · cases h
          · next hc =>
            refine AllGood.addItem s s' _ hs h (Or.inl (C02.contains_false_get (by simpa using hc))) ⟨?_, ?_⟩
            · intro item hst; cases hst
            · intro r _
              exact .extern _ _ rfl
  · exact (C14.cast_ne_ok _ _ h).elim

theorem addModule_good {D : Path → G.Item → Prop} {Q : State → Prop} (s s' : State) (m : G.Module) (path : Path)
    (hs : AllGood D Q s.reg) (hD : ∀ d ∈ m.defs, D (path ++ [d.name]) d) (h : s.addModule m path = .ok s') :
    AllGood D Q s'.reg := by
  obtain ⟨xvals, doc, s2, _, h1, h2⟩ := C14.addModule_inv s s' m path h
  have k0 : AllGood D Q (s.putModule path (C14.newMod m path xvals doc)).reg := hs
  have k2 : AllGood D Q s2.reg :=
    (C12.PO.foldlM_inv (S := fun _ => True) (fun s => AllGood D Q s.reg) (C14.defStep path) m.defs _ k0
      (fun b d hd hb => ⟨fun _ _ => trivial, fun b' hb' => defStep_good path b b' d hb (hD d hd) hb'⟩)).2 s2 h1
  exact (C12.PO.foldlM_inv (S := fun _ => True) (fun s => AllGood D Q s.reg) (C14.xtypeStep path) m.xtypes _ k2
      (fun b xt _ hb => ⟨fun _ _ => trivial, fun b' hb' => xtypeStep_good path b b' xt hb hb'⟩)).2 s' h2

theorem reach2_good {D : Path → G.Item → Prop} {Q : State → Prop} {s s1 : State} {owner : Path}
    (hr : C02.Reach2 s s1 owner) (hs : AllGood D Q s.reg) : AllGood D Q s1.reg := by
  rcases hr with rfl | ⟨vis, fns, item, hi, hfree, ha⟩
  · exact hs
  · refine AllGood.addItem s s1 item hs ha hfree ⟨?_, ?_⟩
    · intro it hst
      obtain ⟨vtd, hstate, _⟩ := C04.vftable_item s.reg owner vis fns item hi
      rw [hstate] at hst; cases hst
    · intro r _
      exact .vftable s.reg owner vis fns hi rfl

theorem setState_good {D : Path → G.Item → Prop} {Q : State → Prop} (reg : Registry) (p : Path) (res : Resolved)
    (i : ItemDef) (d : G.Item) (hs : AllGood D Q reg) (hi : reg.get p = some i) (hu : i.state = .unres d)
    (hp : Origin D Q (reg.setState p (.res res)) p { i with state := .res res } res) :
    AllGood D Q (reg.setState p (.res res)) := by
  refine hs.step (C02.setState_ext reg p res i d hi hu) ?_
  intro q j hq
  simp only [C12.get_setState] at hq
  by_cases e : q = p
  · subst e
    rw [if_pos rfl, hi] at hq
    simp only [Option.map_some, Option.some.injEq] at hq
    subst hq
    right
    refine ⟨fun item hst => (by cases hst), ?_⟩
    intro r' hr'
    simp only [IState.res.injEq] at hr'
    subst hr'
    exact hp
  · rw [if_neg e] at hq
    exact Or.inl hq

theorem attemptItem_good {D : Path → G.Item → Prop} {Q : State → Prop} (s : State) (p : Path) (hok : C12.StateOkB s)
    (hinv : Exec.Inv s) (hQ : Q s) (hs : AllGood D Q s.reg) : AllGood D Q (attemptItem s p).1.reg := by
  unfold attemptItem
  split
  · exact hs
  · next item hget =>
    split
    · exact hs
    · next d hd =>
      obtain ⟨hD, hitem⟩ := (hs p item hget).1 d hd
      split
      · next td htd =>
        have hreach := C02.buildType_reach2 s p d.vis td
        have sh := reach2_good (D := D) (Q := Q) hreach hs
        split
        · next s1 r hb =>
          rw [hb] at sh hreach
          simp only [] at hreach
          have hi := Exec.reach2_keeps hreach p item hget
          refine setState_good s1.reg p r item d sh hi hd ?_
          refine .type s s1 d td hok hinv hQ hD (by rw [hget, hitem]) htd hb
            (C02.setState_ext s1.reg p r item d hi hd) ?_
          rw [hitem]; rfl
        · next s1 hb => rw [hb] at sh; exact sh
        · next s1 m hb => rw [hb] at sh; exact sh
        · next s1 m hb => rw [hb] at sh; exact sh
      · next ed hed =>
        split
        · next r hb =>
          refine setState_good s.reg p r item d hs hget hd ?_
          refine .enum s d ed hok hinv hQ hD (by rw [hget, hitem]) hed hb
            (C02.setState_ext s.reg p r item d hget hd) ?_
          rw [hitem]; rfl
        · exact hs
        · exact hs
        · exact hs

/-- the joint invariant of a run: the two invariants the existing whole-run theorems carry, the invariant `P` on the
    stored modules, and provenance (every built item was built in a state whose modules satisfy `P`) -/
def J (D : Path → G.Item → Prop) (P : Path → Mod → Prop) (s : State) : Prop :=
  C12.StateOkB s ∧ Exec.Inv s ∧ ModsGood P s ∧ AllGood D (ModsGood P) s.reg

theorem attemptItem_J {D : Path → G.Item → Prop} {P : Path → Mod → Prop} (hP : DefPathsBlind P) (s : State) (p : Path)
    (h : J D P s) : J D P (attemptItem s p).1 :=
  ⟨C12.attemptItem_ok s p h.1,
   ⟨C02.attemptItem_sound s p (C02.ps_pos_of_ok h.1.ok) h.2.1.1, Exec.attemptItem_built s p h.2.1.1.prims h.2.1.2.1,
    C02.ps_pos_of_ok (C12.attemptItem_ok s p h.1).ok⟩,
   attemptItem_mods hP s p h.2.2.1,
   attemptItem_good s p h.1 h.2.1 h.2.2.1 h.2.2.2⟩

theorem runRound_J {D : Path → G.Item → Prop} {P : Path → Mod → Prop} (hP : DefPathsBlind P) (l : List Path) (s : State)
    (h : J D P s) : J D P (runRound s l).1 := by
  induction l generalizing s with
  | nil => exact h
  | cons p ps ih =>
    have h2 := attemptItem_J hP s p h
    unfold runRound
    split
    · next s1 ha => rw [ha] at h2; exact ih s1 h2
    · next s1 e _ ha => rw [ha] at h2; exact h2

theorem resolveLoop_J {D : Path → G.Item → Prop} {P : Path → Mod → Prop} (hP : DefPathsBlind P) (prio : List Path)
    (fuel : Nat) (s : State) (h : J D P s) (s' : State) (hl : resolveLoop prio fuel s = .ok s') : J D P s' := by
  induction fuel generalizing s with
  | zero => simp [resolveLoop] at hl
  | succ n ih =>
    unfold resolveLoop at hl
    simp only [] at hl
    split at hl
    · cases hl; exact h
    · have hr2 := runRound_J hP (s.reg.unresolved prio) s h
      split at hl
      · next s1 h1 =>
        rw [h1] at hr2
        split at hl
        · cases hl
        · exact ih s1 hr2 hl
      · cases hl
      · cases hl
      · cases hl

theorem initialState_J (c : Case) (hps : c.ps = 4 ∨ c.ps = 8) (hb : C12.CaseBounded c) (s : State)
    (h : c.initialState = .ok s) : J (Declared c) (ModOf c) s := by
  unfold Case.initialState at h
  refine (C12.PO.foldlM_inv (S := fun _ => True) (J (Declared c) (ModOf c)) _ c.modules _
    ⟨C12.new_okB c.ps hps, ⟨C02.new_sound_lem c.ps, Exec.new_built c.ps, C02.ps_pos_of_ok (C12.new_okB c.ps hps).ok⟩,
     new_mods (modOf_blind c) (modOf_root c) c.ps, new_good _ _ c.ps⟩ ?_).2 s h
  intro b me hme hbI
  cases me with
  | ast path file m =>
    refine ⟨fun _ _ => trivial, fun b' hb' => ?_⟩
    have hok := C12.addModule_okB b b' m path hbI.1 (hb path file m hme) hb'
    exact ⟨hok, ⟨C02.addModule_sound_lem b b' m path hbI.2.1.1 hb', Exec.addModule_built b b' m path hbI.2.1.2.1 hb',
      C02.ps_pos_of_ok hok.ok⟩,
      addModule_mods (modOf_blind c) b b' m path hbI.2.2.1 (fun xvals doc hx => modOf_new c path file m hme xvals doc hx) hb',
      addModule_good b b' m path hbI.2.2.2 (fun d hd => ⟨path, file, m, hme, hd, rfl⟩) hb'⟩
  | text f t => exact ⟨fun _ _ => trivial, fun _ h => by cases h⟩

/-- the state in which the resolution loop of an accepted case ended (before the extern values are typed) -/
theorem case_J (c : Case) (hps : c.ps = 4 ∨ c.ps = 8) (hb : C12.CaseBounded c) (s : State) (h : c.run = .ok s) :
    ∃ s1 ms, J (Declared c) (ModOf c) s1 ∧
      Res.mapM' (fun (e : Path × Mod) =>
        match resolveXVals s1.reg e.2 with
        | .ok m => Res.ok (e.1, m)
        | x => x.cast) s1.modules = .ok ms ∧ s = { s1 with modules := ms } := by
  unfold Case.run at h
  split at h
  · next s0 hs0 =>
    have h0 := initialState_J c hps hb s0 hs0
    obtain ⟨s1, hl, ms, hms, rfl⟩ := C09.build_ok_inv s0 c.prio s h
    exact ⟨s1, ms, resolveLoop_J (modOf_blind c) c.prio _ s0 h0 s1 hl, hms, rfl⟩
  · cases h
  · cases h
  · cases h

/-- **provenance for every accepted case**: in the final registry every unresolved entry is a declared definition, and
    every resolved entry has an `Origin` -/
theorem case_good (c : Case) (hps : c.ps = 4 ∨ c.ps = 8) (hb : C12.CaseBounded c) (s : State)
    (h : c.run = .ok s) : AllGood (Declared c) (ModsGood (ModOf c)) s.reg := by
  obtain ⟨s1, ms, hJ, _, rfl⟩ := case_J c hps hb s h
  exact hJ.2.2.2

/-! ### extern values -/

/-- `resolve_extern_values` keeps every extern value and only fills in its type, resolved in the module's scope -/
theorem resolveXVals_inv (reg : Registry) (m m' : Mod) (h : resolveXVals reg m = .ok m') :
    m'.scope = m.scope ∧ m'.defPaths = m.defPaths ∧ m'.impls = m.impls ∧
    ∀ x' ∈ m'.xvals, ∃ x ∈ m.xvals, ∃ t, reg.resolveTy m.scope x.gty = .ok t ∧ x' = { x with ty := some t } := by
  unfold resolveXVals at h
  split at h
  · next xvals hx =>
    simp only [Res.ok.injEq] at h
    subst h
    refine ⟨rfl, rfl, rfl, ?_⟩
    intro x' hx'
    obtain ⟨x, hxm, hstep⟩ := mapM'_mem _ _ _ hx x' hx'
    refine ⟨x, hxm, ?_⟩
    split at hstep
    · next t ht =>
      simp only [Res.ok.injEq] at hstep
      exact ⟨t, ht, hstep.symm⟩
    · cases hstep
    · exact (C14.cast_ne_ok _ _ hstep).elim
  · exact (C14.cast_ne_ok _ _ h).elim

/-- **extern values of every accepted case**: every extern value of every module of the final state is the conversion
    of an extern value written in a module of the case (under that module's path), with its type resolved in the
    module's scope in the final registry.  (Needs neither the pointer width nor the literal bound.) -/
theorem case_xvals (c : Case) (s : State) (h : c.run = .ok s) :
    ∀ e ∈ s.modules, ∀ x ∈ e.2.xvals, ∃ gx, DeclaredX c e.1 gx ∧ XvOf gx x ∧
      ∃ t, s.reg.resolveTy e.2.scope x.gty = .ok t ∧ x.ty = some t := by
  unfold Case.run at h
  split at h
  · next s0 hs0 =>
    have h0 : ModsGood (ModOf c) s0 := by
      unfold Case.initialState at hs0
      refine (C12.PO.foldlM_inv (S := fun _ => True) (ModsGood (ModOf c)) _ c.modules _
        (new_mods (modOf_blind c) (modOf_root c) c.ps) ?_).2 s0 hs0
      intro b me hme hbI
      cases me with
      | ast path file m =>
        exact ⟨fun _ _ => trivial, fun b' hb' =>
          addModule_mods (modOf_blind c) b b' m path hbI (fun xvals doc hx => modOf_new c path file m hme xvals doc hx) hb'⟩
      | text f t => exact ⟨fun _ _ => trivial, fun _ h => by cases h⟩
    obtain ⟨s1, hl, ms, hms, rfl⟩ := C09.build_ok_inv s0 c.prio s h
    have h1 : ModsGood (ModOf c) s1 := resolveLoop_mods (modOf_blind c) c.prio _ s0 h0 s1 hl
    intro e he x hx
    simp only at he hx
    obtain ⟨e0, he0, hstep⟩ := mapM'_mem _ _ _ hms e he
    split at hstep
    · next m' hm' =>
      simp only [Res.ok.injEq] at hstep
      subst hstep
      obtain ⟨hsc, _, _, hall⟩ := resolveXVals_inv s1.reg e0.2 m' hm'
      obtain ⟨x0, hx0, t, ht, rfl⟩ := hall x hx
      obtain ⟨gx, hgx, a, h1', h2', h3', h4', h5', h6'⟩ := (h1 e0 he0).1 x0 hx0
      exact ⟨gx, hgx, ⟨a, h1', h2', h3', h4', h5', h6'⟩, t, by rw [hsc]; exact ht, rfl⟩
    · exact (C14.cast_ne_ok _ _ hstep).elim
  · cases h
  · cases h
  · cases h

/-! ### the full decomposition of an accepted `type_definition::build` -/

/-- `Exec.buildType_parts`, with the attribute loop, the documentation and the flags of the result exposed too -/
theorem buildType_full (s s1 : State) (path : Path) (vis : Vis) (d : G.TypeDef) (r : Resolved)
    (h : buildType s path vis d = (s1, .ok r)) :
    ∃ (module module1 : Mod) (ta : TypeAttrs) (sa : StmtAcc) (vft : Option Vft) (vregion : Option Region)
      (placed : List (Placed Region)) (acc1 acc2 : InjAcc) (td : TypeDefn),
      s.moduleFor path = some module ∧ s1.moduleFor path = some module1 ∧
      G.docOf d.attrs = some td.doc ∧
      Res.foldlM typeAttrStep {} d.attrs = .ok ta ∧
      Res.foldlM (stmtStep s.reg module.scope) {} (d.stmts.zipIdx.map fun p => (p.2, p.1)) = .ok sa ∧
      buildVftable s path vis ((sa.pending.map (·.2)).find? (·.isBase)) sa.vfns = (s1, .ok (vft, vregion)) ∧
      resolve (vregion.map (toPField s1.reg none)) (sa.pending.map fun p => toPField s1.reg p.1 p.2) ta.targetSize
        = .ok (placed, r.size) ∧
      nameRegions s1.reg 0 placed = .ok td.regions ∧
      alignCheck s1.reg.ps td.packed ta.align placed r.size = .ok r.align ∧
      injectBases s1.reg td.regions
        { fns := [], used := match vft with | some v => v.fns.map (·.name) | none => [] } = .ok acc1 ∧
      addImplFns s1.reg module1.scope (module1.implFor path) acc1 = .ok acc2 ∧
      r.inner = .type td ∧ td.fns = acc2.fns ∧ td.vft = vft ∧
      td.singleton = ta.singleton ∧ td.copyable = ta.copyable ∧ td.cloneable = ta.cloneable ∧
      td.defaultable = ta.defaultable ∧ td.packed = ta.packed := by
  unfold buildType at h
  split at h
  · simp only [Prod.mk.injEq] at h; exact absurd h.2 (by simp)
  · rename_i module hmod
    split at h
    · simp only [Prod.mk.injEq] at h; exact absurd h.2 (by simp)
    · rename_i doc hdoc
      split at h
      · rename_i ta hta
        split at h
        · rename_i sa hsa
          split at h
          · rename_i s1' regions vft size placed hrr
            simp only [Prod.mk.injEq] at h
            obtain ⟨rfl, h⟩ := h
            split at h
            · cases h
            · rename_i module1 hmod1
              split at h
              · rename_i acc1 hacc1
                split at h
                · rename_i acc2 hacc2
                  split at h
                  · split at h
                    · rename_i alignment hal
                      cases h
                      unfold resolveRegions at hrr
                      simp only [] at hrr
                      split at hrr
                      · simp only [Prod.mk.injEq] at hrr; exact absurd hrr.2 (by simp)
                      · simp only [Prod.mk.injEq] at hrr; exact absurd hrr.2 (by simp)
                      · simp only [Prod.mk.injEq] at hrr; exact absurd hrr.2 (by simp)
                      · simp only [Prod.mk.injEq] at hrr; exact absurd hrr.2 (by simp)
                      · split at hrr
                        · rename_i s1'' vft' vregion hb
                          simp only [Prod.mk.injEq] at hrr
                          obtain ⟨rfl, hrr⟩ := hrr
                          split at hrr
                          · rename_i placed' size' hr
                            split at hrr
                            · rename_i regions' hn
                              simp only [Res.ok.injEq, Prod.mk.injEq] at hrr
                              obtain ⟨rfl, rfl, rfl, rfl⟩ := hrr
                              exact ⟨module, module1, ta, sa, _, vregion, _, acc1, acc2, _, hmod, hmod1, hdoc, hta, hsa, hb,
                                hr, hn, hal, hacc1, hacc2, rfl, rfl, rfl, rfl, rfl, rfl, rfl, rfl⟩
                            · exact absurd hrr (C01.cast_ne_ok _ _)
                          · exact absurd hrr (C01.cast_ne_ok _ _)
                        · simp only [Prod.mk.injEq] at hrr
                          exact absurd hrr.2 (C01.cast_ne_ok _ _)
                    · exact absurd h (C01.cast_ne_ok _ _)
                  · exact absurd h (C01.cast_ne_ok _ _)
                · exact absurd h (C01.cast_ne_ok _ _)
              · exact absurd h (C01.cast_ne_ok _ _)
          · simp only [Prod.mk.injEq] at h; exact absurd h.2 (C01.cast_ne_ok _ _)
        · simp only [Prod.mk.injEq] at h; exact absurd h.2 (C01.cast_ne_ok _ _)
      · simp only [Prod.mk.injEq] at h; exact absurd h.2 (C01.cast_ne_ok _ _)


/-- `C08.buildEnum_ok`, with the module, the resolution of the base type and the documentation exposed too -/
theorem buildEnum_full (s : State) (p : Path) (d : G.EnumDef) (r : Resolved) (h : buildEnum s p d = .ok r) :
    ∃ (module : Mod) (ty : DTy) (range : Int × Int) (acc : EnumAcc) (ea : EnumAttrs) (ed : EnumDefn),
      s.moduleFor p = some module ∧ s.reg.resolveTy module.scope d.ty = .ok ty ∧
      intTypeRange ty = some range ∧ DTy.size s.reg ty = .ok (some r.size) ∧ DTy.align s.reg ty = some r.align ∧
      Res.foldlM (enumStmtStep range) {} d.stmts = .ok acc ∧
      Res.foldlM enumAttrStep {} d.attrs = .ok ea ∧
      G.docOf d.attrs = some ed.doc ∧
      r.inner = .enum ed ∧ ed.ty = ty ∧ ed.fields = acc.fields ∧ ed.singleton = ea.singleton ∧
      ed.copyable = ea.copyable ∧ ed.cloneable = ea.cloneable ∧ ed.defaultable = ea.defaultable ∧
      ed.defaultIdx = acc.defaultIdx := by
  unfold buildEnum at h
  split at h
  · cases h
  · rename_i module hmod
    split at h
    · rename_i ty hty
      split at h
      · cases h
      · rename_i size hsize
        split at h
        · cases h
        · rename_i range hrange
          split at h
          · cases h
          · split at h
            · rename_i acc hacc
              split at h
              · cases h
              · rename_i doc hdoc
                split at h
                · rename_i ea hea
                  split at h
                  · cases h
                  · split at h
                    · cases h
                    · split at h
                      · cases h
                      · rename_i al hal
                        cases h
                        exact ⟨module, ty, range, acc, ea, _, hmod, hty, hrange, hsize, hal, hacc, hea, hdoc,
                          rfl, rfl, rfl, rfl, rfl, rfl, rfl, rfl⟩
                · exact absurd h (C08.cast_ne_ok _ _)
            · exact absurd h (C08.cast_ne_ok _ _)
      · exact absurd h (C08.cast_ne_ok _ _)
    · exact absurd h (C08.cast_ne_ok _ _)

/-! ### the emitted files -/

theorem itemItems_type (reg : Registry) (i : ItemDef) (r : Resolved) (td : TypeDefn) (hc : i.cat = .defined)
    (hs : i.state = .res r) (hin : r.inner = .type td) :
    Emit.itemItems reg i = Emit.typeItems reg i.path r.size r.align i.vis td := by
  unfold Emit.itemItems
  simp only [hc, ItemDef.resolved?, hs, hin]

theorem itemItems_enum (reg : Registry) (i : ItemDef) (r : Resolved) (ed : EnumDefn) (hc : i.cat = .defined)
    (hs : i.state = .res r) (hin : r.inner = .enum ed) :
    Emit.itemItems reg i = Emit.enumItems i.path r.size i.vis ed := by
  unfold Emit.itemItems
  simp only [hc, ItemDef.resolved?, hs, hin]

/-- only defined, resolved entries emit anything -/
theorem itemItems_inv (reg : Registry) (i : ItemDef) (x : Sexp) (hx : x ∈ Emit.itemItems reg i) :
    i.cat = .defined ∧ ∃ r, i.state = .res r := by
  unfold Emit.itemItems at hx
  split at hx
  · next r hc hr => exact ⟨hc, r, C02.resolved?_eq hr⟩
  · cases hx

theorem fileItems_moduleFile (s : State) (key : Path) (m : Mod) :
    fileItems (Emit.moduleFile s key m) =
      ((let pro := (m.backendsFor "rust").filterMap (·.prologue)
        if pro.isEmpty then [] else [Sexp.mk "opaque-block" [.str ("\n".intercalate pro)]]) ++
       (Emit.sortBy (fun (a b : ItemDef) => Path.le a.path b.path) (m.defPaths.filterMap s.reg.get)).flatMap (Emit.itemItems s.reg) ++
       (Emit.sortBy (fun (a b : XValue) => a.name ≤ b.name) m.xvals).map Emit.xvalItem ++
       (let epi := (m.backendsFor "rust").filterMap (·.epilogue)
        if epi.isEmpty then [] else [Sexp.mk "opaque-block" [.str ("\n".intercalate epi)]])) := rfl

/-- **every item of every emitted file** is a backend block, one of the items `build_item` prints for an entry of the
    registry listed in the module's definition paths, or the accessor of one of the module's extern values -/
theorem files_items (s : State) (f : Sexp) (hf : f ∈ Emit.files s) (x : Sexp) (hx : x ∈ fileItems f) :
    ∃ e ∈ s.modules, e.1 ≠ [] ∧ f = Emit.moduleFile s e.1 e.2 ∧
      (Sexp.head? x = some "opaque-block" ∨
       (∃ q ∈ e.2.defPaths, ∃ i, s.reg.get q = some i ∧ x ∈ Emit.itemItems s.reg i) ∨
       (∃ xv ∈ e.2.xvals, x = Emit.xvalItem xv)) := by
  obtain ⟨e, he, hne, rfl⟩ := C14.files_mem s f hf
  refine ⟨e, he, hne, rfl, ?_⟩
  rw [fileItems_moduleFile] at hx
  simp only [List.mem_append] at hx
  rcases hx with ((hx | hx) | hx) | hx
  · left
    split at hx
    · cases hx
    · simp only [List.mem_singleton] at hx; subst hx; rfl
  · right; left
    simp only [List.mem_flatMap, Emit.sortBy, List.mem_mergeSort, List.mem_filterMap] at hx
    obtain ⟨i, ⟨q, hq, hg⟩, hxi⟩ := hx
    exact ⟨q, hq, i, hg, hxi⟩
  · right; right
    simp only [List.mem_map, Emit.sortBy, List.mem_mergeSort] at hx
    obtain ⟨xv, hxv, rfl⟩ := hx
    exact ⟨xv, hxv, rfl⟩
  · left
    split at hx
    · cases hx
    · simp only [List.mem_singleton] at hx; subst hx; rfl

/-! ### origins in the final registry of an accepted case -/

theorem predefItem_inner (nm : String × Nat) (r : Resolved) (h : (C02.predefItem nm).state = .res r) :
    ∃ td, r.inner = .type td := by
  simp only [C02.predefItem, IState.res.injEq] at h
  subst h
  exact ⟨_, rfl⟩

/-- **every emitted struct** of the final registry of an accepted case is a generated vftable struct or the result of an
    accepted `type_definition::build` of a definition *written in the case*, registered under its path with the declared
    visibility, in a state `s0` satisfying the invariants of the run; the final registry extends the post-state -/
theorem case_type_origin (c : Case) (hps : c.ps = 4 ∨ c.ps = 8) (hb : C12.CaseBounded c) (s : State)
    (h : c.run = .ok s) (p : Path) (i : ItemDef) (r : Resolved) (td : TypeDefn)
    (hg : s.reg.get p = some i) (hs : i.state = .res r) (hin : r.inner = .type td) (hc : i.cat = .defined) :
    (∃ (reg0 : Registry) (owner : Path) (vis : Vis) (fns : List SFunc),
      buildVftableItem reg0 owner vis fns = some i ∧ i.path = p) ∨
    ∃ (s0 s1 : State) (item : G.Item) (d : G.TypeDef),
      C12.StateOkB s0 ∧ Exec.Inv s0 ∧ ModsGood (ModOf c) s0 ∧ Declared c p item ∧
      s0.reg.get p = some (declItem p item) ∧
      item.inner = .type d ∧ buildType s0 p item.vis d = (s1, .ok r) ∧ C02.Ext s1.reg s.reg ∧
      i = builtItem p item r := by
  have hgood := (case_good c hps hb s h p i hg).2 r hs
  cases hgood with
  | predef nm hm hp hi => subst hi; cases hc
  | extern size align hi => subst hi; cases hc
  | vftable reg0 owner vis fns hi hp => exact Or.inl ⟨reg0, owner, vis, fns, hi, hp⟩
  | type s0 s1 item d hok hinv hQ hD hget hd hb' he hi =>
    exact Or.inr ⟨s0, s1, item, d, hok, hinv, hQ, hD, hget, hd, hb', he, hi⟩
  | enum s0 item d hok hinv hQ hD hget hd hb' he hi =>
    obtain ⟨ed, _, hin', _⟩ := C02.buildEnum_inv s0 p d r hb'
    rw [hin'] at hin; cases hin

/-- **every resolved enum** of the final registry of an accepted case is the result of an accepted
    `enum_definition::build` of a definition *written in the case*, registered under its path with the declared
    visibility, in a state `s0` satisfying the invariants of the run, which the final registry extends -/
theorem case_enum_origin (c : Case) (hps : c.ps = 4 ∨ c.ps = 8) (hb : C12.CaseBounded c) (s : State)
    (h : c.run = .ok s) (p : Path) (i : ItemDef) (r : Resolved) (ed : EnumDefn)
    (hg : s.reg.get p = some i) (hs : i.state = .res r) (hin : r.inner = .enum ed) :
    ∃ (s0 : State) (item : G.Item) (d : G.EnumDef),
      C12.StateOkB s0 ∧ Exec.Inv s0 ∧ ModsGood (ModOf c) s0 ∧ Declared c p item ∧
      s0.reg.get p = some (declItem p item) ∧
      item.inner = .enum d ∧ buildEnum s0 p d = .ok r ∧ C02.Ext s0.reg s.reg ∧ i = builtItem p item r := by
  have hgood := (case_good c hps hb s h p i hg).2 r hs
  cases hgood with
  | predef nm hm hp hi =>
    subst hi
    obtain ⟨td, htd⟩ := predefItem_inner nm r hs
    rw [htd] at hin; cases hin
  | extern size align hi =>
    subst hi
    simp only [IState.res.injEq] at hs
    subst hs
    cases hin
  | vftable reg0 owner vis fns hi hp =>
    obtain ⟨vtd, hstate, _⟩ := C04.vftable_item reg0 owner vis fns i hi
    rw [hstate] at hs
    simp only [IState.res.injEq] at hs
    subst hs
    cases hin
  | type s0 s1 item d hok hinv hQ hD hget hd hb' he hi =>
    obtain ⟨td, _, _, _, _, _, htd, _⟩ := C01.buildType_layout s0 s1 p item.vis d r hb'
    rw [htd] at hin; cases hin
  | enum s0 item d hok hinv hQ hD hget hd hb' he hi => exact ⟨s0, item, d, hok, hinv, hQ, hD, hget, hd, hb', he, hi⟩


/-! ### what the layout core was handed, read in a later registry -/

theorem dsize_ext {r r' : Registry} (he : C02.Ext r r') (t : DTy) (n : Nat) (hs : t.size r = .ok (some n)) :
    t.size r' = .ok (some n) := by
  induction t generalizing n with
  | raw p =>
    simp only [DTy.size, Res.ok.injEq] at hs ⊢
    cases hi : r.get p with
    | none => simp [hi] at hs
    | some i =>
      rw [hi] at hs
      have hres : i.isResolved = true := by
        unfold ItemDef.isResolved
        cases hr : i.resolved? with
        | none => simp [hr] at hs
        | some _ => rfl
      rw [he.res' hi hres]; exact hs
  | cptr t _ => simp only [DTy.size] at hs ⊢; rw [he.ps]; exact hs
  | mptr t _ => simp only [DTy.size] at hs ⊢; rw [he.ps]; exact hs
  | arr t m ih =>
    simp only [DTy.size] at hs ⊢
    cases ht : DTy.size r t with
    | ok o =>
      cases o with
      | none => simp [ht] at hs
      | some s0 => rw [ih s0 ht]; simp only [ht] at hs; exact hs
    | defer => simp [ht] at hs
    | err m => simp [ht] at hs
    | panic m => simp [ht] at hs

theorem dalign_ext {r r' : Registry} (he : C02.Ext r r') (t : DTy) (a : Nat) (hs : t.align r = some a) :
    t.align r' = some a := by
  induction t with
  | raw p =>
    simp only [DTy.align] at hs ⊢
    cases hi : r.get p with
    | none => simp [hi] at hs
    | some i =>
      rw [hi] at hs
      have hres : i.isResolved = true := by
        unfold ItemDef.isResolved
        cases hr : i.resolved? with
        | none => simp [hr] at hs
        | some _ => rfl
      rw [he.res' hi hres]; exact hs
  | cptr t _ => simp only [DTy.align] at hs ⊢; rw [he.ps]; exact hs
  | mptr t _ => simp only [DTy.align] at hs ⊢; rw [he.ps]; exact hs
  | arr t m ih => simp only [DTy.align] at hs ⊢; exact ih hs

theorem rsize_ext {r r' : Registry} (he : C02.Ext r r') (t : RTy) (n : Nat) (hs : t.size r = .ok (some n)) :
    t.size r' = .ok (some n) := by
  cases t with
  | data t => exact dsize_ext he t n hs
  | fn cc args ret => simp only [RTy.size] at hs ⊢; rw [he.ps]; exact hs

theorem ralign_ext {r r' : Registry} (he : C02.Ext r r') (t : RTy) (a : Nat) (hs : t.align r = some a) :
    t.align r' = some a := by
  cases t with
  | data t => exact dalign_ext he t a hs
  | fn cc args ret => simp only [RTy.align] at hs ⊢; rw [he.ps]; exact hs

/-- a field whose size is known reads the same in every later registry -/
theorem toPField_ext {r r' : Registry} (he : C02.Ext r r') (addr : Option Nat) (rg : Region) (n : Nat)
    (hs : rg.ty.size r = .ok (some n)) : toPField r' addr rg = toPField r addr rg := by
  obtain ⟨a, ha⟩ := Option.isSome_iff_exists.mp (Mono.ralign_of_size r rg.ty n hs)
  unfold toPField
  rw [rsize_ext he rg.ty n hs, hs, ralign_ext he rg.ty a ha, ha]

theorem place_sizes {β} (st st' : St β) (fields : List (PField β)) (h : place st fields = .ok st') :
    ∀ f ∈ fields, ∃ n, f.size = .ok (some n) := by
  induction fields generalizing st with
  | nil => intro f hf; cases hf
  | cons g gs ih =>
    intro f hf
    rcases C01.place_cons_inv st st' g gs h with ⟨_, st2, h2, h3⟩ | ⟨a, _, _, st1, st2, _, h2, h3⟩
    · rcases List.mem_cons.mp hf with rfl | hf
      · obtain ⟨n, hn, _⟩ := C01.push_ok_inv _ _ _ _ _ _ h2
        exact ⟨n, hn⟩
      · exact ih st2 h3 f hf
    · rcases List.mem_cons.mp hf with rfl | hf
      · obtain ⟨n, hn, _⟩ := C01.push_ok_inv _ _ _ _ _ _ h2
        exact ⟨n, hn⟩
      · exact ih st2 h3 f hf

/-- an accepted placement: the sizes of the pointer region and of all fields were known -/
theorem resolve_sizes {β} (vptr : Option (PField β)) (fields : List (PField β)) (target : Option Nat)
    (placed : List (Placed β)) (size : Nat) (h : resolve vptr fields target = .ok (placed, size)) :
    (∀ v, vptr = some v → ∃ n, v.size = .ok (some n)) ∧ ∀ f ∈ fields, ∃ n, f.size = .ok (some n) := by
  obtain ⟨st0, st1, st2, h0, h1, _, _, _, _⟩ := C01.resolve_inv vptr fields target placed size h
  refine ⟨?_, place_sizes st0 st1 fields h1⟩
  intro v hv
  subst hv
  obtain ⟨n, hn, _⟩ := C01.push_ok_inv _ _ _ _ _ _ h0
  exact ⟨n, hn⟩

/-- the pending fields of an accepted placement read the same in every later registry -/
theorem pfields_ext {r r' : Registry} (he : C02.Ext r r') (vptr : Option Region) (pending : List (Option Nat × Region))
    (target : Option Nat) (placed : List (Placed Region)) (size : Nat)
    (h : resolve (vptr.map (toPField r none)) (pending.map fun p => toPField r p.1 p.2) target = .ok (placed, size)) :
    vptr.map (toPField r' none) = vptr.map (toPField r none) ∧
    (pending.map fun p => toPField r' p.1 p.2) = (pending.map fun p => toPField r p.1 p.2) := by
  obtain ⟨hv, hf⟩ := resolve_sizes _ _ _ _ _ h
  constructor
  · cases vptr with
    | none => rfl
    | some v =>
      obtain ⟨n, hn⟩ := hv _ rfl
      simp only [Option.map_some]
      rw [toPField_ext he none v n hn]
  · apply List.map_congr_left
    intro q hq
    obtain ⟨n, hn⟩ := hf (toPField r q.1 q.2) (List.mem_map.mpr ⟨q, hq, rfl⟩)
    exact toPField_ext he q.1 q.2 n hn

/-- the vftable of the first base, read in a later registry: the same, once the base's size is known -/
theorem baseVftable_ext {r r' : Registry} (he : C02.Ext r r') (fb : Option Region)
    (hsz : ∀ b, fb = some b → ∃ n, b.ty.size r = .ok (some n)) (x : Option (String × Vft))
    (h : baseVftable r fb = .ok x) : baseVftable r' fb = .ok x := by
  cases fb with
  | none => exact h
  | some b =>
    obtain ⟨n, hn⟩ := hsz b rfl
    unfold baseVftable regionNameAndTypeDef at h ⊢
    simp only [] at h ⊢
    cases hname : b.name with
    | none => simp [hname, Res.cast] at h
    | some name =>
      simp only [hname] at h ⊢
      cases hty : b.ty with
      | fn cc a rt => simp [hty, Res.cast] at h
      | data t =>
        cases t with
        | raw p =>
          simp only [hty] at h ⊢
          rw [hty] at hn
          simp only [RTy.size, DTy.size, Res.ok.injEq] at hn
          cases hg : r.get p with
          | none => simp [hg] at hn
          | some item =>
            rw [hg] at hn
            have hres : item.isResolved = true := by
              unfold ItemDef.isResolved
              cases hr : item.resolved? with
              | none => simp [hr] at hn
              | some _ => rfl
            rw [he.res' hg hres]
            rw [hg] at h
            exact h
        | cptr t => simp [hty, Res.cast] at h
        | mptr t => simp [hty, Res.cast] at h
        | arr t k => simp [hty, Res.cast] at h

/-! ### complete classification of an accepted `vftable::build` -/

/-- the five ways `vftable::build` succeeds -/
theorem buildVftable_cases (s s1 : State) (owner : Path) (vis : Vis) (fb : Option Region) (vfns : Option (List SFunc))
    (v : Option Vft) (ptr : Option Region) (h : buildVftable s owner vis fb vfns = (s1, .ok (v, ptr))) :
    (vfns = none ∧ s1 = s ∧ ptr = none ∧ v = none ∧ baseVftable s1.reg fb = .ok none) ∨
    (vfns = none ∧ s1 = s ∧ ptr = none ∧ ∃ bn bv, baseVftable s1.reg fb = .ok (some (bn, bv)) ∧
      v = some { fns := bv.fns, baseField := some bn, ty := bv.ty }) ∨
    (∃ fns, vfns = some fns ∧ vftablePath owner = none ∧ s1 = s ∧ ptr = none ∧ v = none) ∨
    (∃ fns vpath, vfns = some fns ∧ vftablePath owner = some vpath ∧ baseVftable s1.reg fb = .ok none ∧
      ptr = some (C06.ownPointer vpath) ∧ v = some { fns := fns, baseField := none, ty := .cptr (.raw vpath) }) ∨
    (∃ fns vpath bn bv, vfns = some fns ∧ vftablePath owner = some vpath ∧
      baseVftable s1.reg fb = .ok (some (bn, bv)) ∧ bv.fns <+: fns ∧ (bv.fns.map C06.slotSig) <+: (fns.map C06.slotSig) ∧
      ptr = none ∧ v = some { fns := fns, baseField := some bn, ty := .cptr (.raw vpath) }) := by
  cases vfns with
  | none =>
    unfold buildVftable at h
    simp only [Prod.mk.injEq] at h
    obtain ⟨rfl, h⟩ := h
    cases hb : baseVftable s.reg fb with
    | ok x =>
      cases x with
      | none =>
        simp only [hb, Res.ok.injEq, Prod.mk.injEq] at h
        exact Or.inl ⟨rfl, rfl, h.2.symm, h.1.symm, rfl⟩
      | some y =>
        obtain ⟨bn, bv⟩ := y
        simp only [hb, Res.ok.injEq, Prod.mk.injEq] at h
        exact Or.inr (Or.inl ⟨rfl, rfl, h.2.symm, bn, bv, rfl, h.1.symm⟩)
    | defer => simp [hb, Res.cast] at h
    | err m => simp [hb, Res.cast] at h
    | panic m => simp [hb, Res.cast] at h
  | some fns =>
    right; right
    rcases Exec.buildVftable_some_inv s s1 owner vis fb fns v ptr h with ⟨hp, hv, hptr, hs⟩ | ⟨item, hitem, _, _, _, _⟩
    · exact Or.inl ⟨fns, rfl, hp, hs, hptr, hv⟩
    · right
      have hvp := Exec.vftablePath_of_item s.reg owner vis fns item hitem
      have hck := C06.buildVftable_ok_inv s s1 owner vis fb fns item (v, ptr) hitem h
      cases hb : baseVftable s1.reg fb with
      | ok x =>
        cases x with
        | none =>
          obtain ⟨hptr, hv⟩ := C06.own_pointer s s1 owner vis fb fns v ptr item.path hvp h hb
          exact Or.inl ⟨fns, item.path, rfl, hvp, rfl, hptr, hv⟩
        | some y =>
          obtain ⟨bn, bv⟩ := y
          obtain ⟨h1, h2, h3, h4⟩ := C06.accept_implies_prefix s s1 owner vis fb fns v ptr bn bv item.path hvp h hb
          exact Or.inr ⟨fns, item.path, bn, bv, rfl, hvp, rfl, h1, h2, h3, h4⟩
      | defer => unfold C06.vftCheck at hck; rw [hb] at hck; exact absurd hck (C01.cast_ne_ok _ _)
      | err m => unfold C06.vftCheck at hck; rw [hb] at hck; exact absurd hck (C01.cast_ne_ok _ _)
      | panic m => unfold C06.vftCheck at hck; rw [hb] at hck; exact absurd hck (C01.cast_ne_ok _ _)

/-- a definition whose first statement is not a vftable block has no vftable block at all (a later one is an error) -/
theorem stmts_vfns_none (reg : Registry) (scope : List Path) (stmts : List G.Stmt) (sa : StmtAcc)
    (h : Res.foldlM (stmtStep reg scope) {} (stmts.zipIdx.map fun p => (p.2, p.1)) = .ok sa)
    (hf : ∀ st, stmts[0]? = some st → C01.isFieldStmt st = true) : sa.vfns = none := by
  cases stmts with
  | nil => simp only [List.zipIdx_nil, List.map_nil, Res.foldlM, Res.ok.injEq] at h; subst h; rfl
  | cons s0 rest =>
    simp only [List.zipIdx_cons, List.map_cons] at h
    unfold Res.foldlM at h
    split at h
    · next acc1 h1 =>
      have hkeep := Exec.stmts_vfns_keep reg scope _ (by
        intro e he
        obtain ⟨p, hp, rfl⟩ := List.mem_map.mp he
        have := (List.mem_zipIdx hp).1
        simp only []
        omega) acc1 sa h
      rcases Exec.stmtStep_vfns reg scope {} acc1 0 s0 h1 with ⟨_, hk⟩ | ⟨_, gfns, _, _, hfld, _⟩
      · rw [hkeep, hk]
      · have := hf s0 rfl
        unfold C01.isFieldStmt at this
        rw [hfld] at this
        cases this
    all_goals cases h

theorem fieldOffset_inv (reg : Registry) (td : TypeDefn) (b : String) (o : Nat)
    (h : Exec.fieldOffset reg td b = some o) :
    ∃ k offs, Exec.fieldIndex td b = some k ∧ Exec.fieldOffsets reg td = some offs ∧ offs[k]? = some o := by
  unfold Exec.fieldOffset at h
  cases hk : Exec.fieldIndex td b with
  | none => simp [hk] at h
  | some k =>
    cases ho : Exec.fieldOffsets reg td with
    | none => simp [hk, ho] at h
    | some offs =>
      simp only [hk, ho] at h
      exact ⟨k, offs, rfl, rfl, h⟩


theorem paddingType_prims (reg : Registry) (hp : C02.PrimsOk reg) (n : Nat) :
    reg.paddingType n = .ok (.arr (.raw ["u8"]) n) := by
  have hc : reg.contains ["u8"] = true := by
    unfold Registry.contains
    rw [hp ("u8", 1) (by decide)]
    rfl
  unfold Registry.paddingType Registry.resolveString
  simp only [List.filter_nil, List.reverse_nil, List.find?_nil, List.map_cons, List.nil_append, List.map_nil,
    List.find?_cons, hc]

theorem nameRegions_congr (reg reg' : Registry) (hp : ∀ n, reg.paddingType n = reg'.paddingType n) (off : Nat)
    (placed : List (Placed Region)) : nameRegions reg off placed = nameRegions reg' off placed := by
  induction placed generalizing off with
  | nil => rfl
  | cons q qs ih => simp only [nameRegions, hp, ih]

/-- naming reads the registry only for `u8`: the same in every registry whose predefined types are intact -/
theorem nameRegions_prims (reg reg' : Registry) (hp : C02.PrimsOk reg) (hp' : C02.PrimsOk reg') (off : Nat)
    (placed : List (Placed Region)) : nameRegions reg off placed = nameRegions reg' off placed :=
  nameRegions_congr reg reg' (fun n => by rw [paddingType_prims reg hp, paddingType_prims reg' hp']) off placed

/-! ### the vftable of every emitted struct of an accepted case -/

/-- **the vftable of every emitted struct**: a generated vftable struct, or built from a definition written in the case;
    then the type's table and pointer are one of the five `VftCases`, with the table of the first `#[base]` field read in
    the *final* registry; the fields of the emitted struct are the named placement (`resolve_regions`, read in the final
    registry) of the pointer region and the declared fields; an own pointer is the first field, at offset 0 -/
theorem case_vft_master (c : Case) (hps : c.ps = 4 ∨ c.ps = 8) (hb : C12.CaseBounded c) (s : State)
    (h : c.run = .ok s) (p : Path) (i : ItemDef) (r : Resolved) (td : TypeDefn)
    (hg : s.reg.get p = some i) (hs : i.state = .res r) (hin : r.inner = .type td) (hc : i.cat = .defined) :
    (∃ (reg0 : Registry) (owner : Path) (vis : Vis) (fns : List SFunc),
      buildVftableItem reg0 owner vis fns = some i ∧ i.path = p) ∨
    ∃ (item : G.Item) (d : G.TypeDef) (s0 : State) (module : Mod) (ta : TypeAttrs) (sa : StmtAcc) (vptr : Option Region)
      (placed : List (Placed Region)),
      Declared c p item ∧ item.inner = .type d ∧ s0.moduleFor p = some module ∧ C02.Ext s0.reg s.reg ∧
      Res.foldlM typeAttrStep {} d.attrs = .ok ta ∧
      Res.foldlM (stmtStep s0.reg module.scope) {} (d.stmts.zipIdx.map fun q => (q.2, q.1)) = .ok sa ∧
      resolve (vptr.map (toPField s.reg none)) (sa.pending.map fun q => toPField s.reg q.1 q.2) ta.targetSize
        = .ok (placed, r.size) ∧
      nameRegions s.reg 0 placed = .ok td.regions ∧
      (∀ st gfns, d.stmts[0]? = some st → st.field = .vftable gfns →
        ∃ size out, vftableSizeAttr st.attrs = .ok size ∧ convertVfuncs s0.reg module.scope size gfns = .ok out ∧
          sa.vfns = some out) ∧
      ((∀ st, d.stmts[0]? = some st → C01.isFieldStmt st = true) → sa.vfns = none) ∧
      (∀ vpath, vptr = some (C06.ownPointer vpath) →
        td.regions.head? = some (C06.ownPointer vpath) ∧ Exec.fieldOffset s.reg td vftableFieldName = some 0) ∧
      VftCases s.reg p ((sa.pending.map (·.2)).find? (·.isBase)) sa.vfns td.vft vptr := by
  rcases case_type_origin c hps hb s h p i r td hg hs hin hc with hv | ⟨s0, s1, item, d, hok, hinv, hQ, hD, hget, hd, hbt, he, hi⟩
  · exact Or.inl hv
  · right
    obtain ⟨module, module1, ta, sa, vft, vregion, placed, acc1, acc2, td', hmod, hmod1, hdoc, hta, hsa, hbv, hres, hn, hal,
      hacc1, hacc2, hin', hfns, hvft, _⟩ := buildType_full s0 s1 p item.vis d r hbt
    rw [hin] at hin'
    cases hin'
    have he01 := Exec.buildVftable_ext s0 s1 p item.vis _ _ _ hbv
    have hprims1 : C02.PrimsOk s1.reg := Exec.primsOk_ext he01 hinv.1.prims
    obtain ⟨hpv, hpf⟩ := pfields_ext he vregion sa.pending ta.targetSize placed r.size hres
    refine ⟨item, d, s0, module, ta, sa, vregion, placed, hD, hd, hmod, he01.trans he, hta, hsa, by rw [hpv, hpf]; exact hres,
      ?_, ?_, ?_, ?_, ?_⟩
    · rw [← nameRegions_prims s1.reg s.reg hprims1 (Exec.primsOk_ext he hprims1)]
      exact hn
    · intro st gfns hst hf
      exact Exec.stmts_vfns_of_block s0.reg module.scope d.stmts sa hsa st gfns hst hf
    · exact stmts_vfns_none s0.reg module.scope d.stmts sa hsa
    · intro vpath hvp
      subst hvp
      obtain ⟨ho, hhead⟩ := Exec.own_pointer_offset s1.reg hprims1 (C06.ownPointer vpath) sa.pending ta.targetSize placed
        r.size td rfl rfl hres hn
      exact ⟨hhead, Exec.fieldOffset_mono he td _ 0 ho⟩
    · -- the base's size was known when the type was laid out, so its table reads the same in the final registry
      have hsz : ∀ b, (sa.pending.map (·.2)).find? (·.isBase) = some b → ∃ n, b.ty.size s1.reg = .ok (some n) := by
        intro b hb'
        have hmem : b ∈ sa.pending.map (·.2) := List.mem_of_find?_eq_some hb'
        obtain ⟨q, hq, rfl⟩ := List.mem_map.mp hmem
        exact (resolve_sizes _ _ _ _ _ hres).2 (toPField s1.reg q.1 q.2) (List.mem_map.mpr ⟨q, hq, rfl⟩)
      have tr : ∀ x, baseVftable s1.reg ((sa.pending.map (·.2)).find? (·.isBase)) = .ok x →
          baseVftable s.reg ((sa.pending.map (·.2)).find? (·.isBase)) = .ok x :=
        fun x hx => baseVftable_ext he _ hsz x hx
      rw [hvft]
      rcases buildVftable_cases s0 s1 p item.vis _ sa.vfns vft vregion hbv with
        ⟨h1, _, h3, h4, h5⟩ | ⟨h1, _, h3, bn, bv, h5, h6⟩ | ⟨fns, h1, h2, _, h4, h5⟩ |
        ⟨fns, vpath, h1, h2, h3, h4, h5⟩ | ⟨fns, vpath, bn, bv, h1, h2, h3, h4, h5, h6, h7⟩
      · exact Or.inl ⟨h1, h3, h4, tr _ h5⟩
      · exact Or.inr (Or.inl ⟨h1, h3, bn, bv, tr _ h5, h6⟩)
      · exact Or.inr (Or.inr (Or.inl ⟨fns, h1, h2, h4, h5⟩))
      · exact Or.inr (Or.inr (Or.inr (Or.inl ⟨fns, vpath, h1, h2, tr _ h3, h4, h5⟩)))
      · exact Or.inr (Or.inr (Or.inr (Or.inr ⟨fns, vpath, bn, bv, h1, h2, tr _ h3, h4, h5, h6, h7⟩)))


/-! ### generated vftable structs; the kinds of items `build_type` / `build_enum` print -/

/-- a generated vftable struct is a plain struct of function pointers: no doc, no methods, no table, no singleton,
    no derives, not packed; it carries the owner's visibility -/
theorem vftable_item_td (reg0 : Registry) (owner : Path) (vis : Vis) (fns : List SFunc) (i : ItemDef) (r : Resolved)
    (td : TypeDefn) (h : buildVftableItem reg0 owner vis fns = some i) (hs : i.state = .res r) (hin : r.inner = .type td) :
    td = { regions := fns.map (functionToRegion owner) } ∧ i.vis = vis ∧ i.cat = .defined ∧
      r.size = fns.length * reg0.ps ∧ r.align = reg0.ps := by
  unfold buildVftableItem at h
  cases hvp : vftablePath owner with
  | none => simp [hvp] at h
  | some q =>
    simp only [hvp, Option.map_some, Option.some.injEq] at h
    subst h
    simp only [IState.res.injEq] at hs
    subst hs
    simp only [SInner.type.injEq] at hin
    subst hin
    simp

/-- what `build_type` prints: the singleton getter of the type's singleton address, or an item of another kind -/
theorem typeItems_kinds (reg : Registry) (path : Path) (size align : Nat) (vis : Vis) (td : TypeDefn) :
    ∀ x ∈ Emit.typeItems reg path size align vis td,
      (∃ a, td.singleton = some a ∧ x = Sexp.mk "singleton-struct" [.str (path.getLast?.getD ""), Emit.visS vis, .int a]) ∨
      Sexp.head? x ∈ [some "struct", some "sizecheck", some "impl", some "conflict", some "asref", some "asmut"] := by
  intro x hx
  unfold Emit.typeItems at hx
  simp only [List.mem_append, List.mem_singleton, List.mem_flatMap] at hx
  rcases hx with ((((hx | hx) | hx) | hx) | hx) | hx
  · subst hx; right; rw [C15.head_mk]; decide
  · split at hx
    · rw [List.mem_singleton] at hx; subst hx; right; rw [C15.head_mk]; decide
    · cases hx
  · split at hx
    · next a ha =>
      rw [List.mem_singleton] at hx
      exact Or.inl ⟨a, ha, hx⟩
    · cases hx
  · subst hx; right; rw [C15.head_mk]; decide
  · obtain ⟨e, _, hx⟩ := hx
    right
    split at hx
    · rw [List.mem_singleton] at hx; subst hx; rw [C15.head_mk]; decide
    · simp only [List.mem_cons, List.not_mem_nil, or_false] at hx
      rcases hx with hx | hx <;> (subst hx; rw [C15.head_mk]; decide)
  · right
    simp only [List.mem_cons, List.not_mem_nil, or_false] at hx
    rcases hx with hx | hx <;> (subst hx; rw [C15.head_mk]; decide)

/-- what `build_enum` prints: the singleton getter of the enum's singleton address, or an item of another kind -/
theorem enumItems_kinds (path : Path) (size : Nat) (vis : Vis) (ed : EnumDefn) :
    ∀ x ∈ Emit.enumItems path size vis ed,
      (∃ a, ed.singleton = some a ∧ x = Sexp.mk "singleton-enum" [.str (path.getLast?.getD ""), Emit.visS vis, .int a]) ∨
      Sexp.head? x ∈ [some "enum", some "sizecheck"] := by
  intro x hx
  unfold Emit.enumItems at hx
  simp only [List.mem_append, List.mem_singleton] at hx
  rcases hx with (hx | hx) | hx
  · subst hx; right; rw [C15.head_mk]; decide
  · split at hx
    · rw [List.mem_singleton] at hx; subst hx; right; rw [C15.head_mk]; decide
    · cases hx
  · split at hx
    · next a ha =>
      rw [List.mem_singleton] at hx
      exact Or.inl ⟨a, ha, hx⟩
    · cases hx


theorem head_ne (t t' : String) (xs : List Sexp) (hne : t ≠ t') : Sexp.head? (Sexp.mk t xs) ≠ some t' := by
  rw [C15.head_mk]
  intro h
  cases h
  exact hne rfl


/-! ### every function of every emitted struct of an accepted case -/

theorem parent_append (path : Path) (name : String) : Path.parent? (path ++ [name]) = some path := by
  unfold Path.parent?
  simp

/-- the functions of the merged function block of a type come from the stored blocks keyed by the type's path -/
theorem implFor_mem (md : Mod) (p : Path) (im : G.Impl) (h : md.implFor p = some im) :
    ∀ gf ∈ im.fns, ∃ ib ∈ md.impls, ib.1 = p ∧ gf ∈ ib.2.fns := by
  intro gf hgf
  have hm := C05.impl_blocks_merged md p
  rw [h] at hm
  simp only [Option.map_some, Option.getD_some] at hm
  rw [hm] at hgf
  simp only [List.mem_flatMap, List.mem_map, List.mem_filter, beq_iff_eq] at hgf
  obtain ⟨blk, ⟨ib, ⟨hib, hk⟩, rfl⟩, hgf⟩ := hgf
  exact ⟨ib, hib, hk, hgf⟩

/-- the module of a path after a build step is the module before it, up to its definition paths -/
theorem reach2_moduleFor {s s1 : State} {owner : Path} (hr : C02.Reach2 s s1 owner) (p : Path) (m m1 : Mod)
    (hm : s.moduleFor p = some m) (hm1 : s1.moduleFor p = some m1) : ∃ dp, m1 = { m with defPaths := dp } := by
  rcases hr with rfl | ⟨vis, fns, item, _, _, ha⟩
  · rw [hm] at hm1; cases hm1; exact ⟨m.defPaths, rfl⟩
  · unfold State.moduleFor at hm hm1
    cases hp : Path.parent? p with
    | none => simp [hp] at hm
    | some parent =>
      simp only [hp] at hm hm1
      obtain ⟨dp, hdp⟩ := C14.addItem_getModule s s1 item ha parent m hm
      rw [hdp] at hm1
      cases hm1
      exact ⟨dp, rfl⟩

/-- a function of the function block the stored module holds for a declared type is a function written in the case -/
theorem declaredFn_of_impl (c : Case) (s : State) (hQ : ModsGood (ModOf c) s) (p : Path) (item : G.Item)
    (hD : Declared c p item) (m : Mod) (hm : s.moduleFor p = some m) (im : G.Impl) (him : m.implFor p = some im)
    (gf : G.Func) (hgf : gf ∈ im.fns) : DeclaredFn c p gf := by
  obtain ⟨path, _, _, _, _, rfl⟩ := hD
  unfold State.moduleFor at hm
  rw [parent_append] at hm
  simp only [] at hm
  have hmem := C14.mem_of_lookup s.modules path m hm
  obtain ⟨_, himpls⟩ := hQ (path, m) hmem
  obtain ⟨ib, hib, hk, hgf'⟩ := implFor_mem m _ im him gf hgf
  obtain ⟨blk, hblk, rfl⟩ := himpls ib hib
  exact ⟨path, blk, hblk, hk.symm, hgf'⟩

/-- the slots of a converted vftable block: slot `k` holds the function built from one of the block's functions, or the
    placeholder of slot `k` -/
theorem convertVfuncs_slots (reg : Registry) (scope : List Path) (size : Option Nat) (gfns : List G.Func) (out : List SFunc)
    (h : convertVfuncs reg scope size gfns = .ok out) :
    ∀ k f, out[k]? = some f → (∃ gf ∈ gfns, buildFunction reg scope true gf = .ok f) ∨ f = placeholderFn k := by
  obtain ⟨pos, built, len, _, hbuilt, hlen, _, _, hz, hph⟩ := C04.slots reg scope size gfns out h
  obtain ⟨hl, hpt⟩ := C15.mapM'_ok _ gfns built hbuilt
  intro k f hk
  by_cases hmem : k ∈ pos
  · left
    obtain ⟨j, hj, hje⟩ := List.getElem_of_mem hmem
    have hjb : j < built.length := by rw [← hlen]; exact hj
    have hjg : j < gfns.length := by rw [← hl]; exact hjb
    have hzip : (k, built[j]) ∈ pos.zip built := by
      rw [List.mem_iff_getElem?]
      refine ⟨j, ?_⟩
      rw [List.getElem?_zip_eq_some]
      exact ⟨by rw [List.getElem?_eq_getElem hj, hje], List.getElem?_eq_getElem hjb⟩
    have := hz _ hzip
    simp only [] at this
    rw [hk] at this
    cases this
    exact ⟨gfns[j], List.getElem_mem _, hpt j hjg hjb⟩
  · right
    have hlt : k < out.length := (List.getElem?_eq_some_iff.mp hk).1
    have := hph k hlt hmem
    rw [hk] at this
    cases this
    rfl

/-- **every function of every emitted struct**: a generated vftable struct has none; otherwise the struct was built
    from a definition written in the case, and

    * every associated function is built (`function::build`) from a function written in a function block for this type
      in the case, or is a copy of a function `f0` of the type of one of its `#[base]` fields – as found in the final
      registry – with name and body rewritten (same docs, visibility, parameters, return type, convention);
    * if the definition starts with a vftable block, the block converts to a table `out`, which is the type's table if it
      has one (it has one when the type has a parent path, and then the generated struct `<T>Vftable` of the final
      registry has one function-pointer field per slot of `out`), and every slot holds the function built from a function
      of the block or that slot's placeholder. -/
theorem case_fns_master (c : Case) (hps : c.ps = 4 ∨ c.ps = 8) (hb : C12.CaseBounded c) (s : State)
    (h : c.run = .ok s) (p : Path) (i : ItemDef) (r : Resolved) (td : TypeDefn)
    (hg : s.reg.get p = some i) (hs : i.state = .res r) (hin : r.inner = .type td) (hc : i.cat = .defined) :
    ((∃ (reg0 : Registry) (owner : Path) (vis : Vis) (fns : List SFunc),
        buildVftableItem reg0 owner vis fns = some i ∧ i.path = p) ∧ td.fns = [] ∧ td.vft = none) ∨
    ∃ (item : G.Item) (d : G.TypeDef) (s0 s1 : State) (module : Mod),
      Declared c p item ∧ item.inner = .type d ∧ s0.moduleFor p = some module ∧ C02.Ext s0.reg s1.reg ∧
      C02.Ext s1.reg s.reg ∧
      (∀ f ∈ td.fns,
        (∃ gf, DeclaredFn c p gf ∧ buildFunction s1.reg module.scope false gf = .ok f) ∨
        (∃ rg ∈ td.regions, ∃ (b : String) (bp : Path) (btd : TypeDefn) (f0 : SFunc),
          rg.isBase = true ∧ rg.name = some b ∧ rg.ty = .data (.raw bp) ∧ Exec.typeDefn? s.reg bp = some btd ∧
          (f0 ∈ btd.fns ∨ ∃ v, btd.vft = some v ∧ f0 ∈ v.fns) ∧ f0.vis = .pub ∧
          f.doc = f0.doc ∧ f.vis = f0.vis ∧ f.args = f0.args ∧ f.ret = f0.ret ∧ f.cc = f0.cc ∧
          f.body = .field b f0.name)) ∧
      (∀ st gfns, d.stmts[0]? = some st → st.field = .vftable gfns →
        ∃ size out, vftableSizeAttr st.attrs = .ok size ∧ convertVfuncs s0.reg module.scope size gfns = .ok out ∧
          (∀ v, td.vft = some v → v.fns = out) ∧
          (∀ vpath, vftablePath p = some vpath →
            (∃ v, td.vft = some v ∧ v.fns = out ∧ v.ty = .cptr (.raw vpath)) ∧
            Exec.typeDefn? s.reg vpath = some { regions := out.map (functionToRegion p) }) ∧
          ∀ k f, out[k]? = some f →
            (∃ gf ∈ gfns, buildFunction s0.reg module.scope true gf = .ok f) ∨ f = placeholderFn k) := by
  rcases case_type_origin c hps hb s h p i r td hg hs hin hc with
    ⟨reg0, owner, vis, fns, hv, hp⟩ | ⟨s0, s1, item, d, hok, hinv, hQ, hD, hget, hd, hbt, he, hi⟩
  · obtain ⟨h1, h2⟩ := Exec.vftable_item_plain reg0 owner vis fns i r td hv hs hin
    exact Or.inl ⟨⟨reg0, owner, vis, fns, hv, hp⟩, h1, h2⟩
  · right
    obtain ⟨module, module1, ta, sa, vft, vregion, placed, acc1, acc2, td', hmod, hmod1, hdoc, hta, hsa, hbv, hres, hn, hal,
      hacc1, hacc2, hin', hfns, hvft, _⟩ := buildType_full s0 s1 p item.vis d r hbt
    rw [hin] at hin'
    cases hin'
    have he01 := Exec.buildVftable_ext s0 s1 p item.vis _ _ _ hbv
    have hreach := C02.buildType_reach2 s0 p item.vis d
    rw [hbt] at hreach
    simp only [] at hreach
    obtain ⟨dp, hm1⟩ := reach2_moduleFor hreach p module module1 hmod hmod1
    have hscope : module1.scope = module.scope := by rw [hm1]; rfl
    have himpl : module1.implFor p = module.implFor p := by rw [hm1]; rfl
    refine ⟨item, d, s0, s1, module, hD, hd, hmod, he01, he, ?_, ?_⟩
    · intro g hgm
      rw [hfns] at hgm
      rw [hscope, himpl] at hacc2
      have hsplit : g ∈ acc1.fns ∨ ∃ gf, DeclaredFn c p gf ∧ buildFunction s1.reg module.scope false gf = .ok g := by
        cases him : module.implFor p with
        | none =>
          rw [him] at hacc2
          simp only [addImplFns, Res.ok.injEq] at hacc2
          subst hacc2
          exact Or.inl hgm
        | some im =>
          rw [him] at hacc2
          obtain ⟨built, hbuilt, hfns2⟩ := C05.impl_functions_all_present s1.reg module.scope im acc1 acc2 hacc2
          rw [hfns2] at hgm
          rcases List.mem_append.mp hgm with hg1 | hg1
          · exact Or.inl hg1
          · right
            obtain ⟨gf, hgf, hbf⟩ := mapM'_mem _ _ _ hbuilt g hg1
            exact ⟨gf, declaredFn_of_impl c s0 hQ p item hD module hmod im him gf hgf, hbf⟩
      rcases hsplit with hg1 | hdecl
      · rcases Exec.injectBases_forwarders s1.reg td.regions _ acc1 hacc1 g hg1 with hnil | hfw
        · cases hnil
        · right
          obtain ⟨rg, hrg, hbase, b, bp, btd, fs, used, hname, hrty, hbtd, hfs, hspec⟩ := hfw
          have hadd : g ∈ (addFunctions b { fns := [], used := used } fs).fns := by
            rw [(C07.addFunctions_spec b { fns := [], used := used } fs).1]
            exact List.mem_append_right _ hspec
          rcases C17.inherited_copy_keeps_doc b { fns := [], used := used } fs g hadd with hnil | ⟨f0, hf0, hpub, k1, k2, k3, k4, k5, k6⟩
          · cases hnil
          · refine ⟨rg, hrg, b, bp, btd, f0, hbase, hname, hrty, Exec.typeDefn?_mono he bp btd hbtd, ?_, hpub, k1, k2, k3, k4,
              k5, k6⟩
            rcases hfs with rfl | ⟨v, hv, rfl⟩
            · exact Or.inl hf0
            · exact Or.inr ⟨v, hv, hf0⟩
      · exact Or.inl hdecl
    · intro st gfns hst hf
      obtain ⟨size, out, hsize, hconv, hvfns⟩ := Exec.stmts_vfns_of_block s0.reg module.scope d.stmts sa hsa st gfns hst hf
      refine ⟨size, out, hsize, hconv, ?_, ?_, convertVfuncs_slots s0.reg module.scope size gfns out hconv⟩
      rotate_left
      · intro vpath hvp
        obtain ⟨td', module', size', out', v, hin', hmod', hsize', hconv', hv1, hv2, hv3, hvtd, _⟩ :=
          Exec.built_type_vfunc_wrappers s0 s1 p item.vis d r hbt st gfns hst hf vpath hvp
        rw [hin] at hin'
        cases hin'
        rw [hmod] at hmod'
        cases hmod'
        rw [hsize] at hsize'
        cases hsize'
        rw [hconv] at hconv'
        cases hconv'
        exact ⟨⟨v, hv1, hv2, hv3⟩, Exec.typeDefn?_mono he vpath _ hvtd⟩
      intro v hv
      rw [hvft] at hv
      rw [hvfns] at hbv
      rcases buildVftable_cases s0 s1 p item.vis _ (some out) vft vregion hbv with
        ⟨h1, _⟩ | ⟨h1, _⟩ | ⟨fns, _, _, _, _, h5⟩ | ⟨fns, vpath, h1, _, _, _, h5⟩ | ⟨fns, vpath, bn, bv, h1, _, _, _, _, _, h7⟩
      · cases h1
      · cases h1
      · rw [h5] at hv; cases hv
      · cases h1; rw [h5] at hv; cases hv; rfl
      · cases h1; rw [h7] at hv; cases hv; rfl


/-! ### documentation, visibility and flags of every emitted struct -/

theorem stmtStep_pending_src (reg : Registry) (scope : List Path) (acc acc' : StmtAcc) (idx : Nat) (st : G.Stmt)
    (h : stmtStep reg scope acc (idx, st) = .ok acc') :
    acc'.pending = acc.pending ∨ ∃ q, acc'.pending = acc.pending ++ [q] ∧ FieldOf reg scope st q := by
  unfold stmtStep at h
  simp only [] at h
  split at h
  · rename_i vis name ty hf
    right
    split at h
    · cases h
    · rename_i doc hdoc
      split at h
      · rename_i fa hfa
        split at h
        · cases h
        · split at h
          · rename_i t ht
            generalize hid : (if (name != "_") = true then some name else none) = ident at h
            split at h
            · cases h
            · cases h
              exact ⟨_, rfl, vis, name, ty, fa, t, hf, hdoc, hfa, ht, by rw [hid]⟩
          · exact absurd h (C01.cast_ne_ok _ _)
      · exact absurd h (C01.cast_ne_ok _ _)
  · left
    split at h
    · cases h
    · split at h
      · cases h
      · split at h
        · split at h
          · cases h; rfl
          · exact absurd h (C01.cast_ne_ok _ _)
        · exact absurd h (C01.cast_ne_ok _ _)

/-- every pending field of an accepted statement loop comes from a field statement of the definition -/
theorem stmts_pending_src (reg : Registry) (scope : List Path) (l : List (Nat × G.Stmt)) (acc acc' : StmtAcc)
    (h : Res.foldlM (stmtStep reg scope) acc l = .ok acc') :
    ∀ q ∈ acc'.pending, q ∈ acc.pending ∨ ∃ e ∈ l, FieldOf reg scope e.2 q := by
  induction l generalizing acc with
  | nil => simp only [Res.foldlM, Res.ok.injEq] at h; subst h; exact fun q hq => Or.inl hq
  | cons x l ih =>
    unfold Res.foldlM at h
    split at h
    · next acc1 h1 =>
      intro q hq
      rcases ih acc1 h q hq with h2 | ⟨e, he, hfo⟩
      · obtain ⟨idx, st⟩ := x
        rcases stmtStep_pending_src reg scope acc acc1 idx st h1 with hp | ⟨q', hp, hfo⟩
        · rw [hp] at h2; exact Or.inl h2
        · rw [hp] at h2
          rcases List.mem_append.mp h2 with h3 | h3
          · exact Or.inl h3
          · simp only [List.mem_singleton] at h3
            subst h3
            exact Or.inr ⟨(idx, st), List.mem_cons_self, hfo⟩
      · exact Or.inr ⟨e, List.mem_cons_of_mem _ he, hfo⟩
    all_goals cases h

/-- the source of every placed region is the pointer region or one of the pending fields -/
theorem placed_srcs (reg : Registry) (vptr : Option Region) (pending : List (Option Nat × Region))
    (target : Option Nat) (placed : List (Placed Region)) (size : Nat)
    (h : resolve (vptr.map (toPField reg none)) (pending.map fun p => toPField reg p.1 p.2) target = .ok (placed, size)) :
    ∀ pl ∈ placed, ∀ rg, pl.src = some rg → vptr = some rg ∨ rg ∈ pending.map (·.2) := by
  refine C02.resolve_all (fun pl => ∀ rg, pl.src = some rg → vptr = some rg ∨ rg ∈ pending.map (·.2))
    (fun n rg hrg => by cases hrg) _ _ _ _ _ h ?_ ?_
  · intro v hv sz _ rg hrg
    cases vptr with
    | none => cases hv
    | some r0 =>
      simp only [Option.map_some, Option.some.injEq] at hv
      subst hv
      simp only [toPField, Option.some.injEq] at hrg
      exact Or.inl (by rw [hrg])
  · intro f hf sz _ rg hrg
    obtain ⟨q, hq, rfl⟩ := List.mem_map.mp hf
    simp only [toPField, Option.some.injEq] at hrg
    subst hrg
    exact Or.inr (List.mem_map.mpr ⟨q, hq, rfl⟩)

/-- every region of a named placement is generated (private, undocumented) or a named pointer region / pending field -/
theorem regions_src (reg : Registry) (vptr : Option Region) (pending : List (Option Nat × Region))
    (target : Option Nat) (placed : List (Placed Region)) (size : Nat) (regions : List Region)
    (h : resolve (vptr.map (toPField reg none)) (pending.map fun p => toPField reg p.1 p.2) target = .ok (placed, size))
    (hn : nameRegions reg 0 placed = .ok regions) :
    ∀ rg ∈ regions, (rg.vis = .priv ∧ rg.doc = none) ∨ (rg.name.isSome ∧ (vptr = some rg ∨ rg ∈ pending.map (·.2))) := by
  intro rg hrg
  obtain ⟨k, hk, rfl⟩ := List.getElem_of_mem hrg
  obtain ⟨hlen, _⟩ := C01.nameRegions_types_lem reg 0 placed regions hn
  have hkp : k < placed.length := by rw [← hlen]; exact hk
  obtain ⟨h1, h2, h3⟩ := C17.padding_private reg 0 placed regions hn k hkp hk
  cases hsrc : placed[k].src with
  | none => exact Or.inl (h1 hsrc)
  | some r0 =>
    cases hname : r0.name with
    | none => exact Or.inl (h3 r0 hsrc hname)
    | some nm =>
      have hnm : r0.name.isSome := by rw [hname]; rfl
      have e := h2 r0 hsrc hnm
      rw [e]
      exact Or.inr ⟨hnm, placed_srcs reg vptr pending target placed size h placed[k] (List.getElem_mem hkp) r0 hsrc⟩

/-- **documentation, visibility and flags of every emitted struct**: a generated vftable struct (plain: no doc, no
    flags; its fields are the slots), or built from a definition written in the case; then the struct has the
    definition's docs, declared visibility, singleton and flags (the attribute loop over the definition's attributes),
    and every field is generated (private, undocumented: padding, the vftable pointer) or is a named field statement of
    the definition, with that statement's visibility, name and docs -/
theorem case_attrs_master (c : Case) (hps : c.ps = 4 ∨ c.ps = 8) (hb : C12.CaseBounded c) (s : State)
    (h : c.run = .ok s) (p : Path) (i : ItemDef) (r : Resolved) (td : TypeDefn)
    (hg : s.reg.get p = some i) (hs : i.state = .res r) (hin : r.inner = .type td) (hc : i.cat = .defined) :
    (∃ (reg0 : Registry) (owner : Path) (vis : Vis) (fns : List SFunc),
        buildVftableItem reg0 owner vis fns = some i ∧ i.path = p ∧ i.vis = vis ∧
        td = { regions := fns.map (functionToRegion owner) }) ∨
    ∃ (item : G.Item) (d : G.TypeDef) (ta : TypeAttrs),
      Declared c p item ∧ item.inner = .type d ∧ i = builtItem p item r ∧
      G.docOf d.attrs = some td.doc ∧ Res.foldlM typeAttrStep {} d.attrs = .ok ta ∧
      td.singleton = ta.singleton ∧ td.copyable = ta.copyable ∧ td.cloneable = ta.cloneable ∧
      td.defaultable = ta.defaultable ∧ td.packed = ta.packed ∧
      ∀ rg ∈ td.regions, (rg.vis = .priv ∧ rg.doc = none) ∨
        ∃ st ∈ d.stmts, ∃ (vis : Vis) (name : String) (ty : G.Ty),
          st.field = .field vis name ty ∧ rg.vis = vis ∧ rg.name = some name ∧ G.docOf st.attrs = some rg.doc := by
  rcases case_type_origin c hps hb s h p i r td hg hs hin hc with
    ⟨reg0, owner, vis, fns, hv, hp⟩ | ⟨s0, s1, item, d, hok, hinv, hQ, hD, hget, hd, hbt, he, hi⟩
  · obtain ⟨htd, hvis, _⟩ := vftable_item_td reg0 owner vis fns i r td hv hs hin
    exact Or.inl ⟨reg0, owner, vis, fns, hv, hp, hvis, htd⟩
  · right
    obtain ⟨module, module1, ta, sa, vft, vregion, placed, acc1, acc2, td', hmod, hmod1, hdoc, hta, hsa, hbv, hres, hn, hal,
      hacc1, hacc2, hin', hfns, hvft, k1, k2, k3, k4, k5⟩ := buildType_full s0 s1 p item.vis d r hbt
    rw [hin] at hin'
    cases hin'
    refine ⟨item, d, ta, hD, hd, hi, hdoc, hta, k1, k2, k3, k4, k5, ?_⟩
    intro rg hrg
    rcases regions_src s1.reg vregion sa.pending ta.targetSize placed r.size td.regions hres hn rg hrg with
      hgen | ⟨hnm, hv | hpend⟩
    · exact Or.inl hgen
    · -- the own pointer is private and undocumented
      left
      rcases buildVftable_cases s0 s1 p item.vis _ sa.vfns vft vregion hbv with
        ⟨_, _, hp, _⟩ | ⟨_, _, hp, _⟩ | ⟨_, _, _, _, hp, _⟩ | ⟨_, vpath, _, _, _, hp, _⟩ | ⟨_, _, _, _, _, _, _, _, _, hp, _⟩
      · rw [hp] at hv; cases hv
      · rw [hp] at hv; cases hv
      · rw [hp] at hv; cases hv
      · rw [hp] at hv; cases hv; exact ⟨rfl, rfl⟩
      · rw [hp] at hv; cases hv
    · right
      obtain ⟨q, hq, rfl⟩ := List.mem_map.mp hpend
      rcases stmts_pending_src s0.reg module.scope _ {} sa hsa q hq with hnil | ⟨e, he', vis, name, ty, fa, t, hf, hdoc', _, _, hqe⟩
      · cases hnil
      · obtain ⟨x, hx, rfl⟩ := List.mem_map.mp he'
        have hst : x.1 ∈ d.stmts := (List.mem_zipIdx hx).2.2 ▸ List.getElem_mem _
        refine ⟨x.1, hst, vis, name, ty, hf, ?_, ?_, hdoc'⟩
        · rw [hqe]
        · rw [hqe] at hnm ⊢
          simp only at hnm ⊢
          split
          · rfl
          · next hne => rw [if_neg hne] at hnm; cases hnm

end PyxisVerif.CaseLift
