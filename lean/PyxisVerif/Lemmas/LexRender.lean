import PyxisVerif.Lemmas.Parser
import PyxisVerif.Lemmas.Lexer
namespace PyxisVerif
namespace C18
open Lex (K Delim Tok Pos)
open Print (digitsLE digitChar Base)

open Print (digitsLE digitChar Base)

/-! # character-level round trip: lexing the canonical text gives the tokens back -/

/-! ## identifiers -/

theorem takeWhile_stop {p : Char → Bool} (w rest : List Char) (sep : Char)
    (hw : ∀ x ∈ w, p x = true) (hs : p sep = false) :
    (w ++ sep :: rest).takeWhile p = w ∧ (w ++ sep :: rest).dropWhile p = sep :: rest := by
  induction w with
  | nil => simp [hs]
  | cons x xs ih =>
    have hx := hw x (by simp)
    have := ih (fun y hy => hw y (by simp [hy]))
    simp [hx, this]

/-- not one of the characters that turn a leading `r`/`b`/`c` into a literal prefix -/
def Safe (c : Char) : Prop := c ≠ '"' ∧ c ≠ '#' ∧ c ≠ '\''

theorem safe_idCont {c : Char} (h : Lex.isIdCont c = true) : Safe c := by
  have := (isIdCont_iff c).1 h
  refine ⟨?_, ?_, ?_⟩ <;> (intro e; subst e; simp at this)

theorem safe_space : Safe ' ' := ⟨by decide, by decide, by decide⟩

theorem litPrefix_none (a b : Char) (r : List Char) (hb : Safe b)
    (hr : b = 'r' → ∀ c r', r = c :: r' → Safe c) : Lex.litPrefix (a :: b :: r) = none := by
  obtain ⟨b1, b2, b3⟩ := hb
  unfold Lex.litPrefix
  split <;> first
    | rfl
    | (rename_i heq
       simp only [List.cons.injEq] at heq
       first
         | exact absurd heq.2.1 b1
         | exact absurd heq.2.1 b2
         | exact absurd heq.2.1 b3
         | (obtain ⟨_, h2, h3⟩ := heq
            have := hr h2 _ _ h3
            first
              | exact absurd rfl this.1
              | exact absurd rfl this.2.1
              | exact absurd rfl this.2.2))

theorem idStart_cont {c : Char} (h : Lex.isIdStart c = true) : Lex.isIdCont c = true := by
  have := (isIdStart_iff c).1 h
  exact (isIdCont_iff c).2 (by omega)

theorem lexIdent_plain (c : Char) (w rest : List Char) (hc : Lex.isIdStart c = true)
    (hw : ∀ x ∈ w, Lex.isIdCont x = true) :
    Lex.lexIdent (c :: w ++ ' ' :: rest) = some (.ident (String.ofList (c :: w)), ' ' :: rest) := by
  have tk := takeWhile_stop (p := Lex.isIdCont) (c :: w) rest ' '
    (fun x hx => by
      rcases List.mem_cons.mp hx with e | e
      · subst e; exact idStart_cont hc
      · exact hw x e) (by decide)
  have h2 : ∀ r', w ++ ' ' :: rest ≠ '#' :: r' := by
    intro r' e
    cases w with
    | nil => simp at e
    | cons x xs =>
      simp only [List.cons_append, List.cons.injEq] at e
      have := safe_idCont (hw x (by simp))
      exact this.2.1 e.1
  unfold Lex.lexIdent
  split
  · rename_i r heq
    simp only [List.cons_append, List.cons.injEq] at heq
    exact absurd heq.2 (h2 _)
  · simp only [tk.1, tk.2]

theorem lexLeaf_ident (c : Char) (w rest : List Char) (hc : Lex.isIdStart c = true)
    (hw : ∀ x ∈ w, Lex.isIdCont x = true) :
    Lex.lexLeaf (c :: w ++ ' ' :: rest) = some (.ident (String.ofList (c :: w)), ' ' :: rest) := by
  have hn := (isIdStart_iff c).1 hc
  have h1 : c ≠ '"' := by intro e; subst e; simp at hn
  have h2 : c ≠ '\'' := by intro e; subst e; simp at hn
  have h3 : c.isDigit = false := by
    cases h : c.isDigit with
    | false => rfl
    | true => have := (isDigit_iff c).1 h; omega
  have h4 : Lex.isPunctCh c = false := by
    cases h : Lex.isPunctCh c with
    | false => rfl
    | true =>
      simp only [Lex.isPunctCh, Bool.or_eq_true, beq_iff_eq] at h
      rcases h with (((((((((((((((((((((h | h) | h) | h) | h) | h) | h) | h) | h) | h) | h) | h) | h) | h) | h) | h) | h) | h) | h) | h) | h) | h) <;>
        (subst h; simp at hn)
  have hp : Lex.litPrefix (c :: w ++ ' ' :: rest) = none := by
    cases w with
    | nil => exact litPrefix_none c ' ' rest safe_space (fun e => by cases e)
    | cons x xs =>
      exact litPrefix_none c x _ (safe_idCont (hw x (by simp))) (fun _ y r' e => by
        cases xs with
        | nil => simp at e; rw [← e.1]; exact safe_space
        | cons z zs =>
          have e' : z = y := by injection e
          rw [← e']; exact safe_idCont (hw z (by simp)))
  have hl := lexIdent_plain c w rest hc hw
  simp only [List.cons_append] at hl hp ⊢
  simp only [Lex.lexLeaf, h1, h2, h3, h4, hc, if_false, if_true, Bool.false_eq_true, hp, hl]

open Print (digitsLE digitChar Base)

/-! ## punctuation -/

/-- the punctuation characters the printer writes -/
def okPunct (c : Char) : Bool :=
  c == '#' || c == '!' || c == '=' || c == ',' || c == ';' || c == ':' || c == '<' || c == '>' ||
  c == '*' || c == '&' || c == '-'

theorem okPunct_cases {c : Char} (h : okPunct c = true) :
    c = '#' ∨ c = '!' ∨ c = '=' ∨ c = ',' ∨ c = ';' ∨ c = ':' ∨ c = '<' ∨ c = '>' ∨ c = '*' ∨
    c = '&' ∨ c = '-' := by
  simp only [okPunct, Bool.or_eq_true, beq_iff_eq] at h
  rcases h with (((((((((h | h) | h) | h) | h) | h) | h) | h) | h) | h) | h <;> simp [h]

theorem okPunct_facts {c : Char} (h : okPunct c = true) :
    c ≠ '"' ∧ c ≠ '\'' ∧ c.isDigit = false ∧ Lex.isPunctCh c = true ∧ c ≠ '/' ∧ LeafStart c := by
  rcases okPunct_cases h with h | h | h | h | h | h | h | h | h | h | h <;> subst h <;>
    exact ⟨by decide, by decide, by decide, by decide, by decide, by simp [LeafStart]⟩

theorem lexLeaf_punct' (c : Char) (h1 : c ≠ '"') (h2 : c ≠ '\'') (h3 : c.isDigit = false)
    (h4 : Lex.isPunctCh c = true) (h5 : c ≠ '/') (r : List Char) :
    Lex.lexLeaf (c :: r) = some (.punct c (Lex.punctNext r), r) := by
  rw [Lex.lexLeaf, if_neg h1, if_neg h2]
  simp only [h3, h4, Bool.false_eq_true, if_false, if_true, h5, false_and]

theorem lexLeaf_punct (c : Char) (h : okPunct c = true) (r : List Char) :
    Lex.lexLeaf (c :: r) = some (.punct c (Lex.punctNext r), r) :=
  have hf := okPunct_facts h
  lexLeaf_punct' c hf.1 hf.2.1 hf.2.2.1 hf.2.2.2.1 hf.2.2.2.2.1 r

theorem punctNext_space (rest : List Char) : Lex.punctNext (' ' :: rest) = false := by
  unfold Lex.punctNext
  split
  · rename_i heq; simp only [List.cons.injEq] at heq; exact absurd heq.1 (by decide)
  · rename_i heq; simp only [List.cons.injEq] at heq; exact absurd heq.1 (by decide)
  · rename_i heq; simp only [List.cons.injEq] at heq; rw [← heq.1]; decide
  · rfl

theorem punctNext_okPunct {c : Char} (h : okPunct c = true) (rest : List Char) :
    Lex.punctNext (c :: rest) = true := by
  obtain ⟨_, _, _, h4, h5, _⟩ := okPunct_facts h
  unfold Lex.punctNext
  split
  · rename_i heq; simp only [List.cons.injEq] at heq; exact absurd heq.1 h5
  · rename_i heq; simp only [List.cons.injEq] at heq; exact absurd heq.1 h5
  · rename_i heq; simp only [List.cons.injEq] at heq; rw [← heq.1]; exact h4
  · rename_i heq; cases heq

open Print (digitsLE digitChar Base)

/-! ## strings -/

theorem cooked_plain (c : Char) (h1 : c ≠ '"') (h2 : c ≠ '\r') (h3 : c ≠ '\\') (f : Nat)
    (r acc : List Char) :
    Lex.cooked .str (f + 1) (c :: r) acc = Lex.cooked .str f r (c :: acc) := by
  rw [Lex.cooked]
  simp [h1, h2, h3]

theorem cooked_bs (f : Nat) (r acc : List Char) :
    Lex.cooked .str (f + 1) ('\\' :: r) acc =
      match Lex.escape .str f r with
      | some (some ch, r') => Lex.cooked .str f r' (ch :: acc)
      | some (none, r') => Lex.cooked .str f r' acc
      | none => none := by
  rw [Lex.cooked]
  simp only [show ('\\' == '"') = false from rfl, show ('\\' == '\r') = false from rfl,
    show ('\\' == '\\') = true from rfl, Bool.false_eq_true, if_false, if_true]
  cases Lex.escape .str f r with
  | none => rfl
  | some p =>
    obtain ⟨o, r'⟩ := p
    cases o <;> rfl

theorem cooked_esc (s : List Char) (tail acc : List Char) (f : Nat) (hf : s.length + 1 ≤ f) :
    Lex.cooked .str f (s.flatMap Print.escChar ++ '"' :: tail) acc = some (acc.reverse ++ s, tail) := by
  induction s generalizing acc f with
  | nil =>
    obtain ⟨f, rfl⟩ : ∃ g, f = g + 1 := ⟨f - 1, by omega⟩
    simp [Lex.cooked]
  | cons c s ih =>
    obtain ⟨f, rfl⟩ : ∃ g, f = g + 1 := ⟨f - 1, by omega⟩
    have ih' := fun acc' => ih acc' f (by simp at hf; omega)
    simp only [List.flatMap_cons, List.append_assoc]
    by_cases h1 : c = '"'
    · subst h1
      rw [show Print.escChar '"' = ['\\', '"'] from rfl]
      simp only [List.cons_append, List.nil_append]
      rw [cooked_bs]
      simp [Lex.escape, Lex.escapeWith, ih']
    · by_cases h2 : c = '\\'
      · subst h2
        rw [show Print.escChar '\\' = ['\\', '\\'] from rfl]
        simp only [List.cons_append, List.nil_append]
        rw [cooked_bs]
        simp [Lex.escape, Lex.escapeWith, ih']
      · by_cases h3 : c = '\n'
        · subst h3
          rw [show Print.escChar '\n' = ['\\', 'n'] from rfl]
          simp only [List.cons_append, List.nil_append]
          rw [cooked_bs]
          simp [Lex.escape, Lex.escapeWith, ih']
        · by_cases h4 : c = '\r'
          · subst h4
            rw [show Print.escChar '\r' = ['\\', 'r'] from rfl]
            simp only [List.cons_append, List.nil_append]
            rw [cooked_bs]
            simp [Lex.escape, Lex.escapeWith, ih']
          · by_cases h5 : c = '\t'
            · subst h5
              rw [show Print.escChar '\t' = ['\\', 't'] from rfl]
              simp only [List.cons_append, List.nil_append]
              rw [cooked_bs]
              simp [Lex.escape, Lex.escapeWith, ih']
            · by_cases h6 : c = '\x00'
              · subst h6
                rw [show Print.escChar '\x00' = ['\\', '0'] from rfl]
                simp only [List.cons_append, List.nil_append]
                rw [cooked_bs]
                simp [Lex.escape, Lex.escapeWith, ih']
              · simp only [Print.escChar, h1, h2, h3, h4, h5, h6, if_false, List.cons_append,
                  List.nil_append]
                rw [cooked_plain c h1 h4 h2, ih']
                simp

open Print (digitsLE digitChar Base)

theorem length_esc_ge (s : List Char) : s.length ≤ (s.flatMap Print.escChar).length := by
  induction s with
  | nil => simp
  | cons c s ih =>
    have : 1 ≤ (Print.escChar c).length := by
      unfold Print.escChar
      repeat (first | split | simp)
    simp only [List.flatMap_cons, List.length_append, List.length_cons]
    omega

theorem dropSuffix_space (rest : List Char) : Lex.dropSuffix (' ' :: rest) = ' ' :: rest := by
  simp [Lex.dropSuffix, Lex.isIdStart]

theorem lexLeaf_str (s : List Char) (rest : List Char) :
    Lex.lexLeaf (Print.spellStr s ++ ' ' :: rest) = some (.str (String.ofList s), ' ' :: rest) := by
  have hc := cooked_esc s (' ' :: rest) []
    ((s.flatMap Print.escChar ++ '"' :: ' ' :: rest).length + 1)
    (by have := length_esc_ge s; simp only [List.length_append, List.length_cons]; omega)
  simp only [Print.spellStr, List.cons_append, List.append_assoc, List.nil_append]
  rw [Lex.lexLeaf]
  simp only [if_true, Lex.cookedAll]
  rw [hc]
  simp [Lex.strTok, dropSuffix_space]

/-! ## white space and delimiters -/

theorem lexCore_space (f : Nat) (r : List Char) (st : List (Delim × Lex.Mark)) :
    Lex.lexCore (f + 1) (' ' :: r) st = Lex.lexCore f r st := by
  rw [Lex.lexCore]
  simp [show Lex.isWs ' ' = true from by decide]

theorem lexCore_open (d : Delim) (f : Nat) (r : List Char) (st : List (Delim × Lex.Mark)) :
    Lex.lexCore (f + 1) (Print.openCh d :: ' ' :: r) st =
      (Lex.lexCore f (' ' :: r) ((d, Lex.here (Print.openCh d :: ' ' :: r)) :: st)).map
        ((K.op d, Lex.here (Print.openCh d :: ' ' :: r)) :: ·) := by
  rw [Lex.lexCore]
  cases d <;>
    simp [Print.openCh, show Lex.isWs '(' = false from by decide,
      show Lex.isWs '[' = false from by decide, show Lex.isWs '{' = false from by decide,
      Lex.scanSlash, Lex.delimOpen, Lex.isERROR, List.isPrefixOf]

theorem lexCore_close (d : Delim) (f : Nat) (r : List Char) (n : Lex.Mark) (st : List (Delim × Lex.Mark)) :
    Lex.lexCore (f + 1) (Print.closeCh d :: r) ((d, n) :: st) =
      (Lex.lexCore f r st).map ((K.cl d, Lex.here (Print.closeCh d :: r)) :: ·) := by
  rw [Lex.lexCore]
  cases d <;>
    simp [Print.closeCh, show Lex.isWs ')' = false from by decide,
      show Lex.isWs ']' = false from by decide, show Lex.isWs '}' = false from by decide,
      Lex.scanSlash, Lex.delimOpen, Lex.delimClose]

open Print (digitsLE digitChar Base)

/-! ## the token stream of a rendered token list -/

/-- the token after a `joint` punct: a punct again, and not `#` (which could start a doc
    comment) -/
def nextPunct : List K → Bool
  | .punct c _ :: _ => okPunct c && c != '#'
  | _ => false

/-- what the character-level proof needs of a token list: every identifier is plain, every
    punctuation character is one the printer uses, a `joint` punct is followed by a punct,
    there is no `lit`, and the delimiters are balanced against the stack -/
def chk : List Delim → List K → Option (List Delim)
  | st, [] => some st
  | st, k :: ks =>
    match k with
    | .op d => chk (d :: st) ks
    | .cl d =>
      match st with
      | d' :: st0 => if d' = d then chk st0 ks else none
      | [] => none
    | .punct c j => if okPunct c && (!j || nextPunct ks) then chk st ks else none
    | .ident s => if plainId s then chk st ks else none
    | .int _ => chk st ks
    | .str _ => chk st ks
    | .lit => none

/-- the number of `lexCore` iterations the rendering of `ks` takes -/
def steps : List K → Nat
  | [] => 0
  | k :: ks => 1 + (Print.sepAfter k).length + steps ks

theorem map_cons_map {α ε : Type} (a : α) (l : List α) (x : Except ε (List α)) :
    Except.map (a :: ·) (Except.map (l ++ ·) x) = Except.map ((a :: l) ++ ·) x := by
  cases x <;> rfl

theorem map_nil_append {α ε : Type} (x : Except ε (List α)) :
    x = Except.map (([] : List α) ++ ·) x := by
  cases x <;> rfl

theorem intTail_space (rest : List Char) : IntTail (' ' :: rest) := by
  simp only [IntTail]; exact ⟨by decide, by decide⟩

theorem lexCore_render (ks : List K) :
    ∀ (st : List (Delim × Lex.Mark)) (st' : List Delim) (tail : List Char) (f : Nat),
      chk (st.map (·.1)) ks = some st' →
      ∃ (toks : List (K × Lex.Mark)) (st2 : List (Delim × Lex.Mark)),
        toks.map (·.1) = ks ∧ st2.map (·.1) = st' ∧
        Lex.lexCore (steps ks + f) (Print.renderCanon ks ++ tail) st
          = (Lex.lexCore f tail st2).map (toks ++ ·) := by
  induction ks with
  | nil =>
    intro st st' tail f h
    simp only [chk, Option.some.injEq] at h
    exact ⟨[], st, rfl, h, by simpa [steps, Print.renderCanon] using map_nil_append _⟩
  | cons k ks ih =>
    intro st st' tail f h
    cases k with
    | lit => simp [chk] at h
    | ident s =>
      simp only [chk] at h
      split at h
      · rename_i hp
        obtain ⟨toks, st2, h1, h2, h3⟩ := ih st st' tail f h
        have hs : ∃ c w, s.toList = c :: w ∧ Lex.isIdStart c = true ∧
            ∀ x ∈ w, Lex.isIdCont x = true := by
          simp only [plainId] at hp
          cases hh : s.toList with
          | nil => rw [hh] at hp; simp at hp
          | cons c w =>
            rw [hh] at hp
            simp only [Bool.and_eq_true, List.all_eq_true] at hp
            exact ⟨c, w, rfl, hp.1, hp.2⟩
        obtain ⟨c, w, hcw, hc, hw⟩ := hs
        have hstr : String.ofList (c :: w) = s := by rw [← hcw]; exact String.ofList_toList
        refine ⟨(K.ident s, ?n1) :: toks, st2, by simp [h1], h2, ?_⟩
        rotate_left
        have e : steps (K.ident s :: ks) + f = (steps ks + f + 1) + 1 := by
          simp [steps, Print.sepAfter]; omega
        rw [e]
        simp only [Print.renderCanon, Print.spell, Print.sepAfter, hcw, List.cons_append,
          List.append_assoc, List.nil_append]
        rw [lexCore_leaf c _ (leafStart_idStart hc)]
        have := lexLeaf_ident c w (Print.renderCanon ks ++ tail) hc hw
        simp only [List.cons_append] at this
        rw [this]
        simp only []
        rw [lexCore_space, h3, map_cons_map, hstr]
        all_goals rfl
      · cases h
    | int v =>
      simp only [chk] at h
      obtain ⟨toks, st2, h1, h2, h3⟩ := ih st st' tail f h
      refine ⟨(K.int v, ?n2) :: toks, st2, by simp [h1], h2, ?_⟩
      rotate_left
      have e : steps (K.int v :: ks) + f = (steps ks + f + 1) + 1 := by
        simp [steps, Print.sepAfter]; omega
      rw [e]
      have hsp := numChars_spelling .dec v
      have hl := lexLeaf_int .dec (numChars 10 v) hsp (' ' :: (Print.renderCanon ks ++ tail))
        (intTail_space _)
      obtain ⟨c, r, hcr, hd⟩ := spelling_head_digit .dec (numChars 10 v) hsp
        (' ' :: (Print.renderCanon ks ++ tail))
      have hv : digitsVal 10 0 (numChars 10 v) = v := digitsVal_numChars 10 v (by omega) (by omega)
      simp only [Base.pre, Base.radix, List.nil_append, hv] at hl hcr
      have hren : Print.renderCanon (K.int v :: ks) ++ tail
          = numChars 10 v ++ ' ' :: (Print.renderCanon ks ++ tail) := by
        simp [Print.renderCanon, Print.spell, Print.sepAfter, Print.decChars, numChars]
      rw [hren, hcr, lexCore_leaf c r (leafStart_digit hd), ← hcr, hl]
      simp only []
      rw [lexCore_space, h3, map_cons_map]
      all_goals rfl
    | str s =>
      simp only [chk] at h
      obtain ⟨toks, st2, h1, h2, h3⟩ := ih st st' tail f h
      have hl := lexLeaf_str s.toList (Print.renderCanon ks ++ tail)
      have hren : Print.renderCanon (K.str s :: ks) ++ tail
          = Print.spellStr s.toList ++ ' ' :: (Print.renderCanon ks ++ tail) := by
        simp [Print.renderCanon, Print.spell, Print.sepAfter]
      obtain ⟨r, hr⟩ : ∃ r, Print.spellStr s.toList ++ ' ' :: (Print.renderCanon ks ++ tail) = '"' :: r :=
        ⟨_, rfl⟩
      refine ⟨(K.str s, ?n3) :: toks, st2, by simp [h1], h2, ?_⟩
      rotate_left
      have e : steps (K.str s :: ks) + f = (steps ks + f + 1) + 1 := by
        simp [steps, Print.sepAfter]; omega
      rw [e, hren]
      rw [hr] at hl ⊢
      rw [lexCore_leaf '"' r (by simp [LeafStart]), hl]
      simp only [String.ofList_toList]
      rw [lexCore_space, h3, map_cons_map]
      all_goals rfl
    | punct c j =>
      simp only [chk] at h
      split at h
      · rename_i hp
        simp only [Bool.and_eq_true, Bool.or_eq_true, Bool.not_eq_true'] at hp
        obtain ⟨toks, st2, h1, h2, h3⟩ := ih st st' tail f h
        cases j with
        | false =>
          refine ⟨(K.punct c false, ?n4) :: toks, st2, by simp [h1], h2, ?_⟩
          rotate_left
          have e : steps (K.punct c false :: ks) + f = (steps ks + f + 1) + 1 := by
            simp [steps, Print.sepAfter]; omega
          rw [e]
          simp only [Print.renderCanon, Print.spell, Print.sepAfter, List.cons_append,
            List.append_assoc, List.nil_append]
          rw [lexCore_leaf c _ (okPunct_facts hp.1).2.2.2.2.2, lexLeaf_punct c hp.1, punctNext_space]
          simp only []
          rw [lexCore_space, h3, map_cons_map]
          all_goals rfl
        | true =>
          have hnp : nextPunct ks = true := by simpa using hp.2
          obtain ⟨c', j', ks', hks, hp2⟩ : ∃ c' j' ks', ks = K.punct c' j' :: ks' ∧ okPunct c' = true := by
            cases ks with
            | nil => simp [nextPunct] at hnp
            | cons k' ks' =>
              cases k' with
              | punct c' j' => exact ⟨c', j', ks', rfl, by simp [nextPunct] at hnp; exact hnp.1⟩
              | ident _ => simp [nextPunct] at hnp
              | int _ => simp [nextPunct] at hnp
              | str _ => simp [nextPunct] at hnp
              | lit => simp [nextPunct] at hnp
              | op _ => simp [nextPunct] at hnp
              | cl _ => simp [nextPunct] at hnp
          refine ⟨(K.punct c true, ?n5) :: toks, st2, by simp [h1], h2, ?_⟩
          rotate_left
          have e : steps (K.punct c true :: ks) + f = (steps ks + f) + 1 := by
            simp [steps, Print.sepAfter]; omega
          rw [e]
          have hren : Print.renderCanon (K.punct c true :: ks) ++ tail
              = c :: c' :: (Print.sepAfter (K.punct c' j') ++ Print.renderCanon ks' ++ tail) := by
            rw [hks]; simp [Print.renderCanon, Print.spell, Print.sepAfter]
          have hren2 : Print.renderCanon ks ++ tail
              = c' :: (Print.sepAfter (K.punct c' j') ++ Print.renderCanon ks' ++ tail) := by
            rw [hks]; simp [Print.renderCanon, Print.spell]
          rw [hren, lexCore_leaf c _ (okPunct_facts hp.1).2.2.2.2.2, lexLeaf_punct c hp.1,
            punctNext_okPunct hp2]
          simp only []
          rw [← hren2, h3, map_cons_map]
          all_goals rfl
      · cases h
    | op d =>
      simp only [chk] at h
      have h' : chk (((d, Lex.here (Print.openCh d :: ' ' :: (Print.renderCanon ks ++ tail))) :: st).map (·.1)) ks = some st' := by
        simpa using h
      obtain ⟨toks, st2, h1, h2, h3⟩ := ih _ st' tail f h'
      refine ⟨(K.op d, ?n6) :: toks, st2, by simp [h1], h2, ?_⟩
      rotate_left
      have e : steps (K.op d :: ks) + f = (steps ks + f + 1) + 1 := by
        simp [steps, Print.sepAfter]; omega
      rw [e]
      simp only [Print.renderCanon, Print.spell, Print.sepAfter, List.cons_append,
        List.append_assoc, List.nil_append]
      rw [lexCore_open, lexCore_space, h3, map_cons_map]
      all_goals rfl
    | cl d =>
      cases st with
      | nil => simp [chk] at h
      | cons p st0 =>
        obtain ⟨d', n⟩ := p
        simp only [List.map_cons, chk] at h
        by_cases hd : d' = d
        · subst hd
          simp only [if_true] at h
          obtain ⟨toks, st2, h1, h2, h3⟩ := ih st0 st' tail f h
          refine ⟨(K.cl d', ?n9) :: toks, st2, by simp [h1], h2, ?_⟩
          rotate_left
          have e : steps (K.cl d' :: ks) + f = (steps ks + f + 1) + 1 := by
            simp [steps, Print.sepAfter]; omega
          rw [e]
          simp only [Print.renderCanon, Print.spell, Print.sepAfter, List.cons_append,
            List.nil_append]
          rw [lexCore_close, lexCore_space, h3, map_cons_map]
          all_goals rfl
        · simp [hd] at h

open Print (digitsLE digitChar Base)

/-! ## the printer's output passes `chk` -/

theorem chk_ident (st : List Delim) (s : String) (r : List K) (h : plainId s = true) :
    chk st (.ident s :: r) = chk st r := by simp [chk, h]

theorem chk_punct (st : List Delim) (c : Char) (r : List K) (h : okPunct c = true) :
    chk st (.punct c false :: r) = chk st r := by simp [chk, h]

theorem chk_joint (st : List Delim) (c c' : Char) (j : Bool) (r : List K) (h : okPunct c = true)
    (h' : okPunct c' = true) (h'' : c' ≠ '#') :
    chk st (.punct c true :: .punct c' j :: r) = chk st (.punct c' j :: r) := by
  simp [chk, h, nextPunct, h', h'']

theorem chk_int (st : List Delim) (v : Nat) (r : List K) : chk st (.int v :: r) = chk st r := by
  simp [chk]

theorem chk_str (st : List Delim) (s : String) (r : List K) : chk st (.str s :: r) = chk st r := by
  simp [chk]

theorem chk_op (st : List Delim) (d : Delim) (r : List K) : chk st (.op d :: r) = chk (d :: st) r := by
  simp [chk]

theorem chk_cl (st : List Delim) (d : Delim) (r : List K) : chk (d :: st) (.cl d :: r) = chk st r := by
  simp [chk]

theorem plainId_of_idOk {s : String} (h : idOk s = true) : plainId s = true := by
  simp [idOk] at h; exact h.2

theorem plainId_of_nameOk {s : String} (h : nameOk s = true) : plainId s = true := by
  simp only [nameOk, Bool.or_eq_true, beq_iff_eq] at h
  rcases h with h | h
  · subst h; decide
  · exact plainId_of_idOk h

/-- `chk` runs through the tokens `ks` without changing the stack -/
def Passes (ks : List K) : Prop := ∀ (st : List Delim) (r : List K), chk st (ks ++ r) = chk st r

theorem passes_nil : Passes [] := fun _ _ => rfl

theorem passes_append {a b : List K} (ha : Passes a) (hb : Passes b) : Passes (a ++ b) := by
  intro st r
  rw [List.append_assoc, ha, hb]

theorem passes_ident {s : String} (h : plainId s = true) : Passes [.ident s] :=
  fun st r => chk_ident st s r h

theorem passes_punct {c : Char} (h : okPunct c = true) : Passes [.punct c false] :=
  fun st r => chk_punct st c r h

theorem passes_int (v : Nat) : Passes [.int v] := fun st r => chk_int st v r
theorem passes_str (s : String) : Passes [.str s] := fun st r => chk_str st s r

theorem passes_joint2 {c c' : Char} (h : okPunct c = true) (h' : okPunct c' = true)
    (h'' : c' ≠ '#') :
    Passes [.punct c true, .punct c' false] := by
  intro st r
  simp only [List.cons_append, List.nil_append]
  rw [chk_joint st c c' false r h h' h'', chk_punct st c' r h']

theorem passes_cons {k : K} {ks : List K} (hk : Passes [k]) (hks : Passes ks) : Passes (k :: ks) :=
  passes_append hk hks

theorem passes_group {ks : List K} (d : Delim) (h : Passes ks) : Passes (.op d :: ks ++ [.cl d]) := by
  intro st r
  simp only [List.cons_append, List.append_assoc, List.nil_append]
  rw [chk_op, h, chk_cl]

theorem passes_pTerm {α : Type} (pr : α → List K) (sep : Char) (tr : Bool) (xs : List α)
    (hs : okPunct sep = true) (h : ∀ x ∈ xs, Passes (pr x)) : Passes (Print.pTerm pr sep tr xs) := by
  induction xs with
  | nil => exact passes_nil
  | cons x xs ih =>
    have hx := h x (by simp)
    have ih' := ih (fun y hy => h y (by simp [hy]))
    cases xs with
    | nil =>
      cases tr with
      | false => simpa [Print.pTerm] using hx
      | true => simpa [Print.pTerm] using passes_append hx (passes_punct hs)
    | cons y ys =>
      simp only [Print.pTerm]
      exact passes_append hx (passes_cons (passes_punct hs) ih')

theorem passes_pGroup {α : Type} (d : Delim) (pr : α → List K) (sep : Char) (tr : Bool)
    (xs : List α) (hs : okPunct sep = true) (h : ∀ x ∈ xs, Passes (pr x)) :
    Passes (Print.pGroup d pr sep tr xs) := by
  simp only [Print.pGroup]
  exact passes_group d (passes_pTerm pr sep tr xs hs h)

theorem passes_flatMap {α : Type} (pr : α → List K) (xs : List α) (h : ∀ x ∈ xs, Passes (pr x)) :
    Passes (xs.flatMap pr) := by
  induction xs with
  | nil => exact passes_nil
  | cons x xs ih =>
    simp only [List.flatMap_cons]
    exact passes_append (h x (by simp)) (ih (fun y hy => h y (by simp [hy])))

theorem kw (s : String) (h : plainId s = true := by decide) : Passes [.ident s] := passes_ident h
theorem pu (c : Char) (h : okPunct c = true := by decide) : Passes [.punct c false] := passes_punct h

theorem passes_pTy (t : G.Ty) (h : tyOk t = true) : Passes (Print.pTy t) := by
  induction t with
  | ident s =>
    simp only [tyOk, Bool.and_eq_true] at h
    exact passes_ident (plainId_of_idOk h.1)
  | unk n =>
    exact passes_cons (kw "unknown") (passes_cons (pu '<') (passes_cons (passes_int n) (pu '>')))
  | cptr t ih => exact passes_cons (pu '*') (passes_cons (kw "const") (ih h))
  | mptr t ih => exact passes_cons (pu '*') (passes_cons (kw "mut") (ih h))
  | arr t n ih =>
    simp only [tyOk, Bool.and_eq_true] at h
    have : Print.pTy (.arr t n) = .op .bracket :: (Print.pTy t ++ [.punct ';' false, .int n]) ++ [.cl .bracket] := by
      simp [Print.pTy]
    rw [this]
    exact passes_group _ (passes_append (ih h.1) (passes_cons (pu ';') (passes_int n)))

theorem passes_pExpr (e : G.Expr) (h : exprOk e = true) : Passes (Print.pExpr e) := by
  cases e with
  | ident s => exact passes_ident (plainId_of_idOk h)
  | str s => exact passes_str s
  | int z =>
    simp only [Print.pExpr]
    split
    · exact passes_cons (pu '-') (passes_int _)
    · exact passes_int _

theorem passes_pAttrPart (tr : Bool) (a : G.Attr) (h : attrOk a = true) :
    Passes (Print.pAttrPart tr a) := by
  cases a with
  | ident n => exact passes_ident (plainId_of_nameOk h)
  | assign n e =>
    simp only [attrOk, Bool.and_eq_true] at h
    exact passes_cons (passes_ident (plainId_of_nameOk h.1)) (passes_cons (pu '=') (passes_pExpr e h.2))
  | fn n args =>
    simp only [attrOk, Bool.and_eq_true, List.all_eq_true] at h
    exact passes_cons (passes_ident (plainId_of_nameOk h.1))
      (passes_pGroup _ _ _ _ _ (by decide) (fun x hx => passes_pExpr x (h.2 x hx)))

theorem passes_pAttr (inner tr : Bool) (a : G.Attr) (h : attrOk a = true) :
    Passes (Print.pAttr inner tr a) := by
  simp only [Print.pAttr]
  refine passes_cons (pu '#') (passes_append ?_ (passes_pGroup _ _ _ _ _ (by decide) ?_))
  · cases inner
    · exact passes_nil
    · exact pu '!'
  · intro x hx; simp at hx; subst hx; exact passes_pAttrPart tr x h

theorem passes_pAttrs (inner tr : Bool) (as : List G.Attr) (h : as.all attrOk = true) :
    Passes (Print.pAttrs inner tr as) := by
  simp only [List.all_eq_true] at h
  exact passes_flatMap _ _ (fun a ha => passes_pAttr inner tr a (h a ha))

theorem passes_pVis (v : G.Vis) : Passes (Print.pVis v) := by
  cases v
  · exact kw "pub"
  · exact passes_nil

theorem passes_pArg (a : G.Arg) (h : argOk a = true) : Passes (Print.pArg a) := by
  cases a with
  | constSelf => exact passes_cons (pu '&') (kw "self")
  | mutSelf => exact passes_cons (pu '&') (passes_cons (kw "mut") (kw "self"))
  | named n t =>
    simp only [argOk, Bool.and_eq_true] at h
    exact passes_cons (passes_ident (plainId_of_idOk h.1)) (passes_cons (pu ':') (passes_pTy t h.2))

theorem passes_pRet (r : Option G.Ty) (h : retOk r = true) : Passes (Print.pRet r) := by
  cases r with
  | none => exact passes_nil
  | some t =>
    have : Print.pRet (some t) = [.punct '-' true, .punct '>' false] ++ Print.pTy t := rfl
    rw [this]
    exact passes_append (passes_joint2 (by decide) (by decide) (by decide)) (passes_pTy t h)

theorem passes_pFunc (tr : Bool) (f : G.Func) (h : funcOk f = true) : Passes (Print.pFunc tr f) := by
  simp only [funcOk, Bool.and_eq_true, List.all_eq_true] at h
  obtain ⟨⟨⟨hn, ha⟩, hargs⟩, hret⟩ := h
  simp only [Print.pFunc]
  refine passes_append (passes_append (passes_pAttrs _ _ _ (by simpa [List.all_eq_true] using ha))
    (passes_pVis _)) (passes_cons (kw "fn") (passes_cons (passes_ident (plainId_of_nameOk hn)) ?_))
  exact passes_append (passes_pGroup _ _ _ _ _ (by decide) (fun x hx => passes_pArg x (hargs x hx)))
    (passes_pRet _ hret)

open Print (digitsLE digitChar Base)

theorem passes_pFuncs (tr : Bool) (d : Delim) (fns : List G.Func) (h : fns.all funcOk = true) :
    Passes (Print.pGroup d (Print.pFunc tr) ';' tr fns) := by
  simp only [List.all_eq_true] at h
  exact passes_pGroup _ _ _ _ _ (by decide) (fun x hx => passes_pFunc tr x (h x hx))

theorem passes_pField (tr : Bool) (fl : G.Field) (h : fieldOk fl = true) :
    Passes (Print.pField tr fl) := by
  cases fl with
  | vftable fns => exact passes_cons (kw "vftable") (passes_pFuncs tr _ fns h)
  | field v n t =>
    simp only [fieldOk, Bool.and_eq_true] at h
    exact passes_append (passes_pVis v)
      (passes_cons (passes_ident (plainId_of_nameOk h.1.1)) (passes_cons (pu ':') (passes_pTy t h.2)))

theorem passes_pStmt (tr : Bool) (s : G.Stmt) (h : stmtOk s = true) : Passes (Print.pStmt tr s) := by
  simp only [stmtOk, Bool.and_eq_true] at h
  exact passes_append (passes_pAttrs _ _ _ h.1) (passes_pField tr _ h.2)

theorem passes_pOptExpr (e : Option G.Expr) (h : optExprOk e = true) : Passes (Print.pOptExpr e) := by
  cases e with
  | none => exact passes_nil
  | some e => exact passes_cons (pu '=') (passes_pExpr e h)

theorem passes_pEnumStmt (tr : Bool) (s : G.EnumStmt) (h : enumStmtOk s = true) :
    Passes (Print.pEnumStmt tr s) := by
  simp only [enumStmtOk, Bool.and_eq_true] at h
  exact passes_append (passes_pAttrs _ _ _ h.2)
    (passes_cons (passes_ident (plainId_of_nameOk h.1.1)) (passes_pOptExpr _ h.1.2))

theorem passes_pTypeBody (tr : Bool) (ss : List G.Stmt) (h : ∀ x ∈ ss, stmtOk x = true) :
    Passes (Print.pTypeBody tr ss) := by
  simp only [Print.pTypeBody]
  split
  · exact pu ';'
  · exact passes_pGroup _ _ _ _ _ (by decide) (fun x hx => passes_pStmt tr x (h x hx))

theorem passes_pItemDef (tr : Bool) (i : G.Item) (h : itemOk i = true) :
    Passes (Print.pItemDef tr i) := by
  obtain ⟨vis, name, inner⟩ := i
  simp only [itemOk, Bool.and_eq_true] at h
  cases inner with
  | type d =>
    simp only [innerOk, Bool.and_eq_true, List.all_eq_true] at h
    simp only [Print.pItemDef]
    exact passes_append (passes_append (passes_pAttrs _ _ _ (by simpa [List.all_eq_true] using h.2.1))
      (passes_pVis _)) (passes_cons (kw "type") (passes_cons (passes_ident (plainId_of_nameOk h.1))
        (passes_pTypeBody tr _ (fun x hx => h.2.2 x hx))))
  | enum d =>
    simp only [innerOk, Bool.and_eq_true, List.all_eq_true] at h
    simp only [Print.pItemDef]
    exact passes_append (passes_append (passes_pAttrs _ _ _ (by simpa [List.all_eq_true] using h.2.1.1))
      (passes_pVis _)) (passes_cons (kw "enum") (passes_cons (passes_ident (plainId_of_nameOk h.1))
        (passes_cons (pu ':') (passes_append (passes_pTy _ h.2.1.2)
          (passes_pGroup _ _ _ _ _ (by decide) (fun x hx => passes_pEnumStmt tr x (h.2.2 x hx)))))))

theorem passes_pImpl (tr : Bool) (i : G.Impl) (h : implOk i = true) : Passes (Print.pImpl tr i) := by
  simp only [implOk, Bool.and_eq_true] at h
  exact passes_append (passes_pAttrs _ _ _ h.1.2)
    (passes_cons (kw "impl") (passes_cons (passes_ident (plainId_of_nameOk h.1.1))
      (passes_pFuncs tr _ _ h.2)))

theorem passes_pXType (tr : Bool) (x : String × List G.Attr) (h : xtypeOk x = true) :
    Passes (Print.pXType tr x) := by
  simp only [xtypeOk, Bool.and_eq_true] at h
  exact passes_append (passes_pAttrs _ _ _ h.2)
    (passes_cons (kw "extern") (passes_cons (kw "type")
      (passes_cons (passes_ident (plainId_of_idOk h.1)) (pu ';'))))

theorem passes_pXVal (tr : Bool) (x : G.XVal) (h : xvalOk x = true) : Passes (Print.pXVal tr x) := by
  simp only [xvalOk, Bool.and_eq_true] at h
  simp only [Print.pXVal]
  exact passes_append (passes_append (passes_pAttrs _ _ _ h.2) (passes_pVis _))
    (passes_cons (kw "extern") (passes_cons (passes_ident (plainId_of_nameOk h.1.1))
      (passes_cons (pu ':') (passes_append (passes_pTy _ h.1.2) (pu ';')))))

theorem passes_pPath (p : Path) (h : pathOk p = true) : Passes (Print.pPath p) := by
  induction p with
  | nil => exact passes_nil
  | cons s p ih =>
    simp only [pathOk, List.all_cons, Bool.and_eq_true] at h
    cases p with
    | nil => exact passes_ident (plainId_of_idOk h.1)
    | cons t q =>
      have : Print.pPath (s :: t :: q) = .ident s :: ([.punct ':' true, .punct ':' false] ++ Print.pPath (t :: q)) := rfl
      rw [this]
      exact passes_cons (passes_ident (plainId_of_idOk h.1))
        (passes_append (passes_joint2 (by decide) (by decide) (by decide)) (ih (by simpa [pathOk] using h.2)))

theorem passes_pUse (p : Path) (h : pathOk p = true) : Passes (Print.pUse p) :=
  passes_cons (kw "use") (passes_append (passes_pPath p h) (pu ';'))

theorem passes_pBlock (kwd : String) (hk : plainId kwd = true) (o : Option String) :
    Passes (Print.pBlock kwd o) := by
  cases o with
  | none => exact passes_nil
  | some s => exact passes_cons (passes_ident hk) (passes_cons (passes_str s) (pu ';'))

theorem passes_pBackend (b : G.Backend) (h : backendOk b = true) : Passes (Print.pBackend b) := by
  simp only [backendOk, Bool.and_eq_true] at h
  have : Print.pBackend b = .ident "backend" :: .ident b.name ::
      (.op .brace :: (Print.pBlock "prologue" b.prologue ++ Print.pBlock "epilogue" b.epilogue) ++ [.cl .brace]) := by
    simp [Print.pBackend]
  rw [this]
  exact passes_cons (kw "backend") (passes_cons (passes_ident (plainId_of_nameOk h.1.1))
    (passes_group _ (passes_append (passes_pBlock _ (by decide) _) (passes_pBlock _ (by decide) _))))

theorem passes_printK (tr : Bool) (m : G.Module) (h : wfB m = true) : Passes (Print.printK tr m) := by
  simp only [wfB, Bool.and_eq_true, List.all_eq_true] at h
  obtain ⟨⟨⟨⟨⟨⟨h0, h1⟩, h2⟩, h3⟩, h4⟩, h5⟩, h6⟩ := h
  simp only [Print.printK]
  refine passes_append (passes_append (passes_append (passes_append (passes_append (passes_append
    (passes_pAttrs _ _ _ (by simpa [List.all_eq_true] using h0)) ?_) ?_) ?_) ?_) ?_) ?_
  · exact passes_flatMap _ _ (fun x hx => passes_pUse x (h1 x hx))
  · exact passes_flatMap _ _ (fun x hx => passes_pXType tr x (h2 x hx))
  · exact passes_flatMap _ _ (fun x hx => passes_pXVal tr x (h3 x hx))
  · exact passes_flatMap _ _ (fun x hx => passes_pItemDef tr x (h4 x hx))
  · exact passes_flatMap _ _ (fun x hx => passes_pImpl tr x (h5 x hx))
  · exact passes_flatMap _ _ (fun x hx => passes_pBackend x (h6 x hx))

theorem chk_printK (tr : Bool) (m : G.Module) (h : wfB m = true) :
    chk [] (Print.printK tr m) = some [] := by
  have := passes_printK tr m h [] []
  simpa [chk] using this

open Print (digitsLE digitChar Base)


/-- the spelling of a token that `chk` accepts starts with an ASCII character -/
theorem spell_head (st : List Delim) (k : K) (ks : List K) (st' : List Delim)
    (h : chk st (k :: ks) = some st') : ∃ c r, Print.spell k = c :: r ∧ c.toNat < 128 := by
  cases k with
  | lit => simp [chk] at h
  | ident s =>
    simp only [chk] at h
    split at h
    · rename_i hp
      simp only [plainId] at hp
      cases hh : s.toList with
      | nil => rw [hh] at hp; simp at hp
      | cons c w =>
        rw [hh] at hp
        simp only [Bool.and_eq_true] at hp
        have := (isIdStart_iff c).1 hp.1
        exact ⟨c, w, by simp [Print.spell, hh], by omega⟩
    · cases h
  | int v =>
    obtain ⟨c, r, hcr, hd⟩ := spelling_head_digit .dec (numChars 10 v) (numChars_spelling .dec v) []
    simp only [Base.pre, List.nil_append, List.append_nil] at hcr
    have := (isDigit_iff c).1 hd
    exact ⟨c, r, by simpa [Print.spell, Print.decChars, numChars] using hcr, by omega⟩
  | str s => exact ⟨'"', _, rfl, by decide⟩
  | punct c j =>
    simp only [chk] at h
    split at h
    · rename_i hp
      simp only [Bool.and_eq_true] at hp
      have := (okPunct_facts hp.1).2.2.2.2.2
      simp only [LeafStart] at this
      exact ⟨c, [], rfl, by omega⟩
    · cases h
  | op d => cases d <;> exact ⟨_, [], rfl, by decide⟩
  | cl d => cases d <;> exact ⟨_, [], rfl, by decide⟩

theorem chk_tail (st : List Delim) (k : K) (ks : List K) (st' : List Delim)
    (h : chk st (k :: ks) = some st') : ∃ st1, chk st1 ks = some st' := by
  cases k with
  | lit => simp [chk] at h
  | ident s => simp only [chk] at h; split at h; exact ⟨_, h⟩; cases h
  | int v => exact ⟨_, by simpa [chk] using h⟩
  | str s => exact ⟨_, by simpa [chk] using h⟩
  | punct c j => simp only [chk] at h; split at h; exact ⟨_, h⟩; cases h
  | op d => exact ⟨_, by simpa [chk] using h⟩
  | cl d =>
    cases st with
    | nil => simp [chk] at h
    | cons d' st0 =>
      simp only [chk] at h
      split at h
      · exact ⟨_, h⟩
      · cases h

theorem steps_le (ks : List K) : ∀ (st st' : List Delim), chk st ks = some st' →
    steps ks ≤ (Print.renderCanon ks).length := by
  induction ks with
  | nil => intro _ _ _; simp [steps]
  | cons k ks ih =>
    intro st st' h
    obtain ⟨c, r, hcr, _⟩ := spell_head st k ks st' h
    obtain ⟨st1, h1⟩ := chk_tail st k ks st' h
    have := ih st1 st' h1
    simp only [steps, Print.renderCanon, List.length_append, hcr, List.length_cons]
    omega

theorem stripBom_render (ks : List K) (st st' : List Delim) (h : chk st ks = some st') :
    Lex.stripBom (Print.renderCanon ks) = Print.renderCanon ks := by
  cases ks with
  | nil => rfl
  | cons k ks =>
    obtain ⟨c, r, hcr, hc⟩ := spell_head st k ks st' h
    simp only [Print.renderCanon, hcr, List.cons_append, Lex.stripBom, beq_iff_eq]
    rw [if_neg (by omega)]

/-- lexing the canonical rendering of a token list that passes `chk` gives the tokens back -/
theorem lexL_render (ks : List K) (h : chk [] ks = some []) :
    ∃ ts, Lex.lexL (Print.renderCanon ks) = .ok ts ∧ ts.map (·.k) = ks := by
  have hs := steps_le ks [] [] h
  obtain ⟨toks, st2, h1, h2, h3⟩ := lexCore_render ks [] [] []
    ((Print.renderCanon ks).length + 1 - steps ks) (by simpa using h)
  have hst2 : st2 = [] := by simpa using h2
  subst hst2
  have hf : steps ks + ((Print.renderCanon ks).length + 1 - steps ks)
      = (Print.renderCanon ks).length + 1 := by omega
  rw [hf, List.append_nil] at h3
  obtain ⟨g, hg⟩ : ∃ g, (Print.renderCanon ks).length + 1 - steps ks = g + 1 :=
    ⟨(Print.renderCanon ks).length - steps ks, by omega⟩
  have hnil : Lex.lexCore (g + 1) [] [] = .ok [] := rfl
  rw [hg, hnil] at h3
  simp only [Except.map, List.append_nil] at h3
  refine ⟨toks.map fun p => ⟨p.1, Lex.posOfRem (Print.renderCanon ks) p.2.rem⟩, ?_, ?_⟩
  · simp only [Lex.lexL, stripBom_render ks [] [] h, h3]
  · simp only [List.map_map]
    rw [← h1]
    apply List.map_congr_left
    intro p _
    rfl

end C18
end PyxisVerif
