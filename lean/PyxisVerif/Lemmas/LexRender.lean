import PyxisVerif.Lemmas.Parser
import PyxisVerif.Lemmas.Lexer
namespace PyxisVerif
namespace C18
open Lex (K Delim Tok Pos)
open Print (digitsLE digitChar)

open Print (digitsLE digitChar)

/-! # character-level round trip: lexing the canonical text gives the tokens back -/

/-! ## identifiers -/

theorem takeWhile_stop {p : Char → Bool} (w rest : List Char) (sep : Char)
    (hw : ∀ x ∈ w, p x = true) (hs : p sep = false) :
    (w ++ sep :: rest).takeWhile p = w ∧ (w ++ sep :: rest).dropWhile p = sep :: rest := by
  induction w with
  | nil => simp [hs]
  | cons x xs ih =>
    have hx := hw x (by simp)
    have := ih (fun y hy => hw y (by simp [hy]))
    simp [hx, this]

/-- not one of the characters that turn a leading `r`/`b`/`c` into a literal prefix -/
def Safe (c : Char) : Prop := c ≠ '"' ∧ c ≠ '#' ∧ c ≠ '\''

theorem safe_idCont {c : Char} (h : Lex.isIdCont c = true) : Safe c := by
  have := (isIdCont_iff c).1 h
  refine ⟨?_, ?_, ?_⟩ <;> (intro e; subst e; simp at this)

theorem safe_space : Safe ' ' := ⟨by decide, by decide, by decide⟩

theorem litPrefix_none (a b : Char) (r : List Char) (hb : Safe b)
    (hr : b = 'r' → ∀ c r', r = c :: r' → Safe c) : Lex.litPrefix (a :: b :: r) = none := by
  obtain ⟨b1, b2, b3⟩ := hb
  unfold Lex.litPrefix
  split <;> first
    | rfl
    | (rename_i heq
       simp only [List.cons.injEq] at heq
       first
         | exact absurd heq.2.1 b1
         | exact absurd heq.2.1 b2
         | exact absurd heq.2.1 b3
         | (obtain ⟨_, h2, h3⟩ := heq
            have := hr h2 _ _ h3
            first
              | exact absurd rfl this.1
              | exact absurd rfl this.2.1
              | exact absurd rfl this.2.2))

theorem idStart_cont {c : Char} (h : Lex.isIdStart c = true) : Lex.isIdCont c = true := by
  have := (isIdStart_iff c).1 h
  exact (isIdCont_iff c).2 (by omega)

theorem lexIdent_plain (c : Char) (w rest : List Char) (hc : Lex.isIdStart c = true)
    (hw : ∀ x ∈ w, Lex.isIdCont x = true) :
    Lex.lexIdent (c :: w ++ ' ' :: rest) = some (.ident (String.ofList (c :: w)), ' ' :: rest) := by
  have tk := takeWhile_stop (p := Lex.isIdCont) (c :: w) rest ' '
    (fun x hx => by
      rcases List.mem_cons.mp hx with e | e
      · subst e; exact idStart_cont hc
      · exact hw x e) (by decide)
  have h2 : ∀ r', w ++ ' ' :: rest ≠ '#' :: r' := by
    intro r' e
    cases w with
    | nil => simp at e
    | cons x xs =>
      simp only [List.cons_append, List.cons.injEq] at e
      have := safe_idCont (hw x (by simp))
      exact this.2.1 e.1
  unfold Lex.lexIdent
  split
  · rename_i r heq
    simp only [List.cons_append, List.cons.injEq] at heq
    exact absurd heq.2 (h2 _)
  · simp only [tk.1, tk.2]

theorem lexLeaf_ident (c : Char) (w rest : List Char) (hc : Lex.isIdStart c = true)
    (hw : ∀ x ∈ w, Lex.isIdCont x = true) :
    Lex.lexLeaf (c :: w ++ ' ' :: rest) = some (.ident (String.ofList (c :: w)), ' ' :: rest) := by
  have hn := (isIdStart_iff c).1 hc
  have h1 : c ≠ '"' := by intro e; subst e; simp at hn
  have h2 : c ≠ '\'' := by intro e; subst e; simp at hn
  have h3 : c.isDigit = false := by
    cases h : c.isDigit with
    | false => rfl
    | true => have := (isDigit_iff c).1 h; omega
  have h4 : Lex.isPunctCh c = false := by
    cases h : Lex.isPunctCh c with
    | false => rfl
    | true =>
      simp only [Lex.isPunctCh, Bool.or_eq_true, beq_iff_eq] at h
      rcases h with (((((((((((((((((((((h | h) | h) | h) | h) | h) | h) | h) | h) | h) | h) | h) | h) | h) | h) | h) | h) | h) | h) | h) | h) | h) <;>
        (subst h; simp at hn)
  have hp : Lex.litPrefix (c :: w ++ ' ' :: rest) = none := by
    cases w with
    | nil => exact litPrefix_none c ' ' rest safe_space (fun e => by cases e)
    | cons x xs =>
      exact litPrefix_none c x _ (safe_idCont (hw x (by simp))) (fun _ y r' e => by
        cases xs with
        | nil => simp at e; rw [← e.1]; exact safe_space
        | cons z zs =>
          have e' : z = y := by injection e
          rw [← e']; exact safe_idCont (hw z (by simp)))
  have hl := lexIdent_plain c w rest hc hw
  simp only [List.cons_append] at hl hp ⊢
  simp only [Lex.lexLeaf, h1, h2, h3, h4, hc, if_false, if_true, Bool.false_eq_true, hp, hl]

open Print (digitsLE digitChar)

/-! ## punctuation -/

/-- the punctuation characters the printer writes -/
def okPunct (c : Char) : Bool :=
  c == '#' || c == '!' || c == '=' || c == ',' || c == ';' || c == ':' || c == '<' || c == '>' ||
  c == '*' || c == '&' || c == '-'

theorem okPunct_cases {c : Char} (h : okPunct c = true) :
    c = '#' ∨ c = '!' ∨ c = '=' ∨ c = ',' ∨ c = ';' ∨ c = ':' ∨ c = '<' ∨ c = '>' ∨ c = '*' ∨
    c = '&' ∨ c = '-' := by
  simp only [okPunct, Bool.or_eq_true, beq_iff_eq] at h
  rcases h with (((((((((h | h) | h) | h) | h) | h) | h) | h) | h) | h) | h <;> simp [h]

theorem okPunct_facts {c : Char} (h : okPunct c = true) :
    c ≠ '"' ∧ c ≠ '\'' ∧ c.isDigit = false ∧ Lex.isPunctCh c = true ∧ c ≠ '/' ∧ LeafStart c := by
  rcases okPunct_cases h with h | h | h | h | h | h | h | h | h | h | h <;> subst h <;>
    exact ⟨by decide, by decide, by decide, by decide, by decide, by simp [LeafStart]⟩

theorem lexLeaf_punct' (c : Char) (h1 : c ≠ '"') (h2 : c ≠ '\'') (h3 : c.isDigit = false)
    (h4 : Lex.isPunctCh c = true) (h5 : c ≠ '/') (r : List Char) :
    Lex.lexLeaf (c :: r) = some (.punct c (Lex.punctNext r), r) := by
  rw [Lex.lexLeaf, if_neg h1, if_neg h2]
  simp only [h3, h4, Bool.false_eq_true, if_false, if_true, h5, false_and]

theorem lexLeaf_punct (c : Char) (h : okPunct c = true) (r : List Char) :
    Lex.lexLeaf (c :: r) = some (.punct c (Lex.punctNext r), r) :=
  have hf := okPunct_facts h
  lexLeaf_punct' c hf.1 hf.2.1 hf.2.2.1 hf.2.2.2.1 hf.2.2.2.2.1 r

theorem punctNext_space (rest : List Char) : Lex.punctNext (' ' :: rest) = false := by
  unfold Lex.punctNext
  split
  · rename_i heq; simp only [List.cons.injEq] at heq; exact absurd heq.1 (by decide)
  · rename_i heq; simp only [List.cons.injEq] at heq; exact absurd heq.1 (by decide)
  · rename_i heq; simp only [List.cons.injEq] at heq; rw [← heq.1]; decide
  · rfl

theorem punctNext_okPunct {c : Char} (h : okPunct c = true) (rest : List Char) :
    Lex.punctNext (c :: rest) = true := by
  obtain ⟨_, _, _, h4, h5, _⟩ := okPunct_facts h
  unfold Lex.punctNext
  split
  · rename_i heq; simp only [List.cons.injEq] at heq; exact absurd heq.1 h5
  · rename_i heq; simp only [List.cons.injEq] at heq; exact absurd heq.1 h5
  · rename_i heq; simp only [List.cons.injEq] at heq; rw [← heq.1]; exact h4
  · rename_i heq; cases heq

end C18
end PyxisVerif
