import PyxisVerif.Props.C09Vft
/-!
# The order in which the modules of a case are added (helper lemmas for `Props/C09ModOrder.lean`)

`Case.initialState` folds `add_module` over `c.modules` in list order.  This file proves that a permutation of that list
(module paths pairwise distinct) changes neither the verdict of `Case.run` nor the observations O2 / O3.

* **stable sorting** (`ins`, `mergeSort_cons_ins`, `sort_swap`, `sort_blocks`): `List.mergeSort` is insertion sort, so
  exchanging adjacent elements, or adjacent blocks, that are not tied does not change the sorted list.
* **`sortS`**: the state with its stored modules sorted (stably) by key.  Lookups by key are unchanged
  (`lookup_sortMods`), `add_item` commutes with it, hence every stage of the build does (`buildVftable_sortS` …
  `resolveLoop_sortS`); `build_sortS`: so does `build`, up to which failure of the extern-value pass is reported.
* **`add_module`, framed** (`mkState`, `gAdd`, `IsG`, `fold_transfer`, `addModule_transfer`): what a successful
  `add_module` does is to store a module `M` under its path and to put entries `E`, all directly under that path, in
  front of the registry; it does the same from any state with no more items under that path.
* **`MPerm`**: the same registry entries and stored modules in another order.  `add_module` respects it
  (`addModule_mperm`), two `add_module`s for different paths commute up to it (`addModule_comm`, `mkState_comm`), and
  `fold_perm` lifts this to any permutation of the module list (induction on `List.Perm`).
* **observations**: `resolvedS_sortS` (O2; the extern values are sorted by module path and name with a stable sort –
  `sort_flatMap_sortMods`), `files_sortS` (O3, when no two stored modules are written to the same file).
* **whole cases**: `run_reordered_modules` (the verdicts, `VRel`), `o2_reordered_modules`, `o3_reordered_modules`.
  The sorted initial states of the two cases are related by `C20.PermS`, which `C20.build_perm` carries through the
  build; `verdict_compose` puts the three steps together.
-/

namespace PyxisVerif.ModOrder
open C20

/-! ## stable sorting: `mergeSort` as insertion sort -/

section sort
variable {α : Type} (le : α → α → Bool)

/-- insert before the first element that is not smaller -/
def ins (a : α) : List α → List α
  | [] => [a]
  | b :: bs => if le a b then a :: b :: bs else b :: ins a bs

theorem ins_split (a : α) (l₁ l₂ : List α) (h1 : ∀ b ∈ l₁, le a b = false)
    (h2 : ∀ b ∈ l₂.head?, le a b = true) : ins le a (l₁ ++ l₂) = l₁ ++ a :: l₂ := by
  induction l₁ with
  | nil =>
    cases l₂ with
    | nil => rfl
    | cons c l₂ =>
      simp only [List.nil_append, ins]
      rw [if_pos (h2 c (by simp))]
  | cons b l₁ ih =>
    simp only [List.cons_append, ins]
    rw [h1 b List.mem_cons_self]
    simp only [Bool.false_eq_true, if_false]
    rw [ih (fun c hc => h1 c (List.mem_cons_of_mem _ hc))]

variable (trans : ∀ (a b c : α), le a b = true → le b c = true → le a c = true)
variable (total : ∀ (a b : α), (le a b || le b a) = true)

include trans total in
theorem mergeSort_cons_ins (a : α) (l : List α) : (a :: l).mergeSort le = ins le a (l.mergeSort le) := by
  obtain ⟨l₁, l₂, h1, h2, h3⟩ := List.mergeSort_cons (le := le) (by simpa using trans) (by simpa using total) a l
  rw [h1, h2]
  symm
  apply ins_split
  · intro b hb
    have := h3 b hb
    simpa using this
  · intro b hb
    have hs := List.pairwise_mergeSort (le := le) (by simpa using trans) (by simpa using total) (a :: l)
    rw [h1] at hs
    have h4 := (List.pairwise_append.mp hs).2.1
    have h5 := (List.pairwise_cons.mp h4).1
    cases l₂ with
    | nil => simp at hb
    | cons c l₂ =>
      simp only [List.head?_cons, Option.mem_def, Option.some.injEq] at hb
      subst hb
      exact h5 _ List.mem_cons_self

include trans in
theorem ins_comm (a b : α) (hab : le a b = true) (hba : le b a = false) (l : List α) :
    ins le a (ins le b l) = ins le b (ins le a l) := by
  induction l with
  | nil => simp [ins, hab, hba]
  | cons c l ih =>
    by_cases hbc : le b c = true
    · have hac := trans a b c hab hbc
      simp [ins, hbc, hac, hab, hba]
    · have hbc' : le b c = false := by simpa using hbc
      by_cases hac : le a c = true
      · simp [ins, hbc', hac, hba]
      · have hac' : le a c = false := by simpa using hac
        simp [ins, hbc', hac', ih]

include trans total in
/-- swapping two adjacent elements that are not tied does not change the sorted list -/
theorem sort_swap (a b : α) (h : ¬ (le a b = true ∧ le b a = true)) (l : List α) :
    (a :: b :: l).mergeSort le = (b :: a :: l).mergeSort le := by
  rw [mergeSort_cons_ins le trans total a, mergeSort_cons_ins le trans total b l,
      mergeSort_cons_ins le trans total b, mergeSort_cons_ins le trans total a l]
  by_cases hab : le a b = true
  · have hba : le b a = false := by
      cases hh : le b a with
      | false => rfl
      | true => exact (h ⟨hab, hh⟩).elim
    exact ins_comm le trans a b hab hba _
  · have hab' : le a b = false := by simpa using hab
    have hba : le b a = true := by
      have := total a b
      rw [hab'] at this
      simpa using this
    exact (ins_comm le trans b a hba hab' _).symm

include trans total in
theorem sort_cons_congr (a : α) (l l' : List α) (h : l.mergeSort le = l'.mergeSort le) :
    (a :: l).mergeSort le = (a :: l').mergeSort le := by
  rw [mergeSort_cons_ins le trans total, mergeSort_cons_ins le trans total, h]

include trans total in
theorem sort_append_congr (x l l' : List α) (h : l.mergeSort le = l'.mergeSort le) :
    (x ++ l).mergeSort le = (x ++ l').mergeSort le := by
  induction x with
  | nil => exact h
  | cons a x ih => exact sort_cons_congr le trans total a _ _ ih

/-- `a` and `b` are not tied -/
def Untied (a b : α) : Prop := ¬ (le a b = true ∧ le b a = true)

include trans total in
theorem sort_past (a : α) (y l : List α) (h : ∀ b ∈ y, Untied le a b) :
    (a :: (y ++ l)).mergeSort le = (y ++ a :: l).mergeSort le := by
  induction y with
  | nil => rfl
  | cons b y ih =>
    simp only [List.cons_append]
    rw [sort_swap le trans total a b (h b List.mem_cons_self)]
    exact sort_cons_congr le trans total b _ _ (ih (fun c hc => h c (List.mem_cons_of_mem _ hc)))

include trans total in
/-- two adjacent blocks with no ties between them can be exchanged -/
theorem sort_blocks (x y l : List α) (h : ∀ a ∈ x, ∀ b ∈ y, Untied le a b) :
    (x ++ (y ++ l)).mergeSort le = (y ++ (x ++ l)).mergeSort le := by
  induction x with
  | nil => rfl
  | cons a x ih =>
    simp only [List.cons_append]
    rw [sort_cons_congr le trans total a _ _ (ih (fun c hc => h c (List.mem_cons_of_mem _ hc)))]
    exact sort_past le trans total a y (x ++ l) (h a List.mem_cons_self)

end sort

/-! ## the stored modules in canonical order (sorted by key, stably) -/

def keyLe (a b : Path × Mod) : Bool := Path.le a.1 b.1

theorem keyLe_trans (a b c : Path × Mod) (h1 : keyLe a b = true) (h2 : keyLe b c = true) : keyLe a c = true :=
  ple_trans _ _ _ h1 h2

theorem keyLe_total (a b : Path × Mod) : (keyLe a b || keyLe b a) = true := ple_total _ _

theorem ple_refl (a : Path) : Path.le a a = true := by
  have := ple_total a a
  simpa using this

def sortMods (ms : List (Path × Mod)) : List (Path × Mod) := ms.mergeSort keyLe

/-- the state with its modules in canonical order -/
def sortS (s : State) : State := { s with modules := sortMods s.modules }

theorem sortMods_cons (e : Path × Mod) (ms : List (Path × Mod)) :
    sortMods (e :: ms) = ins keyLe e (sortMods ms) :=
  mergeSort_cons_ins keyLe keyLe_trans keyLe_total e ms

theorem sortMods_perm (ms : List (Path × Mod)) : (sortMods ms).Perm ms := List.mergeSort_perm ms keyLe

theorem lookup_ins (q : Path) (e : Path × Mod) (l : List (Path × Mod)) :
    List.lookup q (ins keyLe e l) = if q == e.1 then some e.2 else List.lookup q l := by
  induction l with
  | nil =>
    obtain ⟨k, v⟩ := e
    simp only [ins, List.lookup_cons, List.lookup_nil]
    cases q == k <;> rfl
  | cons b l ih =>
    obtain ⟨k, v⟩ := e
    obtain ⟨kb, vb⟩ := b
    simp only [ins]
    by_cases hle : keyLe (k, v) (kb, vb) = true
    · rw [if_pos hle]
      simp only [List.lookup_cons]
      cases q == k <;> rfl
    · rw [if_neg hle]
      simp only [List.lookup_cons, ih]
      by_cases h1 : q = kb
      · subst h1
        have hne : (q == k) = false := by
          cases hh : q == k with
          | false => rfl
          | true =>
            have : q = k := by simpa using hh
            subst this
            exact (hle (ple_refl q)).elim
        simp [hne]
      · have : (q == kb) = false := by simpa using h1
        simp [this]

theorem lookup_sortMods (q : Path) (ms : List (Path × Mod)) : List.lookup q (sortMods ms) = List.lookup q ms := by
  induction ms with
  | nil => simp [sortMods]
  | cons e ms ih =>
    rw [sortMods_cons, lookup_ins, ih]
    obtain ⟨k, v⟩ := e
    simp only [List.lookup_cons]
    cases q == k <;> rfl

theorem sortMods_map (g : Path × Mod → Path × Mod) (hg : ∀ e, (g e).1 = e.1) (ms : List (Path × Mod)) :
    sortMods (ms.map g) = (sortMods ms).map g := by
  unfold sortMods
  symm
  apply List.map_mergeSort
  intro a _ b _
  simp only [keyLe, hg]

theorem sortS_reg (s : State) : (sortS s).reg = s.reg := rfl

theorem sortS_getModule (s : State) (q : Path) : (sortS s).getModule q = s.getModule q :=
  lookup_sortMods q s.modules

theorem sortS_moduleFor (s : State) (q : Path) : (sortS s).moduleFor q = s.moduleFor q := by
  unfold State.moduleFor
  cases Path.parent? q with
  | none => rfl
  | some parent => exact sortS_getModule s parent

theorem sortS_setReg (s : State) (r : Registry) : sortS { s with reg := r } = { sortS s with reg := r } := rfl

theorem sortS_addItem (s : State) (i : ItemDef) : (sortS s).addItem i = mapR sortS (s.addItem i) := by
  unfold State.addItem
  cases Path.parent? i.path with
  | none => rfl
  | some parent =>
    simp only [sortS_getModule]
    cases s.getModule parent with
    | none => rfl
    | some m =>
      simp only [mapR, sortS]
      congr 2
      symm
      apply sortMods_map
      intro e
      split <;> rfl

/-! ## every stage of the build commutes with the canonical order -/

theorem buildVftable_sortS (s : State) (owner : Path) (vis : Vis) (fb : Option Region)
    (vfns : Option (List SFunc)) :
    buildVftable (sortS s) owner vis fb vfns
      = (sortS (buildVftable s owner vis fb vfns).1, (buildVftable s owner vis fb vfns).2) := by
  cases vfns with
  | none => simp only [buildVftable, sortS_reg]
  | some fns =>
    cases hi : buildVftableItem s.reg owner vis fns with
    | none =>
      rw [buildVftable_none_item s owner vis fb fns hi, buildVftable_none_item (sortS s) owner vis fb fns hi]
    | some item =>
      cases hc : conflict s.reg item with
      | true =>
        rw [buildVftable_conflict s owner vis fb fns item hi hc,
            buildVftable_conflict (sortS s) owner vis fb fns item hi hc]
      | false =>
        have hsa := sortS_addItem s item
        cases ha : s.addItem item with
        | ok s1 =>
          rw [ha] at hsa
          rw [buildVftable_added s s1 owner vis fb fns item hi hc ha,
              buildVftable_added (sortS s) (sortS s1) owner vis fb fns item hi hc hsa]
          rfl
        | defer =>
          rw [ha] at hsa
          rw [buildVftable_addfail s owner vis fb fns item hi hc (fun s1 hx => by rw [ha] at hx; cases hx),
              buildVftable_addfail (sortS s) owner vis fb fns item hi hc (fun s1 hx => by rw [hsa] at hx; cases hx),
              ha, hsa]
          rfl
        | err m =>
          rw [ha] at hsa
          rw [buildVftable_addfail s owner vis fb fns item hi hc (fun s1 hx => by rw [ha] at hx; cases hx),
              buildVftable_addfail (sortS s) owner vis fb fns item hi hc (fun s1 hx => by rw [hsa] at hx; cases hx),
              ha, hsa]
          rfl
        | panic m =>
          rw [ha] at hsa
          rw [buildVftable_addfail s owner vis fb fns item hi hc (fun s1 hx => by rw [ha] at hx; cases hx),
              buildVftable_addfail (sortS s) owner vis fb fns item hi hc (fun s1 hx => by rw [hsa] at hx; cases hx),
              ha, hsa]
          rfl

theorem resolveRegions_sortS (s : State) (owner : Path) (vis : Vis) (target : Option Nat)
    (pending : List (Option Nat × Region)) (vfns : Option (List SFunc)) :
    resolveRegions (sortS s) owner vis target pending vfns
      = (sortS (resolveRegions s owner vis target pending vfns).1,
         (resolveRegions s owner vis target pending vfns).2) := by
  unfold resolveRegions
  simp only [sortS_reg]
  split
  · rfl
  · rfl
  · rfl
  · rfl
  · rw [buildVftable_sortS]
    cases buildVftable s owner vis ((pending.map (·.2)).find? (·.isBase)) vfns with
    | mk s1 res =>
      cases res with
      | ok x =>
        obtain ⟨vft, vregion⟩ := x
        simp only [sortS_reg]
      | _ => rfl

theorem buildType_sortS (s : State) (q : Path) (vis : Vis) (td : G.TypeDef) :
    buildType (sortS s) q vis td = (sortS (buildType s q vis td).1, (buildType s q vis td).2) := by
  unfold buildType
  simp only [sortS_moduleFor]
  split
  · rfl
  · split
    · rfl
    · split
      · simp only [sortS_reg]
        split
        · next sa _ =>
          rw [resolveRegions_sortS]
          cases resolveRegions s q vis _ sa.pending sa.vfns with
          | mk s1 res =>
            cases res with
            | ok x =>
              obtain ⟨regions, vft, size, placed⟩ := x
              simp only [sortS_reg, sortS_moduleFor]
            | _ => rfl
        · rfl
      · rfl

theorem buildEnum_sortS (s : State) (q : Path) (ed : G.EnumDef) : buildEnum (sortS s) q ed = buildEnum s q ed := by
  unfold buildEnum
  simp only [sortS_moduleFor, sortS_reg]

theorem attemptDef_sortS (s : State) (q : Path) (d0 : G.Item) :
    attemptDef (sortS s) q d0 = (sortS (attemptDef s q d0).1, (attemptDef s q d0).2) := by
  unfold attemptDef
  cases d0.inner with
  | type td => exact buildType_sortS s q d0.vis td
  | enum ed => simp only [buildEnum_sortS]

theorem finishAttempt_sortS (q : Path) (x : State × Res Resolved) :
    finishAttempt q (sortS x.1, x.2) = (sortS (finishAttempt q x).1, (finishAttempt q x).2) := by
  obtain ⟨s1, res⟩ := x
  cases res <;> rfl

theorem attemptItem_sortS (s : State) (q : Path) :
    attemptItem (sortS s) q = (sortS (attemptItem s q).1, (attemptItem s q).2) := by
  rw [attemptItem_eq, attemptItem_eq, sortS_reg]
  cases s.reg.get q with
  | none => rfl
  | some item =>
    simp only []
    cases item.state with
    | res x => rfl
    | unres d0 =>
      simp only []
      rw [attemptDef_sortS, finishAttempt_sortS]

theorem runRound_sortS (l : List Path) (s : State) :
    runRound (sortS s) l = (sortS (runRound s l).1, (runRound s l).2) := by
  induction l generalizing s with
  | nil => rfl
  | cons q qs ih =>
    have hsw := attemptItem_sortS s q
    cases ha : attemptItem s q with
    | mk s2 r2 =>
      rw [ha] at hsw
      cases r2 with
      | ok u =>
        cases u
        rw [runRound_cons_ok _ _ q qs hsw, runRound_cons_ok _ _ q qs ha]
        exact ih s2
      | defer =>
        rw [runRound_cons_stop _ _ q qs _ hsw (by simp), runRound_cons_stop _ _ q qs _ ha (by simp)]
      | err m =>
        rw [runRound_cons_stop _ _ q qs _ hsw (by simp), runRound_cons_stop _ _ q qs _ ha (by simp)]
      | panic m =>
        rw [runRound_cons_stop _ _ q qs _ hsw (by simp), runRound_cons_stop _ _ q qs _ ha (by simp)]

theorem resolveLoop_sortS (prio : List Path) (fuel : Nat) (s : State) :
    resolveLoop prio fuel (sortS s) = mapO sortS (resolveLoop prio fuel s) := by
  induction fuel generalizing s with
  | zero => rfl
  | succ n ih =>
    unfold resolveLoop
    rw [sortS_reg]
    by_cases he : (s.reg.unresolved prio).isEmpty = true
    · rw [if_pos he, if_pos he]; rfl
    · rw [if_neg he, if_neg he, runRound_sortS]
      cases runRound s (s.reg.unresolved prio) with
      | mk s1 res =>
        cases res with
        | ok u =>
          cases u
          show (if (s.reg.unresolved prio == (sortS s1).reg.unresolved prio
                  && s.reg.types.length == (sortS s1).reg.types.length) = true
                then BuildOutcome.nonterm (s.reg.unresolved prio) else resolveLoop prio n (sortS s1))
            = mapO sortS (if (s.reg.unresolved prio == s1.reg.unresolved prio
                  && s.reg.types.length == s1.reg.types.length) = true
                then BuildOutcome.nonterm (s.reg.unresolved prio) else resolveLoop prio n s1)
          rw [sortS_reg]
          by_cases hc : (s.reg.unresolved prio == s1.reg.unresolved prio
              && s.reg.types.length == s1.reg.types.length) = true
          · rw [if_pos hc, if_pos hc]; rfl
          · rw [if_neg hc, if_neg hc]; exact ih s1
        | _ => rfl

/-! ## `add_module`, framed: what it adds does not depend on the rest of the state -/

/-- the state `s` with the module `M` stored under `path` and the entries `E` put in front of the registry -/
def mkState (s : State) (path : Path) (E : List (Path × ItemDef)) (M : Mod) : State :=
  { modules := (path, M) :: s.modules.filter (fun e => e.1 != path),
    reg := { types := E ++ s.reg.types, ps := s.reg.ps } }

theorem putModule_eq_mkState (s : State) (path : Path) (M : Mod) : s.putModule path M = mkState s path [] M := rfl

theorem mkState_get (s : State) (path : Path) (E : List (Path × ItemDef)) (M : Mod) (q : Path) :
    (mkState s path E M).reg.get q = (List.lookup q E).or (s.reg.get q) := by
  simp only [mkState, Registry.get, List.lookup_append]

/-- the guarded `add_item` of `add_module` -/
def gAdd (u : State) (i : ItemDef) : Res State :=
  if u.reg.contains i.path then .err "item is defined more than once" else u.addItem i

theorem filter_ne_of_lookup_none {β} (l : List (Path × β)) (k : Path) (h : List.lookup k l = none) :
    l.filter (fun e => e.1 != k) = l := by
  induction l with
  | nil => rfl
  | cons e l ih =>
    obtain ⟨k', v⟩ := e
    rw [List.lookup_cons] at h
    cases hk : k == k' with
    | true => rw [hk] at h; cases h
    | false =>
      rw [hk] at h
      have hne : (k' != k) = true := by
        have : k ≠ k' := by simpa using hk
        simpa using fun e => this e.symm
      simp only [List.filter_cons, hne, if_true, ih h]

theorem gAdd_mkState (s : State) (path : Path) (E : List (Path × ItemDef)) (M : Mod) (i : ItemDef) (n : String)
    (hi : i.path = path ++ [n]) :
    gAdd (mkState s path E M) i =
      if (mkState s path E M).reg.contains i.path then .err "item is defined more than once"
      else .ok (mkState s path ((i.path, i) :: E) { M with defPaths := insPath i.path M.defPaths }) := by
  unfold gAdd
  by_cases hc : (mkState s path E M).reg.contains i.path = true
  · rw [if_pos hc, if_pos hc]
  · rw [if_neg hc, if_neg hc]
    have hm : (mkState s path E M).getModule path = some M := by
      simp [mkState, State.getModule]
    rw [addItem_closed (mkState s path E M) i path n M hi hm]
    have hnone : List.lookup i.path (E ++ s.reg.types) = none := by
      have : (mkState s path E M).reg.contains i.path = false := by simpa using hc
      simpa [Registry.contains, Registry.get, mkState] using this
    congr 1
    simp only [mkState, Registry.add, State.mk.injEq, Registry.mk.injEq, and_true]
    refine ⟨?_, ?_⟩
    · simp only [List.map_cons, updMod, beq_self_eq_true, if_true, List.cons.injEq, true_and]
      have : ∀ l : List (Path × Mod), (∀ e ∈ l, (e.1 == path) = false) →
          l.map (updMod path { M with defPaths := insPath i.path M.defPaths }) = l := by
        intro l hl
        conv => rhs; rw [← List.map_id l]
        apply List.map_congr_left
        intro e he
        simp only [updMod, hl e he, Bool.false_eq_true, if_false, id]
      apply this
      intro e he
      have := (List.mem_filter.mp he).2
      simpa using this
    · rw [filter_ne_of_lookup_none _ _ hnone]
      rfl

/-- a loop step of `add_module`: a failure that does not depend on the state, or the guarded addition of an item that
    does not depend on the state -/
def IsG {α} (path : Path) (f : State → α → Res State) : Prop :=
  ∀ a, (∃ i n, i.path = path ++ [n] ∧ ∀ u, f u a = gAdd u i) ∨ (∃ e : Res State, (∀ t, e ≠ .ok t) ∧ ∀ u, f u a = e)

theorem defStep_isG (path : Path) : IsG path (C14.defStep path) := by
  intro d
  exact Or.inl ⟨defItem path d, d.name, rfl, fun u => rfl⟩

/-- the registry entry `add_module` makes for an extern type -/
def xtItemOf (path : Path) (name : String) (size align : Nat) : ItemDef :=
  { vis := .pub, path := path ++ [name], state := .res { size := size, align := align, inner := .type {} },
    cat := .extern }

theorem xtypeStep_isG (path : Path) : IsG path (C14.xtypeStep path) := by
  intro xt
  unfold C14.xtypeStep
  cases Res.foldlM xtypeAttrStep {} xt.2 with
  | ok xa =>
    simp only []
    cases xa.size with
    | none => exact Or.inr ⟨_, (fun t h => by cases h), fun u => rfl⟩
    | some size =>
      simp only []
      cases xa.align with
      | none => exact Or.inr ⟨_, (fun t h => by cases h), fun u => rfl⟩
      | some align =>
        simp only []
        by_cases hp : (!Layout.isPow2 align) = true
        · refine Or.inr ⟨.err "alignment of extern type is not a power of two", (fun t h => by cases h), fun u => ?_⟩
          rw [if_pos hp]
        · refine Or.inl ⟨xtItemOf path xt.1 size align, xt.1, rfl, fun u => ?_⟩
          rw [if_neg hp]
          rfl
  | defer => exact Or.inr ⟨.defer, (fun t h => by cases h), fun u => rfl⟩
  | err m => exact Or.inr ⟨.err m, (fun t h => by cases h), fun u => rfl⟩
  | panic m => exact Or.inr ⟨.panic m, (fun t h => by cases h), fun u => rfl⟩

/-- `s'` has no more items directly under `path` than `s` -/
def NoMoreUnder (path : Path) (s s' : State) : Prop :=
  ∀ q, Path.parent? q = some path → s.reg.get q = none → s'.reg.get q = none

theorem fold_transfer {α} (path : Path) (f : State → α → Res State) (hf : IsG path f) (s s' : State)
    (hfr : NoMoreUnder path s s') (l : List α) (E : List (Path × ItemDef)) (M : Mod) (t : State)
    (hE : ∀ e ∈ E, Path.parent? e.1 = some path)
    (h : Res.foldlM f (mkState s path E M) l = .ok t) :
    ∃ E' M', t = mkState s path E' M' ∧ Res.foldlM f (mkState s' path E M) l = .ok (mkState s' path E' M') ∧
      (∀ e ∈ E', Path.parent? e.1 = some path) := by
  induction l generalizing E M with
  | nil =>
    simp only [Res.foldlM, Res.ok.injEq] at h
    exact ⟨E, M, h.symm, rfl, hE⟩
  | cons a l ih =>
    obtain ⟨u1, h1, h2⟩ := C14.foldlM_cons_ok f _ t a l h
    rcases hf a with ⟨i, n, hi, hfa⟩ | ⟨e, hne, hfa⟩
    · rw [hfa, gAdd_mkState s path E M i n hi] at h1
      by_cases hc : (mkState s path E M).reg.contains i.path = true
      · rw [if_pos hc] at h1; cases h1
      · rw [if_neg hc] at h1
        simp only [Res.ok.injEq] at h1
        subst h1
        have hpar : Path.parent? i.path = some path := by rw [hi]; exact parent_concat path n
        have hc' : (mkState s' path E M).reg.contains i.path = false := by
          have hcf : (mkState s path E M).reg.contains i.path = false := by simpa using hc
          simp only [Registry.contains, mkState_get] at hcf ⊢
          cases hl : List.lookup i.path E with
          | some v => rw [hl] at hcf; simp at hcf
          | none =>
            rw [hl] at hcf
            simp only [Option.none_or] at hcf ⊢
            have : s.reg.get i.path = none := by
              cases hg : s.reg.get i.path with
              | none => rfl
              | some v => rw [hg] at hcf; simp at hcf
            rw [hfr i.path hpar this]
            rfl
        have hE1 : ∀ e ∈ (i.path, i) :: E, Path.parent? e.1 = some path := by
          intro e he
          rcases List.mem_cons.mp he with rfl | he
          · exact hpar
          · exact hE e he
        obtain ⟨E', M', e1, e2, e3⟩ := ih _ _ hE1 h2
        refine ⟨E', M', e1, ?_, e3⟩
        simp only [Res.foldlM]
        rw [hfa, gAdd_mkState s' path E M i n hi, hc']
        simp only [Bool.false_eq_true, if_false]
        exact e2
    · rw [hfa] at h1
      exact (hne u1 h1).elim

/-- **the frame rule for `add_module`**: what a successful `add_module` does is to store a module `M` under its path
    and to put entries `E` (all directly under that path) in front of the registry, and it does the same from any state
    that has no more items under that path -/
theorem addModule_transfer (s s' : State) (m : G.Module) (path : Path) (t : State)
    (h : s.addModule m path = .ok t) (hfr : NoMoreUnder path s s') :
    ∃ E M, t = mkState s path E M ∧ s'.addModule m path = .ok (mkState s' path E M) ∧
      (∀ e ∈ E, Path.parent? e.1 = some path) := by
  rw [addModule_eq] at h ⊢
  cases hx : Res.mapM' C14.xvalStep m.xvals with
  | ok xvals =>
    rw [hx] at h
    simp only [Res.bind] at h ⊢
    cases hd : G.docOf m.attrs with
    | none => rw [hd] at h; cases h
    | some doc =>
      rw [hd] at h
      simp only [] at h ⊢
      by_cases hc : implCheck m = true
      · rw [if_pos hc] at h; cases h
      · rw [if_neg hc] at h
        rw [if_neg hc]
        unfold addCore at h ⊢
        rw [putModule_eq_mkState] at h ⊢
        cases h1 : Res.foldlM (C14.defStep path) (mkState s path [] (C14.newMod m path xvals doc)) m.defs with
        | ok s2 =>
          rw [h1] at h
          simp only [Res.bind] at h
          obtain ⟨E1, M1, e1, e2, e3⟩ := fold_transfer path _ (defStep_isG path) s s' hfr m.defs [] _ s2
            (fun e he => by cases he) h1
          subst e1
          obtain ⟨E2, M2, f1, f2, f3⟩ := fold_transfer path _ (xtypeStep_isG path) s s' hfr m.xtypes E1 M1 t e3 h
          refine ⟨E2, M2, f1, ?_, f3⟩
          rw [e2]
          exact f2
        | defer => rw [h1] at h; cases h
        | err m => rw [h1] at h; cases h
        | panic m => rw [h1] at h; cases h
  | defer => rw [hx] at h; cases h
  | err m => rw [hx] at h; cases h
  | panic m => rw [hx] at h; cases h

/-! ## states that differ in the order of the registry entries and of the stored modules -/

/-- the same registry entries and the same stored modules, in another order -/
structure MPerm (s s' : State) : Prop where
  ps : s'.reg.ps = s.reg.ps
  get : ∀ q, s'.reg.get q = s.reg.get q
  perm : s'.reg.types.Perm s.reg.types
  mods : s'.modules.Perm s.modules

theorem MPerm.refl (s : State) : MPerm s s := ⟨rfl, fun _ => rfl, List.Perm.refl _, List.Perm.refl _⟩

theorem MPerm.trans {s1 s2 s3 : State} (h1 : MPerm s1 s2) (h2 : MPerm s2 s3) : MPerm s1 s3 :=
  ⟨h2.ps.trans h1.ps, fun q => (h2.get q).trans (h1.get q), h2.perm.trans h1.perm, h2.mods.trans h1.mods⟩

theorem MPerm.symm {s1 s2 : State} (h : MPerm s1 s2) : MPerm s2 s1 :=
  ⟨h.ps.symm, fun q => (h.get q).symm, h.perm.symm, h.mods.symm⟩

theorem MPerm.mkState {s s' : State} (h : MPerm s s') (path : Path) (E : List (Path × ItemDef)) (M : Mod) :
    MPerm (mkState s path E M) (mkState s' path E M) := by
  refine ⟨h.ps, ?_, ?_, ?_⟩
  · intro q
    rw [mkState_get, mkState_get, h.get]
  · exact List.Perm.append_left E h.perm
  · exact List.Perm.cons _ (h.mods.filter _)

theorem parent_of_lookup (E : List (Path × ItemDef)) (path : Path) (hE : ∀ e ∈ E, Path.parent? e.1 = some path)
    (q : Path) (v : ItemDef) (h : List.lookup q E = some v) : Path.parent? q = some path :=
  hE (q, v) (C14.mem_of_lookup E q v h)

theorem mkState_comm (s : State) (p1 p2 : Path) (hne : p1 ≠ p2) (E1 E2 : List (Path × ItemDef)) (M1 M2 : Mod)
    (h1 : ∀ e ∈ E1, Path.parent? e.1 = some p1) (h2 : ∀ e ∈ E2, Path.parent? e.1 = some p2) :
    MPerm (mkState (mkState s p1 E1 M1) p2 E2 M2) (mkState (mkState s p2 E2 M2) p1 E1 M1) := by
  refine ⟨rfl, ?_, ?_, ?_⟩
  · intro q
    simp only [mkState_get]
    cases hl1 : List.lookup q E1 with
    | none =>
      cases hl2 : List.lookup q E2 <;> rfl
    | some v1 =>
      cases hl2 : List.lookup q E2 with
      | none => rfl
      | some v2 =>
        have a := parent_of_lookup E1 p1 h1 q v1 hl1
        have b := parent_of_lookup E2 p2 h2 q v2 hl2
        rw [a] at b
        exact (hne (Option.some.inj b)).elim
  · exact List.perm_append_comm_assoc E1 E2 s.reg.types
  · have k1 : ((p1, M1).1 != p2) = true := by simpa using hne
    have k2 : ((p2, M2).1 != p1) = true := by simpa using fun e : p2 = p1 => hne e.symm
    simp only [mkState, List.filter_cons, k1, k2, if_true, List.filter_filter]
    have : (fun a : Path × Mod => a.1 != p1 && a.1 != p2) = (fun a : Path × Mod => a.1 != p2 && a.1 != p1) := by
      funext a; exact Bool.and_comm _ _
    rw [this]
    exact List.Perm.swap _ _ _

/-! ### `add_module` respects `MPerm`, and two of them for different paths commute up to `MPerm` -/

theorem addModule_mperm {s s' : State} (h : MPerm s s') (m : G.Module) (path : Path) (t : State)
    (ht : s.addModule m path = .ok t) : ∃ t', s'.addModule m path = .ok t' ∧ MPerm t t' := by
  obtain ⟨E, M, e1, e2, _⟩ := addModule_transfer s s' m path t ht (fun q _ hq => by rw [h.get]; exact hq)
  exact ⟨_, e2, e1 ▸ h.mkState path E M⟩

theorem addModule_comm (s t1 t12 : State) (m1 m2 : G.Module) (p1 p2 : Path) (hne : p1 ≠ p2)
    (h1 : s.addModule m1 p1 = .ok t1) (h2 : t1.addModule m2 p2 = .ok t12) :
    ∃ t2 t21, s.addModule m2 p2 = .ok t2 ∧ t2.addModule m1 p1 = .ok t21 ∧ MPerm t12 t21 := by
  obtain ⟨E1, M1, a1, _, a3⟩ := addModule_transfer s s m1 p1 t1 h1 (fun q _ hq => hq)
  have hfr2 : NoMoreUnder p2 t1 s := by
    intro q _ hq
    rw [a1, mkState_get, Option.or_eq_none_iff] at hq
    exact hq.2
  obtain ⟨E2, M2, b1, b2, b3⟩ := addModule_transfer t1 s m2 p2 t12 h2 hfr2
  have hfr1 : NoMoreUnder p1 s (mkState s p2 E2 M2) := by
    intro q hpar hq
    rw [mkState_get, hq]
    cases hl : List.lookup q E2 with
    | none => rfl
    | some v =>
      have := parent_of_lookup E2 p2 b3 q v hl
      rw [hpar] at this
      exact (hne (Option.some.inj this)).elim
  obtain ⟨E1', M1', c1, c2, c3⟩ := addModule_transfer s (mkState s p2 E2 M2) m1 p1 t1 h1 hfr1
  refine ⟨_, _, b2, c2, ?_⟩
  rw [b1, c1]
  exact mkState_comm s p1 p2 hne E1' E2 M1' M2 c3 b3

theorem caseStep_mperm {s s' : State} (h : MPerm s s') (me : ModEnt) (t : State) (ht : caseStep s me = .ok t) :
    ∃ t', caseStep s' me = .ok t' ∧ MPerm t t' := by
  cases me with
  | ast path file m => exact addModule_mperm h m path t ht
  | text f x => cases ht

theorem fold_mperm (l : List ModEnt) {s s' : State} (h : MPerm s s') (t : State)
    (ht : Res.foldlM caseStep s l = .ok t) : ∃ t', Res.foldlM caseStep s' l = .ok t' ∧ MPerm t t' := by
  induction l generalizing s s' with
  | nil =>
    simp only [Res.foldlM, Res.ok.injEq] at ht
    exact ⟨s', rfl, ht ▸ h⟩
  | cons me l ih =>
    obtain ⟨s1, h1, h2⟩ := C14.foldlM_cons_ok caseStep s t me l ht
    obtain ⟨s1', k1, k2⟩ := caseStep_mperm h me s1 h1
    obtain ⟨t', e1, e2⟩ := ih k2 h2
    refine ⟨t', ?_, e2⟩
    simp only [Res.foldlM, k1]
    exact e1

open CaseLift2 in
theorem astPaths_cons_nodup (me : ModEnt) (l : List ModEnt) (h : (astPaths (me :: l)).Nodup) : (astPaths l).Nodup := by
  cases me with
  | ast p f m => exact (List.nodup_cons.mp (show (p :: astPaths l).Nodup from h)).2
  | text f t => exact h

open CaseLift2 in
/-- **the modules of a case can be added in any order** (paths pairwise distinct): if one order is accepted so is the
    other, and the two states differ in the order of the registry entries and of the stored modules only -/
theorem fold_perm (l l' : List ModEnt) (hp : l.Perm l') (hnd : (astPaths l).Nodup) :
    ∀ (s s' t : State), MPerm s s' → Res.foldlM caseStep s l = .ok t →
      ∃ t', Res.foldlM caseStep s' l' = .ok t' ∧ MPerm t t' := by
  induction hp with
  | nil =>
    intro s s' t h ht
    simp only [Res.foldlM, Res.ok.injEq] at ht
    exact ⟨s', rfl, ht ▸ h⟩
  | @cons x l l' _ ih =>
    intro s s' t h ht
    obtain ⟨s1, h1, h2⟩ := C14.foldlM_cons_ok caseStep s t x l ht
    obtain ⟨s1', k1, k2⟩ := caseStep_mperm h x s1 h1
    obtain ⟨t', e1, e2⟩ := ih (astPaths_cons_nodup x l hnd) s1 s1' t k2 h2
    refine ⟨t', ?_, e2⟩
    simp only [Res.foldlM, k1]
    exact e1
  | swap x y l =>
    -- the left list is `y :: x :: l`, the right one `x :: y :: l`
    intro s s' t h ht
    obtain ⟨s1, h1, h2⟩ := C14.foldlM_cons_ok caseStep s t y (x :: l) ht
    obtain ⟨s2, h3, h4⟩ := C14.foldlM_cons_ok caseStep s1 t x l h2
    cases y with
    | text f z => cases h1
    | ast p2 f2 m2 =>
      cases x with
      | text f z => cases h3
      | ast p1 f1 m1 =>
        have hne : p2 ≠ p1 := by
          have : (p2 :: p1 :: astPaths l).Nodup := hnd
          intro e
          exact (List.nodup_cons.mp this).1 (e ▸ List.mem_cons_self)
        obtain ⟨u1, u2, a1, a2, a3⟩ := addModule_comm s s1 s2 m2 m1 p2 p1 hne h1 h3
        obtain ⟨u1', b1, b2⟩ := addModule_mperm h m1 p1 u1 a1
        obtain ⟨u2', c1, c2⟩ := addModule_mperm b2 m2 p2 u2 a2
        obtain ⟨t', d1, d2⟩ := fold_mperm l (a3.trans c2) t h4
        refine ⟨t', ?_, d2⟩
        simp only [Res.foldlM, caseStep, b1, c1]
        exact d1
  | @trans l1 l2 l3 p12 _ ih1 ih2 =>
    intro s s' t h ht
    obtain ⟨t2, e1, e2⟩ := ih1 hnd s s' t h ht
    have hnd2 : (astPaths l2).Nodup := (p12.filterMap _).nodup hnd
    obtain ⟨t3, f1, f2⟩ := ih2 hnd2 s' s' t2 (MPerm.refl s') e1
    exact ⟨t3, f1, e2.trans f2⟩

/-! ## the extern-value pass of `build` and the canonical order -/

/-- the result of `g` if it is one, else the argument -/
def okOr {α} (g : α → Res α) (a : α) : α := match g a with | .ok b => b | _ => a

theorem mapM'_eq_map {α} (g : α → Res α) (l l2 : List α) (h : Res.mapM' g l = .ok l2) :
    l2 = l.map (okOr g) ∧ ∀ a ∈ l, ∃ b, g a = .ok b := by
  induction l generalizing l2 with
  | nil =>
    simp only [Res.mapM', Res.ok.injEq] at h
    subst h
    exact ⟨rfl, fun a ha => by cases ha⟩
  | cons a l ih =>
    unfold Res.mapM' at h
    cases hg : g a with
    | ok b =>
      rw [hg] at h
      simp only [] at h
      cases hm : Res.mapM' g l with
      | ok bs =>
        rw [hm] at h
        simp only [Res.ok.injEq] at h
        subst h
        obtain ⟨e1, e2⟩ := ih bs hm
        refine ⟨?_, ?_⟩
        · simp only [List.map_cons, okOr, hg, ← e1]
        · intro x hx
          rcases List.mem_cons.mp hx with rfl | hx
          · exact ⟨b, hg⟩
          · exact e2 x hx
      | defer => rw [hm] at h; cases h
      | err m => rw [hm] at h; cases h
      | panic m => rw [hm] at h; cases h
    | defer => rw [hg] at h; cases h
    | err m => rw [hg] at h; cases h
    | panic m => rw [hg] at h; cases h

theorem mapM'_of_all {α} (g : α → Res α) (l : List α) (h : ∀ a ∈ l, ∃ b, g a = .ok b) :
    Res.mapM' g l = .ok (l.map (okOr g)) := by
  induction l with
  | nil => rfl
  | cons a l ih =>
    obtain ⟨b, hb⟩ := h a List.mem_cons_self
    unfold Res.mapM'
    rw [hb, ih (fun x hx => h x (List.mem_cons_of_mem _ hx))]
    simp only [List.map_cons, okOr, hb]

theorem okOr_xvalPass_key (reg : Registry) (e : Path × Mod) : (okOr (xvalPass reg) e).1 = e.1 := by
  unfold okOr xvalPass
  cases resolveXVals reg e.2 <;> rfl

/-- two outcomes: both failed (an error or a panic) -/
def bothFailed : BuildOutcome → BuildOutcome → Prop
  | .err _, .err _ => True
  | .err _, .panic _ => True
  | .panic _, .err _ => True
  | .panic _, .panic _ => True
  | _, _ => False

/-- the outcome for a state and for the state with its modules in canonical order -/
def SortRel (o o' : BuildOutcome) : Prop :=
  (∃ a, o = .ok a ∧ o' = .ok (sortS a)) ∨ (∃ l, o = .nonterm l ∧ o' = .nonterm l) ∨ (o = .fuel ∧ o' = .fuel) ∨
    bothFailed o o'

theorem SortRel.of_mapO (o : BuildOutcome) (h : ∀ a, o ≠ .ok a) : SortRel (buildFinish o) (buildFinish (mapO sortS o)) := by
  cases o with
  | ok a => exact (h a rfl).elim
  | nonterm l => exact Or.inr (Or.inl ⟨l, rfl, rfl⟩)
  | err m => exact Or.inr (Or.inr (Or.inr trivial))
  | panic m => exact Or.inr (Or.inr (Or.inr trivial))
  | fuel => exact Or.inr (Or.inr (Or.inl ⟨rfl, rfl⟩))

theorem finish_failed (s1 : State) (ms : List (Path × Mod)) (h : ∀ x, Res.mapM' (xvalPass s1.reg) ms ≠ .ok x) :
    ∃ m, (match Res.mapM' (xvalPass s1.reg) ms with
      | .ok ms => BuildOutcome.ok { s1 with modules := ms }
      | .err m => .err m
      | .panic m => .panic m
      | .defer => .err "unreachable") = .err m ∨
      (match Res.mapM' (xvalPass s1.reg) ms with
      | .ok ms => BuildOutcome.ok { s1 with modules := ms }
      | .err m => .err m
      | .panic m => .panic m
      | .defer => .err "unreachable") = .panic m := by
  cases hm : Res.mapM' (xvalPass s1.reg) ms with
  | ok x => exact (h x hm).elim
  | defer => exact ⟨_, Or.inl rfl⟩
  | err m => exact ⟨m, Or.inl rfl⟩
  | panic m => exact ⟨m, Or.inr rfl⟩

theorem bothFailed_of {o o' : BuildOutcome} (h : ∃ m, o = .err m ∨ o = .panic m) (h' : ∃ m, o' = .err m ∨ o' = .panic m) :
    bothFailed o o' := by
  obtain ⟨m, h⟩ := h
  obtain ⟨m', h'⟩ := h'
  rcases h with rfl | rfl <;> rcases h' with rfl | rfl <;> trivial

/-- **`build` commutes with the canonical order of the modules**, up to which failure of the extern-value pass is
    reported -/
theorem build_sortS (prio : List Path) (s : State) : SortRel (s.build prio) ((sortS s).build prio) := by
  rw [build_eq, build_eq, sortS_reg, resolveLoop_sortS]
  cases hl : resolveLoop prio (2 * (s.reg.types.filter fun e => !e.2.isResolved).length + 2) s with
  | ok s1 =>
    show SortRel (buildFinish (.ok s1)) (buildFinish (.ok (sortS s1)))
    unfold buildFinish
    simp only []
    rw [sortS_reg]
    show SortRel _ (match Res.mapM' (xvalPass s1.reg) (sortMods s1.modules) with
      | .ok ms => BuildOutcome.ok { sortS s1 with modules := ms }
      | .err m => .err m
      | .panic m => .panic m
      | .defer => .err "unreachable")
    cases hm : Res.mapM' (xvalPass s1.reg) s1.modules with
    | ok ms =>
      obtain ⟨e1, e2⟩ := mapM'_eq_map _ _ _ hm
      have hall : ∀ a ∈ sortMods s1.modules, ∃ b, xvalPass s1.reg a = .ok b :=
        fun a ha => e2 a ((sortMods_perm s1.modules).mem_iff.mp ha)
      rw [mapM'_of_all _ _ hall, ← sortMods_map _ (okOr_xvalPass_key s1.reg), ← e1]
      exact Or.inl ⟨_, rfl, rfl⟩
    | defer =>
      refine Or.inr (Or.inr (Or.inr (bothFailed_of ⟨_, Or.inl rfl⟩ ?_)))
      have := finish_failed (sortS s1) (sortMods s1.modules) (fun x hx => by
        obtain ⟨_, e2⟩ := mapM'_eq_map _ _ _ hx
        have := mapM'_of_all (xvalPass s1.reg) s1.modules
          (fun a ha => e2 a ((sortMods_perm s1.modules).mem_iff.mpr ha))
        rw [hm] at this; cases this)
      exact this
    | err m =>
      refine Or.inr (Or.inr (Or.inr (bothFailed_of ⟨_, Or.inl rfl⟩ ?_)))
      have := finish_failed (sortS s1) (sortMods s1.modules) (fun x hx => by
        obtain ⟨_, e2⟩ := mapM'_eq_map _ _ _ hx
        have := mapM'_of_all (xvalPass s1.reg) s1.modules
          (fun a ha => e2 a ((sortMods_perm s1.modules).mem_iff.mpr ha))
        rw [hm] at this; cases this)
      exact this
    | panic m =>
      refine Or.inr (Or.inr (Or.inr (bothFailed_of ⟨_, Or.inr rfl⟩ ?_)))
      have := finish_failed (sortS s1) (sortMods s1.modules) (fun x hx => by
        obtain ⟨_, e2⟩ := mapM'_eq_map _ _ _ hx
        have := mapM'_of_all (xvalPass s1.reg) s1.modules
          (fun a ha => e2 a ((sortMods_perm s1.modules).mem_iff.mpr ha))
        rw [hm] at this; cases this)
      exact this
  | nonterm l => exact Or.inr (Or.inl ⟨l, rfl, rfl⟩)
  | err m => exact Or.inr (Or.inr (Or.inr trivial))
  | panic m => exact Or.inr (Or.inr (Or.inr trivial))
  | fuel => exact Or.inr (Or.inr (Or.inl ⟨rfl, rfl⟩))

/-! ## the observations do not see the order of the stored modules -/

/-- the order of `Obs.resolvedS` on extern values: module path, then name -/
abbrev xvLe : Path × XValue → Path × XValue → Bool := fun a b =>
  if Path.lt a.1 b.1 then true else if Path.lt b.1 a.1 then false else a.2.name ≤ b.2.name

theorem plt_irrefl (a : Path) : Path.lt a a = false := by
  cases h : Path.lt a a with
  | false => rfl
  | true => have := plt_asymm a a h; rw [h] at this; cases this

theorem plt_trans (a b c : Path) (h1 : Path.lt a b = true) (h2 : Path.lt b c = true) : Path.lt a c = true := by
  rcases plt_negtrans a c b h1 with h | h
  · exact h
  · have := plt_asymm b c h2; rw [h] at this; cases this

theorem xvLe_total (a b : Path × XValue) : (xvLe a b || xvLe b a) = true := by
  unfold xvLe
  cases h1 : Path.lt a.1 b.1 with
  | true => simp
  | false =>
    cases h2 : Path.lt b.1 a.1 with
    | true => simp
    | false =>
      simp only [Bool.false_eq_true, if_false, Bool.or_eq_true, decide_eq_true_eq]
      exact String.le_total _ _

theorem xvLe_trans (a b c : Path × XValue) (hab : xvLe a b = true) (hbc : xvLe b c = true) : xvLe a c = true := by
  unfold xvLe at *
  cases h1 : Path.lt a.1 b.1 with
  | true =>
    cases h2 : Path.lt b.1 c.1 with
    | true => simp [plt_trans _ _ _ h1 h2]
    | false =>
      cases h3 : Path.lt c.1 b.1 with
      | true => simp [h2, h3] at hbc
      | false =>
        have e := plt_antisymm _ _ h2 h3
        rw [← e]
        simp [h1]
  | false =>
    cases h1' : Path.lt b.1 a.1 with
    | true => simp [h1, h1'] at hab
    | false =>
      have e := plt_antisymm _ _ h1 h1'
      simp only [h1, h1', Bool.false_eq_true, if_false, decide_eq_true_eq] at hab
      rw [e]
      cases h2 : Path.lt b.1 c.1 with
      | true => simp
      | false =>
        cases h3 : Path.lt c.1 b.1 with
        | true => simp [h2, h3] at hbc
        | false =>
          simp only [h2, h3, Bool.false_eq_true, if_false, decide_eq_true_eq] at hbc ⊢
          exact String.le_trans hab hbc

/-- the extern values of a module, tagged with its key -/
abbrev xvOf : Path × Mod → List (Path × XValue) := fun e => e.2.xvals.map fun x => (e.1, x)

theorem xv_untied (e b : Path × Mod) (h : keyLe e b = false) : ∀ x ∈ xvOf b, ∀ y ∈ xvOf e, Untied xvLe x y := by
  intro x hx y hy hxy
  obtain ⟨x0, _, rfl⟩ := List.mem_map.mp hx
  obtain ⟨y0, _, rfl⟩ := List.mem_map.mp hy
  have hlt : Path.lt b.1 e.1 = true := by
    unfold keyLe Path.le at h
    simpa using h
  have := hxy.2
  simp only [xvLe, plt_asymm _ _ hlt, hlt, Bool.false_eq_true, if_false, if_true] at this

theorem sort_flatMap_ins (e : Path × Mod) (l : List (Path × Mod)) :
    ((ins keyLe e l).flatMap xvOf).mergeSort xvLe = (xvOf e ++ l.flatMap xvOf).mergeSort xvLe := by
  induction l with
  | nil => rfl
  | cons b l ih =>
    simp only [ins]
    by_cases hle : keyLe e b = true
    · rw [if_pos hle]; rfl
    · rw [if_neg hle]
      have hle' : keyLe e b = false := by simpa using hle
      simp only [List.flatMap_cons]
      rw [sort_append_congr xvLe xvLe_trans xvLe_total (xvOf b) _ _ ih]
      exact sort_blocks xvLe xvLe_trans xvLe_total (xvOf b) (xvOf e) (l.flatMap xvOf) (xv_untied e b hle')

theorem sort_flatMap_sortMods (ms : List (Path × Mod)) :
    ((sortMods ms).flatMap xvOf).mergeSort xvLe = (ms.flatMap xvOf).mergeSort xvLe := by
  induction ms with
  | nil => simp [sortMods]
  | cons e ms ih =>
    rw [sortMods_cons, sort_flatMap_ins, List.flatMap_cons]
    exact sort_append_congr xvLe xvLe_trans xvLe_total (xvOf e) _ _ ih

/-- **O2 does not see the order of the stored modules** -/
theorem resolvedS_sortS (s : State) (hk : WK s.reg) : Obs.resolvedS (sortS s) = Obs.resolvedS s := by
  have hx : Emit.sortBy xvLe ((sortS s).modules.flatMap xvOf) = Emit.sortBy xvLe (s.modules.flatMap xvOf) :=
    sort_flatMap_sortMods s.modules
  have hperm : ((sortS s).modules.flatMap fun e => e.2.defPaths.filterMap (sortS s).reg.get).Perm
      (s.modules.flatMap fun e => e.2.defPaths.filterMap s.reg.get) :=
    (sortMods_perm s.modules).flatMap_right _
  have hsort : Emit.sortBy pathLe (((sortS s).modules.flatMap fun e => e.2.defPaths.filterMap (sortS s).reg.get).filter (!·.isPredefined))
      = Emit.sortBy pathLe ((s.modules.flatMap fun e => e.2.defPaths.filterMap s.reg.get).filter (!·.isPredefined)) := by
    unfold Emit.sortBy
    apply mergeSort_perm_eq
    · intro a b c; exact ple_trans _ _ _
    · intro a b; exact ple_total _ _
    · exact hperm.filter _
    · intro a b ha hb h1 h2
      have key : ∀ x, x ∈ ((sortS s).modules.flatMap fun e => e.2.defPaths.filterMap (sortS s).reg.get).filter (!·.isPredefined) →
          s.reg.get x.path = some x := by
        intro x hx
        have hx1 := (List.mem_filter.mp hx).1
        rw [List.mem_flatMap] at hx1
        obtain ⟨e, _, hxe⟩ := hx1
        rw [List.mem_filterMap] at hxe
        obtain ⟨q, _, hq⟩ := hxe
        have hq' : s.reg.get q = some x := hq
        rw [hk q x hq']
        exact hq'
      have e := ple_antisymm _ _ h1 h2
      have ka := key a ha
      have kb := key b hb
      rw [e] at ka
      rw [ka] at kb
      exact Option.some.inj kb
  unfold Obs.resolvedS
  simp only []
  rw [hsort, hx]

/-- distinct stored (non-root) modules are written to distinct files -/
def FilesInj (ms : List (Path × Mod)) : Prop :=
  ∀ a ∈ ms, ∀ b ∈ ms, a.1 ≠ [] → b.1 ≠ [] → Emit.relFile a.1 = Emit.relFile b.1 → a.1 = b.1

theorem fileLe_trans (a b c : Path × Mod) (h1 : fileLe a b = true) (h2 : fileLe b c = true) : fileLe a c = true := by
  simp only [fileLe, decide_eq_true_eq] at *
  exact String.le_trans h1 h2

theorem fileLe_total (a b : Path × Mod) : (fileLe a b || fileLe b a) = true := by
  simp only [fileLe, Bool.or_eq_true, decide_eq_true_eq]
  exact String.le_total _ _

/-- **O3 does not see the order of the stored modules**, when no two of them are written to the same file -/
theorem files_sortS (s : State) (hkeys : (s.modules.map (·.1)).Nodup) (hinj : FilesInj s.modules) :
    Emit.files (sortS s) = Emit.files s := by
  unfold Emit.files
  simp only []
  have hsort : Emit.sortBy fileLe ((sortS s).modules.filter fun e => !e.1.isEmpty)
      = Emit.sortBy fileLe (s.modules.filter fun e => !e.1.isEmpty) := by
    unfold Emit.sortBy
    apply mergeSort_perm_eq
    · exact fileLe_trans
    · exact fileLe_total
    · exact (sortMods_perm s.modules).filter _
    · intro a b ha hb h1 h2
      have ha' := List.mem_filter.mp ha
      have hb' := List.mem_filter.mp hb
      have ma : a ∈ s.modules := (sortMods_perm s.modules).mem_iff.mp ha'.1
      have mb : b ∈ s.modules := (sortMods_perm s.modules).mem_iff.mp hb'.1
      have na : a.1 ≠ [] := by
        intro e; have := ha'.2; rw [e] at this; simp at this
      have nb : b.1 ≠ [] := by
        intro e; have := hb'.2; rw [e] at this; simp at this
      simp only [fileLe, decide_eq_true_eq] at h1 h2
      have hk := hinj a ma b mb na nb (String.le_antisymm h1 h2)
      have la := CaseLift2.lookup_of_mem_nodup s.modules hkeys a.1 a.2 ma
      have lb := CaseLift2.lookup_of_mem_nodup s.modules hkeys b.1 b.2 mb
      rw [hk] at la
      rw [la] at lb
      have : a.2 = b.2 := Option.some.inj lb
      exact Prod.ext hk this
  rw [hsort]
  rfl

/-! ## whole cases -/

theorem sortMods_eq_of_perm (ms ms' : List (Path × Mod)) (hp : ms'.Perm ms) (hk : (ms.map (·.1)).Nodup) :
    sortMods ms' = sortMods ms := by
  unfold sortMods
  apply mergeSort_perm_eq keyLe keyLe_trans keyLe_total ms' ms hp
  intro a b ha hb h1 h2
  have hk' : (ms'.map (·.1)).Nodup := (hp.map _).symm.nodup hk
  have e : a.1 = b.1 := ple_antisymm _ _ h1 h2
  have la := CaseLift2.lookup_of_mem_nodup ms' hk' a.1 a.2 ha
  have lb := CaseLift2.lookup_of_mem_nodup ms' hk' b.1 b.2 hb
  rw [e] at la
  rw [la] at lb
  exact Prod.ext e (Option.some.inj lb)

theorem permS_sortS_of_mperm {s s' : State} (h : MPerm s s') (hk : (s.modules.map (·.1)).Nodup) :
    PermS (sortS s) (sortS s') :=
  ⟨h.ps, h.get, h.perm, by
    show (sortMods s'.modules).map canonE = (sortMods s.modules).map canonE
    rw [sortMods_eq_of_perm s.modules s'.modules h.mods hk]⟩

/-- two final states of reordered inputs: the same registry entries and the same stored modules, up to the order of the
    entries, of the modules, and of the definition paths inside a module -/
structure PermM (s s' : State) : Prop where
  ps : s'.reg.ps = s.reg.ps
  get : ∀ q, s'.reg.get q = s.reg.get q
  perm : s'.reg.types.Perm s.reg.types
  mods : (s'.modules.map canonE).Perm (s.modules.map canonE)

theorem permM_of_sorted {s s' : State} (h : PermS (sortS s) (sortS s')) : PermM s s' := by
  refine ⟨h.ps, h.get, h.perm, ?_⟩
  have e : (sortMods s'.modules).map canonE = (sortMods s.modules).map canonE := h.mods
  exact (((sortMods_perm s'.modules).map canonE).symm.trans (e ▸ List.Perm.refl _)).trans
    ((sortMods_perm s.modules).map canonE)

/-- the verdicts of a case and of the same case with its modules in another order -/
def VRel : BuildOutcome → BuildOutcome → Prop
  | .ok a, .ok b => PermS (sortS a) (sortS b)
  | .nonterm l, .nonterm l' => l' = l
  | .fuel, .fuel => True
  | .err _, .err _ => True
  | .err _, .panic _ => True
  | .panic _, .err _ => True
  | .panic _, .panic _ => True
  | _, _ => False

theorem bothFailed_ok_right (o : BuildOutcome) (a : State) : ¬ bothFailed o (.ok a) := by
  cases o <;> exact fun h => h

theorem bothFailed_nonterm_right (o : BuildOutcome) (l : List Path) : ¬ bothFailed o (.nonterm l) := by
  cases o <;> exact fun h => h

theorem bothFailed_fuel_right (o : BuildOutcome) : ¬ bothFailed o .fuel := by
  cases o <;> exact fun h => h

theorem vrel_of_failed {o1 o4 : BuildOutcome} (h1 : ∃ m, o1 = .err m ∨ o1 = .panic m)
    (h4 : ∃ m, o4 = .err m ∨ o4 = .panic m) : VRel o1 o4 := by
  obtain ⟨m, h1⟩ := h1
  obtain ⟨m', h4⟩ := h4
  rcases h1 with rfl | rfl <;> rcases h4 with rfl | rfl <;> trivial

theorem failed_left_of_bothFailed {o o' : BuildOutcome} (h : bothFailed o o') : ∃ m, o = .err m ∨ o = .panic m := by
  cases o with
  | err m => exact ⟨m, Or.inl rfl⟩
  | panic m => exact ⟨m, Or.inr rfl⟩
  | ok a => cases o' <;> exact h.elim
  | nonterm l => cases o' <;> exact h.elim
  | fuel => cases o' <;> exact h.elim

theorem failed_right_of_bothFailed {o o' : BuildOutcome} (h : bothFailed o o') : ∃ m, o' = .err m ∨ o' = .panic m := by
  cases o' with
  | err m => exact ⟨m, Or.inl rfl⟩
  | panic m => exact ⟨m, Or.inr rfl⟩
  | ok a => cases o <;> exact h.elim
  | nonterm l => cases o <;> exact h.elim
  | fuel => cases o <;> exact h.elim

theorem verdict_compose (o1 o2 o3 o4 : BuildOutcome) (h1 : SortRel o1 o2) (h2 : RelO PermS o2 o3)
    (h3 : SortRel o4 o3) : VRel o1 o4 := by
  rcases h1 with ⟨a, rfl, rfl⟩ | ⟨l, rfl, rfl⟩ | ⟨rfl, rfl⟩ | hb
  · cases o3 with
    | ok X =>
      rcases h3 with ⟨b, rfl, hX⟩ | ⟨l, _, hX⟩ | ⟨_, hX⟩ | hb
      · cases hX; exact h2
      · cases hX
      · cases hX
      · exact (bothFailed_ok_right _ _ hb).elim
    | _ => exact h2.elim
  · cases o3 with
    | nonterm l' =>
      have e : l' = l := h2
      subst e
      rcases h3 with ⟨b, _, hX⟩ | ⟨l2, rfl, hX⟩ | ⟨_, hX⟩ | hb
      · cases hX
      · cases hX; rfl
      · cases hX
      · exact (bothFailed_nonterm_right _ _ hb).elim
    | _ => exact h2.elim
  · cases o3 with
    | fuel =>
      rcases h3 with ⟨b, _, hX⟩ | ⟨l2, _, hX⟩ | ⟨rfl, _⟩ | hb
      · cases hX
      · cases hX
      · trivial
      · exact (bothFailed_fuel_right _ hb).elim
    | _ => exact h2.elim
  · have f1 := failed_left_of_bothFailed hb
    obtain ⟨m2, f2⟩ := failed_right_of_bothFailed hb
    have f3 : ∃ m, o3 = .err m ∨ o3 = .panic m := by
      rcases f2 with rfl | rfl
      · cases o3 with
        | err m' => exact ⟨m', Or.inl rfl⟩
        | _ => exact h2.elim
      · cases o3 with
        | panic m' => exact ⟨m', Or.inr rfl⟩
        | _ => exact h2.elim
    have f4 : ∃ m, o4 = .err m ∨ o4 = .panic m := by
      obtain ⟨m3, f3⟩ := f3
      rcases h3 with ⟨b, _, hX⟩ | ⟨l2, _, hX⟩ | ⟨_, hX⟩ | hb'
      · rcases f3 with e | e <;> (rw [e] at hX; cases hX)
      · rcases f3 with e | e <;> (rw [e] at hX; cases hX)
      · rcases f3 with e | e <;> (rw [e] at hX; cases hX)
      · exact failed_left_of_bothFailed hb'
    exact vrel_of_failed f1 f4

open CaseLift2 in
/-- the initial states of a case and of the same case with its modules in another order -/
theorem initialState_reordered_modules (c c' : Case) (hm : c'.modules.Perm c.modules)
    (hc : c' = { c with modules := c'.modules }) (hd : (astPaths c.modules).Nodup) (s0 : State)
    (h : c.initialState = .ok s0) : ∃ s0', c'.initialState = .ok s0' ∧ MPerm s0 s0' := by
  rw [hc]
  exact fold_perm c.modules c'.modules hm.symm hd (State.new c.ps) (State.new c.ps) s0 (MPerm.refl _) h

theorem run_eq_build (c : Case) (s0 : State) (h : c.initialState = .ok s0) : c.run = s0.build c.prio := by
  unfold Case.run
  rw [h]

theorem run_failed_of_init (c : Case) (h : ∀ s0, c.initialState ≠ .ok s0) : ∃ m, c.run = .err m ∨ c.run = .panic m := by
  unfold Case.run
  cases hi : c.initialState with
  | ok s0 => exact (h s0 hi).elim
  | defer => exact ⟨_, Or.inl rfl⟩
  | err m => exact ⟨m, Or.inl rfl⟩
  | panic m => exact ⟨m, Or.inr rfl⟩

open CaseLift2 in
/-- **the verdict of a case does not depend on the order of its modules** (module paths pairwise distinct) -/
theorem run_reordered_modules (c c' : Case) (hm : c'.modules.Perm c.modules)
    (hc : c' = { c with modules := c'.modules }) (hd : (astPaths c.modules).Nodup) : VRel c.run c'.run := by
  have hprio : c'.prio = c.prio := by rw [hc]
  have hd' : (astPaths c'.modules).Nodup := (hm.symm.filterMap _).nodup hd
  have hc' : c = { c' with modules := c.modules } := by
    rw [hc]
  cases hi : c.initialState with
  | ok s0 =>
    obtain ⟨s0', hi', hmp⟩ := initialState_reordered_modules c c' hm hc hd s0 hi
    have hk : (s0.modules.map (·.1)).Nodup := (modInv_initial c s0 hi).keys
    have hP := permS_sortS_of_mperm hmp hk
    rw [run_eq_build c s0 hi, run_eq_build c' s0' hi', hprio]
    exact verdict_compose _ _ _ _ (build_sortS c.prio s0) (build_perm c.prio hP) (build_sortS c.prio s0')
  | defer =>
    refine vrel_of_failed (run_failed_of_init c (fun s h => by rw [hi] at h; cases h)) (run_failed_of_init c' ?_)
    intro s0' hi'
    obtain ⟨s0, h0, _⟩ := initialState_reordered_modules c' c hm.symm hc' hd' s0' hi'
    rw [hi] at h0; cases h0
  | err m =>
    refine vrel_of_failed (run_failed_of_init c (fun s h => by rw [hi] at h; cases h)) (run_failed_of_init c' ?_)
    intro s0' hi'
    obtain ⟨s0, h0, _⟩ := initialState_reordered_modules c' c hm.symm hc' hd' s0' hi'
    rw [hi] at h0; cases h0
  | panic m =>
    refine vrel_of_failed (run_failed_of_init c (fun s h => by rw [hi] at h; cases h)) (run_failed_of_init c' ?_)
    intro s0' hi'
    obtain ⟨s0, h0, _⟩ := initialState_reordered_modules c' c hm.symm hc' hd' s0' hi'
    rw [hi] at h0; cases h0

/-! ### the keys of the stored modules of an accepted case -/

open CaseLift2 in
theorem keys_fold_sub (l : List ModEnt) (s0 s : State) (h : Res.foldlM modStep s0 l = .ok s) :
    ∀ k ∈ s.modules.map (·.1), k ∈ s0.modules.map (·.1) ∨ k ∈ astPaths l := by
  induction l generalizing s0 with
  | nil => simp only [Res.foldlM, Res.ok.injEq] at h; subst h; exact fun k hk => Or.inl hk
  | cons me rest ih =>
    obtain ⟨s1, h1, h2⟩ := C14.foldlM_cons_ok modStep s0 s me rest h
    cases me with
    | text f t => cases h1
    | ast path file m =>
      have hstep : s0.addModule m path = .ok s1 := h1
      obtain ⟨hk1, _, _⟩ := addModule_keys s0 s1 m path hstep
      intro k hk
      have hap : astPaths (ModEnt.ast path file m :: rest) = path :: astPaths rest := rfl
      rw [hap]
      rcases ih s1 h2 k hk with h3 | h3
      · rcases hk1 k h3 with e | e
        · exact Or.inr (e ▸ List.mem_cons_self)
        · exact Or.inl e
      · exact Or.inr (List.mem_cons_of_mem _ h3)

open CaseLift2 in
/-- the keys of the stored modules of an accepted case: the root and the paths of the case's modules -/
theorem run_keys_sub (c : Case) (sf : State) (h : c.run = .ok sf) :
    ∀ k ∈ sf.modules.map (·.1), k = [] ∨ k ∈ astPaths c.modules := by
  unfold Case.run at h
  cases hi : c.initialState with
  | ok s0 =>
    rw [hi] at h
    have hi2 := hi
    rw [CaseLift2.initialState_eq] at hi2
    have hkeys0 : (State.new c.ps).modules.map (·.1) = [[]] := (keysEq_closed [[]]).init c.ps rfl
    obtain ⟨s1, hl, ms, hms, rfl⟩ := C09.build_ok_inv s0 c.prio sf h
    have h1 := (keysEq_closed (s0.modules.map (·.1))).loop c.prio _ s0 rfl s1 hl
    obtain ⟨hk, _⟩ := final_modules s1.reg s1.modules ms hms
    intro k hkm
    have hkm' : k ∈ ms.map (·.1) := hkm
    rw [hk, h1] at hkm'
    rcases keys_fold_sub c.modules _ s0 hi2 k hkm' with h3 | h3
    · rw [hkeys0] at h3
      exact Or.inl (by simpa using h3)
    · exact Or.inr h3
  | defer => rw [hi] at h; cases h
  | err m => rw [hi] at h; cases h
  | panic m => rw [hi] at h; cases h

theorem inj_of_nodup_map {α β} (f : α → β) (l : List α) (h : (l.map f).Nodup) :
    ∀ a ∈ l, ∀ b ∈ l, f a = f b → a = b := by
  induction l with
  | nil => intro a ha; cases ha
  | cons x l ih =>
    simp only [List.map_cons, List.nodup_cons] at h
    intro a ha b hb hab
    rcases List.mem_cons.mp ha with rfl | ha' <;> rcases List.mem_cons.mp hb with rfl | hb'
    · rfl
    · exact (h.1 (hab ▸ List.mem_map_of_mem hb')).elim
    · exact (h.1 (hab ▸ List.mem_map_of_mem ha')).elim
    · exact ih h.2 a ha' b hb' hab

open CaseLift2 in
theorem run_filesInj (c : Case) (hf : ((astPaths c.modules).map Emit.relFile).Nodup) (sf : State)
    (h : c.run = .ok sf) : FilesInj sf.modules := by
  intro a ha b hb na nb hab
  have ka := run_keys_sub c sf h a.1 (List.mem_map_of_mem ha)
  have kb := run_keys_sub c sf h b.1 (List.mem_map_of_mem hb)
  rcases ka with e | ka
  · exact (na e).elim
  rcases kb with e | kb
  · exact (nb e).elim
  exact inj_of_nodup_map Emit.relFile _ hf a.1 ka b.1 kb hab

open CaseLift2 in
/-- accepted ⇒ accepted, with the same O2 -/
theorem o2_reordered_modules (c c' : Case) (hm : c'.modules.Perm c.modules)
    (hc : c' = { c with modules := c'.modules }) (hd : (astPaths c.modules).Nodup) (sf : State)
    (h : c.run = .ok sf) : ∃ sf', c'.run = .ok sf' ∧ PermM sf sf' ∧ c'.o2 = c.o2 := by
  have hv := run_reordered_modules c c' hm hc hd
  rw [h] at hv
  cases h' : c'.run with
  | ok sf' =>
    rw [h'] at hv
    have hP : PermS (sortS sf) (sortS sf') := hv
    refine ⟨sf', rfl, permM_of_sorted hP, ?_⟩
    unfold Case.o2
    rw [h, h']
    show Obs.resolvedS sf' = Obs.resolvedS sf
    rw [← resolvedS_sortS sf' (WK.run c' sf' h'), ← resolvedS_sortS sf (WK.run c sf h)]
    exact resolvedS_perm hP (WK.run c sf h)
  | nonterm l => rw [h'] at hv; exact hv.elim
  | err m => rw [h'] at hv; exact hv.elim
  | panic m => rw [h'] at hv; exact hv.elim
  | fuel => rw [h'] at hv; exact hv.elim

open CaseLift2 in
/-- … and the same O3, when no two modules are written to the same file -/
theorem o3_reordered_modules (c c' : Case) (hm : c'.modules.Perm c.modules)
    (hc : c' = { c with modules := c'.modules }) (hd : (astPaths c.modules).Nodup)
    (hf : ((astPaths c.modules).map Emit.relFile).Nodup) (sf : State) (h : c.run = .ok sf) : c'.o3 = c.o3 := by
  obtain ⟨sf', h', _, _⟩ := o2_reordered_modules c c' hm hc hd sf h
  have hv := run_reordered_modules c c' hm hc hd
  rw [h, h'] at hv
  have hP : PermS (sortS sf) (sortS sf') := hv
  have hf' : ((astPaths c'.modules).map Emit.relFile).Nodup := ((hm.symm.filterMap _).map _).nodup hf
  unfold Case.o3
  rw [h, h']
  show Sexp.mk "files" (Emit.files sf') = Sexp.mk "files" (Emit.files sf)
  rw [← files_sortS sf' (case_modInv c' sf' h').keys (run_filesInj c' hf' sf' h'),
      ← files_sortS sf (case_modInv c sf h).keys (run_filesInj c hf sf h)]
  rw [files_perm hP (WK.run c sf h)]

open CaseLift2 in
/-- the keys of the stored modules, in order, are those of the initial state -/
theorem run_keys_eq (c : Case) (s0 sf : State) (hi : c.initialState = .ok s0) (h : c.run = .ok sf) :
    sf.modules.map (·.1) = s0.modules.map (·.1) := by
  rw [run_eq_build c s0 hi] at h
  obtain ⟨s1, hl, ms, hms, rfl⟩ := C09.build_ok_inv s0 c.prio sf h
  have h1 := (keysEq_closed (s0.modules.map (·.1))).loop c.prio _ s0 rfl s1 hl
  obtain ⟨hk, _⟩ := final_modules s1.reg s1.modules ms hms
  show ms.map (·.1) = _
  rw [hk, h1]

theorem modsEqv_keys {l1 l2 : List (Path × Mod)} (h : C09.ModsEqv l1 l2) : l1.map (·.1) = l2.map (·.1) := by
  induction l1 generalizing l2 with
  | nil =>
    cases l2 with
    | nil => rfl
    | cons b l2 => exact h.elim
  | cons a l1 ih =>
    cases l2 with
    | nil => exact h.elim
    | cons b l2 =>
      obtain ⟨hk, _, ht⟩ := h
      simp only [List.map_cons, hk, ih ht]

end PyxisVerif.ModOrder
