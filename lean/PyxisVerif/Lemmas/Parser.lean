import PyxisVerif.Model.Parser
import PyxisVerif.Model.Printer
/-!
# C18 – helper definitions and lemmas: well-formedness, token-level round trip
-/
namespace PyxisVerif
namespace C18
open Lex (K Delim Tok Pos)
open Parse (isKw atEnd R R0 ModItem)

/-! ## well-formed modules -/

/-- a plain ASCII identifier: what the lexer reads back as one `ident` token -/
def plainId (s : String) : Bool :=
  match s.toList with
  | c :: cs => Lex.isIdStart c && cs.all Lex.isIdCont
  | [] => false

/-- an identifier `syn::Ident` accepts: plain, not a keyword, not `_` -/
def idOk (s : String) : Bool := !isKw s && plainId s
/-- a name read by pyxis's own `Ident::parse`: `_` is allowed as well -/
def nameOk (s : String) : Bool := s == "_" || idOk s

def tyOk : G.Ty → Bool
  | .cptr t => tyOk t
  | .mptr t => tyOk t
  | .arr t n => tyOk t && decide (n < Parse.usizeMax)
  | .ident s => idOk s && s != "unknown"
  | .unk n => decide (n < Parse.usizeMax)

def exprOk : G.Expr → Bool
  | .int z => decide (-(Parse.isizeMax : Int) ≤ z) && decide (z < (Parse.isizeMax : Int))
  | .str _ => true
  | .ident s => idOk s

def attrOk : G.Attr → Bool
  | .ident n => nameOk n
  | .fn n args => nameOk n && args.all exprOk
  | .assign n e => nameOk n && exprOk e

def argOk : G.Arg → Bool
  | .named n t => idOk n && tyOk t
  | _ => true

def retOk : Option G.Ty → Bool
  | some t => tyOk t
  | none => true

def funcOk (f : G.Func) : Bool :=
  nameOk f.name && f.attrs.all attrOk && f.args.all argOk && retOk f.ret

def fieldOk : G.Field → Bool
  | .field v n t => nameOk n && (v == .pub || n != "vftable") && tyOk t
  | .vftable fns => fns.all funcOk

def stmtOk (s : G.Stmt) : Bool := s.attrs.all attrOk && fieldOk s.field

def optExprOk : Option G.Expr → Bool
  | some e => exprOk e
  | none => true

def enumStmtOk (s : G.EnumStmt) : Bool := nameOk s.name && optExprOk s.expr && s.attrs.all attrOk

def innerOk : G.Inner → Bool
  | .type d => d.attrs.all attrOk && d.stmts.all stmtOk
  | .enum d => d.attrs.all attrOk && tyOk d.ty && d.stmts.all enumStmtOk

def itemOk (i : G.Item) : Bool := nameOk i.name && innerOk i.inner

def implOk (i : G.Impl) : Bool := nameOk i.name && i.attrs.all attrOk && i.fns.all funcOk

def xtypeOk (x : String × List G.Attr) : Bool := idOk x.1 && x.2.all attrOk

def xvalOk (x : G.XVal) : Bool := nameOk x.name && tyOk x.ty && x.attrs.all attrOk

def optTrimmed : Option String → Bool
  | some s => Parse.trim s == s
  | none => true

def backendOk (b : G.Backend) : Bool := nameOk b.name && optTrimmed b.prologue && optTrimmed b.epilogue

def pathOk (p : Path) : Bool := p.all idOk

/-- executable well-formedness check -/
def wfB (m : G.Module) : Bool :=
  m.attrs.all attrOk && m.uses.all pathOk && m.xtypes.all xtypeOk && m.xvals.all xvalOk &&
  m.defs.all itemOk && m.impls.all implOk && m.backends.all backendOk

/-! ## token-level round trip, node by node -/

/-- what may follow a type without being swallowed by `parse_type_ident`'s greedy tail -/
def FollowTy : List K → Prop
  | .punct c _ :: _ => c ≠ '<' ∧ c ≠ '>'
  | .ident s :: _ => isKw s = true
  | _ => True

theorem identTail_stop (f : Nat) (acc : String) (rest : List K) (h : FollowTy rest) :
    Parse.identTail f acc rest = (acc, rest) := by
  cases f with
  | zero => rfl
  | succ f =>
    unfold Parse.identTail
    match rest, h with
    | [], _ => rfl
    | .punct c j :: r, h =>
      simp only [FollowTy] at h
      simp [h.1, h.2]
    | .ident s :: r, h =>
      simp only [FollowTy] at h
      simp [h]
    | .int _ :: _, _ | .str _ :: _, _ | .lit :: _, _ | .op _ :: _, _ | .cl _ :: _, _ => rfl

theorem idOk_kw {s : String} (h : idOk s = true) : isKw s = false := by
  simp [idOk] at h; exact h.1

theorem nameOk_cases {s : String} (h : nameOk s = true) : s = "_" ∨ isKw s = false := by
  simp [nameOk] at h
  rcases h with h | h
  · left; exact h
  · right; exact idOk_kw h

theorem pIdent_name {s : String} (h : nameOk s = true) (r : List K) :
    Parse.pIdent (.ident s :: r) = .ok (s, r) := by
  rcases nameOk_cases h with h | h
  · subst h; simp [Parse.pIdent]
  · by_cases e : s = "_"
    · subst e; simp [Parse.pIdent]
    · simp [Parse.pIdent, e, h]

theorem pType_print (t : G.Ty) (h : tyOk t = true) (rest : List K) (hr : FollowTy rest) (f : Nat)
    (hf : (Print.pTy t).length < f) (u : Option Nat) :
    Parse.pType f (Print.pTy t ++ rest) u = .ok (t, rest, u) := by
  induction t generalizing rest f with
  | ident s =>
    obtain ⟨f, rfl⟩ : ∃ g, f = g + 1 := ⟨f - 1, by simp [Print.pTy] at hf; omega⟩
    simp only [tyOk, Bool.and_eq_true, bne_iff_ne, ne_eq] at h
    simp [Print.pTy, Parse.pType, h.2, idOk_kw h.1, identTail_stop f s rest hr]
  | unk n =>
    obtain ⟨f, rfl⟩ : ∃ g, f = g + 1 := ⟨f - 1, by simp [Print.pTy] at hf; omega⟩
    simp only [tyOk, decide_eq_true_eq] at h
    simp [Print.pTy, Parse.pType, Parse.expectPunct, Parse.pUsize, Parse.pLitInt, h]
  | cptr t ih =>
    obtain ⟨f, rfl⟩ : ∃ g, f = g + 1 := ⟨f - 1, by simp [Print.pTy] at hf; omega⟩
    simp only [tyOk] at h
    have := ih h rest hr f (by simp [Print.pTy] at hf; omega)
    simp [Print.pTy, Parse.pType, this]
  | mptr t ih =>
    obtain ⟨f, rfl⟩ : ∃ g, f = g + 1 := ⟨f - 1, by simp [Print.pTy] at hf; omega⟩
    simp only [tyOk] at h
    have := ih h rest hr f (by simp [Print.pTy] at hf; omega)
    simp [Print.pTy, Parse.pType, this]
  | arr t n ih =>
    obtain ⟨f, rfl⟩ : ∃ g, f = g + 1 := ⟨f - 1, by simp [Print.pTy] at hf; omega⟩
    simp only [tyOk, Bool.and_eq_true, decide_eq_true_eq] at h
    have := ih h.1 (.punct ';' false :: .int n :: .cl .bracket :: rest) (by simp [FollowTy]) f
      (by simp [Print.pTy] at hf; omega)
    simp [Print.pTy, Parse.pType, this, Parse.expectPunct, Parse.pUsize, Parse.pLitInt, h.2,
      Parse.closeLeftover]


theorem pExpr_print (e : G.Expr) (h : exprOk e = true) (rest : List K) :
    Parse.pExpr (Print.pExpr e ++ rest) = .ok (e, rest) := by
  cases e with
  | ident s => simp only [exprOk] at h; simp [Print.pExpr, Parse.pExpr, idOk_kw h]
  | str s => simp [Print.pExpr, Parse.pExpr]
  | int z =>
    simp only [exprOk, Bool.and_eq_true, decide_eq_true_eq] at h
    by_cases hz : z < 0
    · have h1 : z.natAbs ≤ Parse.isizeMax := by omega
      have h2 : -(z.natAbs : Int) = z := by omega
      simp [Print.pExpr, hz, Parse.pExpr, Parse.pLitInt, h1, h2]
    · have h1 : z.toNat < Parse.isizeMax := by omega
      have h2 : (z.toNat : Int) = z := by omega
      simp [Print.pExpr, hz, Parse.pExpr, Parse.pLitInt, h1, h2]

/-- what follows an element of a terminated list: the separator or the end of the group -/
def TermFollow (sep : Char) : List K → Prop
  | .punct c _ :: _ => c = sep
  | .cl _ :: _ => True
  | _ => False

/-- a token list that starts with a token other than a closing delimiter -/
def Starts : List K → Prop
  | [] => False
  | .cl _ :: _ => False
  | _ => True

theorem atEnd_starts {ks : List K} (h : Starts ks) (rest : List K) : atEnd (ks ++ rest) = false := by
  match ks, h with
  | .ident _ :: _, _ | .int _ :: _, _ | .str _ :: _, _ | .lit :: _, _ | .punct _ _ :: _, _
  | .op _ :: _, _ => rfl

theorem pTerm_print {α : Type} (p : List K → Option Nat → R α) (pr : α → List K) (sep : Char)
    (tr : Bool) (xs : List α) (d : Delim) (rest : List K) (u : Option Nat)
    (hp : ∀ x ∈ xs, ∀ rest', TermFollow sep rest' → p (pr x ++ rest') u = .ok (x, rest', u))
    (hs : ∀ x ∈ xs, Starts (pr x))
    (f : Nat) (hf : xs.length < f) :
    Parse.pTerm p sep f (Print.pTerm pr sep tr xs ++ .cl d :: rest) u
      = .ok (xs, .cl d :: rest, u) := by
  induction xs generalizing f with
  | nil =>
    obtain ⟨f, rfl⟩ : ∃ g, f = g + 1 := ⟨f - 1, by omega⟩
    simp [Print.pTerm, Parse.pTerm, atEnd]
  | cons x xs ih =>
    obtain ⟨f, rfl⟩ : ∃ g, f = g + 1 := ⟨f - 1, by omega⟩
    have hx := hp x (by simp)
    have sx := hs x (by simp)
    cases xs with
    | nil =>
      cases tr with
      | false =>
        simp only [Print.pTerm, Bool.false_eq_true, if_false, List.append_nil]
        unfold Parse.pTerm
        rw [atEnd_starts sx, hx _ (by simp [TermFollow])]
        simp [atEnd]
      | true =>
        simp only [Print.pTerm, if_true, List.append_assoc, List.singleton_append]
        unfold Parse.pTerm
        rw [atEnd_starts sx, hx _ (by simp [TermFollow])]
        obtain ⟨f, rfl⟩ : ∃ g, f = g + 1 := ⟨f - 1, by simp at hf; omega⟩
        simp [atEnd, Parse.expectPunct, Parse.pTerm]
    | cons y ys =>
      have := ih (fun z hz => hp z (by simp [hz])) (fun z hz => hs z (by simp [hz])) f
        (by simp at hf ⊢; omega)
      simp only [Print.pTerm, List.append_assoc, List.cons_append]
      unfold Parse.pTerm
      rw [atEnd_starts sx, hx _ (by simp [TermFollow])]
      simp only [atEnd, Bool.false_eq_true, if_false, Parse.expectPunct, if_true]
      rw [this]

theorem pGroup_print {α : Type} (p : List K → Option Nat → R α) (pr : α → List K) (sep : Char)
    (tr : Bool) (xs : List α) (d : Delim) (rest : List K) (u : Option Nat)
    (hp : ∀ x ∈ xs, ∀ rest', TermFollow sep rest' → p (pr x ++ rest') u = .ok (x, rest', u))
    (hs : ∀ x ∈ xs, Starts (pr x))
    (f : Nat) (hf : xs.length < f) :
    Parse.pGroup d p sep f (Print.pGroup d pr sep tr xs ++ rest) u = .ok (xs, rest, u) := by
  simp only [Print.pGroup, Parse.pGroup, List.cons_append, List.append_assoc, Parse.expectOpen,
    if_true, List.nil_append]
  rw [pTerm_print p pr sep tr xs d rest u hp hs f hf]
  simp [Parse.expectClose]


theorem lift_ok {α : Type} (p : List K → R0 α) (ts : List K) (x : α) (r : List K) (u : Option Nat)
    (h : p ts = .ok (x, r)) : Parse.lift p ts u = .ok (x, r, u) := by
  simp [Parse.lift, h]

/-! lengths of printed lists (for the fuel) -/

theorem length_pTerm_ge {α : Type} (pr : α → List K) (sep : Char) (tr : Bool) (xs : List α)
    (hs : ∀ x ∈ xs, Starts (pr x)) : xs.length ≤ (Print.pTerm pr sep tr xs).length := by
  induction xs with
  | nil => simp
  | cons x xs ih =>
    have hx : 1 ≤ (pr x).length := by
      have := hs x (by simp)
      cases h : pr x with
      | nil => rw [h] at this; exact absurd this (by simp [Starts])
      | cons _ _ => simp
    have := ih (fun z hz => hs z (by simp [hz]))
    cases xs with
    | nil => simp [Print.pTerm]; omega
    | cons y ys => simp only [Print.pTerm, List.length_append, List.length_cons] at this ⊢; omega

theorem length_pTerm_mem {α : Type} (pr : α → List K) (sep : Char) (tr : Bool) (xs : List α)
    (x : α) (hx : x ∈ xs) : (pr x).length ≤ (Print.pTerm pr sep tr xs).length := by
  induction xs with
  | nil => simp at hx
  | cons y ys ih =>
    cases ys with
    | nil =>
      simp at hx; subst hx; simp [Print.pTerm]
    | cons z zs =>
      simp only [Print.pTerm, List.length_append, List.length_cons]
      rcases List.mem_cons.mp hx with e | e
      · subst e; omega
      · have := ih e; omega

theorem length_flatMap_mem {α : Type} (pr : α → List K) (xs : List α) (x : α) (hx : x ∈ xs) :
    (pr x).length ≤ (xs.flatMap pr).length := by
  induction xs with
  | nil => simp at hx
  | cons y ys ih =>
    simp only [List.flatMap_cons, List.length_append]
    rcases List.mem_cons.mp hx with e | e
    · subst e; omega
    · have := ih e; omega

theorem length_flatMap_ge {α : Type} (pr : α → List K) (xs : List α)
    (hs : ∀ x ∈ xs, 1 ≤ (pr x).length) : xs.length ≤ (xs.flatMap pr).length := by
  induction xs with
  | nil => simp
  | cons y ys ih =>
    simp only [List.flatMap_cons, List.length_append, List.length_cons]
    have := hs y (by simp)
    have := ih (fun z hz => hs z (by simp [hz]))
    omega

/-! attributes -/

theorem starts_pExpr (e : G.Expr) : Starts (Print.pExpr e) := by
  cases e with
  | int z => by_cases hz : z < 0 <;> simp [Print.pExpr, hz, Starts]
  | str s => simp [Print.pExpr, Starts]
  | ident s => simp [Print.pExpr, Starts]

theorem pAttrPart_print (tr : Bool) (a : G.Attr) (h : attrOk a = true) (rest : List K)
    (hr : TermFollow ',' rest) (f : Nat) (hf : (Print.pAttrPart tr a).length < f) :
    Parse.pAttrPart f (Print.pAttrPart tr a ++ rest) = .ok (a, rest) := by
  cases a with
  | ident n =>
    simp only [attrOk] at h
    simp only [Print.pAttrPart, Parse.pAttrPart, List.cons_append, List.nil_append, pIdent_name h]
    match rest, hr with
    | .punct c j :: r, hr =>
      simp only [TermFollow] at hr
      subst hr; simp
    | .cl d :: r, _ => rfl
  | assign n e =>
    simp only [attrOk, Bool.and_eq_true] at h
    simp [Print.pAttrPart, Parse.pAttrPart, pIdent_name h.1, pExpr_print e h.2]
  | fn n args =>
    simp only [attrOk, Bool.and_eq_true, List.all_eq_true] at h
    have hlen : args.length < f := by
      have := length_pTerm_ge Print.pExpr ',' tr args (fun x _ => starts_pExpr x)
      simp [Print.pAttrPart, Print.pGroup] at hf
      omega
    have := pGroup_print (Parse.lift Parse.pExpr) Print.pExpr ',' tr args .paren rest none
      (fun x hx rest' _ => lift_ok _ _ _ _ _ (pExpr_print x (h.2 x hx) rest'))
      (fun x _ => starts_pExpr x) f hlen
    simp only [Print.pAttrPart, Parse.pAttrPart, List.cons_append, pIdent_name h.1]
    simp only [Print.pGroup, List.cons_append] at this ⊢
    rw [this]

theorem starts_pAttrPart (tr : Bool) (a : G.Attr) : Starts (Print.pAttrPart tr a) := by
  cases a <;> simp [Print.pAttrPart, Starts]

/-- where `Attribute::parse_many` stops -/
def StopAttrs (inner : Bool) : List K → Prop
  | .punct c _ :: r =>
    c ≠ '#' ∨ (inner = true ∧ match r with | .punct c' _ :: _ => c' ≠ '!' | _ => True)
  | _ => True

theorem pAttrs_stop (inner : Bool) (f : Nat) (rest : List K) (h : StopAttrs inner rest) :
    Parse.pAttrs inner (f + 1) rest = .ok ([], rest) := by
  unfold Parse.pAttrs
  match rest, h with
  | [], _ => rfl
  | .punct c j :: r, h =>
    simp only [StopAttrs] at h
    rcases h with h | ⟨h1, h2⟩
    · simp [h]
    · subst h1
      by_cases hc : c = '#'
      · subst hc
        match r, h2 with
        | [], _ => rfl
        | .punct c' j' :: r', h2 => simp at h2; simp [h2]
        | .ident _ :: _, _ | .int _ :: _, _ | .str _ :: _, _ | .lit :: _, _ | .op _ :: _, _
        | .cl _ :: _, _ => rfl
      · simp [hc]
  | .ident _ :: _, _ | .int _ :: _, _ | .str _ :: _, _ | .lit :: _, _ | .op _ :: _, _
  | .cl _ :: _, _ => rfl

theorem pAttrBody_print (tr : Bool) (a : G.Attr) (h : attrOk a = true) (rest : List K) (f : Nat)
    (hf : (Print.pAttrPart tr a).length < f) :
    Parse.pAttrBody f (Print.pGroup .bracket (Print.pAttrPart tr) ',' false [a] ++ rest)
      = .ok ([a], rest) := by
  have hf1 : 1 < f := by
    have := starts_pAttrPart tr a
    cases hh : Print.pAttrPart tr a with
    | nil => rw [hh] at this; exact absurd this (by simp [Starts])
    | cons _ _ => rw [hh] at hf; simp at hf; omega
  have := pGroup_print (Parse.lift (Parse.pAttrPart f)) (Print.pAttrPart tr) ',' false [a] .bracket
    rest none
    (fun x hx rest' hr' => by
      simp at hx; subst hx
      exact lift_ok _ _ _ _ _ (pAttrPart_print tr x h rest' hr' f hf))
    (fun x _ => starts_pAttrPart tr x) f (by simp; omega)
  simp [Parse.pAttrBody, this]

theorem pAttrs_print (inner tr : Bool) (as : List G.Attr) (h : as.all attrOk = true)
    (rest : List K) (hr : StopAttrs inner rest) (f : Nat)
    (hf : (Print.pAttrs inner tr as).length < f) :
    Parse.pAttrs inner f (Print.pAttrs inner tr as ++ rest) = .ok (as, rest) := by
  induction as generalizing f with
  | nil =>
    obtain ⟨f, rfl⟩ : ∃ g, f = g + 1 := ⟨f - 1, by omega⟩
    simpa [Print.pAttrs] using pAttrs_stop inner f rest hr
  | cons a as ih =>
    obtain ⟨f, rfl⟩ : ∃ g, f = g + 1 := ⟨f - 1, by omega⟩
    simp only [List.all_cons, Bool.and_eq_true] at h
    have hl : (Print.pAttrPart tr a).length < f ∧ (Print.pAttrs inner tr as).length < f := by
      have e1 : (Print.pAttrs inner tr (a :: as)).length
          = (Print.pAttr inner tr a).length + (Print.pAttrs inner tr as).length := by
        simp only [Print.pAttrs, List.flatMap_cons, List.length_append]
      have e2 : (Print.pAttrPart tr a).length + 3 ≤ (Print.pAttr inner tr a).length := by
        simp [Print.pAttr, Print.pGroup, Print.pTerm]
      omega
    have ih' := ih h.2 f hl.2
    have hb := pAttrBody_print tr a h.1 (Print.pAttrs inner tr as ++ rest) f hl.1
    cases inner with
    | false =>
      simp only [Print.pAttrs, List.flatMap_cons, Print.pAttr, Bool.false_eq_true, if_false,
        List.nil_append, List.cons_append, List.append_assoc] at hb ih' ⊢
      unfold Parse.pAttrs
      simp only [if_true, Bool.false_eq_true, if_false]
      rw [hb]
      simp only [ih']
      simp
    | true =>
      simp only [Print.pAttrs, List.flatMap_cons, Print.pAttr, if_true,
        List.nil_append, List.cons_append, List.append_assoc] at hb ih' ⊢
      unfold Parse.pAttrs
      simp only [if_true]
      rw [hb]
      simp only [ih']
      simp


theorem followTy_of_term {c : Char} {rest : List K} (h : TermFollow c rest) (h1 : c ≠ '<')
    (h2 : c ≠ '>') : FollowTy rest := by
  match rest, h with
  | .punct c' j :: r, h => simp only [TermFollow] at h; subst h; exact ⟨h1, h2⟩
  | .cl d :: r, _ => trivial

theorem peek2_term {a b c : Char} {rest : List K} (h : TermFollow c rest) (hc : c ≠ a) :
    Parse.peek2 a b rest = none := by
  match rest, h with
  | .punct c' j :: r, h =>
    simp only [TermFollow] at h; subst h
    cases j with
    | false => rfl
    | true =>
      cases r with
      | nil => rfl
      | cons k r' => cases k <;> simp [Parse.peek2, hc]
  | .cl d :: r, _ => rfl

theorem starts_pArg (a : G.Arg) : Starts (Print.pArg a) := by
  cases a <;> simp [Print.pArg, Starts]

theorem pArg_print (a : G.Arg) (h : argOk a = true) (rest : List K) (hr : TermFollow ',' rest)
    (f : Nat) (hf : (Print.pArg a).length < f) (u : Option Nat) :
    Parse.pArg f (Print.pArg a ++ rest) u = .ok (a, rest, u) := by
  cases a with
  | constSelf => simp [Print.pArg, Parse.pArg]
  | mutSelf => simp [Print.pArg, Parse.pArg, Parse.expectKw]
  | named n t =>
    simp only [argOk, Bool.and_eq_true] at h
    have := pType_print t h.2 rest (followTy_of_term hr (by decide) (by decide)) f
      (by simp [Print.pArg] at hf; omega) u
    simp [Print.pArg, Parse.pArg, idOk_kw h.1, Parse.expectPunct, this]

/-- the next token is not the keyword `pub` -/
def NoPub : List K → Prop
  | .ident s :: _ => s ≠ "pub"
  | _ => True

theorem pVis_print (v : G.Vis) (rest : List K) (h : NoPub rest) :
    Parse.pVis (Print.pVis v ++ rest) = (v, rest) := by
  cases v with
  | pub => simp [Print.pVis, Parse.pVis]
  | priv =>
    simp only [Print.pVis, List.nil_append]
    match rest, h with
    | [], _ => rfl
    | .ident s :: r, h => simp only [NoPub] at h; simp [Parse.pVis, h]
    | .int _ :: _, _ | .str _ :: _, _ | .lit :: _, _ | .op _ :: _, _ | .cl _ :: _, _
    | .punct _ _ :: _, _ => rfl

theorem stopAttrs_vis (v : G.Vis) (s : String) (r : List K) :
    StopAttrs false (Print.pVis v ++ .ident s :: r) := by
  cases v <;> simp [Print.pVis, StopAttrs]

theorem starts_pAttrs_then (inner tr : Bool) (as : List G.Attr) (ks : List K) (h : Starts ks) :
    Starts (Print.pAttrs inner tr as ++ ks) := by
  cases as with
  | nil => simpa [Print.pAttrs] using h
  | cons a as => simp [Print.pAttrs, Print.pAttr, Starts]

theorem starts_vis_ident (v : G.Vis) (s : String) (r : List K) :
    Starts (Print.pVis v ++ .ident s :: r) := by
  cases v <;> simp [Print.pVis, Starts]

theorem starts_pFunc (tr : Bool) (fn : G.Func) : Starts (Print.pFunc tr fn) := by
  simp only [Print.pFunc, List.append_assoc]
  exact starts_pAttrs_then _ _ _ _ (starts_vis_ident _ _ _)

theorem length_pAttr_pos (inner tr : Bool) (a : G.Attr) : 1 ≤ (Print.pAttr inner tr a).length := by
  simp [Print.pAttr]

theorem pFunc_print (tr : Bool) (fn : G.Func) (h : funcOk fn = true) (rest : List K)
    (hr : TermFollow ';' rest) (f : Nat) (hf : (Print.pFunc tr fn).length < f) (u : Option Nat) :
    Parse.pFunc f (Print.pFunc tr fn ++ rest) u = .ok (fn, rest, u) := by
  obtain ⟨vis, name, attrs, args, ret⟩ := fn
  simp only [funcOk, Bool.and_eq_true, List.all_eq_true] at h
  obtain ⟨⟨⟨hn, ha⟩, hargs⟩, hret⟩ := h
  simp only [Print.pFunc, List.length_append, List.length_cons, Print.pGroup] at hf
  have hlen := length_pTerm_ge Print.pArg ',' tr args (fun x _ => starts_pArg x)
  have hA := pAttrs_print false tr attrs (by simpa [List.all_eq_true] using ha)
    (Print.pVis vis ++ (.ident "fn" :: .ident name ::
      Print.pGroup .paren Print.pArg ',' tr args ++ Print.pRet ret) ++ rest)
    (by simpa using stopAttrs_vis vis "fn" _) f (by omega)
  have hG := pGroup_print (Parse.pArg f) Print.pArg ',' tr args .paren (Print.pRet ret ++ rest) u
    (fun x hx rest' hr' => pArg_print x (hargs x hx) rest' hr' f (by
      have := length_pTerm_mem Print.pArg ',' tr args x hx; omega) u)
    (fun x _ => starts_pArg x) f (by omega)
  simp only [Print.pFunc, Parse.pFunc, List.append_assoc, List.cons_append] at hA ⊢
  rw [hA]
  simp only [pVis_print vis _ (show NoPub (.ident "fn" :: _) by simp [NoPub]), Parse.expectKw,
    if_true, pIdent_name hn]
  rw [hG]
  cases ret with
  | none =>
    simp only [Print.pRet, List.nil_append, peek2_term hr (show ';' ≠ '-' by decide)]
  | some t =>
    simp only [retOk] at hret
    have := pType_print t hret rest (followTy_of_term hr (by decide) (by decide)) f
      (by simp [Print.pRet] at hf; omega) u
    simp [Print.pRet, Parse.peek2, this]


theorem name_ne_kw {s kw : String} (h : nameOk s = true) (hk : isKw kw = true) (hu : kw ≠ "_") :
    s ≠ kw := by
  intro e; subst e
  rcases nameOk_cases h with h | h
  · exact hu h
  · rw [h] at hk; exact absurd hk (by simp)

theorem noPub_name {s : String} (h : nameOk s = true) (r : List K) : NoPub (.ident s :: r) := by
  simp only [NoPub]; exact name_ne_kw h (by decide) (by decide)

theorem length_pFuncs_lt (tr : Bool) (fns : List G.Func) (d : Delim) :
    fns.length < (Print.pGroup d (Print.pFunc tr) ';' tr fns).length := by
  have := length_pTerm_ge (Print.pFunc tr) ';' tr fns (fun x _ => starts_pFunc tr x)
  simp [Print.pGroup]; omega

theorem pFuncs_print (tr : Bool) (fns : List G.Func) (h : fns.all funcOk = true) (d : Delim)
    (rest : List K) (f : Nat) (hf : (Print.pGroup d (Print.pFunc tr) ';' tr fns).length < f)
    (u : Option Nat) :
    Parse.pGroup d (Parse.pFunc f) ';' f (Print.pGroup d (Print.pFunc tr) ';' tr fns ++ rest) u
      = .ok (fns, rest, u) := by
  simp only [List.all_eq_true] at h
  have h1 := length_pFuncs_lt tr fns d
  exact pGroup_print (Parse.pFunc f) (Print.pFunc tr) ';' tr fns d rest u
    (fun x hx rest' hr' => pFunc_print tr x (h x hx) rest' hr' f (by
      have := length_pTerm_mem (Print.pFunc tr) ';' tr fns x hx
      simp [Print.pGroup] at hf; omega) u)
    (fun x _ => starts_pFunc tr x) f (by omega)

theorem peekKw_vis_name (kw : String) (_hk : isKw kw = false) (hp : kw ≠ "pub") (_hu : kw ≠ "_")
    (v : G.Vis) (n : String) (_hn : nameOk n = true) (hv : v = .priv → n ≠ kw) (r : List K) :
    Parse.peekKw kw (Print.pVis v ++ .ident n :: r) = none := by
  cases v with
  | pub => simp [Print.pVis, Parse.peekKw, Ne.symm hp]
  | priv => simp [Print.pVis, Parse.peekKw, hv rfl]

theorem pField_print (tr : Bool) (fl : G.Field) (h : fieldOk fl = true) (rest : List K)
    (hr : TermFollow ',' rest) (f : Nat) (hf : (Print.pField tr fl).length < f) (u : Option Nat) :
    Parse.pField f (Print.pField tr fl ++ rest) u = .ok (fl, rest, u) := by
  cases fl with
  | vftable fns =>
    simp only [fieldOk] at h
    have := pFuncs_print tr fns h .brace rest f (by simp [Print.pField] at hf; omega) u
    simp [Print.pField, Parse.pField, Parse.peekKw, this]
  | field v n t =>
    simp only [fieldOk, Bool.and_eq_true, Bool.or_eq_true, beq_iff_eq, bne_iff_ne, ne_eq] at h
    obtain ⟨⟨hn, hv⟩, ht⟩ := h
    have hk := peekKw_vis_name "vftable" (by decide) (by decide) (by decide) v n hn
        (fun e => by rcases hv with hv | hv; · rw [e] at hv; exact absurd hv (by decide)
                     · exact hv)
    have := pType_print t ht rest (followTy_of_term hr (by decide) (by decide)) f
      (by simp [Print.pField] at hf; omega) u
    simp only [Print.pField, Parse.pField, List.append_assoc, List.cons_append, hk,
      Parse.pPlainField, pVis_print v _ (noPub_name hn _), pIdent_name hn, Parse.expectPunct,
      if_true, this]

theorem stopAttrs_pField (tr : Bool) (fl : G.Field) (rest : List K) :
    StopAttrs false (Print.pField tr fl ++ rest) := by
  cases fl with
  | vftable fns => simp [Print.pField, StopAttrs]
  | field v n t => cases v <;> simp [Print.pField, Print.pVis, StopAttrs]

theorem starts_pField (tr : Bool) (fl : G.Field) : Starts (Print.pField tr fl) := by
  cases fl with
  | vftable fns => simp [Print.pField, Starts]
  | field v n t => cases v <;> simp [Print.pField, Print.pVis, Starts]

theorem starts_pStmt (tr : Bool) (s : G.Stmt) : Starts (Print.pStmt tr s) :=
  starts_pAttrs_then _ _ _ _ (starts_pField tr s.field)

theorem pStmt_print (tr : Bool) (s : G.Stmt) (h : stmtOk s = true) (rest : List K)
    (hr : TermFollow ',' rest) (f : Nat) (hf : (Print.pStmt tr s).length < f) (u : Option Nat) :
    Parse.pStmt f (Print.pStmt tr s ++ rest) u = .ok (s, rest, u) := by
  obtain ⟨field, attrs⟩ := s
  simp only [stmtOk, Bool.and_eq_true] at h
  simp only [Print.pStmt, List.length_append] at hf
  have hA := pAttrs_print false tr attrs h.1 (Print.pField tr field ++ rest)
    (stopAttrs_pField tr field rest) f (by omega)
  have hF := pField_print tr field h.2 rest hr f (by omega) u
  simp only [Print.pStmt, Parse.pStmt, List.append_assoc, hA, hF]

theorem starts_pEnumStmt (tr : Bool) (s : G.EnumStmt) : Starts (Print.pEnumStmt tr s) :=
  starts_pAttrs_then _ _ _ _ (by simp [Starts])

theorem pEnumStmt_print (tr : Bool) (s : G.EnumStmt) (h : enumStmtOk s = true) (rest : List K)
    (hr : TermFollow ',' rest) (f : Nat) (hf : (Print.pEnumStmt tr s).length < f) :
    Parse.pEnumStmt f (Print.pEnumStmt tr s ++ rest) = .ok (s, rest) := by
  obtain ⟨name, expr, attrs⟩ := s
  simp only [enumStmtOk, Bool.and_eq_true] at h
  obtain ⟨⟨hn, he⟩, ha⟩ := h
  simp only [Print.pEnumStmt, List.length_append] at hf
  have hA := fun tail hs => pAttrs_print false tr attrs ha tail hs f (by omega)
  simp only [Print.pEnumStmt, Parse.pEnumStmt, List.append_assoc, List.cons_append]
  rw [hA _ (by simp [StopAttrs])]
  simp only [pIdent_name hn]
  cases expr with
  | none =>
    simp only [Print.pOptExpr, List.nil_append]
    match rest, hr with
    | .punct c j :: r, hr =>
      simp only [TermFollow] at hr; subst hr; simp [Parse.peekPunct]
    | .cl d :: r, _ => rfl
  | some e =>
    simp only [optExprOk] at he
    simp [Print.pOptExpr, Parse.peekPunct, pExpr_print e he]


/-! items -/

theorem pStmts_print (tr : Bool) (ss : List G.Stmt) (h : ss.all stmtOk = true)
    (rest : List K) (f : Nat) (hf : (Print.pGroup .brace (Print.pStmt tr) ',' tr ss).length < f)
    (u : Option Nat) :
    Parse.pGroup .brace (Parse.pStmt f) ',' f (Print.pGroup .brace (Print.pStmt tr) ',' tr ss ++ rest) u
      = .ok (ss, rest, u) := by
  simp only [List.all_eq_true] at h
  have h1 := length_pTerm_ge (Print.pStmt tr) ',' tr ss (fun x _ => starts_pStmt tr x)
  simp only [Print.pGroup, List.length_cons, List.length_append] at hf
  exact pGroup_print (Parse.pStmt f) (Print.pStmt tr) ',' tr ss .brace rest u
    (fun x hx rest' hr' => pStmt_print tr x (h x hx) rest' hr' f (by
      have := length_pTerm_mem (Print.pStmt tr) ',' tr ss x hx; omega) u)
    (fun x _ => starts_pStmt tr x) f (by omega)

theorem pEnumStmts_print (tr : Bool) (ss : List G.EnumStmt) (h : ss.all enumStmtOk = true)
    (rest : List K) (f : Nat)
    (hf : (Print.pGroup .brace (Print.pEnumStmt tr) ',' tr ss).length < f) (u : Option Nat) :
    Parse.pGroup .brace (Parse.lift (Parse.pEnumStmt f)) ',' f
        (Print.pGroup .brace (Print.pEnumStmt tr) ',' tr ss ++ rest) u
      = .ok (ss, rest, u) := by
  simp only [List.all_eq_true] at h
  have h1 := length_pTerm_ge (Print.pEnumStmt tr) ',' tr ss (fun x _ => starts_pEnumStmt tr x)
  simp only [Print.pGroup, List.length_cons, List.length_append] at hf
  exact pGroup_print (Parse.lift (Parse.pEnumStmt f)) (Print.pEnumStmt tr) ',' tr ss .brace rest u
    (fun x hx rest' hr' => lift_ok _ _ _ _ _ (pEnumStmt_print tr x (h x hx) rest' hr' f (by
      have := length_pTerm_mem (Print.pEnumStmt tr) ',' tr ss x hx; omega)))
    (fun x _ => starts_pEnumStmt tr x) f (by omega)

theorem peekKw_vis (kw : String) (v : G.Vis) (s : String) (r : List K) (h1 : kw ≠ "pub")
    (h2 : s ≠ kw) : Parse.peekKw kw (Print.pVis v ++ .ident s :: r) = none := by
  cases v <;> simp [Print.pVis, Parse.peekKw, h2, Ne.symm h1]

theorem peekKw_attrs_vis (kw : String) (tr : Bool) (as : List G.Attr) (v : G.Vis) (s : String)
    (r : List K) (h1 : kw ≠ "pub") (h2 : s ≠ kw) :
    Parse.peekKw kw (Print.pAttrs false tr as ++ (Print.pVis v ++ .ident s :: r)) = none := by
  cases as with
  | nil => simpa [Print.pAttrs] using peekKw_vis kw v s r h1 h2
  | cons a as => simp [Print.pAttrs, Print.pAttr, Parse.peekKw]

theorem peekKw_attrs (kw : String) (tr : Bool) (as : List G.Attr) (s : String)
    (r : List K) (h2 : s ≠ kw) :
    Parse.peekKw kw (Print.pAttrs false tr as ++ .ident s :: r) = none := by
  cases as with
  | nil => simp [Print.pAttrs, Parse.peekKw, h2]
  | cons a as => simp [Print.pAttrs, Print.pAttr, Parse.peekKw]

theorem peekKw_ident (kw s : String) (r : List K) :
    Parse.peekKw kw (.ident s :: r) = if s = kw then some r else none := rfl

theorem stopAttrs_ident (inner : Bool) (s : String) (r : List K) :
    StopAttrs inner (.ident s :: r) := by simp [StopAttrs]

theorem pTypeBody_semi (ss : List G.Stmt) (h : ss = []) :
    Print.pTypeBody true ss = [.punct ';' false] := by
  subst h; rfl

theorem pTypeBody_brace (tr : Bool) (ss : List G.Stmt) (h : (tr && ss.isEmpty) = false) :
    Print.pTypeBody tr ss = Print.pGroup .brace (Print.pStmt tr) ',' tr ss := by
  simp only [Print.pTypeBody, h, Bool.false_eq_true, if_false]

/-- both spellings of the body of a type definition: `;` and `{ … }` -/
theorem pTypeDef_print (tr : Bool) (ss : List G.Stmt) (attrs : List G.Attr)
    (h : ss.all stmtOk = true) (rest : List K) (f : Nat)
    (hf : (Print.pTypeBody tr ss).length < f) (u : Option Nat) :
    Parse.pTypeDef f attrs (Print.pTypeBody tr ss ++ rest) u
      = .ok ({ stmts := ss, attrs }, rest, u) := by
  cases hb : (tr && ss.isEmpty) with
  | true =>
    simp only [Bool.and_eq_true, List.isEmpty_iff] at hb
    obtain ⟨rfl, rfl⟩ := hb
    simp [Print.pTypeBody, Parse.pTypeDef, Parse.peekPunct]
  | false =>
    rw [pTypeBody_brace tr ss hb] at hf ⊢
    have hS := pStmts_print tr ss h rest f hf u
    have hp : Parse.peekPunct ';' (Print.pGroup .brace (Print.pStmt tr) ',' tr ss ++ rest) = none := by
      simp [Print.pGroup, Parse.peekPunct]
    simp only [Parse.pTypeDef, hp, hS]

theorem starts_pTypeBody (tr : Bool) (ss : List G.Stmt) : Starts (Print.pTypeBody tr ss) := by
  simp only [Print.pTypeBody]
  split <;> simp [Print.pGroup, Starts]

theorem pItemDef_print (tr : Bool) (i : G.Item) (h : itemOk i = true) (rest : List K) (f : Nat)
    (hf : (Print.pItemDef tr i).length < f) (u : Option Nat) :
    Parse.pItem f (Print.pItemDef tr i ++ rest) u = .ok (.defn i, rest, u) := by
  obtain ⟨vis, name, inner⟩ := i
  simp only [itemOk, Bool.and_eq_true] at h
  obtain ⟨hn, hi⟩ := h
  cases inner with
  | type d =>
    obtain ⟨stmts, attrs⟩ := d
    simp only [innerOk, Bool.and_eq_true] at hi
    simp only [Print.pItemDef, List.length_append, List.length_cons] at hf
    have hA := fun tail hs => pAttrs_print false tr attrs hi.1 tail hs f (by omega)
    have hS := pTypeDef_print tr stmts attrs hi.2 rest f (by omega) u
    simp only [Print.pItemDef, List.append_assoc, List.cons_append]
    simp only [Parse.pItem, peekKw_attrs_vis "use" tr attrs vis "type" _ (by decide) (by decide),
      peekKw_attrs_vis "backend" tr attrs vis "type" _ (by decide) (by decide)]
    rw [hA _ (stopAttrs_vis vis "type" _)]
    simp only [Parse.pAttrItem, peekKw_vis "extern" vis "type" _ (by decide) (by decide),
      peekKw_vis "impl" vis "type" _ (by decide) (by decide), Option.bind_none,
      pVis_print vis _ (show NoPub (.ident "type" :: _) by simp [NoPub]),
      Parse.pVisItem, Parse.pItemDef, peekKw_ident, if_true, pIdent_name hn, hS]
    simp
  | enum d =>
    obtain ⟨ty, stmts, attrs⟩ := d
    simp only [innerOk, Bool.and_eq_true] at hi
    obtain ⟨⟨ha, ht⟩, hs⟩ := hi
    simp only [Print.pItemDef, List.length_append, List.length_cons] at hf
    have hA := fun tail hs => pAttrs_print false tr attrs ha tail hs f (by omega)
    have hS := pEnumStmts_print tr stmts hs rest f (by omega) u
    have hT := pType_print ty ht (Print.pGroup .brace (Print.pEnumStmt tr) ',' tr stmts ++ rest)
      (by simp [Print.pGroup, FollowTy]) f (by omega) u
    simp only [Print.pItemDef, List.append_assoc, List.cons_append]
    simp only [Parse.pItem, peekKw_attrs_vis "use" tr attrs vis "enum" _ (by decide) (by decide),
      peekKw_attrs_vis "backend" tr attrs vis "enum" _ (by decide) (by decide)]
    rw [hA _ (stopAttrs_vis vis "enum" _)]
    simp only [Parse.pAttrItem, peekKw_vis "extern" vis "enum" _ (by decide) (by decide),
      peekKw_vis "impl" vis "enum" _ (by decide) (by decide), Option.bind_none,
      pVis_print vis _ (show NoPub (.ident "enum" :: _) by simp [NoPub]),
      Parse.pVisItem, Parse.pItemDef, peekKw_ident, if_true, pIdent_name hn,
      Parse.pEnumDef, Parse.expectPunct, hT, hS]
    simp

theorem pImpl_print (tr : Bool) (i : G.Impl) (h : implOk i = true) (rest : List K) (f : Nat)
    (hf : (Print.pImpl tr i).length < f) (u : Option Nat) :
    Parse.pItem f (Print.pImpl tr i ++ rest) u = .ok (.impl i, rest, u) := by
  obtain ⟨name, fns, attrs⟩ := i
  simp only [implOk, Bool.and_eq_true] at h
  obtain ⟨⟨hn, ha⟩, hfn⟩ := h
  simp only [Print.pImpl, List.length_append, List.length_cons] at hf
  have hA := fun tail hs => pAttrs_print false tr attrs ha tail hs f (by omega)
  have hS := pFuncs_print tr fns hfn .brace rest f (by omega) u
  simp only [Print.pImpl, List.append_assoc, List.cons_append]
  simp only [Parse.pItem, peekKw_attrs "use" tr attrs "impl" _ (by decide),
    peekKw_attrs "backend" tr attrs "impl" _ (by decide)]
  rw [hA _ (stopAttrs_ident _ _ _)]
  simp [Parse.pAttrItem, Parse.peekKw, pIdent_name hn, hS]

theorem pXType_print (tr : Bool) (x : String × List G.Attr) (h : xtypeOk x = true)
    (rest : List K) (f : Nat) (hf : (Print.pXType tr x).length < f) (u : Option Nat) :
    Parse.pItem f (Print.pXType tr x ++ rest) u = .ok (.xtype x.1 x.2, rest, u) := by
  obtain ⟨name, attrs⟩ := x
  simp only [xtypeOk, Bool.and_eq_true] at h
  simp only [Print.pXType, List.length_append, List.length_cons] at hf
  have hA := fun tail hs => pAttrs_print false tr attrs h.2 tail hs f (by omega)
  simp only [Print.pXType, List.append_assoc, List.cons_append]
  simp only [Parse.pItem, peekKw_attrs "use" tr attrs "extern" _ (by decide),
    peekKw_attrs "backend" tr attrs "extern" _ (by decide)]
  rw [hA _ (stopAttrs_ident _ _ _)]
  simp [Parse.pAttrItem, Parse.peekKw, Parse.pTypeIdent, idOk_kw h.1,
    identTail_stop f name (.punct ';' false :: rest) (by simp [FollowTy]), Parse.expectPunct]

theorem pXVal_print (tr : Bool) (x : G.XVal) (h : xvalOk x = true)
    (rest : List K) (f : Nat) (hf : (Print.pXVal tr x).length < f) (u : Option Nat) :
    Parse.pItem f (Print.pXVal tr x ++ rest) u = .ok (.xval x, rest, u) := by
  obtain ⟨vis, name, ty, attrs⟩ := x
  simp only [xvalOk, Bool.and_eq_true] at h
  obtain ⟨⟨hn, ht⟩, ha⟩ := h
  simp only [Print.pXVal, List.length_append, List.length_cons] at hf
  have hA := fun tail hs => pAttrs_print false tr attrs ha tail hs f (by omega)
  have hT := pType_print ty ht (.punct ';' false :: rest) (by simp [FollowTy]) f (by omega) u
  have hnt : name ≠ "type" := name_ne_kw hn (by decide) (by decide)
  simp only [Print.pXVal, List.append_assoc, List.cons_append, List.nil_append]
  simp only [Parse.pItem, peekKw_attrs_vis "use" tr attrs vis "extern" _ (by decide) (by decide),
    peekKw_attrs_vis "backend" tr attrs vis "extern" _ (by decide) (by decide)]
  rw [hA _ (stopAttrs_vis vis "extern" _)]
  have hx : (Parse.peekKw "extern" (Print.pVis vis ++ .ident "extern" :: .ident name ::
      .punct ':' false :: (Print.pTy ty ++ (.punct ';' false :: rest)))).bind (Parse.peekKw "type") = none := by
    cases vis <;> simp [Print.pVis, Parse.peekKw, hnt]
  simp only [Parse.pAttrItem, hx,
    peekKw_vis "impl" vis "extern" _ (by decide) (by decide),
    pVis_print vis _ (show NoPub (.ident "extern" :: _) by simp [NoPub]),
    Parse.pVisItem, peekKw_ident, if_true, pIdent_name hn, Parse.expectPunct, hT]


/-! use paths -/

theorem peek2_ident (a b : Char) (s : String) (r : List K) : Parse.peek2 a b (.ident s :: r) = none := rfl

theorem pPath_colon2 (f : Nat) (j : Bool) (r : List K) :
    Parse.pPath (f + 1) (.punct ':' true :: .punct ':' j :: r) = Parse.pPath f r := by
  simp [Parse.pPath, Parse.peek2]

theorem pPath_print (p : Path) (h : pathOk p = true) (rest : List K) (f : Nat)
    (hf : (Print.pPath p).length < f) :
    Parse.pPath f (Print.pPath p ++ .punct ';' false :: rest) = .ok (p, .punct ';' false :: rest) := by
  induction p generalizing f with
  | nil =>
    obtain ⟨f, rfl⟩ : ∃ g, f = g + 1 := ⟨f - 1, by omega⟩
    simp [Print.pPath, Parse.pPath, Parse.peek2]
  | cons s p ih =>
    obtain ⟨f, rfl⟩ : ∃ g, f = g + 1 := ⟨f - 1, by omega⟩
    simp only [pathOk, List.all_cons, Bool.and_eq_true] at h
    have hk := idOk_kw h.1
    have hsup : s ≠ "super" := by intro e; subst e; exact absurd hk (by decide)
    cases p with
    | nil =>
      obtain ⟨f, rfl⟩ : ∃ g, f = g + 1 := ⟨f - 1, by simp [Print.pPath] at hf; omega⟩
      simp [Print.pPath, Parse.pPath, hsup, hk,
        identTail_stop (f + 1) s (.punct ';' false :: rest) (by simp [FollowTy]), Parse.peek2]
    | cons t q =>
      obtain ⟨f, rfl⟩ : ∃ g, f = g + 1 := ⟨f - 1, by simp [Print.pPath] at hf; omega⟩
      have ih' := ih (by simpa [pathOk] using h.2) f (by simp [Print.pPath] at hf ⊢; omega)
      simp only [Print.pPath, List.cons_append]
      unfold Parse.pPath
      simp only [hsup, hk, if_false, Bool.false_eq_true,
        identTail_stop (f + 1) s (.punct ':' true :: _) (by simp [FollowTy])]
      rw [pPath_colon2, ih']

theorem pUse_print (p : Path) (h : pathOk p = true) (rest : List K) (f : Nat)
    (hf : (Print.pUse p).length < f) (u : Option Nat) :
    Parse.pItem f (Print.pUse p ++ rest) u = .ok (.use p, rest, u) := by
  have := pPath_print p h rest f (by simp [Print.pUse] at hf; omega)
  simp [Print.pUse, Parse.pItem, peekKw_ident, this, Parse.expectPunct]

/-! backends -/

theorem pBackend_print (b : G.Backend) (h : backendOk b = true) (rest : List K) (f : Nat)
    (hf : 3 < f) (u : Option Nat) :
    Parse.pItem f (Print.pBackend b ++ rest) u = .ok (.backend b, rest, u) := by
  obtain ⟨name, pro, epi⟩ := b
  simp only [backendOk, Bool.and_eq_true] at h
  obtain ⟨⟨hn, hp⟩, he⟩ := h
  obtain ⟨f, rfl⟩ : ∃ g, f = g + 3 := ⟨f - 3, by omega⟩
  have body : Parse.pBackendBody (f + 3) none none
      (Print.pBlock "prologue" pro ++ (Print.pBlock "epilogue" epi ++ (.cl .brace :: rest)))
      = .ok ((pro, epi), .cl .brace :: rest) := by
    cases pro with
    | none =>
      cases epi with
      | none => simp [Print.pBlock, Parse.pBackendBody, atEnd]
      | some e =>
        simp only [optTrimmed, beq_iff_eq] at he
        simp [Print.pBlock, Parse.pBackendBody, atEnd, Parse.pBlock, peekKw_ident,
          Parse.expectPunct, he]
    | some p =>
      simp only [optTrimmed, beq_iff_eq] at hp
      cases epi with
      | none =>
        simp [Print.pBlock, Parse.pBackendBody, atEnd, Parse.pBlock, peekKw_ident,
          Parse.expectPunct, hp]
      | some e =>
        simp only [optTrimmed, beq_iff_eq] at he
        simp [Print.pBlock, Parse.pBackendBody, atEnd, Parse.pBlock, peekKw_ident,
          Parse.expectPunct, hp, he]
  simp only [Print.pBackend, List.cons_append, List.append_assoc, Parse.pItem,
    Parse.pBackend, Parse.expectKw, if_true, pIdent_name hn, Parse.pBlock, Parse.peekKw,
    Parse.expectOpen, List.nil_append]
  simp [body, Parse.expectClose]


/-! modules -/

def pModItem (tr : Bool) : ModItem → List K
  | .use p => Print.pUse p
  | .xtype n a => Print.pXType tr (n, a)
  | .xval x => Print.pXVal tr x
  | .defn i => Print.pItemDef tr i
  | .impl i => Print.pImpl tr i
  | .backend b => Print.pBackend b

def modItemOk : ModItem → Bool
  | .use p => pathOk p
  | .xtype n a => xtypeOk (n, a)
  | .xval x => xvalOk x
  | .defn i => itemOk i
  | .impl i => implOk i
  | .backend b => backendOk b

/-- the items of a module in printing order -/
def itemsOf (m : G.Module) : List ModItem :=
  m.uses.map .use ++ m.xtypes.map (fun x => .xtype x.1 x.2) ++ m.xvals.map .xval ++
    m.defs.map .defn ++ m.impls.map .impl ++ m.backends.map .backend

theorem printK_eq (tr : Bool) (m : G.Module) :
    Print.printK tr m = Print.pAttrs true tr m.attrs ++ (itemsOf m).flatMap (pModItem tr) := by
  simp [Print.printK, itemsOf, List.flatMap_append, List.flatMap_map, pModItem, List.append_assoc]

theorem length_pModItem (tr : Bool) (it : ModItem) : 1 ≤ (pModItem tr it).length := by
  cases it with
  | use p => simp [pModItem, Print.pUse]
  | xtype n a => simp [pModItem, Print.pXType]
  | xval x => simp [pModItem, Print.pXVal]; omega
  | defn i =>
    obtain ⟨v, n, inner⟩ := i
    cases inner <;> simp [pModItem, Print.pItemDef, Print.pGroup] <;> omega
  | impl i => simp [pModItem, Print.pImpl, Print.pGroup]; omega
  | backend b => simp [pModItem, Print.pBackend]

theorem pItem_print (tr : Bool) (it : ModItem) (h : modItemOk it = true) (rest : List K) (f : Nat)
    (hf : (pModItem tr it).length < f) (u : Option Nat) :
    Parse.pItem f (pModItem tr it ++ rest) u = .ok (it, rest, u) := by
  cases it with
  | use p => exact pUse_print p h rest f hf u
  | xtype n a => exact pXType_print tr (n, a) h rest f hf u
  | xval x => exact pXVal_print tr x h rest f hf u
  | defn i => exact pItemDef_print tr i h rest f hf u
  | impl i => exact pImpl_print tr i h rest f hf u
  | backend b =>
    exact pBackend_print b h rest f (by simp [pModItem, Print.pBackend] at hf; omega) u

theorem pItems_print (tr : Bool) (its : List ModItem) (h : its.all modItemOk = true) (fuel : Nat)
    (hfuel : (its.flatMap (pModItem tr)).length < fuel) (f : Nat) (hf : its.length < f)
    (u : Option Nat) :
    Parse.pItems fuel f (its.flatMap (pModItem tr)) u = .ok (its, [], u) := by
  induction its generalizing f with
  | nil =>
    obtain ⟨f, rfl⟩ : ∃ g, f = g + 1 := ⟨f - 1, by omega⟩
    simp [Parse.pItems]
  | cons it its ih =>
    obtain ⟨f, rfl⟩ : ∃ g, f = g + 1 := ⟨f - 1, by omega⟩
    simp only [List.all_cons, Bool.and_eq_true] at h
    simp only [List.flatMap_cons, List.length_append] at hfuel
    have h4 := length_pModItem tr it
    have hne : (pModItem tr it ++ its.flatMap (pModItem tr)).isEmpty = false := by
      cases hh : pModItem tr it with
      | nil => rw [hh] at h4; simp at h4
      | cons _ _ => rfl
    have := pItem_print tr it h.1 (its.flatMap (pModItem tr)) fuel (by omega) u
    simp only [List.flatMap_cons, Parse.pItems, hne, Bool.false_eq_true, if_false, this,
      ih h.2 (by omega) f (by simp at hf; omega)]

theorem fm_some {α β : Type} (sel : β → Option α) (c : α → β) (l : List α)
    (h : ∀ x, sel (c x) = some x) : l.filterMap (sel ∘ c) = l := by
  induction l with
  | nil => rfl
  | cons x xs ih => simp [h, ih]

theorem fm_none {α β γ : Type} (sel : β → Option γ) (c : α → β) (l : List α)
    (h : ∀ x, sel (c x) = none) : l.filterMap (sel ∘ c) = [] := by
  induction l with
  | nil => rfl
  | cons x xs ih => simp [h, ih]

theorem assemble_itemsOf (m : G.Module) : Parse.assemble m.attrs (itemsOf m) = m := by
  obtain ⟨uses, xtypes, xvals, defs, impls, backends, attrs⟩ := m
  simp only [Parse.assemble, itemsOf, List.filterMap_append, List.filterMap_map]
  congr 1
  · rw [fm_some Parse.selUse ModItem.use uses (fun _ => rfl),
      fm_none Parse.selUse (fun x : String × List G.Attr => ModItem.xtype x.fst x.snd) xtypes (fun _ => rfl),
      fm_none Parse.selUse ModItem.xval xvals (fun _ => rfl),
      fm_none Parse.selUse ModItem.defn defs (fun _ => rfl),
      fm_none Parse.selUse ModItem.impl impls (fun _ => rfl),
      fm_none Parse.selUse ModItem.backend backends (fun _ => rfl)]
    simp
  · rw [fm_none Parse.selXType ModItem.use uses (fun _ => rfl),
      fm_some Parse.selXType (fun x : String × List G.Attr => ModItem.xtype x.fst x.snd) xtypes (fun _ => rfl),
      fm_none Parse.selXType ModItem.xval xvals (fun _ => rfl),
      fm_none Parse.selXType ModItem.defn defs (fun _ => rfl),
      fm_none Parse.selXType ModItem.impl impls (fun _ => rfl),
      fm_none Parse.selXType ModItem.backend backends (fun _ => rfl)]
    simp
  · rw [fm_none Parse.selXVal ModItem.use uses (fun _ => rfl),
      fm_none Parse.selXVal (fun x : String × List G.Attr => ModItem.xtype x.fst x.snd) xtypes (fun _ => rfl),
      fm_some Parse.selXVal ModItem.xval xvals (fun _ => rfl),
      fm_none Parse.selXVal ModItem.defn defs (fun _ => rfl),
      fm_none Parse.selXVal ModItem.impl impls (fun _ => rfl),
      fm_none Parse.selXVal ModItem.backend backends (fun _ => rfl)]
    simp
  · rw [fm_none Parse.selDef ModItem.use uses (fun _ => rfl),
      fm_none Parse.selDef (fun x : String × List G.Attr => ModItem.xtype x.fst x.snd) xtypes (fun _ => rfl),
      fm_none Parse.selDef ModItem.xval xvals (fun _ => rfl),
      fm_some Parse.selDef ModItem.defn defs (fun _ => rfl),
      fm_none Parse.selDef ModItem.impl impls (fun _ => rfl),
      fm_none Parse.selDef ModItem.backend backends (fun _ => rfl)]
    simp
  · rw [fm_none Parse.selImpl ModItem.use uses (fun _ => rfl),
      fm_none Parse.selImpl (fun x : String × List G.Attr => ModItem.xtype x.fst x.snd) xtypes (fun _ => rfl),
      fm_none Parse.selImpl ModItem.xval xvals (fun _ => rfl),
      fm_none Parse.selImpl ModItem.defn defs (fun _ => rfl),
      fm_some Parse.selImpl ModItem.impl impls (fun _ => rfl),
      fm_none Parse.selImpl ModItem.backend backends (fun _ => rfl)]
    simp
  · rw [fm_none Parse.selBackend ModItem.use uses (fun _ => rfl),
      fm_none Parse.selBackend (fun x : String × List G.Attr => ModItem.xtype x.fst x.snd) xtypes (fun _ => rfl),
      fm_none Parse.selBackend ModItem.xval xvals (fun _ => rfl),
      fm_none Parse.selBackend ModItem.defn defs (fun _ => rfl),
      fm_none Parse.selBackend ModItem.impl impls (fun _ => rfl),
      fm_some Parse.selBackend ModItem.backend backends (fun _ => rfl)]
    simp

theorem wf_items {m : G.Module} (h : wfB m = true) : (itemsOf m).all modItemOk = true := by
  simp only [wfB, Bool.and_eq_true, List.all_eq_true] at h
  obtain ⟨⟨⟨⟨⟨⟨_, h1⟩, h2⟩, h3⟩, h4⟩, h5⟩, h6⟩ := h
  simp only [itemsOf, List.all_append, List.all_map, Bool.and_eq_true, List.all_eq_true,
    Function.comp_apply, modItemOk]
  exact ⟨⟨⟨⟨⟨h1, fun x hx => h2 x hx⟩, h3⟩, h4⟩, h5⟩, h6⟩

theorem stopAttrs_items (tr : Bool) (its : List ModItem) :
    StopAttrs true (its.flatMap (pModItem tr)) := by
  cases its with
  | nil => simp [StopAttrs]
  | cons it its =>
    cases it with
    | use p => simp [pModItem, Print.pUse, StopAttrs]
    | backend b => simp [pModItem, Print.pBackend, StopAttrs]
    | xtype n a => cases a <;> simp [pModItem, Print.pXType, Print.pAttrs, Print.pAttr, Print.pGroup, StopAttrs]
    | xval x =>
      obtain ⟨v, n, t, a⟩ := x
      cases a <;> cases v <;> simp [pModItem, Print.pXVal, Print.pVis, Print.pAttrs, Print.pAttr, Print.pGroup, StopAttrs]
    | impl i =>
      obtain ⟨n, fns, a⟩ := i
      cases a <;> simp [pModItem, Print.pImpl, Print.pAttrs, Print.pAttr, Print.pGroup, StopAttrs]
    | defn i =>
      obtain ⟨v, n, inner⟩ := i
      cases inner with
      | type d =>
        obtain ⟨ss, a⟩ := d
        cases a <;> cases v <;> simp [pModItem, Print.pItemDef, Print.pVis, Print.pAttrs, Print.pAttr, Print.pGroup, StopAttrs]
      | enum d =>
        obtain ⟨ty, ss, a⟩ := d
        cases a <;> cases v <;> simp [pModItem, Print.pItemDef, Print.pVis, Print.pAttrs, Print.pAttr, Print.pGroup, StopAttrs]

/-- token-level round trip on token kinds -/
theorem parseK_printK (tr : Bool) (m : G.Module) (h : wfB m = true) :
    Parse.parseK (Print.printK tr m) = .ok m := by
  have hi := wf_items h
  have ha : m.attrs.all attrOk = true := by
    simp only [wfB, Bool.and_eq_true] at h; exact h.1.1.1.1.1.1
  have hlen := length_flatMap_ge (pModItem tr) (itemsOf m)
    (fun x _ => by have := length_pModItem tr x; omega)
  rw [printK_eq]
  simp only [Parse.parseK]
  rw [pAttrs_print true tr m.attrs ha _ (stopAttrs_items tr _) _
    (by simp only [List.length_append]; omega)]
  simp only []
  rw [pItems_print tr (itemsOf m) hi _ (by simp only [List.length_append]; omega) _
    (by simp only [List.length_append]; omega)]
  simp [assemble_itemsOf]


end C18
end PyxisVerif
