import PyxisVerif.Spec.C16
/-! helper lemmas for C16 -/
namespace PyxisVerif.C16
open Gen

theorem cast_ne_ok {α β} (r : Res α) (b : β) : (r.cast : Res β) ≠ .ok b := by
  cases r <;> simp [Res.cast]

/-! ## the tables -/

theorem fromStr_eq_lookup (s : String) : CC.fromStr s = documented.lookup s := by
  unfold CC.fromStr documented
  simp only [List.lookup]
  repeat' split
  all_goals simp_all

theorem fromStr_asStr' (c : CC) : CC.fromStr (CC.asStr c) = some c := by
  cases c <;> decide

theorem asStr_inj (a b : CC) (h : a.asStr = b.asStr) : a = b := by
  have ha := fromStr_asStr' a
  rw [h, fromStr_asStr' b] at ha
  exact (Option.some.inj ha).symm

/-! ## the attribute loop of `function::build` -/

/-- `declaredCC` with an explicit initial accumulator -/
def ccStep (acc : Option String) (a : G.Attr) : Option String :=
  match a with | .fn "calling_convention" [.str s] => some s | _ => acc

def declaredFrom (acc : Option String) (attrs : List G.Attr) : Option String :=
  attrs.foldl ccStep acc

theorem declaredCC_eq (attrs : List G.Attr) : declaredCC attrs = declaredFrom none attrs := rfl

/-- loop invariant: the convention in the loop state is `fromStr` of the last declared string,
    and that string is one of the known names -/
def Inv (st : FnAttrSt) (acc : Option String) : Prop :=
  match acc with
  | none => st.cc = none
  | some s => ∃ c, st.cc = some c ∧ CC.fromStr s = some c

theorem fnAttrStep_inv (isVfunc : Bool) (st st' : FnAttrSt) (a : G.Attr) (acc : Option String)
    (hinv : Inv st acc) (h : fnAttrStep isVfunc st a = .ok st') :
    Inv st' (ccStep acc a) := by
  unfold fnAttrStep at h
  split at h
  · rename_i addr
    split at h
    · cases h
    · cases htu : tryUsize addr with
      | none => simp only [htu] at h; cases h
      | some v =>
        simp only [htu] at h
        cases h
        exact hinv
  · split at h
    · cases h
    · cases h; exact hinv
  · rename_i s
    cases hc : CC.fromStr s with
    | none => simp only [hc] at h; cases h
    | some c =>
      simp only [hc] at h
      cases h
      exact ⟨c, rfl, hc⟩
  · cases h
    rename_i h1 h2 h3
    unfold ccStep
    split
    · exact absurd rfl (h3 _)
    · exact hinv

theorem foldl_inv (isVfunc : Bool) (attrs : List G.Attr) (st st' : FnAttrSt) (acc : Option String)
    (hinv : Inv st acc) (h : Res.foldlM (fnAttrStep isVfunc) st attrs = .ok st') :
    Inv st' (declaredFrom acc attrs) := by
  induction attrs generalizing st acc with
  | nil =>
    simp only [Res.foldlM] at h
    cases h
    exact hinv
  | cons a as ih =>
    simp only [Res.foldlM] at h
    split at h
    · rename_i st1 h1
      exact ih st1 _ (fnAttrStep_inv isVfunc st st1 a acc hinv h1) h
    all_goals cases h

/-! ## receivers -/

def isRecv (a : G.Arg) : Bool := match a with | .named .. => false | _ => true

theorem hasReceiver_eq (f : G.Func) : hasReceiver f = f.args.any isRecv := rfl

theorem buildArg_isSelf (reg : Registry) (scope : List Path) (a : G.Arg) (b : SArg)
    (h : buildArg reg scope a = .ok b) :
    b.isSelf = isRecv a := by
  cases a with
  | constSelf => cases h; rfl
  | mutSelf => cases h; rfl
  | named n t =>
    simp only [buildArg] at h
    split at h <;> cases h
    rfl

theorem mapM_any_isSelf (reg : Registry) (scope : List Path) (as : List G.Arg) (bs : List SArg)
    (h : Res.mapM' (buildArg reg scope) as = .ok bs) :
    bs.any SArg.isSelf = as.any isRecv := by
  induction as generalizing bs with
  | nil => simp only [Res.mapM'] at h; cases h; rfl
  | cons a as ih =>
    simp only [Res.mapM'] at h
    split at h
    · rename_i b hb
      split at h
      · rename_i bs' hbs
        cases h
        simp only [List.any_cons, ih bs' hbs, buildArg_isSelf reg scope a b hb]
      all_goals cases h
    all_goals cases h

/-! ## `function::build` -/

theorem specCC_of_inv (f : G.Func) (st : FnAttrSt) (args : List SArg)
    (hinv : Inv st (declaredFrom none f.attrs)) (hany : args.any SArg.isSelf = f.args.any isRecv) :
    specCC f = some (match st.cc with
      | some c => c
      | none => if args.any SArg.isSelf then ccDefaultSelf else ccDefaultNoSelf) := by
  unfold specCC
  rw [declaredCC_eq, hasReceiver_eq]
  generalize declaredFrom none f.attrs = acc at hinv
  cases acc with
  | none =>
    have hinv : st.cc = none := hinv
    simp only [hinv, hany, ccDefaultSelf, ccDefaultNoSelf]
  | some s =>
    obtain ⟨c, hc, hs⟩ := hinv
    simp only [hc, ← fromStr_eq_lookup, hs]

theorem buildFunction_cc (reg : Registry) (scope : List Path) (isVfunc : Bool) (f : G.Func) (sf : SFunc)
    (h : buildFunction reg scope isVfunc f = .ok sf) : specCC f = some sf.cc := by
  unfold buildFunction at h
  split at h
  · cases h
  · split at h
    · rename_i st hst
      have hinv := foldl_inv isVfunc f.attrs ⟨_, none⟩ st none rfl hst
      split at h
      · cases h
      · split at h
        · rename_i args hargs
          have hany := mapM_any_isSelf reg scope f.args args hargs
          have key := specCC_of_inv f st args hinv hany
          split at h
          · cases h
            exact key
          · split at h
            · cases h
              exact key
            all_goals cases h
        · exact absurd h (cast_ne_ok _ _)
    · exact absurd h (cast_ne_ok _ _)

/-! ## vftables -/

theorem zip_any_ne_false {α} [DecidableEq α] (xs ys : List α)
    (h : (xs.zip ys).any (fun p => p.1 != p.2) = false) (i : Nat) (hi : i < xs.length) (hj : i < ys.length) :
    ys[i] = xs[i] := by
  induction xs generalizing ys i with
  | nil => cases hi
  | cons x xs ih =>
    cases ys with
    | nil => cases hj
    | cons y ys =>
      simp only [List.zip_cons_cons, List.any_cons, Bool.or_eq_false_iff, bne_eq_false_iff_eq] at h
      cases i with
      | zero => exact h.1.symm
      | succ i => exact ih ys h.2 i (by simpa using hi) (by simpa using hj)

theorem vft_tail (fns : List SFunc) (bv v : Vft) (ptr : Option Region) (bn : Option String) (ty : DTy)
    (h : (if fns.length < bv.fns.length then Res.err "vftable is missing functions from base class"
            else if (bv.fns.zip fns).any (fun p => p.1 != p.2) then
              .err "vftable has a function that differs from the base class"
            else .ok (some { fns, baseField := bn, ty := ty }, none) : Res (Option Vft × Option Region))
          = .ok (some v, ptr)) :
    ∀ i (hi : i < bv.fns.length), ∃ (hj : i < v.fns.length), v.fns[i] = bv.fns[i] := by
  split at h
  · cases h
  · split at h
    · cases h
    · rename_i hlen hany
      simp only [Res.ok.injEq, Prod.mk.injEq, Option.some.injEq] at h
      obtain ⟨rfl, _⟩ := h
      intro i hi
      have hj : i < fns.length := by omega
      exact ⟨hj, zip_any_ne_false bv.fns fns (by simpa using hany) i hi hj⟩

theorem buildVftable_inherited (s s1 : State) (owner : Path) (vis : Vis) (fb : Option Region) (fns : List SFunc)
    (v : Vft) (ptr : Option Region) (bn : String) (bv : Vft)
    (h : buildVftable s owner vis fb (some fns) = (s1, .ok (some v, ptr)))
    (hb : baseVftable s1.reg fb = .ok (some (bn, bv))) :
    ∀ i (hi : i < bv.fns.length), ∃ (hj : i < v.fns.length), v.fns[i] = bv.fns[i] := by
  unfold buildVftable at h
  simp only at h
  split at h
  · cases h
  · rename_i item _
    have key : ∀ (h : (match s.addItem item with
        | Res.ok s1 =>
          (s1,
            match baseVftable s1.reg fb with
            | Res.ok (some (baseName, bv)) =>
              if fns.length < bv.fns.length then Res.err "vftable is missing functions from base class"
              else
                if ((bv.fns.zip fns).any fun p => p.fst != p.snd) = true then
                  Res.err "vftable has a function that differs from the base class"
                else Res.ok (some { fns := fns, baseField := some baseName, ty := (DTy.raw item.path).cptr }, none)
            | Res.ok none =>
              Res.ok
                (some { fns := fns, baseField := none, ty := (DTy.raw item.path).cptr },
                  some
                    { vis := G.Vis.priv, name := some vftableFieldName, doc := none,
                      ty := RTy.data (DTy.raw item.path).cptr, isBase := false })
            | e => e.cast)
        | e => (s, e.cast)) = (s1, Res.ok (some v, ptr))),
        ∀ i (hi : i < bv.fns.length), ∃ (hj : i < v.fns.length), v.fns[i] = bv.fns[i] := by
      clear h
      intro h'
      split at h'
      · simp only [Prod.mk.injEq] at h'
        obtain ⟨rfl, h'⟩ := h'
        rw [hb] at h'
        exact vft_tail fns bv v ptr _ _ h'
      · simp only [Prod.mk.injEq] at h'
        exact absurd h'.2 (cast_ne_ok _ _)
    split at h
    · split at h
      · cases h
      · exact key h
    · split at h
      · cases h
      · exact key h

/-! ## printers -/

theorem rtyStr_fn (cc : CC) (args : List (String × DTy)) (ret : Option DTy) :
    ∃ rest, Emit.rtyStr (.fn cc args ret) = "unsafe extern \"" ++ cc.asStr ++ "\" fn(" ++ rest := by
  unfold Emit.rtyStr
  simp only []
  exact ⟨_ ++ (_ ++ _), String.append_assoc.trans String.append_assoc⟩

end PyxisVerif.C16
