import PyxisVerif.Spec.C16
/-! helper lemmas for C16 -/
namespace PyxisVerif.C16
open Gen
end PyxisVerif.C16
