import PyxisVerif.Lemmas.C12
import PyxisVerif.Model.Full
/-!
# C12 – the parser model only produces `isize` literals

Inversion of the parser (`Model/Parser.lean`): every `.int z` that `pExpr` returns has passed the
`base10_parse::<isize>` range check; attribute lists are built from `pExpr` results only; items carry
the attribute list that `pAttrs` returned.
-/
namespace PyxisVerif.C12
open Lex (K Delim)
open Parse (R R0 ModItem)

/-- an integer literal in `isize` range -/
def ExprB (e : G.Expr) : Prop := ∀ z, e = .int z → isizeMin ≤ z ∧ z ≤ isizeMax

/-- an attribute whose function arguments are in `isize` range -/
def AttrB (a : G.Attr) : Prop := ∀ n args z, a = .fn n args → G.Expr.int z ∈ args → isizeMin ≤ z ∧ z ≤ isizeMax

theorem attrsBounded_of_all {attrs : List G.Attr} (h : ∀ a ∈ attrs, AttrB a) : AttrsBounded attrs :=
  fun n args z ha hz => h _ ha n args z rfl hz

theorem pExpr_bounded (ts : List K) (e : G.Expr) (r : List K) (h : Parse.pExpr ts = .ok (e, r)) :
    ExprB e := by
  unfold Parse.pExpr at h
  split at h
  · split at h
    · cases h
    · cases h; intro z hz; cases hz
  · cases h; intro z hz; cases hz
  · split at h
    · rename_i neg v r' _
      split at h
      · split at h
        · cases h
          intro z hz
          cases hz
          rename_i hv _
          simp only [Parse.isizeMax] at hv
          simp only [isizeMin, isizeMax]
          omega
        · cases h
      · split at h
        · cases h
          intro z hz
          cases hz
          rename_i hv _
          simp only [Parse.isizeMax] at hv
          simp only [isizeMin, isizeMax]
          omega
        · cases h
    · cases h

/-- everything a terminated list returns satisfies what its element parser guarantees -/
theorem pTerm_inv {α : Type} (P : α → Prop) (p : List K → Option Nat → R α) (sep : Char)
    (hp : ∀ ts u x r u', p ts u = .ok (x, r, u') → P x) :
    ∀ (f : Nat) (ts : List K) (u : Option Nat) (xs : List α) (r : List K) (u' : Option Nat),
      Parse.pTerm p sep f ts u = .ok (xs, r, u') → ∀ x ∈ xs, P x := by
  intro f
  induction f with
  | zero => intro ts u xs r u' h; simp [Parse.pTerm] at h
  | succ f ih =>
    intro ts u xs r u' h
    unfold Parse.pTerm at h
    split at h
    · cases h; intro x hx; cases hx
    · split at h
      · cases h
      · rename_i x0 r0 u0 hp0
        split at h
        · cases h
          intro x hx
          simp only [List.mem_singleton] at hx
          subst hx
          exact hp _ _ _ _ _ hp0
        · split at h
          · cases h
          · split at h
            · cases h
            · rename_i xs1 r1 u1 h1
              cases h
              intro x hx
              rcases List.mem_cons.mp hx with e | e
              · subst e; exact hp _ _ _ _ _ hp0
              · exact ih _ _ _ _ _ h1 x e

theorem pGroup_inv {α : Type} (P : α → Prop) (d : Delim) (p : List K → Option Nat → R α) (sep : Char)
    (hp : ∀ ts u x r u', p ts u = .ok (x, r, u') → P x)
    (f : Nat) (ts : List K) (u : Option Nat) (xs : List α) (r : List K) (u' : Option Nat)
    (h : Parse.pGroup d p sep f ts u = .ok (xs, r, u')) : ∀ x ∈ xs, P x := by
  unfold Parse.pGroup at h
  split at h
  · cases h
  · split at h
    · cases h
    · rename_i xs1 r1 u1 h1
      split at h
      · cases h
      · cases h
        exact pTerm_inv P p sep hp _ _ _ _ _ _ h1

theorem lift_inv {α : Type} (P : α → Prop) (p : List K → R0 α) (hp : ∀ ts x r, p ts = .ok (x, r) → P x)
    (ts : List K) (u : Option Nat) (x : α) (r : List K) (u' : Option Nat)
    (h : Parse.lift p ts u = .ok (x, r, u')) : P x := by
  unfold Parse.lift at h
  split at h
  · rename_i x0 r0 h0; cases h; exact hp _ _ _ h0
  · cases h

theorem pAttrPart_bounded (f : Nat) (ts : List K) (a : G.Attr) (r : List K)
    (h : Parse.pAttrPart f ts = .ok (a, r)) : AttrB a := by
  unfold Parse.pAttrPart at h
  split at h
  · cases h
  · split at h
    · split at h
      · rename_i args r' _ hg
        cases h
        intro n args' z ha hz
        cases ha
        have := pGroup_inv ExprB .paren (Parse.lift Parse.pExpr) ','
          (fun ts u x r u' hh => lift_inv ExprB Parse.pExpr (fun ts x r h => pExpr_bounded ts x r h)
            ts u x r u' hh) _ _ _ _ _ _ hg
        exact this _ hz z rfl
      · cases h
    · split at h
      · split at h
        · cases h; intro n args z ha; cases ha
        · cases h
      · cases h; intro n args z ha; cases ha
    · cases h; intro n args z ha; cases ha

theorem pAttrBody_bounded (f : Nat) (ts : List K) (as : List G.Attr) (r : List K)
    (h : Parse.pAttrBody f ts = .ok (as, r)) : ∀ a ∈ as, AttrB a := by
  unfold Parse.pAttrBody at h
  split at h
  · rename_i as' r' _ hg
    cases h
    exact pGroup_inv AttrB .bracket (Parse.lift (Parse.pAttrPart f)) ','
      (fun ts u x r u' hh => lift_inv AttrB (Parse.pAttrPart f)
        (fun ts x r h => pAttrPart_bounded f ts x r h) ts u x r u' hh) _ _ _ _ _ _ hg
  · cases h

theorem pAttrs_bounded (inner : Bool) : ∀ (f : Nat) (ts : List K) (as : List G.Attr) (r : List K),
    Parse.pAttrs inner f ts = .ok (as, r) → ∀ a ∈ as, AttrB a := by
  intro f
  induction f with
  | zero => intro ts as r h; simp [Parse.pAttrs] at h
  | succ f ih =>
    intro ts as r h
    have step : ∀ (r0 : List K), (match Parse.pAttrBody f r0 with
        | .error e => (.error e : R0 (List G.Attr))
        | .ok (as, r1) =>
          match Parse.pAttrs inner f r1 with
          | .error e => .error e
          | .ok (bs, r2) => .ok (as ++ bs, r2)) = .ok (as, r) → ∀ a ∈ as, AttrB a := by
      intro r0 h
      split at h
      · cases h
      · rename_i as1 r1 h1
        split at h
        · cases h
        · rename_i bs r2 h2
          cases h
          intro a ha
          rcases List.mem_append.mp ha with e | e
          · exact pAttrBody_bounded f _ _ _ h1 a e
          · exact ih _ _ _ h2 a e
    unfold Parse.pAttrs at h
    split at h
    · split at h
      · split at h
        · split at h
          · split at h
            · exact step _ h
            · cases h; intro a ha; cases ha
          · cases h; intro a ha; cases ha
        · exact step _ h
      · cases h; intro a ha; cases ha
    · cases h; intro a ha; cases ha

/-! ## items and modules -/

/-- what `ModuleBounded` asks of one item of the `Module::parse` loop -/
def ModItemB : ModItem → Prop
  | .defn i => ItemBounded i
  | .xtype _ attrs => AttrsBounded attrs
  | _ => True

theorem pTypeDef_attrs (f : Nat) (attrs : List G.Attr) (ts : List K) (u : Option Nat) (d : G.TypeDef)
    (r : List K) (u' : Option Nat) (h : Parse.pTypeDef f attrs ts u = .ok (d, r, u')) :
    d.attrs = attrs := by
  unfold Parse.pTypeDef at h
  split at h
  · cases h; rfl
  · split at h
    · cases h; rfl
    · cases h

theorem pItemDef_bounded (f : Nat) (vis : G.Vis) (attrs : List G.Attr) (ts : List K) (u : Option Nat)
    (i : G.Item) (r : List K) (u' : Option Nat) (hb : AttrsBounded attrs)
    (h : Parse.pItemDef f vis attrs ts u = .ok (i, r, u')) : ItemBounded i := by
  unfold Parse.pItemDef at h
  split at h
  · split at h
    · cases h
    · split at h
      · rename_i d r2 u2 hd
        cases h
        simp only [ItemBounded]
        rw [pTypeDef_attrs _ _ _ _ _ _ _ hd]
        exact hb
      · cases h
  · split at h
    · split at h
      · cases h
      · split at h
        · cases h; simp only [ItemBounded]
        · cases h
    · cases h

theorem pVisItem_bounded (f : Nat) (attrs : List G.Attr) (vis : G.Vis) (ts : List K) (u : Option Nat)
    (x : ModItem) (r : List K) (u' : Option Nat) (hb : AttrsBounded attrs)
    (h : Parse.pVisItem f attrs vis ts u = .ok (x, r, u')) : ModItemB x := by
  unfold Parse.pVisItem at h
  split at h
  · split at h
    · cases h
    · split at h
      · cases h
      · split at h
        · cases h
        · split at h
          · cases h; trivial
          · cases h
  · split at h
    · rename_i i r1 u1 hi
      cases h
      exact pItemDef_bounded _ _ _ _ _ _ _ _ hb hi
    · cases h

theorem pAttrItem_bounded (f : Nat) (attrs : List G.Attr) (ts : List K) (u : Option Nat)
    (x : ModItem) (r : List K) (u' : Option Nat) (hb : AttrsBounded attrs)
    (h : Parse.pAttrItem f attrs ts u = .ok (x, r, u')) : ModItemB x := by
  unfold Parse.pAttrItem at h
  split at h
  · split at h
    · cases h
    · split at h
      · cases h; exact hb
      · cases h
  · split at h
    · split at h
      · cases h
      · split at h
        · cases h; trivial
        · cases h
    · exact pVisItem_bounded _ _ _ _ _ _ _ _ hb h

theorem pItem_bounded (f : Nat) (ts : List K) (u : Option Nat) (x : ModItem) (r : List K)
    (u' : Option Nat) (h : Parse.pItem f ts u = .ok (x, r, u')) : ModItemB x := by
  unfold Parse.pItem at h
  split at h
  · split at h
    · cases h
    · split at h
      · cases h; trivial
      · cases h
  · split at h
    · split at h
      · cases h; trivial
      · cases h
    · split at h
      · cases h
      · rename_i attrs r1 ha
        exact pAttrItem_bounded _ _ _ _ _ _ _
          (attrsBounded_of_all (pAttrs_bounded false _ _ _ _ ha)) h

theorem pItems_bounded (fuel : Nat) : ∀ (f : Nat) (ts : List K) (u : Option Nat) (xs : List ModItem)
    (r : List K) (u' : Option Nat), Parse.pItems fuel f ts u = .ok (xs, r, u') → ∀ x ∈ xs, ModItemB x := by
  intro f
  induction f with
  | zero => intro ts u xs r u' h; simp [Parse.pItems] at h
  | succ f ih =>
    intro ts u xs r u' h
    unfold Parse.pItems at h
    split at h
    · cases h; intro x hx; cases hx
    · split at h
      · cases h
      · rename_i x0 r0 u0 h0
        split at h
        · cases h
        · rename_i xs1 r1 u1 h1
          cases h
          intro x hx
          rcases List.mem_cons.mp hx with e | e
          · subst e; exact pItem_bounded _ _ _ _ _ _ h0
          · exact ih _ _ _ _ _ h1 x e

theorem assemble_bounded (attrs : List G.Attr) (items : List ModItem) (h : ∀ x ∈ items, ModItemB x) :
    ModuleBounded (Parse.assemble attrs items) := by
  constructor
  · intro d hd
    simp only [Parse.assemble, List.mem_filterMap] at hd
    obtain ⟨x, hx, hs⟩ := hd
    cases x <;> simp only [Parse.selDef, Option.some.injEq, reduceCtorEq] at hs
    subst hs
    exact h _ hx
  · intro xt hd
    simp only [Parse.assemble, List.mem_filterMap] at hd
    obtain ⟨x, hx, hs⟩ := hd
    cases x <;> simp only [Parse.selXType, Option.some.injEq, reduceCtorEq] at hs
    subst hs
    exact h _ hx

theorem parseK_bounded (ts : List K) (m : G.Module) (h : Parse.parseK ts = .ok m) : ModuleBounded m := by
  unfold Parse.parseK at h
  simp only [] at h
  split at h
  · cases h
  · split at h
    · cases h
    · cases h
    · rename_i items _ hi
      cases h
      exact assemble_bounded _ _ (pItems_bounded _ _ _ _ _ _ _ hi)

theorem parseStr_bounded (s : String) (m : G.Module) (h : Parse.parseStr s = .ok m) :
    ModuleBounded m := by
  unfold Parse.parseStr at h
  split at h
  · cases h
  · unfold Parse.parseModule at h
    split at h
    · rename_i m' hk
      cases h
      exact parseK_bounded _ _ hk
    · cases h

/-! ## the modules `resolveTexts` produces -/

theorem mapM_inv {α β : Type} (f : α → Except String β) (P : β → Prop) :
    ∀ (l : List α) (r : List β), (∀ a b, a ∈ l → f a = .ok b → P b) → l.mapM f = .ok r → ∀ b ∈ r, P b := by
  intro l
  induction l with
  | nil =>
    intro r _ h
    simp only [List.mapM_nil, pure, Except.pure, Except.ok.injEq] at h
    subst h; intro b hb; cases hb
  | cons a l ih =>
    intro r hf h
    simp only [List.mapM_cons, bind, Except.bind, pure, Except.pure] at h
    split at h
    · cases h
    · rename_i b hb
      split at h
      · cases h
      · rename_i bs hbs
        cases h
        intro x hx
        rcases List.mem_cons.mp hx with e | e
        · subst e; exact hf a _ (by simp) hb
        · exact ih bs (fun a' b' ha' => hf a' b' (by simp [ha'])) hbs x e

theorem resolveTexts_bounded (c c' : Case) (ht : c.allText = true) (h : resolveTexts c = .ok c') :
    CaseBounded c' ∧ c'.ps = c.ps := by
  unfold resolveTexts at h
  simp only [bind, Except.bind, pure, Except.pure] at h
  split at h
  · cases h
  · rename_i mods hm
    cases h
    refine ⟨?_, rfl⟩
    intro path file m hmem
    have := mapM_inv _ (fun me => ∀ path file m, me = ModEnt.ast path file m → ModuleBounded m)
      c.modules mods ?_ hm _ hmem path file m rfl
    · exact this
    · intro a b ha hab
      simp only [Case.allText, List.all_eq_true] at ht
      have hta := ht a ha
      cases a with
      | ast p f m => simp at hta
      | text file text =>
        simp only [] at hab
        split at hab
        · rename_i m' hp
          cases hab
          intro path file' m'' e
          cases e
          exact parseStr_bounded _ _ hp
        · cases hab

end PyxisVerif.C12
