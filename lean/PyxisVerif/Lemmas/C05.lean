import PyxisVerif.Spec.C05
/-! helper lemmas for C05 -/

namespace PyxisVerif
open Gen

theorem Res.cast_ne_ok {α β} (e : Res α) (b : β) (h : ∀ a, e ≠ .ok a) : (e.cast : Res β) ≠ .ok b := by
  cases e <;> simp [Res.cast] at *

theorem Res.isOk_eq_false_of_ne {α} (r : Res α) (h : ∀ a, r ≠ .ok a) : r.isOk = false := by
  cases r with
  | ok a => exact absurd rfl (h a)
  | _ => rfl

/-- inversion of an accepted `function::build` -/
theorem buildFunction_ok (reg : Registry) (scope : List Path) (isV : Bool) (f : G.Func) (sf : SFunc)
    (h : buildFunction reg scope isV f = .ok sf) :
    ∃ doc st body args ret, G.docOf f.attrs = some doc ∧
      Res.foldlM (fnAttrStep isV) ⟨if isV then some (.vft f.name) else none, none⟩ f.attrs = .ok st ∧
      st.body = some body ∧ Res.mapM' (buildArg reg scope) f.args = .ok args ∧
      (match f.ret with
       | none => ret = none
       | some t => ∃ t', reg.resolveTy scope t = .ok t' ∧ ret = some t') ∧
      sf.vis = f.vis ∧ sf.name = f.name ∧ sf.doc = doc ∧ sf.body = body ∧ sf.args = args ∧ sf.ret = ret := by
  unfold buildFunction at h
  split at h
  · cases h
  · next doc hdoc =>
    split at h
    · next st hst =>
      split at h
      · cases h
      · next body hbody =>
        split at h
        · next args hargs =>
          cases hret : f.ret with
          | none =>
            simp only [hret] at h
            cases h
            exact ⟨doc, st, body, args, none, hdoc, hst, hbody, hargs, by simp, rfl, rfl, rfl, rfl, rfl, rfl⟩
          | some t =>
            simp only [hret] at h
            cases hr : reg.resolveTy scope t with
            | ok t' =>
              simp only [hr] at h
              cases h
              exact ⟨doc, st, body, args, some t', hdoc, hst, hbody, hargs, ⟨t', hr, rfl⟩, rfl, rfl, rfl, rfl, rfl, rfl⟩
            | defer => simp [hr, Res.cast] at h
            | err m => simp [hr, Res.cast] at h
            | panic m => simp [hr, Res.cast] at h
        · next e hne =>
          exact absurd h (Res.cast_ne_ok _ _ (fun a ha => hne a ha))
    · next e hne =>
      exact absurd h (Res.cast_ne_ok _ _ (fun a ha => hne a ha))

end PyxisVerif

namespace PyxisVerif.C05
open Gen

/-! ## the attribute loop against `declAddress` -/

/-- loop invariant: the body so far is the last written address, and every address seen was non-negative -/
def AddrInv (body : Option FBody) (acc : Option Int) : Prop :=
  body = acc.map (fun a => FBody.addr a.toNat) ∧ ∀ a, acc = some a → 0 ≤ a

def addrStep (acc : Option Int) (a : G.Attr) : Option Int :=
  match a with | .fn "address" [.int v] => some v | _ => acc

theorem addrStep_other (acc : Option Int) (a : G.Attr)
    (h : ∀ (addr : Int), a = G.Attr.fn "address" [G.Expr.int addr] → False) : addrStep acc a = acc := by
  unfold addrStep
  split
  · next v => exact (h v rfl).elim
  · rfl

theorem fnAttrStep_false_inv (st st1 : FnAttrSt) (acc : Option Int) (a : G.Attr)
    (hinv : AddrInv st.body acc) (h : fnAttrStep false st a = .ok st1) :
    AddrInv st1.body (addrStep acc a) := by
  revert h
  fun_cases fnAttrStep false st a
  all_goals intro h
  · cases h
  · next addr _ v hv =>
    cases h
    unfold tryUsize at hv
    split at hv
    · next h0 => cases hv; exact ⟨rfl, by intro a ha; cases ha; exact h0⟩
    · cases hv
  · cases h
  · cases h
  · cases h; rw [addrStep_other _ _ (by intro _ h; simp at h)]; exact hinv
  · cases h; rw [addrStep_other _ _ (by intro _ h; simp at h)]; exact hinv
  · cases h
  · next h1 _ _ => cases h; rw [addrStep_other _ _ h1]; exact hinv

theorem fnAttr_false_fold (attrs : List G.Attr) (st st' : FnAttrSt) (acc : Option Int)
    (hinv : AddrInv st.body acc) (h : Res.foldlM (fnAttrStep false) st attrs = .ok st') :
    AddrInv st'.body (attrs.foldl addrStep acc) := by
  induction attrs generalizing st acc with
  | nil => simp [Res.foldlM] at h; subst h; exact hinv
  | cons a as ih =>
    simp only [Res.foldlM] at h
    split at h
    · next st1 h1 => exact ih st1 _ (fnAttrStep_false_inv st st1 acc a hinv h1) h
    all_goals cases h

theorem declAddress_eq (f : G.Func) : declAddress f = f.attrs.foldl addrStep none := rfl

/-! ## the parameter list against `specArgs` -/

theorem specArgs_of_mapM (reg : Registry) (scope : List Path) (as : List G.Arg) (args : List SArg)
    (h : Res.mapM' (buildArg reg scope) as = .ok args) : specArgs reg scope as = some args := by
  induction as generalizing args with
  | nil => simp [Res.mapM'] at h; subst h; rfl
  | cons a as ih =>
    simp only [Res.mapM'] at h
    split at h
    · next b hb =>
      split at h
      · next bs hbs =>
        cases h
        have := ih bs hbs
        cases a with
        | constSelf => simp [buildArg] at hb; subst hb; simp [specArgs, this]
        | mutSelf => simp [buildArg] at hb; subst hb; simp [specArgs, this]
        | named n t =>
          simp only [buildArg] at hb
          split at hb
          · next t' ht => cases hb; simp [specArgs, ht, this]
          all_goals cases hb
      all_goals cases h
    all_goals cases h

/-! ## the accepted function -/

theorem built_shape_main (reg : Registry) (scope : List Path) (f : G.Func) (sf : SFunc)
    (h : buildFunction reg scope false f = .ok sf) :
    (∃ a : Int, declAddress f = some a ∧ 0 ≤ a ∧ sf.body = .addr a.toNat)
    ∧ specArgs reg scope f.args = some sf.args
    ∧ (match f.ret with
       | none => sf.ret = none
       | some t => ∃ t', reg.resolveTy scope t = .ok t' ∧ sf.ret = some t')
    ∧ sf.name = f.name ∧ sf.vis = f.vis := by
  obtain ⟨doc, st, body, args, ret, _, hst, hbody, hargs, hret, hv, hn, _, hb, ha, hr⟩ :=
    buildFunction_ok reg scope false f sf h
  have hinv := fnAttr_false_fold f.attrs _ st none ⟨rfl, by intro a h; cases h⟩ hst
  rw [← declAddress_eq] at hinv
  refine ⟨?_, ?_, ?_, hn, hv⟩
  · obtain ⟨h1, h2⟩ := hinv
    rw [hbody] at h1
    cases hd : declAddress f with
    | none => rw [hd] at h1; cases h1
    | some a =>
      rw [hd] at h1 h2
      simp only [Option.map_some, Option.some.injEq] at h1
      exact ⟨a, rfl, h2 a rfl, by rw [hb, h1]⟩
  · rw [ha]; exact specArgs_of_mapM reg scope f.args args hargs
  · rw [hr]; exact hret

theorem not_ok_of {α} (r : Res α) (h : ∀ a, r = .ok a → False) : r.isOk = false :=
  Res.isOk_eq_false_of_ne r (fun a ha => h a ha)

/-! ## impl blocks -/

theorem addImplFns_fold (reg : Registry) (scope : List Path) (fns : List G.Func) (acc acc' : InjAcc)
    (h : Res.foldlM (fun (acc : InjAcc) (f : G.Func) =>
      if acc.used.contains f.name then .err "function is already defined in type (or a base type)"
      else match buildFunction reg scope false f with
        | .ok sf => .ok { fns := acc.fns ++ [sf], used := sf.name :: acc.used }
        | e => e.cast) acc fns = .ok acc') :
    ∃ built, Res.mapM' (buildFunction reg scope false) fns = .ok built ∧ acc'.fns = acc.fns ++ built := by
  induction fns generalizing acc with
  | nil => simp [Res.foldlM] at h; subst h; exact ⟨[], rfl, by simp⟩
  | cons f fs ih =>
    simp only [Res.foldlM] at h
    split at h
    · next acc1 h1 =>
      split at h1
      · cases h1
      · split at h1
        · next sf hsf =>
          cases h1
          obtain ⟨built, hb, he⟩ := ih _ h
          refine ⟨sf :: built, ?_, ?_⟩
          · simp [Res.mapM', hsf, hb]
          · simp [he]
        · next e hne => exact absurd h1 (Res.cast_ne_ok _ _ (fun a ha => hne a ha))
    all_goals cases h

/-! ## hexadecimal -/

theorem hexDigit_upper : ∀ d : Fin 16, hexDigit (Char.toUpper (Nat.digitChar d.val)) = some d.val := by
  decide

theorem readHex_toDigits (n : Nat) : readHex ((Nat.toDigits 16 n).map Char.toUpper) = some n := by
  induction n using Nat.strongRecOn with
  | _ n ih =>
    rw [Nat.toDigits_eq_if (by decide)]
    split
    · next h =>
      have := hexDigit_upper ⟨n, h⟩
      simp only at this
      simp [readHex, this]
    · next h =>
      have hlt : n / 16 < n := Nat.div_lt_self (by omega) (by decide)
      have := ih _ hlt
      unfold readHex at this ⊢
      rw [List.map_append, List.foldl_append, this]
      have hd := hexDigit_upper ⟨n % 16, Nat.mod_lt _ (by decide)⟩
      simp only at hd
      simp only [List.map_cons, List.map_nil, List.foldl_cons, List.foldl_nil, hd, Option.some.injEq]
      omega

end PyxisVerif.C05
