import PyxisVerif.Lemmas.C09
/-! helper lemmas for C19 -/
namespace PyxisVerif.C19
open C09

theorem lookup_local_lem (r r' : Registry) (scope : List Path) (name : String)
    (h : ∀ p ∈ candidates scope name, r'.contains p = r.contains p) :
    r'.resolveString scope name = r.resolveString scope name := by
  apply resolveString_congr
  · intro p hp
    apply h
    simp only [candidates, List.mem_append]
    exact .inl (.inl hp)
  · intro p hp
    apply h
    simp only [candidates, List.mem_append]
    rw [List.map_cons, List.mem_cons] at hp
    cases hp with
    | inl e => subst e; exact .inl (.inr (by simp))
    | inr e => exact .inr e

theorem lookup_answer_lem (r : Registry) (scope : List Path) (name : String) (p : Path)
    (h : r.resolveString scope name = some (.raw p)) : p ∈ candidates scope name ∧ r.contains p = true := by
  unfold Registry.resolveString at h
  simp only at h
  split at h
  · rename_i p' hf
    simp only [Option.some.injEq, DTy.raw.injEq] at h
    subst h
    have hm := List.mem_of_find?_eq_some hf
    rw [List.mem_reverse, List.mem_filter] at hm
    refine ⟨?_, hm.2⟩
    simp only [candidates, List.mem_append]
    exact .inl (.inl hm.1)
  · split at h
    · rename_i p' hf
      simp only [Option.some.injEq, DTy.raw.injEq] at h
      subst h
      have hm := List.mem_of_find?_eq_some hf
      have hc := List.find?_some hf
      refine ⟨?_, hc⟩
      simp only [candidates, List.mem_append]
      rw [List.map_cons, List.mem_cons] at hm
      cases hm with
      | inl e => subst e; exact .inl (.inr (by simp))
      | inr e =>
        refine .inr ?_
        rw [List.mem_map] at e ⊢
        obtain ⟨q, hq, e⟩ := e
        exact ⟨q, (List.mem_filter.mp hq).1, e⟩
    · cases h

theorem size_local_lem (r r' : Registry) (t : DTy) (hps : r'.ps = r.ps)
    (h : ∀ p ∈ byValue t, r'.get p = r.get p) : t.size r' = t.size r ∧ t.align r' = t.align r := by
  induction t with
  | raw p =>
    have e := h p (by simp [byValue])
    simp only [DTy.size, DTy.align, e, and_self]
  | cptr t _ => simp only [DTy.size, DTy.align, hps, and_self]
  | mptr t _ => simp only [DTy.size, DTy.align, hps, and_self]
  | arr t n ih =>
    have e := ih (fun p hp => h p (by simpa [byValue] using hp))
    simp only [DTy.size, DTy.align, e.1, e.2, and_self]

theorem enum_items_lem (size : Nat) (ed : EnumDefn) (reg reg' : Registry)
    (i : ItemDef) (hi : i.state = .res { size := size, align := size, inner := .enum ed }) (hc : i.cat = .defined) :
    Emit.itemItems reg' i = Emit.itemItems reg i := by
  unfold Emit.itemItems
  simp only [hc, ItemDef.resolved?, hi]

theorem regionName_congr (reg reg' : Registry) (h : ∀ p, reg'.get p = reg.get p) (r : Region) :
    regionNameAndTypeDef reg' r = regionNameAndTypeDef reg r := by
  unfold regionNameAndTypeDef
  simp only [h]

theorem dfs_congr (reg reg' : Registry) (h : ∀ p, reg'.get p = reg.get p) (fuel : Nat) :
    ∀ (td : TypeDefn) (fields : List String),
      Emit.dfsHierarchy reg' fuel td fields = Emit.dfsHierarchy reg fuel td fields := by
  induction fuel with
  | zero => intro td fields; simp only [Emit.dfsHierarchy]
  | succ n ih =>
    intro td fields
    simp only [Emit.dfsHierarchy, regionName_congr reg reg' h, ih]

theorem type_items_lem (reg reg' : Registry) (path : Path) (size align : Nat) (vis : Vis) (td : TypeDefn)
    (hl : reg'.types.length = reg.types.length)
    (h : ∀ p, reg'.get p = reg.get p) :
    Emit.typeItems reg' path size align vis td = Emit.typeItems reg path size align vis td := by
  simp only [Emit.typeItems, hl, dfs_congr reg reg' h]

theorem dfs_no_bases (reg : Registry) (n : Nat) (td : TypeDefn) (fields : List String)
    (hb : ∀ r ∈ td.regions, r.isBase = false) : Emit.dfsHierarchy reg (n + 1) td fields = [] := by
  have e : td.regions.filter (·.isBase) = [] := by
    rw [List.filter_eq_nil_iff]
    intro a ha
    simp [hb a ha]
  simp only [Emit.dfsHierarchy, e, List.flatMap_nil]

theorem type_items_no_bases_lem (reg reg' : Registry) (path : Path) (size align : Nat) (vis : Vis) (td : TypeDefn)
    (hb : ∀ r ∈ td.regions, r.isBase = false) :
    Emit.typeItems reg' path size align vis td = Emit.typeItems reg path size align vis td := by
  simp only [Emit.typeItems, dfs_no_bases _ _ td [] hb]

theorem filterMap_congr' {α β} (f g : α → Option β) (l : List α) (h : ∀ x ∈ l, f x = g x) :
    l.filterMap f = l.filterMap g := by
  induction l with
  | nil => rfl
  | cons a l ih =>
    simp only [List.filterMap_cons, h a (List.mem_cons_self ..)]
    rw [ih (fun x hx => h x (List.mem_cons_of_mem _ hx))]

theorem flatMap_congr' {α β} (f g : α → List β) (l : List α) (h : ∀ x ∈ l, f x = g x) :
    l.flatMap f = l.flatMap g := by
  induction l with
  | nil => rfl
  | cons a l ih =>
    simp only [List.flatMap_cons, h a (List.mem_cons_self ..)]
    rw [ih (fun x hx => h x (List.mem_cons_of_mem _ hx))]

theorem module_file_lem (s s' : State) (key : Path) (m : Mod)
    (h : ∀ p ∈ m.defPaths, s'.reg.get p = s.reg.get p)
    (hi : ∀ p ∈ m.defPaths, ∀ i, s.reg.get p = some i → Emit.itemItems s'.reg i = Emit.itemItems s.reg i) :
    Emit.moduleFile s' key m = Emit.moduleFile s key m := by
  unfold Emit.moduleFile
  have e1 : m.defPaths.filterMap s'.reg.get = m.defPaths.filterMap s.reg.get :=
    filterMap_congr' _ _ _ h
  have e2 : (Emit.sortBy (fun (a b : ItemDef) => Path.le a.path b.path) (m.defPaths.filterMap s.reg.get)).flatMap
        (Emit.itemItems s'.reg)
      = (Emit.sortBy (fun (a b : ItemDef) => Path.le a.path b.path) (m.defPaths.filterMap s.reg.get)).flatMap
        (Emit.itemItems s.reg) := by
    apply flatMap_congr'
    intro i hm
    unfold Emit.sortBy at hm
    rw [List.mem_mergeSort, List.mem_filterMap] at hm
    obtain ⟨p, hp, hg⟩ := hm
    exact hi p hp i hg
  simp only [e1, e2]

end PyxisVerif.C19
