import PyxisVerif.Props.CaseLift
import PyxisVerif.Props.C03
import PyxisVerif.Props.C04
import PyxisVerif.Props.C05
import PyxisVerif.Props.C07
import PyxisVerif.Props.C11
import PyxisVerif.Props.C13
import PyxisVerif.Props.C14
/-!
# From per-item theorems to every accepted case, part 2 (C03, C04, C05, C07, C11, C13, C14)

`Lemmas/CaseLift.lean` carries the provenance invariant `AllGood` through a whole run and lifts C01, C06, C08, C15,
C16, C17.  This file adds what the remaining properties need (`Props/CaseLift2.lean` states the lifted theorems):

* **properties of states that a whole run keeps** (`Closed`): whatever `add_item` and the resolution of an item keep is
  kept by `SemanticState::new`, `add_module`, every resolution attempt, the resolution loop (`Closed.init`, `.addMod`,
  `.attempt`, `.round`, `.loop`).  Instances: the pointer width (`case_ps`), the well-formedness of the stored modules
  (`ModInv`, `case_modInv`: distinct keys; distinct definition paths, children of the module's path, entries of the
  registry), "every item of a non-root module is listed in its module" (`Listed`, `case_listed` – needs pairwise
  distinct module paths, `listed_fold`), "every module path of the case is stored" (`case_modules_present`).
* **C03**: the layout core (`Layout.resolve`, `Layout.alignCheck`) does not look at the payload of the fields it places
  (`resolve_U_eq`, `alignCheck_U`), so an accepted `type_definition::build` is an accepted C03 description
  (`verdict_of_layout`) – the `TypeSpec` read off the pending fields (`specType`); `case_layout_master` states the layout
  of every emitted struct of an accepted case in the final registry.
* **C04**: `case_vftable_master` – the vftable block of every emitted struct converts to its table, and the final
  registry holds exactly the item `vftable::build_type` generates from it.
* **C05 / C11**: a finer invariant on the stored modules (`ModSrc`, `ModOf2`: a stored module is `add_module` of a module
  *written in the case under its path* – same `use` list, same function blocks), carried through the run with the
  machinery of `Lemmas/CaseLift.lean` (`case_J2`, `case_type_origin2`, `case_enum_origin2`); `case_impl_master` (the
  struct's own functions are exactly the functions of all function blocks of that module for the type, built in order),
  `case_field_types_master`, `case_vfunc_types_master`, `case_modules_src` (the scope every type name is looked up in).
* **C07**: `specBases` – the functions a type inherits from its `#[base]` fields, all bases in order – and
  `injectBases_exact` / `case_fns_exact`: the functions of every emitted struct are exactly `specBases`, read in the
  final registry, followed by its own; every `#[base]` field is a named field of a resolved struct.
* **C13**: `buildType_defaultable`, `case_stmts_master`.

Definitions (specification part) are marked `def` / `structure` and are interleaved with the lemmas that use them.
-/
namespace PyxisVerif.CaseLift2
open Gen Layout CaseLift

/-! ### properties of states that a whole run keeps -/

/-- a property of states that `add_item` and the resolution of an item keep -/
structure Closed (I : State → Prop) : Prop where
  addItem : ∀ s s' i, I s → s.addItem i = .ok s' → I s'
  setState : ∀ s p st, I s → I { s with reg := s.reg.setState p st }

theorem Closed.reach2 {I : State → Prop} (hI : Closed I) {s s1 : State} {owner : Path}
    (hr : C02.Reach2 s s1 owner) (hs : I s) : I s1 := by
  rcases hr with rfl | ⟨vis, fns, item, _, _, ha⟩
  · exact hs
  · exact hI.addItem s s1 item hs ha

theorem Closed.attempt {I : State → Prop} (hI : Closed I) (s : State) (p : Path) (hs : I s) :
    I (attemptItem s p).1 := by
  unfold attemptItem
  split
  · exact hs
  · split
    · exact hs
    · next d hd =>
      split
      · next td htd =>
        have sh := hI.reach2 (C02.buildType_reach2 s p d.vis td) hs
        split
        · next s1 r hb => rw [hb] at sh; exact hI.setState s1 p (.res r) sh
        · next s1 hb => rw [hb] at sh; exact sh
        · next s1 m hb => rw [hb] at sh; exact sh
        · next s1 m hb => rw [hb] at sh; exact sh
      · split
        · next r _ => exact hI.setState s p (.res r) hs
        · exact hs
        · exact hs
        · exact hs

theorem Closed.round {I : State → Prop} (hI : Closed I) (l : List Path) (s : State) (hs : I s) :
    I (runRound s l).1 := by
  induction l generalizing s with
  | nil => exact hs
  | cons p ps ih =>
    have h2 := hI.attempt s p hs
    unfold runRound
    split
    · next s1 ha => rw [ha] at h2; exact ih s1 h2
    · next s1 e _ ha => rw [ha] at h2; exact h2

theorem Closed.loop {I : State → Prop} (hI : Closed I) (prio : List Path) (fuel : Nat) (s : State)
    (hs : I s) (s' : State) (hl : resolveLoop prio fuel s = .ok s') : I s' := by
  induction fuel generalizing s with
  | zero => simp [resolveLoop] at hl
  | succ n ih =>
    unfold resolveLoop at hl
    simp only [] at hl
    split at hl
    · cases hl; exact hs
    · have hr2 := hI.round (s.reg.unresolved prio) s hs
      split at hl
      · next s1 h1 =>
        rw [h1] at hr2
        split at hl
        · cases hl
        · exact ih s1 hr2 hl
      · cases hl
      · cases hl
      · cases hl

theorem Closed.init {I : State → Prop} (hI : Closed I) (ps : Nat)
    (h0 : I { modules := [([], ({} : Mod))], reg := { ps := ps } }) : I (State.new ps) := by
  rw [C02.new_eq]
  have : ∀ (l : List (String × Nat)) (s : State), I s → I (l.foldl C02.newStep s) := by
    intro l
    induction l with
    | nil => intro s hs; exact hs
    | cons x l ih =>
      intro s hs
      simp only [List.foldl_cons]
      apply ih
      unfold C02.newStep
      split
      · next s' ha => exact hI.addItem s s' _ hs ha
      · exact hs
  exact this _ _ h0

/-- `add_module` keeps a `Closed` property that storing the fresh module keeps -/
theorem Closed.addMod {I : State → Prop} (hI : Closed I) (s s' : State) (m : G.Module) (path : Path)
    (hput : ∀ xvals doc, I (s.putModule path (C14.newMod m path xvals doc)))
    (h : s.addModule m path = .ok s') : I s' := by
  obtain ⟨xvals, doc, s2, _, h1, h2⟩ := C14.addModule_inv s s' m path h
  have k2 : I s2 :=
    (C12.PO.foldlM_inv (S := fun _ => True) I (C14.defStep path) m.defs _ (hput xvals doc)
      (fun b d _ hb => ⟨fun _ _ => trivial, fun b' hb' => by
        obtain ⟨_, i, _, ha⟩ := C14.defStep_spec path b d b' hb'
        exact hI.addItem b b' i hb ha⟩)).2 s2 h1
  exact (C12.PO.foldlM_inv (S := fun _ => True) I (C14.xtypeStep path) m.xtypes _ k2
      (fun b xt _ hb => ⟨fun _ _ => trivial, fun b' hb' => by
        obtain ⟨_, i, _, ha⟩ := C14.xtypeStep_spec path b xt b' hb'
        exact hI.addItem b b' i hb ha⟩)).2 s' h2

/-- `add_item`, with the module it changes: the one stored under the parent of the item's path -/
theorem addItem_inv' (s s' : State) (i : ItemDef) (h : s.addItem i = .ok s') :
    ∃ parent m, Path.parent? i.path = some parent ∧ s.getModule parent = some m ∧
      s' = { modules := s.modules.map (fun e => if e.1 == parent then
                (e.1, { m with defPaths := if m.defPaths.contains i.path then m.defPaths else i.path :: m.defPaths }) else e),
             reg := s.reg.add i } := by
  unfold State.addItem at h
  split at h
  · cases h
  · next parent hp =>
    split at h
    · cases h
    · next m hm =>
      simp only [Res.ok.injEq] at h
      exact ⟨parent, m, hp, hm, h.symm⟩

/-- one step of `Case.initialState` -/
def modStep (s : State) (me : ModEnt) : Res State :=
  match me with
  | .ast path _ m => s.addModule m path
  | .text _ _ => .err "tmodule: text modules are handled by the parser model"

theorem initialState_eq (c : Case) : c.initialState = Res.foldlM modStep (State.new c.ps) c.modules := rfl

/-- the pointer width of the registry never changes -/
theorem ps_closed (ps : Nat) : Closed (fun t : State => t.reg.ps = ps) :=
  ⟨fun t t' i ht ha => by rw [C14.addItem_reg t t' i ha]; exact ht, fun _ _ _ ht => ht⟩

/-- **the pointer width of the final registry of an accepted case is the case's** -/
theorem case_ps (c : Case) (s : State) (h : c.run = .ok s) : s.reg.ps = c.ps := by
  unfold Case.run at h
  split at h
  · next s0 hs0 =>
    rw [initialState_eq] at hs0
    have h0 : s0.reg.ps = c.ps := by
      refine (C12.PO.foldlM_inv (S := fun _ => True) (fun t : State => t.reg.ps = c.ps) modStep c.modules _
        ((ps_closed c.ps).init c.ps rfl) ?_).2 s0 hs0
      intro b me _ hb
      cases me with
      | ast path file m =>
        exact ⟨fun _ _ => trivial, fun b' hb' => (ps_closed c.ps).addMod b b' m path (fun _ _ => hb) hb'⟩
      | text f t => exact ⟨fun _ _ => trivial, fun _ h => by cases h⟩
    obtain ⟨s1, hl, ms, hms, rfl⟩ := C09.build_ok_inv s0 c.prio s h
    exact (ps_closed c.ps).loop c.prio _ s0 h0 s1 hl
  · cases h
  · cases h
  · cases h


/-- forget the payload of a pending field -/
def pfU {β} (f : PField β) : PField Unit := { addr := f.addr, size := f.size, align := f.align, isArr := f.isArr, val := () }
/-- forget the payload of a placed region -/
def plU {β} (p : Placed β) : Placed Unit := ⟨p.size, p.align, p.src.map fun _ => ()⟩
def stU {β} (st : St β) : St Unit := (st.1.map plU, st.2)

def rmap {α β} (f : α → β) : Res α → Res β
  | .ok a => .ok (f a)
  | .defer => .defer
  | .err m => .err m
  | .panic m => .panic m

theorem rmap_ok_inv {α β} (f : α → β) (r : Res α) (b : β) (h : rmap f r = .ok b) : ∃ a, r = .ok a ∧ f a = b := by
  cases r with
  | ok a => simp only [rmap, Res.ok.injEq] at h; exact ⟨a, rfl, h⟩
  | defer => cases h
  | err m => cases h
  | panic m => cases h

theorem push_U {β} (st : St β) (sz : Res (Option Nat)) (al : Option Nat) (arr : Bool) (src : Option β) :
    push (stU st) sz al arr (src.map fun _ => ()) = rmap stU (push st sz al arr src) := by
  unfold push
  cases sz with
  | ok o =>
    cases o with
    | none => rfl
    | some s =>
      have e : (stU st).2 = st.2 := rfl
      simp only [e]
      by_cases c1 : s = 0 ∧ arr = true
      · rw [if_pos c1, if_pos c1]; rfl
      · rw [if_neg c1, if_neg c1]
        by_cases c2 : st.2 + s ≤ usizeMax
        · rw [if_pos c2, if_pos c2]
          simp [rmap, stU, plU]
        · rw [if_neg c2, if_neg c2]; rfl
  | defer => rfl
  | err m => rfl
  | panic m => rfl

theorem pushPad_U {β} (st : St β) (n : Nat) : pushPad (stU st) n = rmap stU (pushPad st n) :=
  push_U st _ _ _ none

theorem pushField_U {β} (st : St β) (f : PField β) : pushField (stU st) (pfU f) = rmap stU (pushField st f) :=
  push_U st _ _ _ (some f.val)

theorem place_U {β} (fields : List (PField β)) (st : St β) :
    place (stU st) (fields.map pfU) = rmap stU (place st fields) := by
  induction fields generalizing st with
  | nil => rfl
  | cons f fs ih =>
    obtain ⟨addr, size, align, isArr, val⟩ := f
    simp only [List.map_cons]
    unfold place
    cases addr with
    | some a =>
      simp only [pfU]
      have e1 : (stU st).2 = st.2 := rfl
      rw [e1]
      split
      · rfl
      · have hp := pushPad_U st (a - st.2)
        cases h1 : pushPad st (a - st.2) with
        | ok st1 =>
          rw [h1] at hp
          simp only [rmap] at hp
          rw [hp]
          simp only []
          have hf := pushField_U st1 (⟨some a, size, align, isArr, val⟩ : PField β)
          simp only [pfU] at hf
          cases h2 : pushField st1 (⟨some a, size, align, isArr, val⟩ : PField β) with
          | ok st2 =>
            rw [h2] at hf
            simp only [rmap] at hf
            rw [hf]
            simp only []
            exact ih st2
          | defer => rw [h2] at hf; simp only [rmap] at hf; rw [hf]; rfl
          | err m => rw [h2] at hf; simp only [rmap] at hf; rw [hf]; rfl
          | panic m => rw [h2] at hf; simp only [rmap] at hf; rw [hf]; rfl
        | defer => rw [h1] at hp; simp only [rmap] at hp; rw [hp]; rfl
        | err m => rw [h1] at hp; simp only [rmap] at hp; rw [hp]; rfl
        | panic m => rw [h1] at hp; simp only [rmap] at hp; rw [hp]; rfl
    | none =>
      simp only [pfU]
      have hf := pushField_U st (⟨none, size, align, isArr, val⟩ : PField β)
      simp only [pfU] at hf
      cases h2 : pushField st (⟨none, size, align, isArr, val⟩ : PField β) with
      | ok st2 =>
        rw [h2] at hf
        simp only [rmap] at hf
        rw [hf]
        simp only []
        exact ih st2
      | defer => rw [h2] at hf; simp only [rmap] at hf; rw [hf]; rfl
      | err m => rw [h2] at hf; simp only [rmap] at hf; rw [hf]; rfl
      | panic m => rw [h2] at hf; simp only [rmap] at hf; rw [hf]; rfl

theorem padTail_U {β} (st : St β) (target : Option Nat) : padTail (stU st) target = rmap stU (padTail st target) := by
  unfold padTail
  cases target with
  | none => rfl
  | some t =>
    simp only []
    have e1 : (stU st).2 = st.2 := rfl
    rw [e1]
    split
    · exact pushPad_U st _
    · rfl

theorem sumSizes_U {β} (rs : List (Placed β)) : sumSizes (rs.map plU) = sumSizes rs := by
  unfold sumSizes
  simp [plU, Function.comp_def]

/-- the layout core does not look at the payload: an accepted placement is accepted with the payloads forgotten -/
theorem resolve_U {β} (vptr : Option (PField β)) (fields : List (PField β)) (target : Option Nat)
    (placed : List (Placed β)) (size : Nat) (h : resolve vptr fields target = .ok (placed, size)) :
    resolve (vptr.map pfU) (fields.map pfU) target = .ok (placed.map plU, size) := by
  obtain ⟨st0, st1, st2, h0, h1, h2, rfl, rfl, ht⟩ := C01.resolve_inv vptr fields target placed size h
  have h1' := place_U fields st0
  rw [h1] at h1'
  have h2' := padTail_U st1 target
  rw [h2] at h2'
  have e : (stU st2).1 = st2.1.map plU := rfl
  cases vptr with
  | none =>
    simp only [Res.ok.injEq] at h0
    subst h0
    unfold resolve
    simp only [Option.map_none]
    have : stU (([], 0) : St β) = ([], 0) := rfl
    rw [this] at h1'
    rw [h1']
    simp only [rmap]
    rw [h2']
    simp only [rmap, e]
    rw [sumSizes_U]
    cases target with
    | none => rfl
    | some t =>
      simp only []
      rw [if_neg (by rw [ht t rfl]; simp)]
  | some v =>
    simp only [] at h0
    have h0' := pushField_U ([], 0) v
    rw [h0] at h0'
    have : stU (([], 0) : St β) = ([], 0) := rfl
    rw [this] at h0'
    unfold resolve
    simp only [Option.map_some]
    rw [h0']
    simp only [rmap]
    rw [h1']
    simp only [rmap]
    rw [h2']
    simp only [rmap, e]
    rw [sumSizes_U]
    cases target with
    | none => rfl
    | some t =>
      simp only []
      rw [if_neg (by rw [ht t rfl]; simp)]


theorem requestedAlign_U {β} (ps : Nat) (a? : Option Nat) (rs : List (Placed β)) :
    requestedAlign ps a? (rs.map plU) = requestedAlign ps a? rs := by
  unfold requestedAlign
  cases a? with
  | some a => rfl
  | none =>
    cases rs with
    | nil => rfl
    | cons r rs =>
      cases rs with
      | nil => rfl
      | cons r' rs => rfl

theorem foldlM_map {α β γ} (f : γ → β → Res γ) (g : α → β) (l : List α) (c : γ) :
    Res.foldlM f c (l.map g) = Res.foldlM (fun c a => f c (g a)) c l := by
  induction l generalizing c with
  | nil => rfl
  | cons a l ih =>
    simp only [List.map_cons, Res.foldlM]
    cases f c (g a) with
    | ok c' => exact ih c'
    | defer => rfl
    | err m => rfl
    | panic m => rfl

theorem lcmAll_U {β} (rs : List (Placed β)) : lcmAll (rs.map plU) = lcmAll rs := by
  unfold lcmAll
  rw [foldlM_map]
  rfl

theorem fieldsAligned_U {β} (rs : List (Placed β)) (off : Nat) : fieldsAligned off (rs.map plU) = fieldsAligned off rs := by
  induction rs generalizing off with
  | nil => rfl
  | cons r rs ih =>
    simp only [List.map_cons, fieldsAligned]
    have e1 : (plU r).align = r.align := rfl
    have e2 : (plU r).size = r.size := rfl
    rw [e1, e2]
    cases r.align with
    | none => rfl
    | some a => simp only [ih]

/-- the alignment block does not look at the payload either -/
theorem alignCheck_U {β} (ps : Nat) (packed : Bool) (a? : Option Nat) (rs : List (Placed β)) (size : Nat) :
    alignCheck ps packed a? (rs.map plU) size = alignCheck ps packed a? rs size := by
  unfold alignCheck
  rw [requestedAlign_U, lcmAll_U, fieldsAligned_U]


/-- the layout core does not look at the payload (as an equation) -/
theorem resolve_U_eq {β} (vptr : Option (PField β)) (fields : List (PField β)) (target : Option Nat) :
    resolve (vptr.map pfU) (fields.map pfU) target =
      rmap (fun x => (x.1.map plU, x.2)) (resolve vptr fields target) := by
  have e0 : (([], 0) : St Unit) = stU (([], 0) : St β) := rfl
  cases vptr with
  | none =>
    unfold resolve
    simp only [Option.map_none]
    rw [e0, place_U]
    cases place ([], 0) fields with
    | ok st1 =>
      simp only [rmap]
      rw [padTail_U]
      cases padTail st1 target with
      | ok st2 =>
        simp only [rmap]
        have e : (stU st2).1 = st2.1.map plU := rfl
        rw [e, sumSizes_U]
        cases target with
        | none => rfl
        | some t =>
          simp only []
          split <;> rfl
      | defer => rfl
      | err m => rfl
      | panic m => rfl
    | defer => rfl
    | err m => rfl
    | panic m => rfl
  | some v =>
    unfold resolve
    simp only [Option.map_some]
    rw [e0, pushField_U]
    cases pushField ([], 0) v with
    | ok st0 =>
      simp only [rmap]
      rw [place_U]
      cases place st0 fields with
      | ok st1 =>
        simp only [rmap]
        rw [padTail_U]
        cases padTail st1 target with
        | ok st2 =>
          simp only [rmap]
          have e : (stU st2).1 = st2.1.map plU := rfl
          rw [e, sumSizes_U]
          cases target with
          | none => rfl
          | some t =>
            simp only []
            split <;> rfl
        | defer => rfl
        | err m => rfl
        | panic m => rfl
      | defer => rfl
      | err m => rfl
      | panic m => rfl
    | defer => rfl
    | err m => rfl
    | panic m => rfl

/-! ### the `TypeSpec` of C03 read off an accepted type -/

/-- the C03 view of a pending field in registry `reg`: its written address, the size and alignment of its type, whether
    the type is an array -/
def specField (reg : Registry) (q : Option Nat × Region) : C03.FieldSpec :=
  { addr := q.1,
    size := match q.2.ty.size reg with | .ok (some n) => n | _ => 0,
    align := (q.2.ty.align reg).getD 0,
    isArray := q.2.ty.isArray }

/-- the C03 view of a type: whether it owns a vftable pointer, its declared fields, the `size` / `align` / `packed`
    attributes -/
def specType (reg : Registry) (ownPtr : Bool) (pending : List (Option Nat × Region)) (ta : TypeAttrs) : C03.TypeSpec :=
  { vft := ownPtr, fields := pending.map (specField reg), size? := ta.targetSize, align? := ta.align,
    packed := ta.packed }

theorem zipIdx_map_fst' {α β} (l : List α) (F : α → β) (n : Nat) : (l.zipIdx n).map (fun p => F p.1) = l.map F := by
  induction l generalizing n with
  | nil => rfl
  | cons a l ih => simp only [List.zipIdx_cons, List.map_cons, ih]

/-- **an accepted layout is an accepted C03 description**: when the layout core accepts the pointer region (none, or
    the type's own pointer) and the declared fields, and the alignment block accepts the result, C03's `verdict` – the
    same two functions run on the `TypeSpec` read off the fields – is that size and alignment -/
theorem verdict_of_layout (reg : Registry) (vptr : Option Region)
    (hv : vptr = none ∨ ∃ vpath, vptr = some (C06.ownPointer vpath))
    (pending : List (Option Nat × Region)) (ta : TypeAttrs) (placed : List (Placed Region)) (size a : Nat)
    (hres : resolve (vptr.map (toPField reg none)) (pending.map fun p => toPField reg p.1 p.2) ta.targetSize
      = .ok (placed, size))
    (hal : alignCheck reg.ps ta.packed ta.align placed size = .ok a) :
    C03.verdict reg.ps (specType reg vptr.isSome pending ta) = .ok (size, a) := by
  have hU := resolve_U _ _ _ _ _ hres
  obtain ⟨_, hf⟩ := resolve_sizes _ _ _ _ _ hres
  have e1 : (vptr.map (toPField reg none)).map pfU =
      (if vptr.isSome then some (C03.vptrField reg.ps) else none).map pfU := by
    rcases hv with rfl | ⟨vpath, rfl⟩
    · rfl
    · rfl
  have e2 : (pending.map fun p => toPField reg p.1 p.2).map pfU =
      (C03.pfields (specType reg vptr.isSome pending ta)).map pfU := by
    unfold C03.pfields specType
    simp only [List.map_map]
    rw [show ((pfU ∘ fun (p : C03.FieldSpec × Nat) => p.1.toPField (p.2 + 1))) =
      (fun (p : C03.FieldSpec × Nat) => (fun f : C03.FieldSpec => pfU (f.toPField 0)) p.1) from rfl]
    rw [zipIdx_map_fst' (pending.map (specField reg)) (fun f : C03.FieldSpec => pfU (f.toPField 0)) 0, List.map_map]
    apply List.map_congr_left
    intro q hq
    obtain ⟨n, hn⟩ := hf (toPField reg q.1 q.2) (List.mem_map.mpr ⟨q, hq, rfl⟩)
    have hn' : q.2.ty.size reg = .ok (some n) := hn
    obtain ⟨al, hal'⟩ := Option.isSome_iff_exists.mp (Mono.ralign_of_size reg q.2.ty n hn')
    simp only [Function.comp, pfU, toPField, C03.FieldSpec.toPField, specField, hn', hal', Option.getD_some]
  rw [e1, e2] at hU
  rw [resolve_U_eq] at hU
  obtain ⟨x, hx, hxe⟩ := rmap_ok_inv _ _ _ hU
  obtain ⟨rs, sz⟩ := x
  simp only [Prod.mk.injEq] at hxe
  obtain ⟨hrs, rfl⟩ := hxe
  have hal2 : alignCheck reg.ps ta.packed ta.align rs sz = .ok a := by
    rw [← alignCheck_U, hrs, alignCheck_U]; exact hal
  unfold C03.verdict
  have hx' : resolve (if (specType reg vptr.isSome pending ta).vft = true then some (C03.vptrField reg.ps) else none)
      (C03.pfields (specType reg vptr.isSome pending ta)) (specType reg vptr.isSome pending ta).size? = .ok (rs, sz) := hx
  rw [hx']
  simp only []
  have hal3 : alignCheck reg.ps (specType reg vptr.isSome pending ta).packed
      (specType reg vptr.isSome pending ta).align? rs sz = .ok a := hal2
  rw [hal3]


/-! ### the layout of every emitted struct of an accepted case -/

/-- **the layout of every emitted struct**: a generated vftable struct, or built from a definition written in the case;
    then the layout core (`resolve_regions`), run in the *final* registry on the type's own pointer (if it has one) and
    its declared fields (each from a field statement of the definition, `FieldOf`), yields the struct's size, and the
    alignment block yields its alignment -/
theorem case_layout_master (c : Case) (hps : c.ps = 4 ∨ c.ps = 8) (hb : C12.CaseBounded c) (s : State)
    (h : c.run = .ok s) (p : Path) (i : ItemDef) (r : Resolved) (td : TypeDefn)
    (hg : s.reg.get p = some i) (hs : i.state = .res r) (hin : r.inner = .type td) (hc : i.cat = .defined) :
    (∃ (reg0 : Registry) (owner : Path) (vis : Vis) (fns : List SFunc),
      buildVftableItem reg0 owner vis fns = some i ∧ i.path = p) ∨
    ∃ (item : G.Item) (d : G.TypeDef) (s0 : State) (module : Mod) (ta : TypeAttrs) (sa : StmtAcc) (vptr : Option Region)
      (placed : List (Placed Region)),
      Declared c p item ∧ item.inner = .type d ∧ s0.moduleFor p = some module ∧ C02.Ext s0.reg s.reg ∧
      Res.foldlM typeAttrStep {} d.attrs = .ok ta ∧
      Res.foldlM (stmtStep s0.reg module.scope) {} (d.stmts.zipIdx.map fun q => (q.2, q.1)) = .ok sa ∧
      (∀ q ∈ sa.pending, ∃ st ∈ d.stmts, FieldOf s0.reg module.scope st q) ∧
      (vptr = none ∨ ∃ vpath, vftablePath p = some vpath ∧ vptr = some (C06.ownPointer vpath)) ∧
      resolve (vptr.map (toPField s.reg none)) (sa.pending.map fun q => toPField s.reg q.1 q.2) ta.targetSize
        = .ok (placed, r.size) ∧
      alignCheck s.reg.ps ta.packed ta.align placed r.size = .ok r.align ∧
      nameRegions s.reg 0 placed = .ok td.regions ∧ td.packed = ta.packed := by
  rcases case_type_origin c hps hb s h p i r td hg hs hin hc with hv | ⟨s0, s1, item, d, hok, hinv, _, hD, hget, hd, hbt, he, hi⟩
  · exact Or.inl hv
  · right
    obtain ⟨module, module1, ta, sa, vft, vregion, placed, acc1, acc2, td', hmod, hmod1, hdoc, hta, hsa, hbv, hres, hn, hal,
      hacc1, hacc2, hin', hfns, hvft, _, _, _, _, hpk⟩ := buildType_full s0 s1 p item.vis d r hbt
    rw [hin] at hin'
    cases hin'
    have he01 := Exec.buildVftable_ext s0 s1 p item.vis _ _ _ hbv
    have hprims1 : C02.PrimsOk s1.reg := Exec.primsOk_ext he01 hinv.1.prims
    obtain ⟨hpv, hpf⟩ := pfields_ext he vregion sa.pending ta.targetSize placed r.size hres
    refine ⟨item, d, s0, module, ta, sa, vregion, placed, hD, hd, hmod, he01.trans he, hta, hsa, ?_, ?_,
      by rw [hpv, hpf]; exact hres, by rw [he.ps, ← hpk]; exact hal, ?_, hpk⟩
    · intro q hq
      rcases stmts_pending_src s0.reg module.scope _ {} sa hsa q hq with hnil | ⟨e, he', hfo⟩
      · cases hnil
      · obtain ⟨x, hx, rfl⟩ := List.mem_map.mp he'
        exact ⟨x.1, (List.mem_zipIdx hx).2.2 ▸ List.getElem_mem _, hfo⟩
    · rcases buildVftable_cases s0 s1 p item.vis _ sa.vfns vft vregion hbv with
        ⟨_, _, hp, _⟩ | ⟨_, _, hp, _⟩ | ⟨_, _, _, _, hp, _⟩ | ⟨_, vpath, _, hvp, _, hp, _⟩ | ⟨_, _, _, _, _, _, _, _, _, hp, _⟩
      · exact Or.inl hp
      · exact Or.inl hp
      · exact Or.inl hp
      · exact Or.inr ⟨vpath, hvp, hp⟩
      · exact Or.inl hp
    · rw [← nameRegions_prims s1.reg s.reg hprims1 (Exec.primsOk_ext he hprims1)]
      exact hn

/-- the C03 view of a field whose type's size is known -/
theorem specField_known (reg : Registry) (q : Option Nat × Region) (n : Nat) (hn : q.2.ty.size reg = .ok (some n)) :
    ∃ a, q.2.ty.align reg = some a ∧
      specField reg q = { addr := q.1, size := n, align := a, isArray := q.2.ty.isArray } := by
  obtain ⟨a, ha⟩ := Option.isSome_iff_exists.mp (Mono.ralign_of_size reg q.2.ty n hn)
  exact ⟨a, ha, by simp only [specField, hn, ha, Option.getD_some]⟩


/-! ### C04: the vftable block of every emitted struct and the generated `<T>Vftable` item -/

/-- **the vftable block of every emitted struct and its generated item**: a generated vftable struct has no functions
    and no table of its own; otherwise the struct was built from a definition written in the case, and if the definition
    starts with a vftable block, the block converts (`convertVfuncs`, in the registry the type was built in) to a table
    `out`, which is the type's table if it has one; and when the type has a parent path its table is `out` with accessor
    return type `*const <T>Vftable`, and the final registry holds under `<T>Vftable` exactly the item
    `vftable::build_type` generates from `out` -/
theorem case_vftable_master (c : Case) (hps : c.ps = 4 ∨ c.ps = 8) (hb : C12.CaseBounded c) (s : State)
    (h : c.run = .ok s) (p : Path) (i : ItemDef) (r : Resolved) (td : TypeDefn)
    (hg : s.reg.get p = some i) (hs : i.state = .res r) (hin : r.inner = .type td) (hc : i.cat = .defined) :
    ((∃ (reg0 : Registry) (owner : Path) (vis : Vis) (fns : List SFunc),
        buildVftableItem reg0 owner vis fns = some i ∧ i.path = p) ∧ td.fns = [] ∧ td.vft = none) ∨
    ∃ (item : G.Item) (d : G.TypeDef) (s0 : State) (module : Mod),
      Declared c p item ∧ item.inner = .type d ∧ s0.moduleFor p = some module ∧ C02.Ext s0.reg s.reg ∧
      i = builtItem p item r ∧
      ∀ st gfns, d.stmts[0]? = some st → st.field = .vftable gfns →
        ∃ size out, vftableSizeAttr st.attrs = .ok size ∧ convertVfuncs s0.reg module.scope size gfns = .ok out ∧
          (∀ v, td.vft = some v → v.fns = out) ∧
          ∀ vpath, vftablePath p = some vpath →
            (∃ v, td.vft = some v ∧ v.fns = out ∧ v.ty = .cptr (.raw vpath)) ∧
            ∃ vi, buildVftableItem s0.reg p item.vis out = some vi ∧ vi.path = vpath ∧ s.reg.get vpath = some vi := by
  rcases case_type_origin c hps hb s h p i r td hg hs hin hc with
    ⟨reg0, owner, vis, fns, hv, hp⟩ | ⟨s0, s1, item, d, hok, hinv, hQ, hD, hget, hd, hbt, he, hi⟩
  · obtain ⟨h1, h2⟩ := Exec.vftable_item_plain reg0 owner vis fns i r td hv hs hin
    exact Or.inl ⟨⟨reg0, owner, vis, fns, hv, hp⟩, h1, h2⟩
  · right
    obtain ⟨module, module1, ta, sa, vft, vregion, placed, acc1, acc2, td', hmod, hmod1, hdoc, hta, hsa, hbv, hres, hn, hal,
      hacc1, hacc2, hin', hfns, hvft, _⟩ := buildType_full s0 s1 p item.vis d r hbt
    rw [hin] at hin'
    cases hin'
    have he01 := Exec.buildVftable_ext s0 s1 p item.vis _ _ _ hbv
    refine ⟨item, d, s0, module, hD, hd, hmod, he01.trans he, hi, ?_⟩
    intro st gfns hst hf
    obtain ⟨size, out, hsize, hconv, hvfns⟩ := Exec.stmts_vfns_of_block s0.reg module.scope d.stmts sa hsa st gfns hst hf
    refine ⟨size, out, hsize, hconv, ?_, ?_⟩
    · intro v hv
      rw [hvft] at hv
      rw [hvfns] at hbv
      rcases buildVftable_cases s0 s1 p item.vis _ (some out) vft vregion hbv with
        ⟨h1, _⟩ | ⟨h1, _⟩ | ⟨fns, _, _, _, _, h5⟩ | ⟨fns, vpath, h1, _, _, _, h5⟩ | ⟨fns, vpath, bn, bv, h1, _, _, _, _, _, h7⟩
      · cases h1
      · cases h1
      · rw [h5] at hv; cases hv
      · cases h1; rw [h5] at hv; cases hv; rfl
      · cases h1; rw [h7] at hv; cases hv; rfl
    · intro vpath hvp
      rw [hvfns] at hbv
      rcases Exec.buildVftable_some_inv s0 s1 p item.vis _ out vft vregion hbv with ⟨hnone, _⟩ | ⟨vi, hitem, hget1, _, bf, hv⟩
      · rw [hvp] at hnone; cases hnone
      · have hpath : vi.path = vpath := by
          have := Exec.vftablePath_of_item s0.reg p item.vis out vi hitem
          rw [hvp] at this; cases this; rfl
        obtain ⟨vtd, hstate, _⟩ := C04.vftable_item s0.reg p item.vis out vi hitem
        refine ⟨⟨_, by rw [hvft, hv], rfl, by rw [hpath]⟩, vi, hitem, hpath, ?_⟩
        rw [← hpath]
        exact he.res hget1 hstate


/-! ### a finer invariant on the stored modules: which written module a stored module is -/

/-- the stored module under `path` is the initial root module, or `add_module` of a module written in the case under
    that path: the same path, `use` list and function blocks (keyed by the path of the type they name) -/
def ModSrc (c : Case) (path : Path) (md : Mod) : Prop :=
  (path = [] ∧ md.path = [] ∧ md.uses = [] ∧ md.impls = []) ∨
  ∃ file m, ModEnt.ast path file m ∈ c.modules ∧ md.path = path ∧ md.uses = m.uses ∧
    md.impls = m.impls.map (fun f => (path ++ [f.name], f))

/-- `CaseLift.ModOf` and `ModSrc` -/
def ModOf2 (c : Case) (path : Path) (md : Mod) : Prop := ModOf c path md ∧ ModSrc c path md

/-- two modules of the case written under the same path are the same module (in particular: the paths of the modules of
    the case are pairwise distinct) -/
def DistinctModulePaths (c : Case) : Prop :=
  ∀ path f1 m1 f2 m2, ModEnt.ast path f1 m1 ∈ c.modules → ModEnt.ast path f2 m2 ∈ c.modules → m1 = m2

theorem modOf2_blind (c : Case) : DefPathsBlind (ModOf2 c) := fun _ _ _ h => h

theorem modOf2_root (c : Case) : ModOf2 c [] {} := ⟨modOf_root c, Or.inl ⟨rfl, rfl, rfl, rfl⟩⟩

theorem modOf2_new (c : Case) (path : Path) (file : String) (m : G.Module) (hm : ModEnt.ast path file m ∈ c.modules)
    (xvals : List XValue) (doc : Option String) (hx : Res.mapM' C14.xvalStep m.xvals = .ok xvals) :
    ModOf2 c path (C14.newMod m path xvals doc) :=
  ⟨modOf_new c path file m hm xvals doc hx, Or.inr ⟨file, m, hm, rfl, rfl, rfl⟩⟩

theorem initialState_J2 (c : Case) (hps : c.ps = 4 ∨ c.ps = 8) (hb : C12.CaseBounded c) (s : State)
    (h : c.initialState = .ok s) : J (Declared c) (ModOf2 c) s := by
  unfold Case.initialState at h
  refine (C12.PO.foldlM_inv (S := fun _ => True) (J (Declared c) (ModOf2 c)) _ c.modules _
    ⟨C12.new_okB c.ps hps, ⟨C02.new_sound_lem c.ps, Exec.new_built c.ps, C02.ps_pos_of_ok (C12.new_okB c.ps hps).ok⟩,
     new_mods (modOf2_blind c) (modOf2_root c) c.ps, new_good _ _ c.ps⟩ ?_).2 s h
  intro b me hme hbI
  cases me with
  | ast path file m =>
    refine ⟨fun _ _ => trivial, fun b' hb' => ?_⟩
    have hok := C12.addModule_okB b b' m path hbI.1 (hb path file m hme) hb'
    exact ⟨hok, ⟨C02.addModule_sound_lem b b' m path hbI.2.1.1 hb', Exec.addModule_built b b' m path hbI.2.1.2.1 hb',
      C02.ps_pos_of_ok hok.ok⟩,
      addModule_mods (modOf2_blind c) b b' m path hbI.2.2.1 (fun xvals doc hx => modOf2_new c path file m hme xvals doc hx) hb',
      addModule_good b b' m path hbI.2.2.2 (fun d hd => ⟨path, file, m, hme, hd, rfl⟩) hb'⟩
  | text f t => exact ⟨fun _ _ => trivial, fun _ h => by cases h⟩

/-- the state in which the resolution loop of an accepted case ended, with the finer invariant on the modules -/
theorem case_J2 (c : Case) (hps : c.ps = 4 ∨ c.ps = 8) (hb : C12.CaseBounded c) (s : State) (h : c.run = .ok s) :
    ∃ s1 ms, J (Declared c) (ModOf2 c) s1 ∧
      Res.mapM' (fun (e : Path × Mod) =>
        match resolveXVals s1.reg e.2 with
        | .ok m => Res.ok (e.1, m)
        | x => x.cast) s1.modules = .ok ms ∧ s = { s1 with modules := ms } := by
  unfold Case.run at h
  split at h
  · next s0 hs0 =>
    have h0 := initialState_J2 c hps hb s0 hs0
    obtain ⟨s1, hl, ms, hms, rfl⟩ := C09.build_ok_inv s0 c.prio s h
    exact ⟨s1, ms, resolveLoop_J (modOf2_blind c) c.prio _ s0 h0 s1 hl, hms, rfl⟩
  · cases h
  · cases h
  · cases h

theorem case_good2 (c : Case) (hps : c.ps = 4 ∨ c.ps = 8) (hb : C12.CaseBounded c) (s : State)
    (h : c.run = .ok s) : AllGood (Declared c) (ModsGood (ModOf2 c)) s.reg := by
  obtain ⟨s1, ms, hJ, _, rfl⟩ := case_J2 c hps hb s h
  exact hJ.2.2.2

/-- `CaseLift.case_type_origin`, with the finer invariant on the modules of the state the type was built in -/
theorem case_type_origin2 (c : Case) (hps : c.ps = 4 ∨ c.ps = 8) (hb : C12.CaseBounded c) (s : State)
    (h : c.run = .ok s) (p : Path) (i : ItemDef) (r : Resolved) (td : TypeDefn)
    (hg : s.reg.get p = some i) (hs : i.state = .res r) (hin : r.inner = .type td) (hc : i.cat = .defined) :
    (∃ (reg0 : Registry) (owner : Path) (vis : Vis) (fns : List SFunc),
      buildVftableItem reg0 owner vis fns = some i ∧ i.path = p) ∨
    ∃ (s0 s1 : State) (item : G.Item) (d : G.TypeDef),
      C12.StateOkB s0 ∧ Exec.Inv s0 ∧ ModsGood (ModOf2 c) s0 ∧ Declared c p item ∧
      s0.reg.get p = some (declItem p item) ∧
      item.inner = .type d ∧ buildType s0 p item.vis d = (s1, .ok r) ∧ C02.Ext s1.reg s.reg ∧
      i = builtItem p item r := by
  have hgood := (case_good2 c hps hb s h p i hg).2 r hs
  cases hgood with
  | predef nm hm hp hi => subst hi; cases hc
  | extern size align hi => subst hi; cases hc
  | vftable reg0 owner vis fns hi hp => exact Or.inl ⟨reg0, owner, vis, fns, hi, hp⟩
  | type s0 s1 item d hok hinv hQ hD hget hd hb' he hi =>
    exact Or.inr ⟨s0, s1, item, d, hok, hinv, hQ, hD, hget, hd, hb', he, hi⟩
  | enum s0 item d hok hinv hQ hD hget hd hb' he hi =>
    obtain ⟨ed, _, hin', _⟩ := C02.buildEnum_inv s0 p d r hb'
    rw [hin'] at hin; cases hin

/-- `CaseLift.case_enum_origin`, with the finer invariant on the modules of the state the enum was built in -/
theorem case_enum_origin2 (c : Case) (hps : c.ps = 4 ∨ c.ps = 8) (hb : C12.CaseBounded c) (s : State)
    (h : c.run = .ok s) (p : Path) (i : ItemDef) (r : Resolved) (ed : EnumDefn)
    (hg : s.reg.get p = some i) (hs : i.state = .res r) (hin : r.inner = .enum ed) :
    ∃ (s0 : State) (item : G.Item) (d : G.EnumDef),
      C12.StateOkB s0 ∧ Exec.Inv s0 ∧ ModsGood (ModOf2 c) s0 ∧ Declared c p item ∧
      s0.reg.get p = some (declItem p item) ∧
      item.inner = .enum d ∧ buildEnum s0 p d = .ok r ∧ C02.Ext s0.reg s.reg ∧ i = builtItem p item r := by
  have hgood := (case_good2 c hps hb s h p i hg).2 r hs
  cases hgood with
  | predef nm hm hp hi =>
    subst hi
    obtain ⟨td, htd⟩ := predefItem_inner nm r hs
    rw [htd] at hin; cases hin
  | extern size align hi =>
    subst hi
    simp only [IState.res.injEq] at hs
    subst hs
    cases hin
  | vftable reg0 owner vis fns hi hp =>
    obtain ⟨vtd, hstate, _⟩ := C04.vftable_item reg0 owner vis fns i hi
    rw [hstate] at hs
    simp only [IState.res.injEq] at hs
    subst hs
    cases hin
  | type s0 s1 item d hok hinv hQ hD hget hd hb' he hi =>
    obtain ⟨td, _, _, _, _, _, htd, _⟩ := C01.buildType_layout s0 s1 p item.vis d r hb'
    rw [htd] at hin; cases hin
  | enum s0 item d hok hinv hQ hD hget hd hb' he hi => exact ⟨s0, item, d, hok, hinv, hQ, hD, hget, hd, hb', he, hi⟩

/-- the stored module of a declared definition's path: the module's own path is the definition's module path, and its
    `use` list and function blocks are those of a module written in the case under that path -/
theorem moduleFor_src (c : Case) (s : State) (hQ : ModsGood (ModOf2 c) s) (path : Path) (name : String) (md : Mod)
    (hm : s.moduleFor (path ++ [name]) = some md) : ModOf c path md ∧ ModSrc c path md := by
  unfold State.moduleFor at hm
  rw [parent_append] at hm
  simp only [] at hm
  exact hQ (path, md) (C14.mem_of_lookup s.modules path md hm)


/-! ### C05: the function blocks of every emitted struct -/

/-- the functions written for the type called `name` in the function blocks (`impl`) of module `m`, in source order -/
def declaredImplFns (m : G.Module) (name : String) : List G.Func :=
  (m.impls.filter (fun b => b.name == name)).flatMap (·.fns)

theorem append_singleton_inj {α} {l l' : List α} {a a' : α} (h : l ++ [a] = l' ++ [a']) : l = l' ∧ a = a' := by
  have := List.append_inj' h rfl
  exact ⟨this.1, by simpa using this.2⟩

/-- the merged function block a stored module holds for `path ++ [name]`, when its blocks are those of `m` -/
theorem implFor_of_src (path : Path) (m : G.Module) (md : Mod)
    (himpls : md.impls = m.impls.map (fun f => (path ++ [f.name], f))) (name : String) :
    ((md.implFor (path ++ [name])).map (·.fns)).getD [] = declaredImplFns m name := by
  rw [C05.impl_blocks_merged, himpls]
  unfold declaredImplFns
  congr 1
  induction m.impls with
  | nil => rfl
  | cons b bs ih =>
    simp only [List.map_cons, List.filter_cons]
    have e : ((path ++ [b.name] == path ++ [name]) : Bool) = (b.name == name) := by simp
    rw [e]
    split
    · simp only [List.map_cons, ih]
    · exact ih

/-- **the function blocks of every emitted struct**: a generated vftable struct has no functions; otherwise the struct
    was built from a definition `item` written in the case under module path `path`, in a state whose stored module for
    `path` (`module`) is the root module without function blocks, or `add_module` of a module `m` *written in the case
    under `path`* – then the name scope is `path :: m.uses` and the merged function block of the type is all functions
    of all blocks of `m` for the type, in source order –; every function of the merged block is built (`function::build`,
    in the registry `s1.reg` right after the type's vftable was registered, which the final registry extends), and the
    struct's functions are the inherited forwarders followed by exactly these, in order -/
theorem case_impl_master (c : Case) (hps : c.ps = 4 ∨ c.ps = 8) (hb : C12.CaseBounded c) (s : State)
    (h : c.run = .ok s) (p : Path) (i : ItemDef) (r : Resolved) (td : TypeDefn)
    (hg : s.reg.get p = some i) (hs : i.state = .res r) (hin : r.inner = .type td) (hc : i.cat = .defined) :
    ((∃ (reg0 : Registry) (owner : Path) (vis : Vis) (fns : List SFunc),
        buildVftableItem reg0 owner vis fns = some i ∧ i.path = p) ∧ td.fns = []) ∨
    ∃ (item : G.Item) (d : G.TypeDef) (s1 : State) (module : Mod) (path : Path) (inherited built : List SFunc),
      Declared c p item ∧ item.inner = .type d ∧ i = builtItem p item r ∧ p = path ++ [item.name] ∧
      C02.Ext s1.reg s.reg ∧ s1.moduleFor p = some module ∧
      ((path = [] ∧ module.impls = []) ∨
        ∃ file m, ModEnt.ast path file m ∈ c.modules ∧ module.scope = path :: m.uses ∧
          ((module.implFor p).map (·.fns)).getD [] = declaredImplFns m item.name) ∧
      Res.mapM' (buildFunction s1.reg module.scope false) (((module.implFor p).map (·.fns)).getD []) = .ok built ∧
      td.fns = inherited ++ built ∧
      (∀ g ∈ inherited, ∃ b fn, g.body = .field b fn) := by
  rcases case_type_origin2 c hps hb s h p i r td hg hs hin hc with
    ⟨reg0, owner, vis, fns, hv, hp⟩ | ⟨s0, s1, item, d, hok, hinv, hQ, hD, hget, hd, hbt, he, hi⟩
  · obtain ⟨h1, _⟩ := Exec.vftable_item_plain reg0 owner vis fns i r td hv hs hin
    exact Or.inl ⟨⟨reg0, owner, vis, fns, hv, hp⟩, h1⟩
  · right
    obtain ⟨module, module1, ta, sa, vft, vregion, placed, acc1, acc2, td', hmod, hmod1, hdoc, hta, hsa, hbv, hres, hn, hal,
      hacc1, hacc2, hin', hfns, hvft, _⟩ := buildType_full s0 s1 p item.vis d r hbt
    rw [hin] at hin'
    cases hin'
    have hreach := C02.buildType_reach2 s0 p item.vis d
    rw [hbt] at hreach
    simp only [] at hreach
    obtain ⟨dp, hm1⟩ := reach2_moduleFor hreach p module module1 hmod hmod1
    have hD' := hD
    obtain ⟨path, file0, m0, hm0, hitem0, hp⟩ := hD'
    subst hp
    obtain ⟨_, hsrc⟩ := moduleFor_src c s0 hQ path item.name module hmod
    refine ⟨item, d, s1, module1, path, acc1.fns, ?_⟩
    -- the functions of the merged block are built
    have hbuilt : ∃ built, Res.mapM' (buildFunction s1.reg module1.scope false)
        (((module1.implFor (path ++ [item.name])).map (·.fns)).getD []) = .ok built ∧ acc2.fns = acc1.fns ++ built := by
      cases him : module1.implFor (path ++ [item.name]) with
      | none =>
        rw [him] at hacc2
        simp only [addImplFns, Res.ok.injEq] at hacc2
        subst hacc2
        exact ⟨[], rfl, by simp⟩
      | some im =>
        rw [him] at hacc2
        exact C05.impl_functions_all_present s1.reg module1.scope im acc1 acc2 hacc2
    obtain ⟨built, hb1, hb2⟩ := hbuilt
    refine ⟨built, hD, hd, hi, rfl, he, hmod1, ?_, hb1, by rw [hfns, hb2], ?_⟩
    · rcases hsrc with ⟨hp0, _, _, himp⟩ | ⟨file, m, hm, hpath, huses, himp⟩
      · exact Or.inl ⟨hp0, by rw [hm1]; exact himp⟩
      · refine Or.inr ⟨file, m, hm, ?_, ?_⟩
        · rw [hm1]
          show module.path :: module.uses = path :: m.uses
          rw [hpath, huses]
        · exact implFor_of_src path m module1 (by rw [hm1]; exact himp) item.name
    · intro g hg1
      rcases Exec.injectBases_forwarders s1.reg td.regions _ acc1 hacc1 g hg1 with hnil | hfw
      · cases hnil
      · obtain ⟨rg, _, _, b, bp, btd, fs, used, _, _, _, _, hspec⟩ := hfw
        obtain ⟨f, _, _, _, hbody⟩ := C07.private_not_reexposed b used fs g hspec
        exact ⟨b, f.name, hbody⟩


theorem mapM'_mem_fwd {α β} (f : α → Res β) (l : List α) (l' : List β) (h : Res.mapM' f l = .ok l') :
    ∀ a ∈ l, ∃ b ∈ l', f a = .ok b := by
  obtain ⟨hl, hp⟩ := C15.mapM'_ok f l l' h
  intro a ha
  obtain ⟨k, hk, rfl⟩ := List.getElem_of_mem ha
  exact ⟨l'[k]'(by omega), List.getElem_mem _, hp k hk (by omega)⟩

theorem implFor_none_of_nil (md : Mod) (p : Path) (h : md.impls = []) : md.implFor p = none := by
  unfold Mod.implFor
  rw [h]
  rfl

/-- a function of the function blocks of a module written in the case is a declared function of the type it names -/
theorem declaredFn_of_mem (c : Case) (path : Path) (file : String) (m : G.Module) (hm : ModEnt.ast path file m ∈ c.modules)
    (name : String) (gf : G.Func) (h : gf ∈ declaredImplFns m name) : DeclaredFn c (path ++ [name]) gf := by
  unfold declaredImplFns at h
  simp only [List.mem_flatMap, List.mem_filter, beq_iff_eq] at h
  obtain ⟨blk, ⟨hblk, hn⟩, hgf⟩ := h
  exact ⟨path, blk, ⟨file, m, hm, hblk⟩, by rw [hn], hgf⟩

/-- … and conversely, when the module is the only one written under its path -/
theorem mem_of_declaredFn (c : Case) (hdist : DistinctModulePaths c) (path : Path) (file : String) (m : G.Module)
    (hm : ModEnt.ast path file m ∈ c.modules) (name : String) (gf : G.Func)
    (h : DeclaredFn c (path ++ [name]) gf) : gf ∈ declaredImplFns m name := by
  obtain ⟨path', blk, ⟨file', m', hm', hblk⟩, hp, hgf⟩ := h
  obtain ⟨rfl, hn⟩ := append_singleton_inj hp
  have := hdist path file m file' m' hm hm'
  subst this
  unfold declaredImplFns
  simp only [List.mem_flatMap, List.mem_filter, beq_iff_eq]
  exact ⟨blk, ⟨hblk, hn.symm⟩, hgf⟩

/-! ### C07: the functions inherited from the `#[base]` fields, in order -/

/-- what one `#[base]` field contributes (`ib.1` is its position among the base fields): the re-exposed functions of
    its type and, for every base but the first, of its type's vftable; and the member names taken afterwards.
    A base whose type is not a resolved struct contributes nothing. -/
def specBasesStep (reg : Registry) (used : List String) (ib : Nat × Region) : List SFunc × List String :=
  match regionNameAndTypeDef reg ib.2 with
  | .ok (some (b, btd)) =>
    match (if ib.1 > 0 then btd.vft else none) with
    | some v =>
      (C07.specInject b used btd.fns ++ C07.specInject b (C07.usedAfter b used btd.fns) v.fns,
        C07.usedAfter b (C07.usedAfter b used btd.fns) v.fns)
    | none => (C07.specInject b used btd.fns, C07.usedAfter b used btd.fns)
  | _ => ([], used)

/-- **the property, all bases**: the functions a type inherits from its `#[base]` fields `bases` (with their positions),
    in field order, starting from the member names `used` -/
def specBases (reg : Registry) : List (Nat × Region) → List String → List SFunc
  | [], _ => []
  | ib :: rest, used => (specBasesStep reg used ib).1 ++ specBases reg rest (specBasesStep reg used ib).2

/-- one iteration of the injection loop -/
def injStep (reg : Registry) (acc : InjAcc) (ib : Nat × Region) : Res InjAcc :=
  match regionNameAndTypeDef reg ib.2 with
  | .ok none => .ok acc
  | .ok (some (baseName, td)) =>
    let acc1 := addFunctions baseName acc td.fns
    .ok (if ib.1 > 0 then
          match td.vft with
          | some v => addFunctions baseName acc1 v.fns
          | none => acc1
        else acc1)
  | e => e.cast

theorem injectBases_eq (reg : Registry) (regions : List Region) (acc : InjAcc) :
    injectBases reg regions acc =
      Res.foldlM (injStep reg) acc ((regions.filter (·.isBase)).zipIdx.map fun p => (p.2, p.1)) := rfl

theorem injStep_spec (reg : Registry) (acc acc' : InjAcc) (ib : Nat × Region) (h : injStep reg acc ib = .ok acc') :
    acc'.fns = acc.fns ++ (specBasesStep reg acc.used ib).1 ∧ acc'.used = (specBasesStep reg acc.used ib).2 := by
  unfold injStep at h
  unfold specBasesStep
  split at h
  · next hr =>
    cases h
    rw [hr]
    simp
  · next b btd hr =>
    simp only [Res.ok.injEq] at h
    rw [hr]
    simp only []
    obtain ⟨f1, u1⟩ := C07.addFunctions_spec b acc btd.fns
    by_cases hi : ib.1 > 0
    · rw [if_pos hi] at h ⊢
      cases hv : btd.vft with
      | none =>
        rw [hv] at h
        subst h
        exact ⟨f1, u1⟩
      | some v =>
        rw [hv] at h
        subst h
        obtain ⟨f2, u2⟩ := C07.addFunctions_spec b (addFunctions b acc btd.fns) v.fns
        simp only []
        rw [f2, u2, f1, u1, List.append_assoc]
        exact ⟨rfl, rfl⟩
    · rw [if_neg hi] at h ⊢
      subst h
      exact ⟨f1, u1⟩
  · exact absurd h (C01.cast_ne_ok _ _)

/-- **`inject_bases` adds exactly `specBases`** -/
theorem injectFold_spec (reg : Registry) (l : List (Nat × Region)) (acc acc' : InjAcc)
    (h : Res.foldlM (injStep reg) acc l = .ok acc') : acc'.fns = acc.fns ++ specBases reg l acc.used := by
  induction l generalizing acc with
  | nil => simp only [Res.foldlM, Res.ok.injEq] at h; subst h; simp [specBases]
  | cons ib rest ih =>
    unfold Res.foldlM at h
    split at h
    · next acc1 h1 =>
      obtain ⟨e1, e2⟩ := injStep_spec reg acc acc1 ib h1
      rw [ih acc1 h, e1, e2, List.append_assoc]
      rfl
    all_goals cases h

/-- every step of an accepted injection loop found its base resolved, or skipped it -/
theorem injectFold_steps (reg : Registry) (l : List (Nat × Region)) (acc acc' : InjAcc)
    (h : Res.foldlM (injStep reg) acc l = .ok acc') :
    ∀ ib ∈ l, regionNameAndTypeDef reg ib.2 = .ok none ∨ ∃ b btd, regionNameAndTypeDef reg ib.2 = .ok (some (b, btd)) := by
  induction l generalizing acc with
  | nil => intro ib hib; cases hib
  | cons x rest ih =>
    unfold Res.foldlM at h
    split at h
    · next acc1 h1 =>
      intro ib hib
      rcases List.mem_cons.mp hib with rfl | hib
      · unfold injStep at h1
        split at h1
        · next hr => exact Or.inl hr
        · next b btd hr => exact Or.inr ⟨b, btd, hr⟩
        · exact absurd h1 (C01.cast_ne_ok _ _)
      · exact ih acc1 h ib hib
    all_goals cases h

theorem regionNameAndTypeDef_mono {r r' : Registry} (he : C02.Ext r r') (rg : Region) (b : String) (btd : TypeDefn)
    (h : regionNameAndTypeDef r rg = .ok (some (b, btd))) : regionNameAndTypeDef r' rg = .ok (some (b, btd)) := by
  obtain ⟨p, hname, hty, htd⟩ := Exec.regionNameAndTypeDef_inv r rg b btd h
  obtain ⟨i, res, hg, hs, hin⟩ := Exec.typeDefn?_inv r p btd htd
  have hg' := he.res hg hs
  unfold regionNameAndTypeDef
  simp only [hname, hty, hg', ItemDef.resolved?, hs, hin]

theorem regionNameAndTypeDef_none_size (reg : Registry) (rg : Region) (h : regionNameAndTypeDef reg rg = .ok none) :
    rg.ty.size reg = .ok none := by
  unfold regionNameAndTypeDef at h
  split at h
  · cases h
  · split at h
    · next p hty =>
      split at h
      · cases h
      · next item hg =>
        split at h
        · next hres =>
          rw [hty]
          simp only [RTy.size, DTy.size, hg, Option.bind_some, hres, Option.map_none]
        · split at h <;> cases h
    · cases h

theorem specBases_congr (r r' : Registry) (l : List (Nat × Region)) (used : List String)
    (h : ∀ ib ∈ l, regionNameAndTypeDef r ib.2 = regionNameAndTypeDef r' ib.2) : specBases r l used = specBases r' l used := by
  induction l generalizing used with
  | nil => rfl
  | cons ib rest ih =>
    have e : specBasesStep r used ib = specBasesStep r' used ib := by
      unfold specBasesStep
      rw [h ib List.mem_cons_self]
    simp only [specBases, e]
    rw [ih _ (fun x hx => h x (List.mem_cons_of_mem _ hx))]

/-- the size of the type of every `#[base]` field of an accepted placement was known -/
theorem bases_sized (reg : Registry) (vptr : Option Region) (pending : List (Option Nat × Region))
    (target : Option Nat) (placed : List (Placed Region)) (size : Nat) (regions : List Region)
    (hres : resolve (vptr.map (toPField reg none)) (pending.map fun p => toPField reg p.1 p.2) target = .ok (placed, size))
    (hn : nameRegions reg 0 placed = .ok regions) :
    ∀ rg ∈ regions, rg.isBase = true → ∃ n, rg.ty.size reg = .ok (some n) := by
  intro rg hrg hb
  obtain ⟨k, hk⟩ := List.mem_iff_getElem?.mp hrg
  obtain ⟨pl, hpl, hsrc⟩ := Exec.nameRegions_base reg 0 placed regions hn k rg hk hb
  obtain ⟨hv, hf⟩ := resolve_sizes _ _ _ _ _ hres
  rcases placed_srcs reg vptr pending target placed size hres pl (List.mem_of_getElem? hpl) rg hsrc with h1 | h1
  · exact hv (toPField reg none rg) (by rw [h1]; rfl)
  · obtain ⟨q, hq, rfl⟩ := List.mem_map.mp h1
    exact hf (toPField reg q.1 q.2) (List.mem_map.mpr ⟨q, hq, rfl⟩)

/-- **the functions of an accepted `type_definition::build`, exactly**: every `#[base]` field of the result is a named
    field whose type is a resolved struct (in the registry after the build, hence in every later one), and the
    inherited functions are `specBases` of these fields, read in any later registry -/
theorem injectBases_exact (reg reg' : Registry) (he : C02.Ext reg reg') (vptr : Option Region)
    (pending : List (Option Nat × Region)) (target : Option Nat) (placed : List (Placed Region)) (size : Nat)
    (regions : List Region) (acc acc' : InjAcc)
    (hres : resolve (vptr.map (toPField reg none)) (pending.map fun p => toPField reg p.1 p.2) target = .ok (placed, size))
    (hn : nameRegions reg 0 placed = .ok regions)
    (hinj : injectBases reg regions acc = .ok acc') :
    (∀ rg ∈ regions, rg.isBase = true → ∃ b bp btd, rg.name = some b ∧ rg.ty = .data (.raw bp) ∧
      Exec.typeDefn? reg' bp = some btd ∧ regionNameAndTypeDef reg' rg = .ok (some (b, btd))) ∧
    acc'.fns = acc.fns ++ specBases reg' ((regions.filter (·.isBase)).zipIdx.map fun q => (q.2, q.1)) acc.used := by
  rw [injectBases_eq] at hinj
  have hsteps := injectFold_steps reg _ acc acc' hinj
  have hsized := bases_sized reg vptr pending target placed size regions hres hn
  have hall : ∀ ib ∈ ((regions.filter (·.isBase)).zipIdx.map fun q => (q.2, q.1)),
      ∃ b btd, regionNameAndTypeDef reg ib.2 = .ok (some (b, btd)) := by
    intro ib hib
    rcases hsteps ib hib with hnone | hsome
    · exfalso
      obtain ⟨q, hq, rfl⟩ := List.mem_map.mp hib
      have hmem : q.1 ∈ regions.filter (·.isBase) := (List.mem_zipIdx hq).2.2 ▸ List.getElem_mem _
      obtain ⟨hm1, hm2⟩ := List.mem_filter.mp hmem
      obtain ⟨n, hnn⟩ := hsized q.1 hm1 hm2
      rw [regionNameAndTypeDef_none_size reg q.1 hnone] at hnn
      cases hnn
    · exact hsome
  refine ⟨?_, ?_⟩
  · intro rg hrg hb
    obtain ⟨k, hk, hke⟩ := List.getElem_of_mem (List.mem_filter.mpr ⟨hrg, hb⟩)
    have hib : (k, rg) ∈ ((regions.filter (·.isBase)).zipIdx.map fun q => (q.2, q.1)) := by
      refine List.mem_map.mpr ⟨(rg, k), ?_, rfl⟩
      rw [List.mem_zipIdx_iff_getElem?]
      rw [← hke]
      exact List.getElem?_eq_getElem hk
    obtain ⟨b, btd, hr⟩ := hall (k, rg) hib
    obtain ⟨bp, hname, hty, htd⟩ := Exec.regionNameAndTypeDef_inv reg rg b btd hr
    exact ⟨b, bp, btd, hname, hty, Exec.typeDefn?_mono he bp btd htd, regionNameAndTypeDef_mono he rg b btd hr⟩
  · rw [injectFold_spec reg _ acc acc' hinj]
    congr 1
    apply specBases_congr
    intro ib hib
    obtain ⟨b, btd, hr⟩ := hall ib hib
    rw [hr, regionNameAndTypeDef_mono he ib.2 b btd hr]

/-- what `specBases` contains: the re-exposed functions of every resolved base, and of its vftable if it is not the
    first base -/
theorem specBases_contains (reg : Registry) (l : List (Nat × Region)) (used0 : List String) (ib : Nat × Region)
    (hib : ib ∈ l) (b : String) (btd : TypeDefn) (hr : regionNameAndTypeDef reg ib.2 = .ok (some (b, btd))) :
    (∃ used, ∀ g ∈ C07.specInject b used btd.fns, g ∈ specBases reg l used0) ∧
    (ib.1 > 0 → ∀ v, btd.vft = some v → ∃ used, ∀ g ∈ C07.specInject b used v.fns, g ∈ specBases reg l used0) := by
  induction l generalizing used0 with
  | nil => cases hib
  | cons x rest ih =>
    rcases List.mem_cons.mp hib with rfl | hmem
    · have hstep : specBasesStep reg used0 ib =
          (match (if ib.1 > 0 then btd.vft else none) with
           | some v => (C07.specInject b used0 btd.fns ++ C07.specInject b (C07.usedAfter b used0 btd.fns) v.fns,
               C07.usedAfter b (C07.usedAfter b used0 btd.fns) v.fns)
           | none => (C07.specInject b used0 btd.fns, C07.usedAfter b used0 btd.fns)) := by
        unfold specBasesStep
        rw [hr]
      refine ⟨⟨used0, ?_⟩, ?_⟩
      · intro g hg
        simp only [specBases]
        apply List.mem_append_left
        rw [hstep]
        split
        · exact List.mem_append_left _ hg
        · exact hg
      · intro hpos v hv
        refine ⟨C07.usedAfter b used0 btd.fns, ?_⟩
        intro g hg
        simp only [specBases]
        apply List.mem_append_left
        rw [hstep, if_pos hpos, hv]
        exact List.mem_append_right _ hg
    · obtain ⟨⟨u1, h1⟩, h2⟩ := ih (specBasesStep reg used0 x).2 hmem
      refine ⟨⟨u1, fun g hg => ?_⟩, fun hpos v hv => ?_⟩
      · simp only [specBases]
        exact List.mem_append_right _ (h1 g hg)
      · obtain ⟨u2, h3⟩ := h2 hpos v hv
        refine ⟨u2, fun g hg => ?_⟩
        simp only [specBases]
        exact List.mem_append_right _ (h3 g hg)

/-- where a function of `specBases` comes from -/
theorem specBases_mem (reg : Registry) (l : List (Nat × Region)) (used0 : List String) (g : SFunc)
    (hg : g ∈ specBases reg l used0) :
    ∃ ib ∈ l, ∃ b btd used, regionNameAndTypeDef reg ib.2 = .ok (some (b, btd)) ∧
      (g ∈ C07.specInject b used btd.fns ∨ (ib.1 > 0 ∧ ∃ v, btd.vft = some v ∧ g ∈ C07.specInject b used v.fns)) := by
  induction l generalizing used0 with
  | nil => cases hg
  | cons x rest ih =>
    simp only [specBases] at hg
    rcases List.mem_append.mp hg with h1 | h1
    · refine ⟨x, List.mem_cons_self, ?_⟩
      unfold specBasesStep at h1
      split at h1
      · next b btd hr =>
        refine ⟨b, btd, ?_⟩
        split at h1
        · next v hv =>
          simp only [] at h1
          rcases List.mem_append.mp h1 with h2 | h2
          · exact ⟨used0, hr, Or.inl h2⟩
          · refine ⟨_, hr, Or.inr ⟨?_, v, ?_, h2⟩⟩
            · by_cases hp : x.1 > 0
              · exact hp
              · rw [if_neg hp] at hv; cases hv
            · by_cases hp : x.1 > 0
              · rw [if_pos hp] at hv; exact hv
              · rw [if_neg hp] at hv; cases hv
        · exact ⟨used0, hr, Or.inl h1⟩
      · cases h1
    · obtain ⟨ib, hib, rest'⟩ := ih _ h1
      exact ⟨ib, List.mem_cons_of_mem _ hib, rest'⟩

/-- **the functions of every emitted struct, exactly**: a generated vftable struct has no functions and no `#[base]`
    field; otherwise the struct was built from a definition written in the case; every `#[base]` field of the emitted
    struct is a named field whose type is, in the final registry, a resolved struct; and the struct's functions are
    exactly `specBases` of its `#[base]` fields in field order – read in the **final** registry, starting from the names
    of the type's vftable functions – followed by the functions built, in source order, from the merged function block
    the type's module held for it -/
theorem case_fns_exact (c : Case) (hps : c.ps = 4 ∨ c.ps = 8) (hb : C12.CaseBounded c) (s : State)
    (h : c.run = .ok s) (p : Path) (i : ItemDef) (r : Resolved) (td : TypeDefn)
    (hg : s.reg.get p = some i) (hs : i.state = .res r) (hin : r.inner = .type td) (hc : i.cat = .defined) :
    ((∃ (reg0 : Registry) (owner : Path) (vis : Vis) (fns : List SFunc),
        buildVftableItem reg0 owner vis fns = some i ∧ i.path = p) ∧ td.fns = [] ∧ ∀ rg ∈ td.regions, rg.isBase = false) ∨
    ∃ (item : G.Item) (d : G.TypeDef) (s1 : State) (module : Mod) (built : List SFunc),
      Declared c p item ∧ item.inner = .type d ∧ C02.Ext s1.reg s.reg ∧ s1.moduleFor p = some module ∧
      (∀ rg ∈ td.regions, rg.isBase = true → ∃ b bp btd, rg.name = some b ∧ rg.ty = .data (.raw bp) ∧
        Exec.typeDefn? s.reg bp = some btd ∧ regionNameAndTypeDef s.reg rg = .ok (some (b, btd))) ∧
      Res.mapM' (buildFunction s1.reg module.scope false) (((module.implFor p).map (·.fns)).getD []) = .ok built ∧
      td.fns = specBases s.reg ((td.regions.filter (·.isBase)).zipIdx.map fun q => (q.2, q.1))
          (match td.vft with | some v => v.fns.map (·.name) | none => []) ++ built := by
  rcases case_type_origin c hps hb s h p i r td hg hs hin hc with
    ⟨reg0, owner, vis, fns, hv, hp⟩ | ⟨s0, s1, item, d, hok, hinv, hQ, hD, hget, hd, hbt, he, hi⟩
  · obtain ⟨h1, _⟩ := Exec.vftable_item_plain reg0 owner vis fns i r td hv hs hin
    obtain ⟨htd, _⟩ := vftable_item_td reg0 owner vis fns i r td hv hs hin
    refine Or.inl ⟨⟨reg0, owner, vis, fns, hv, hp⟩, h1, ?_⟩
    intro rg hrg
    rw [htd] at hrg
    obtain ⟨f, _, rfl⟩ := List.mem_map.mp hrg
    rfl
  · right
    obtain ⟨module, module1, ta, sa, vft, vregion, placed, acc1, acc2, td', hmod, hmod1, hdoc, hta, hsa, hbv, hres, hn, hal,
      hacc1, hacc2, hin', hfns, hvft, _⟩ := buildType_full s0 s1 p item.vis d r hbt
    rw [hin] at hin'
    cases hin'
    obtain ⟨hbases, hinh⟩ := injectBases_exact s1.reg s.reg he vregion sa.pending ta.targetSize placed r.size td.regions _ acc1
      hres hn hacc1
    have hbuilt : ∃ built, Res.mapM' (buildFunction s1.reg module1.scope false)
        (((module1.implFor p).map (·.fns)).getD []) = .ok built ∧ acc2.fns = acc1.fns ++ built := by
      cases him : module1.implFor p with
      | none =>
        rw [him] at hacc2
        simp only [addImplFns, Res.ok.injEq] at hacc2
        subst hacc2
        exact ⟨[], rfl, by simp⟩
      | some im =>
        rw [him] at hacc2
        exact C05.impl_functions_all_present s1.reg module1.scope im acc1 acc2 hacc2
    obtain ⟨built, hb1, hb2⟩ := hbuilt
    refine ⟨item, d, s1, module1, built, hD, hd, he, hmod1, hbases, hb1, ?_⟩
    rw [hfns, hb2, hinh, hvft]
    cases vft <;> simp


/-! ### C11: the scope every type name of a declared item is looked up in -/

/-- what `use` list a module path has in the case: that of a module written under the path (the root module, if no
    module is written under `[]`, has none) -/
def UsesOf (c : Case) (path : Path) (uses : List Path) : Prop :=
  (path = [] ∧ uses = []) ∨ ∃ file m, ModEnt.ast path file m ∈ c.modules ∧ uses = m.uses

theorem usesOf_of_src (c : Case) (path : Path) (md : Mod) (h : ModSrc c path md) :
    md.scope = path :: md.uses ∧ UsesOf c path md.uses := by
  rcases h with ⟨hp, hpath, huses, _⟩ | ⟨file, m, hm, hpath, huses, _⟩
  · exact ⟨by unfold Mod.scope; rw [hpath, hp], Or.inl ⟨hp, huses⟩⟩
  · exact ⟨by unfold Mod.scope; rw [hpath], Or.inr ⟨file, m, hm, huses⟩⟩

/-- the scope of the stored module of a definition registered under `path ++ [name]`: the module's own path, then the
    `use` entries of a module written in the case under that path -/
theorem scope_src (c : Case) (s0 : State) (hQ : ModsGood (ModOf2 c) s0) (path : Path) (name : String) (md : Mod)
    (hm : s0.moduleFor (path ++ [name]) = some md) : ∃ uses, md.scope = path :: uses ∧ UsesOf c path uses := by
  obtain ⟨h1, h2⟩ := usesOf_of_src c path md (moduleFor_src c s0 hQ path name md hm).2
  exact ⟨md.uses, h1, h2⟩

/-- **the field types of every emitted struct**: a generated vftable struct, or built from a definition written in the
    case under module path `path`, and then every field of the emitted struct is generated (private, undocumented:
    padding, the vftable pointer) or is a named field statement `name: ty` of the definition whose type is `ty` resolved
    with the scope `path :: uses` – the module's own path, then the `use` entries of a module written in the case under
    that path – in a registry `s0.reg` that the final registry extends -/
theorem case_field_types_master (c : Case) (hps : c.ps = 4 ∨ c.ps = 8) (hb : C12.CaseBounded c) (s : State)
    (h : c.run = .ok s) (p : Path) (i : ItemDef) (r : Resolved) (td : TypeDefn)
    (hg : s.reg.get p = some i) (hs : i.state = .res r) (hin : r.inner = .type td) (hc : i.cat = .defined) :
    (∃ (reg0 : Registry) (owner : Path) (vis : Vis) (fns : List SFunc),
        buildVftableItem reg0 owner vis fns = some i ∧ i.path = p ∧ i.vis = vis ∧
        td = { regions := fns.map (functionToRegion owner) }) ∨
    ∃ (item : G.Item) (d : G.TypeDef) (s0 : State) (path : Path) (uses : List Path),
      Declared c p item ∧ item.inner = .type d ∧ p = path ++ [item.name] ∧ C02.Ext s0.reg s.reg ∧ UsesOf c path uses ∧
      ∀ rg ∈ td.regions, (rg.vis = .priv ∧ rg.doc = none) ∨
        ∃ st ∈ d.stmts, ∃ (vis : Vis) (name : String) (ty : G.Ty) (t : DTy),
          st.field = .field vis name ty ∧ rg.name = some name ∧
          s0.reg.resolveTy (path :: uses) ty = .ok t ∧ rg.ty = .data t := by
  rcases case_type_origin2 c hps hb s h p i r td hg hs hin hc with
    ⟨reg0, owner, vis, fns, hv, hp⟩ | ⟨s0, s1, item, d, hok, hinv, hQ, hD, hget, hd, hbt, he, hi⟩
  · obtain ⟨htd, hvis, _⟩ := vftable_item_td reg0 owner vis fns i r td hv hs hin
    exact Or.inl ⟨reg0, owner, vis, fns, hv, hp, hvis, htd⟩
  · right
    obtain ⟨module, module1, ta, sa, vft, vregion, placed, acc1, acc2, td', hmod, hmod1, hdoc, hta, hsa, hbv, hres, hn, hal,
      hacc1, hacc2, hin', hfns, hvft, _⟩ := buildType_full s0 s1 p item.vis d r hbt
    rw [hin] at hin'
    cases hin'
    have hD' := hD
    obtain ⟨path, file0, m0, hm0, hitem0, hp⟩ := hD'
    subst hp
    obtain ⟨uses, hscope, huses⟩ := scope_src c s0 hQ path item.name module hmod
    have he01 := Exec.buildVftable_ext s0 s1 (path ++ [item.name]) item.vis _ _ _ hbv
    refine ⟨item, d, s0, path, uses, hD, hd, rfl, he01.trans he, huses, ?_⟩
    intro rg hrg
    rcases regions_src s1.reg vregion sa.pending ta.targetSize placed r.size td.regions hres hn rg hrg with
      hgen | ⟨hnm, hv | hpend⟩
    · exact Or.inl hgen
    · left
      rcases buildVftable_cases s0 s1 (path ++ [item.name]) item.vis _ sa.vfns vft vregion hbv with
        ⟨_, _, hp, _⟩ | ⟨_, _, hp, _⟩ | ⟨_, _, _, _, hp, _⟩ | ⟨_, vpath, _, _, _, hp, _⟩ | ⟨_, _, _, _, _, _, _, _, _, hp, _⟩
      · rw [hp] at hv; cases hv
      · rw [hp] at hv; cases hv
      · rw [hp] at hv; cases hv
      · rw [hp] at hv; cases hv; exact ⟨rfl, rfl⟩
      · rw [hp] at hv; cases hv
    · right
      obtain ⟨q, hq, rfl⟩ := List.mem_map.mp hpend
      rcases stmts_pending_src s0.reg module.scope _ {} sa hsa q hq with hnil | ⟨e, he', vis, name, ty, fa, t, hf, _, _, hrt, hqe⟩
      · cases hnil
      · obtain ⟨x, hx, rfl⟩ := List.mem_map.mp he'
        have hst : x.1 ∈ d.stmts := (List.mem_zipIdx hx).2.2 ▸ List.getElem_mem _
        refine ⟨x.1, hst, vis, name, ty, t, hf, ?_, by rw [← hscope]; exact hrt, by rw [hqe]⟩
        rw [hqe] at hnm ⊢
        simp only at hnm ⊢
        split
        · rfl
        · next hne => rw [if_neg hne] at hnm; cases hnm

/-- **the virtual functions of every emitted struct**: if the definition starts with a vftable block, every slot of the
    type's table holds the function built (`function::build`) from a function of the block with the scope `path :: uses`
    in a registry the final one extends, or that slot's placeholder -/
theorem case_vfunc_types_master (c : Case) (hps : c.ps = 4 ∨ c.ps = 8) (hb : C12.CaseBounded c) (s : State)
    (h : c.run = .ok s) (p : Path) (i : ItemDef) (r : Resolved) (td : TypeDefn)
    (hg : s.reg.get p = some i) (hs : i.state = .res r) (hin : r.inner = .type td) (hc : i.cat = .defined)
    (v : Vft) (hv : td.vft = some v) :
    ∃ (item : G.Item) (d : G.TypeDef) (s0 : State) (path : Path) (uses : List Path),
      Declared c p item ∧ item.inner = .type d ∧ p = path ++ [item.name] ∧ C02.Ext s0.reg s.reg ∧ UsesOf c path uses ∧
      ∀ st gfns, d.stmts[0]? = some st → st.field = .vftable gfns →
        ∀ (k : Nat) (f : SFunc), v.fns[k]? = some f →
          (∃ gf ∈ gfns, buildFunction s0.reg (path :: uses) true gf = .ok f) ∨ f = placeholderFn k := by
  rcases case_type_origin2 c hps hb s h p i r td hg hs hin hc with
    ⟨reg0, owner, vis, fns, hvi, hp⟩ | ⟨s0, s1, item, d, hok, hinv, hQ, hD, hget, hd, hbt, he, hi⟩
  · obtain ⟨_, h2⟩ := Exec.vftable_item_plain reg0 owner vis fns i r td hvi hs hin
    rw [h2] at hv; cases hv
  · obtain ⟨module, module1, ta, sa, vft, vregion, placed, acc1, acc2, td', hmod, hmod1, hdoc, hta, hsa, hbv, hres, hn, hal,
      hacc1, hacc2, hin', hfns, hvft, _⟩ := buildType_full s0 s1 p item.vis d r hbt
    rw [hin] at hin'
    cases hin'
    have hD' := hD
    obtain ⟨path, file0, m0, hm0, hitem0, hp⟩ := hD'
    subst hp
    obtain ⟨uses, hscope, huses⟩ := scope_src c s0 hQ path item.name module hmod
    have he01 := Exec.buildVftable_ext s0 s1 (path ++ [item.name]) item.vis _ _ _ hbv
    refine ⟨item, d, s0, path, uses, hD, hd, rfl, he01.trans he, huses, ?_⟩
    intro st gfns hst hf k f hk
    obtain ⟨size, out, hsize, hconv, hvfns⟩ := Exec.stmts_vfns_of_block s0.reg module.scope d.stmts sa hsa st gfns hst hf
    have hout : v.fns = out := by
      rw [hvft] at hv
      rw [hvfns] at hbv
      rcases buildVftable_cases s0 s1 (path ++ [item.name]) item.vis _ (some out) vft vregion hbv with
        ⟨h1, _⟩ | ⟨h1, _⟩ | ⟨fns, _, _, _, _, h5⟩ | ⟨fns, vpath, h1, _, _, _, h5⟩ | ⟨fns, vpath, bn, bv, h1, _, _, _, _, _, h7⟩
      · cases h1
      · cases h1
      · rw [h5] at hv; cases hv
      · cases h1; rw [h5] at hv; cases hv; rfl
      · cases h1; rw [h7] at hv; cases hv; rfl
    rw [hout] at hk
    rw [hscope] at hconv
    exact convertVfuncs_slots s0.reg (path :: uses) size gfns out hconv k f hk

/-- the stored modules of the final state of an accepted case are `add_module` of modules written in the case -/
theorem case_modules_src (c : Case) (hps : c.ps = 4 ∨ c.ps = 8) (hb : C12.CaseBounded c) (s : State)
    (h : c.run = .ok s) : ∀ e ∈ s.modules, e.2.scope = e.1 :: e.2.uses ∧ UsesOf c e.1 e.2.uses := by
  obtain ⟨s1, ms, hJ, hms, rfl⟩ := case_J2 c hps hb s h
  intro e he
  simp only at he
  obtain ⟨e0, he0, hstep⟩ := mapM'_mem _ _ _ hms e he
  split at hstep
  · next m' hm' =>
    simp only [Res.ok.injEq] at hstep
    subst hstep
    obtain ⟨hsc, _, _, _⟩ := resolveXVals_inv s1.reg e0.2 m' hm'
    obtain ⟨h1, h2⟩ := usesOf_of_src c e0.1 e0.2 (hJ.2.2.1 e0 he0).2
    have hsc' : m'.path :: m'.uses = e0.1 :: e0.2.uses := by
      have : m'.scope = e0.1 :: e0.2.uses := by rw [hsc, h1]
      exact this
    simp only [List.cons.injEq] at hsc'
    refine ⟨?_, ?_⟩
    · show m'.path :: m'.uses = e0.1 :: m'.uses
      rw [hsc'.1]
    · show UsesOf c e0.1 m'.uses
      rw [hsc'.2]
      exact h2
  · exact (C14.cast_ne_ok _ _ hstep).elim

/-- the parameter and return types of the built function `f` are those written on `gf`, resolved with `scope` in `reg` -/
def FnTypes (reg : Registry) (scope : List Path) (gf : G.Func) (f : SFunc) : Prop :=
  C05.specArgs reg scope gf.args = some f.args ∧
  (∀ n t, SArg.field n t ∈ f.args → ∃ gty, G.Arg.named n gty ∈ gf.args ∧ reg.resolveTy scope gty = .ok t) ∧
  (match gf.ret with
   | none => f.ret = none
   | some gt => ∃ t, reg.resolveTy scope gt = .ok t ∧ f.ret = some t)

theorem specArgs_field_mem (reg : Registry) (scope : List Path) (gas : List G.Arg) (sas : List SArg)
    (h : C05.specArgs reg scope gas = some sas) :
    ∀ n t, SArg.field n t ∈ sas → ∃ gty, G.Arg.named n gty ∈ gas ∧ reg.resolveTy scope gty = .ok t := by
  induction gas generalizing sas with
  | nil =>
    simp only [C05.specArgs, Option.some.injEq] at h
    subst h
    intro n t hm; cases hm
  | cons ga rest ih =>
    intro n t hm
    cases ga with
    | constSelf =>
      simp only [C05.specArgs, Option.map_eq_some_iff] at h
      obtain ⟨sas', hs', rfl⟩ := h
      rcases List.mem_cons.mp hm with hm | hm
      · cases hm
      · obtain ⟨gty, h1, h2⟩ := ih sas' hs' n t hm
        exact ⟨gty, List.mem_cons_of_mem _ h1, h2⟩
    | mutSelf =>
      simp only [C05.specArgs, Option.map_eq_some_iff] at h
      obtain ⟨sas', hs', rfl⟩ := h
      rcases List.mem_cons.mp hm with hm | hm
      · cases hm
      · obtain ⟨gty, h1, h2⟩ := ih sas' hs' n t hm
        exact ⟨gty, List.mem_cons_of_mem _ h1, h2⟩
    | named n' gt =>
      simp only [C05.specArgs] at h
      split at h
      · next t' ht' =>
        simp only [Option.map_eq_some_iff] at h
        obtain ⟨sas', hs', rfl⟩ := h
        rcases List.mem_cons.mp hm with hm | hm
        · cases hm
          exact ⟨gt, List.mem_cons_self, ht'⟩
        · obtain ⟨gty, h1, h2⟩ := ih sas' hs' n t hm
          exact ⟨gty, List.mem_cons_of_mem _ h1, h2⟩
      · cases h

theorem fnTypes_of_built (reg : Registry) (scope : List Path) (isV : Bool) (gf : G.Func) (f : SFunc)
    (h : buildFunction reg scope isV gf = .ok f) : FnTypes reg scope gf f := by
  have hargs := Exec.built_args reg scope isV gf f h
  obtain ⟨_, _, _, _, ret, _, _, _, _, hret, _, _, _, _, _, hr⟩ := PyxisVerif.buildFunction_ok reg scope isV gf f h
  refine ⟨hargs, specArgs_field_mem reg scope gf.args f.args hargs, ?_⟩
  rw [hr]
  exact hret

theorem contains_ext {r r' : Registry} (he : C02.Ext r r') (q : Path) (h : r.contains q = true) : r'.contains q = true := by
  unfold Registry.contains at h ⊢
  cases hg : r.get q with
  | none => rw [hg] at h; cases h
  | some i =>
    obtain ⟨i', hg', _⟩ := he.keep q i hg
    rw [hg']
    rfl

theorem resolveTy_ident (reg : Registry) (scope : List Path) (nm : String) (t : DTy)
    (h : reg.resolveTy scope (.ident nm) = .ok t) : reg.resolveString scope nm = some t := by
  simp only [Registry.resolveTy] at h
  split at h
  · next t' ht' => cases h; exact ht'
  · cases h


/-! ### C13: what acceptance guarantees about every emitted struct -/

/-- an accepted `type_definition::build` of a `defaultable` type passed the defaultable check, in the registry after
    the type's vftable was registered -/
theorem buildType_defaultable (s s1 : State) (path : Path) (vis : Vis) (d : G.TypeDef) (r : Resolved)
    (h : buildType s path vis d = (s1, .ok r)) :
    ∃ td, r.inner = .type td ∧ (td.defaultable = true → checkDefaultable s1.reg td.regions = .ok ()) := by
  unfold buildType at h
  split at h
  · simp only [Prod.mk.injEq] at h; exact absurd h.2 (by simp)
  · split at h
    · simp only [Prod.mk.injEq] at h; exact absurd h.2 (by simp)
    · split at h
      · rename_i ta hta
        split at h
        · split at h
          · rename_i s1' regions vft size placed hrr
            simp only [Prod.mk.injEq] at h
            obtain ⟨rfl, h⟩ := h
            split at h
            · cases h
            · split at h
              · split at h
                · split at h
                  · rename_i hck
                    split at h
                    · cases h
                      refine ⟨_, rfl, ?_⟩
                      intro hdef
                      simp only [] at hdef
                      rw [if_pos hdef] at hck
                      exact hck
                    · exact absurd h (C01.cast_ne_ok _ _)
                  · exact absurd h (C01.cast_ne_ok _ _)
                · exact absurd h (C01.cast_ne_ok _ _)
              · exact absurd h (C01.cast_ne_ok _ _)
          · simp only [Prod.mk.injEq] at h; exact absurd h.2 (C01.cast_ne_ok _ _)
        · simp only [Prod.mk.injEq] at h; exact absurd h.2 (C01.cast_ne_ok _ _)
      · simp only [Prod.mk.injEq] at h; exact absurd h.2 (C01.cast_ne_ok _ _)

theorem fldsOf_mem (reg : Registry) (rs : List Region) (fs : List RustSem.Fld) (h : Exec.fldsOf reg rs = some fs) :
    ∀ rg ∈ rs, ∃ f, Exec.fldOf reg rg = some f := by
  induction rs generalizing fs with
  | nil => intro rg hrg; cases hrg
  | cons r rs ih =>
    simp only [Exec.fldsOf] at h
    cases h1 : Exec.fldOf reg r with
    | none => simp [h1] at h
    | some f =>
      cases h2 : Exec.fldsOf reg rs with
      | none => simp [h1, h2] at h
      | some fs' =>
        intro rg hrg
        rcases List.mem_cons.mp hrg with rfl | hrg
        · exact ⟨f, h1⟩
        · exact ih fs' h2 rg hrg

theorem tyLayout_defaultablePath (reg : Registry) (t : DTy) (x : Nat × Nat) (q : Path)
    (h : C02.tyLayout reg.ps (C02.regLayout reg) t = some x) (hq : t.defaultablePath = some q) :
    ∃ item res, reg.get q = some item ∧ item.state = .res res := by
  induction t generalizing x with
  | raw p =>
    simp only [DTy.defaultablePath, Option.some.injEq] at hq
    subst hq
    simp only [C02.tyLayout, C02.regLayout] at h
    cases hg : reg.get p with
    | none => rw [hg] at h; cases h
    | some item =>
      rw [hg] at h
      simp only [Option.bind_some, Option.map_eq_some_iff] at h
      obtain ⟨res, hres, _⟩ := h
      exact ⟨item, res, rfl, C02.resolved?_eq hres⟩
  | cptr t _ => cases hq
  | mptr t _ => cases hq
  | arr t n ih =>
    simp only [DTy.defaultablePath] at hq
    simp only [C02.tyLayout, Option.map_eq_some_iff] at h
    obtain ⟨y, hy, _⟩ := h
    exact ih y hy hq

/-- **the statement loop of every emitted struct**: a generated vftable struct (not defaultable, derives nothing), or
    built from a definition written in the case, whose statement loop ran (in a registry the final one extends) to the
    pending fields `sa.pending`; every field of the emitted struct is generated (private, undocumented) or one of them;
    a `defaultable` struct passed the defaultable check in a registry `s1.reg` the final one extends, in which every field
    of the emitted struct has a known layout -/
theorem case_stmts_master (c : Case) (hps : c.ps = 4 ∨ c.ps = 8) (hb : C12.CaseBounded c) (s : State)
    (h : c.run = .ok s) (p : Path) (i : ItemDef) (r : Resolved) (td : TypeDefn)
    (hg : s.reg.get p = some i) (hs : i.state = .res r) (hin : r.inner = .type td) (hc : i.cat = .defined) :
    (∃ (reg0 : Registry) (owner : Path) (vis : Vis) (fns : List SFunc),
        buildVftableItem reg0 owner vis fns = some i ∧ i.path = p ∧ i.vis = vis ∧
        td = { regions := fns.map (functionToRegion owner) }) ∨
    ∃ (item : G.Item) (d : G.TypeDef) (s0 s1 : State) (module : Mod) (sa : StmtAcc),
      Declared c p item ∧ item.inner = .type d ∧ s0.moduleFor p = some module ∧ C02.Ext s0.reg s1.reg ∧
      C02.Ext s1.reg s.reg ∧
      Res.foldlM (stmtStep s0.reg module.scope) {} (d.stmts.zipIdx.map fun q => (q.2, q.1)) = .ok sa ∧
      (∀ rg ∈ td.regions, (rg.vis = .priv ∧ rg.doc = none) ∨ (rg.name.isSome ∧ rg ∈ sa.pending.map (·.2))) ∧
      (td.defaultable = true → checkDefaultable s1.reg td.regions = .ok ()) ∧
      (∀ rg ∈ td.regions, ∃ f, Exec.fldOf s1.reg rg = some f) := by
  rcases case_type_origin c hps hb s h p i r td hg hs hin hc with
    ⟨reg0, owner, vis, fns, hv, hp⟩ | ⟨s0, s1, item, d, hok, hinv, hQ, hD, hget, hd, hbt, he, hi⟩
  · obtain ⟨htd, hvis, _⟩ := vftable_item_td reg0 owner vis fns i r td hv hs hin
    exact Or.inl ⟨reg0, owner, vis, fns, hv, hp, hvis, htd⟩
  · right
    obtain ⟨module, module1, ta, sa, vft, vregion, placed, acc1, acc2, td', hmod, hmod1, hdoc, hta, hsa, hbv, hres, hn, hal,
      hacc1, hacc2, hin', hfns, hvft, _⟩ := buildType_full s0 s1 p item.vis d r hbt
    rw [hin] at hin'
    cases hin'
    obtain ⟨td'', hin'', hdef⟩ := buildType_defaultable s0 s1 p item.vis d r hbt
    rw [hin] at hin''
    cases hin''
    have he01 := Exec.buildVftable_ext s0 s1 p item.vis _ _ _ hbv
    have hprims1 : C02.PrimsOk s1.reg := Exec.primsOk_ext he01 hinv.1.prims
    refine ⟨item, d, s0, s1, module, sa, hD, hd, hmod, he01, he, hsa, ?_, hdef,
      fldsOf_mem s1.reg td.regions _ (Exec.fldsOf_placed s1.reg hprims1 vregion sa.pending ta.targetSize placed r.size hres
        td.regions hn)⟩
    · intro rg hrg
      rcases regions_src s1.reg vregion sa.pending ta.targetSize placed r.size td.regions hres hn rg hrg with
        hgen | ⟨hnm, hv | hpend⟩
      · exact Or.inl hgen
      · left
        rcases buildVftable_cases s0 s1 p item.vis _ sa.vfns vft vregion hbv with
          ⟨_, _, hp, _⟩ | ⟨_, _, hp, _⟩ | ⟨_, _, _, _, hp, _⟩ | ⟨_, vpath, _, _, _, hp, _⟩ | ⟨_, _, _, _, _, _, _, _, _, hp, _⟩
        · rw [hp] at hv; cases hv
        · rw [hp] at hv; cases hv
        · rw [hp] at hv; cases hv
        · rw [hp] at hv; cases hv; exact ⟨rfl, rfl⟩
        · rw [hp] at hv; cases hv
      · exact Or.inr ⟨hnm, hpend⟩

/-! ### C14: the stored modules and their definition paths, through a whole run -/

/-- **the stored modules are well formed**: their keys are pairwise distinct; the definition paths of each are
    pairwise distinct, are children of the module's path, and are entries of the registry -/
structure ModInv (s : State) : Prop where
  keys : (s.modules.map (·.1)).Nodup
  nodup : ∀ e ∈ s.modules, e.2.defPaths.Nodup
  parent : ∀ e ∈ s.modules, ∀ q ∈ e.2.defPaths, Path.parent? q = some e.1
  listed : ∀ e ∈ s.modules, ∀ q ∈ e.2.defPaths, s.reg.contains q = true

theorem contains_setState (r : Registry) (p q : Path) (st : IState) :
    (r.setState p st).contains q = r.contains q := by
  unfold Registry.contains
  rw [C12.get_setState]
  split
  · cases r.get q <;> rfl
  · rfl

theorem modInv_closed : Closed ModInv := by
  refine ⟨?_, ?_⟩
  · intro s s' i hs h
    obtain ⟨par, m0, hpar, hm0, rfl⟩ := addItem_inv' s s' i h
    have hmem0 := C14.mem_of_lookup s.modules par m0 hm0
    refine ⟨?_, ?_, ?_, ?_⟩
    · have : (s.modules.map (fun e => if e.1 == par then
          (e.1, { m0 with defPaths := if m0.defPaths.contains i.path then m0.defPaths else i.path :: m0.defPaths }) else e)).map (·.1)
          = s.modules.map (·.1) := by
        rw [List.map_map]
        apply List.map_congr_left
        intro e _
        simp only [Function.comp]
        split <;> rfl
      simp only [this]
      exact hs.keys
    · exact C14.defPaths_nodup_main s _ i h hs.nodup
    · intro e he q hq
      simp only [List.mem_map] at he
      obtain ⟨e0, he0, rfl⟩ := he
      split at hq
      · next hk =>
        have hk' : e0.1 = par := by simpa using hk
        simp only [hk] at hq ⊢
        simp only [if_true]
        split at hq
        · rw [hk']; exact hs.parent _ hmem0 q hq
        · rcases List.mem_cons.mp hq with rfl | hq
          · rw [hk']; exact hpar
          · rw [hk']; exact hs.parent _ hmem0 q hq
      · next hk =>
        simp only [hk] at hq ⊢
        exact hs.parent e0 he0 q hq
    · intro e he q hq
      simp only [List.mem_map] at he
      obtain ⟨e0, he0, rfl⟩ := he
      rw [C14.contains_add]
      split at hq
      · split at hq
        · exact Or.inl (hs.listed _ hmem0 q hq)
        · rcases List.mem_cons.mp hq with rfl | hq
          · exact Or.inr rfl
          · exact Or.inl (hs.listed _ hmem0 q hq)
      · exact Or.inl (hs.listed e0 he0 q hq)
  · intro s p st hs
    exact ⟨hs.keys, hs.nodup, hs.parent, fun e he q hq => by
      show (s.reg.setState p st).contains q = true
      rw [contains_setState]; exact hs.listed e he q hq⟩

theorem modInv_putModule (s : State) (path : Path) (md : Mod) (hmd : md.defPaths = []) (hs : ModInv s) :
    ModInv (s.putModule path md) := by
  refine ⟨?_, ?_, ?_, ?_⟩
  · simp only [State.putModule, List.map_cons, List.nodup_cons]
    refine ⟨?_, (hs.keys.sublist (List.filter_sublist.map _))⟩
    intro hmem
    obtain ⟨e, he, hk⟩ := List.mem_map.mp hmem
    have := (List.mem_filter.mp he).2
    simp [hk] at this
  · intro e he
    simp only [State.putModule, List.mem_cons, List.mem_filter] at he
    rcases he with rfl | ⟨he, _⟩
    · rw [hmd]; exact List.nodup_nil
    · exact hs.nodup e he
  · intro e he q hq
    simp only [State.putModule, List.mem_cons, List.mem_filter] at he
    rcases he with rfl | ⟨he, _⟩
    · rw [hmd] at hq; cases hq
    · exact hs.parent e he q hq
  · intro e he q hq
    simp only [State.putModule, List.mem_cons, List.mem_filter] at he
    rcases he with rfl | ⟨he, _⟩
    · rw [hmd] at hq; cases hq
    · exact hs.listed e he q hq

theorem modInv_initial (c : Case) (s : State) (h : c.initialState = .ok s) : ModInv s := by
  rw [initialState_eq] at h
  have h0 : ModInv (State.new c.ps) := modInv_closed.init c.ps
    ⟨(by simp), (by intro e he; simp at he; subst he; exact List.nodup_nil),
     (by intro e he q hq; simp at he; subst he; cases hq),
     (by intro e he q hq; simp at he; subst he; cases hq)⟩
  refine (C12.PO.foldlM_inv (S := fun _ => True) ModInv modStep c.modules _ h0 ?_).2 s h
  intro b me _ hb
  cases me with
  | ast path file m =>
    exact ⟨fun _ _ => trivial, fun b' hb' =>
      modInv_closed.addMod b b' m path (fun xvals doc => modInv_putModule b path _ rfl hb) hb'⟩
  | text f t => exact ⟨fun _ _ => trivial, fun _ h => by cases h⟩

theorem mapM'_map_eq {α β γ} (f : α → Res β) (g : β → γ) (k : α → γ) (hf : ∀ a b, f a = .ok b → g b = k a)
    (l : List α) (l' : List β) (h : Res.mapM' f l = .ok l') : l'.map g = l.map k := by
  induction l generalizing l' with
  | nil => simp only [Res.mapM', Res.ok.injEq] at h; subst h; rfl
  | cons a l ih =>
    unfold Res.mapM' at h
    split at h
    · next b hb =>
      split at h
      · next bs hbs =>
        simp only [Res.ok.injEq] at h
        subst h
        simp only [List.map_cons, hf a b hb, ih bs hbs]
      all_goals cases h
    all_goals cases h

/-- what `build` does to the stored modules after the resolution loop: same keys, same definition paths -/
theorem final_modules (reg : Registry) (l ms : List (Path × Mod))
    (h : Res.mapM' (fun (e : Path × Mod) =>
        match resolveXVals reg e.2 with
        | .ok m => Res.ok (e.1, m)
        | x => x.cast) l = .ok ms) :
    ms.map (·.1) = l.map (·.1) ∧ ms.map (fun e => (e.1, e.2.defPaths)) = l.map (fun e => (e.1, e.2.defPaths)) := by
  refine ⟨mapM'_map_eq _ _ _ ?_ l ms h, mapM'_map_eq _ _ _ ?_ l ms h⟩
  · intro a b hab
    split at hab
    · cases hab; rfl
    · exact (C14.cast_ne_ok _ _ hab).elim
  · intro a b hab
    split at hab
    · next m' hm' =>
      cases hab
      obtain ⟨_, hdp, _⟩ := resolveXVals_inv reg a.2 m' hm'
      simp only [hdp]
    · exact (C14.cast_ne_ok _ _ hab).elim

theorem mem_of_map_eq {α β} (f : α → β) (l l' : List α) (h : l'.map f = l.map f) : ∀ e' ∈ l', ∃ e ∈ l, f e' = f e := by
  intro e' he'
  have : f e' ∈ l.map f := by rw [← h]; exact List.mem_map_of_mem he'
  obtain ⟨e, he, hfe⟩ := List.mem_map.mp this
  exact ⟨e, he, hfe.symm⟩

/-- **the stored modules of the final state of every accepted case are well formed** -/
theorem case_modInv (c : Case) (s : State) (h : c.run = .ok s) : ModInv s := by
  unfold Case.run at h
  split at h
  · next s0 hs0 =>
    have h0 := modInv_initial c s0 hs0
    obtain ⟨s1, hl, ms, hms, rfl⟩ := C09.build_ok_inv s0 c.prio s h
    have h1 := modInv_closed.loop c.prio _ s0 h0 s1 hl
    obtain ⟨hk, hdp⟩ := final_modules s1.reg s1.modules ms hms
    refine ⟨by show (ms.map (·.1)).Nodup; rw [hk]; exact h1.keys, ?_, ?_, ?_⟩
    · intro e' he'
      obtain ⟨e, he, hfe⟩ := mem_of_map_eq _ _ _ hdp e' he'
      simp only [Prod.mk.injEq] at hfe
      rw [hfe.2]; exact h1.nodup e he
    · intro e' he' q hq
      obtain ⟨e, he, hfe⟩ := mem_of_map_eq _ _ _ hdp e' he'
      simp only [Prod.mk.injEq] at hfe
      rw [hfe.2] at hq
      rw [hfe.1]; exact h1.parent e he q hq
    · intro e' he' q hq
      obtain ⟨e, he, hfe⟩ := mem_of_map_eq _ _ _ hdp e' he'
      simp only [Prod.mk.injEq] at hfe
      rw [hfe.2] at hq
      exact h1.listed e he q hq
  · cases h
  · cases h
  · cases h


/-! ### C14: every item of a non-root module is listed in its module (when module paths are distinct) -/

/-- the paths the (AST) modules of a case are written under, in order -/
def astPaths (l : List ModEnt) : List Path :=
  l.filterMap fun me => match me with | .ast p _ _ => some p | .text _ _ => none

/-- every entry of the registry whose parent path is a non-root module is listed in the definition paths of the module
    stored under that path -/
def Listed (s : State) : Prop :=
  ∀ q i par, s.reg.get q = some i → Path.parent? q = some par → par ≠ [] →
    ∃ md, (par, md) ∈ s.modules ∧ q ∈ md.defPaths

theorem lookup_of_mem_nodup {α β} [BEq α] [LawfulBEq α] (l : List (α × β)) (hn : (l.map (·.1)).Nodup) (k : α) (v : β)
    (h : (k, v) ∈ l) : l.lookup k = some v := by
  induction l with
  | nil => cases h
  | cons e l ih =>
    obtain ⟨k', v'⟩ := e
    simp only [List.map_cons, List.nodup_cons] at hn
    rcases List.mem_cons.mp h with he | he
    · cases he
      simp
    · have hne : k ≠ k' := by
        intro e
        apply hn.1
        rw [← e]
        exact List.mem_map.mpr ⟨(k, v), he, rfl⟩
      have : (k == k') = false := by simpa using hne
      rw [List.lookup_cons, this]
      exact ih hn.2 he

theorem keys_addItem (s s' : State) (i : ItemDef) (h : s.addItem i = .ok s') :
    s'.modules.map (·.1) = s.modules.map (·.1) := by
  obtain ⟨par, m0, _, _, rfl⟩ := addItem_inv' s s' i h
  simp only [List.map_map]
  apply List.map_congr_left
  intro e _
  simp only [Function.comp]
  split <;> rfl

theorem modInvListed_closed : Closed (fun s => ModInv s ∧ Listed s) := by
  refine ⟨?_, ?_⟩
  · intro s s' i hs h
    refine ⟨modInv_closed.addItem s s' i hs.1 h, ?_⟩
    obtain ⟨parent, m0, hpar, hm0, rfl⟩ := addItem_inv' s s' i h
    have hmem0 := C14.mem_of_lookup s.modules parent m0 hm0
    intro q j par hj hp hne
    simp only [C14.get_add] at hj
    by_cases hq : q = i.path
    · subst hq
      rw [hpar] at hp
      cases hp
      refine ⟨{ m0 with defPaths := if m0.defPaths.contains i.path then m0.defPaths else i.path :: m0.defPaths },
        List.mem_map.mpr ⟨(parent, m0), hmem0, by simp⟩, ?_⟩
      simp only
      split
      · next hc => simpa using hc
      · exact List.mem_cons_self
    · rw [if_neg hq] at hj
      obtain ⟨md, hmd, hqm⟩ := hs.2 q j par hj hp hne
      by_cases hk : par = parent
      · subst hk
        have : md = m0 := by
          have := lookup_of_mem_nodup s.modules hs.1.keys par md hmd
          unfold State.getModule at hm0
          rw [this] at hm0
          cases hm0; rfl
        subst this
        refine ⟨{ md with defPaths := if md.defPaths.contains i.path then md.defPaths else i.path :: md.defPaths },
          List.mem_map.mpr ⟨(par, md), hmd, by simp⟩, ?_⟩
        simp only
        split
        · exact hqm
        · exact List.mem_cons_of_mem _ hqm
      · refine ⟨md, List.mem_map.mpr ⟨(par, md), hmd, ?_⟩, hqm⟩
        have : ((par == parent) : Bool) = false := by simpa using hk
        simp [this]
  · intro s p st hs
    refine ⟨modInv_closed.setState s p st hs.1, ?_⟩
    intro q j par hj hp hne
    simp only [C12.get_setState] at hj
    split at hj
    · cases hg : s.reg.get q with
      | none => rw [hg] at hj; cases hj
      | some i0 => exact hs.2 q i0 par hg hp hne
    · exact hs.2 q j par hj hp hne

theorem listed_putModule (s : State) (path : Path) (md : Mod) (hs : Listed s)
    (hfresh : path = [] ∨ path ∉ s.modules.map (·.1)) : Listed (s.putModule path md) := by
  intro q i par hg hp hne
  obtain ⟨md', hmd', hq⟩ := hs q i par hg hp hne
  refine ⟨md', ?_, hq⟩
  simp only [State.putModule, List.mem_cons, List.mem_filter]
  right
  refine ⟨hmd', ?_⟩
  have : par ≠ path := by
    rcases hfresh with rfl | hf
    · exact hne
    · intro e
      apply hf
      rw [← e]
      exact List.mem_map.mpr ⟨(par, md'), hmd', rfl⟩
  simpa using this

/-- the keys after `add_module`: the module's path and the keys before -/
theorem addModule_keys (s s' : State) (m : G.Module) (path : Path) (h : s.addModule m path = .ok s') :
    (∀ k ∈ s'.modules.map (·.1), k = path ∨ k ∈ s.modules.map (·.1)) ∧
    (∀ k ∈ s.modules.map (·.1), k ∈ s'.modules.map (·.1)) ∧ path ∈ s'.modules.map (·.1) := by
  have hc : Closed (fun t : State => (∀ k ∈ t.modules.map (·.1), k = path ∨ k ∈ s.modules.map (·.1)) ∧
      (∀ k ∈ s.modules.map (·.1), k ∈ t.modules.map (·.1)) ∧ path ∈ t.modules.map (·.1)) := by
    refine ⟨?_, ?_⟩
    · intro t t' i ht ha
      rw [keys_addItem t t' i ha]
      exact ht
    · intro t p st ht
      exact ht
  refine hc.addMod s s' m path ?_ h
  intro xvals doc
  refine ⟨?_, ?_, ?_⟩
  · intro k hk
    simp only [State.putModule, List.map_cons, List.mem_cons] at hk
    rcases hk with rfl | hk
    · exact Or.inl rfl
    · right
      obtain ⟨e, he, rfl⟩ := List.mem_map.mp hk
      exact List.mem_map.mpr ⟨e, (List.mem_filter.mp he).1, rfl⟩
  · intro k hk
    simp only [State.putModule, List.map_cons, List.mem_cons]
    by_cases e : k = path
    · exact Or.inl e
    · right
      obtain ⟨x, hx, rfl⟩ := List.mem_map.mp hk
      exact List.mem_map.mpr ⟨x, List.mem_filter.mpr ⟨hx, by simpa using e⟩, rfl⟩
  · simp [State.putModule]

theorem listed_fold (l : List ModEnt) (s0 s : State) (h : Res.foldlM modStep s0 l = .ok s)
    (hnd : (astPaths l).Nodup) (hfresh : ∀ p ∈ astPaths l, p = [] ∨ p ∉ s0.modules.map (·.1))
    (h0 : ModInv s0 ∧ Listed s0) : ModInv s ∧ Listed s := by
  induction l generalizing s0 with
  | nil => simp only [Res.foldlM, Res.ok.injEq] at h; subst h; exact h0
  | cons me rest ih =>
    obtain ⟨s1, h1, h2⟩ := C14.foldlM_cons_ok modStep s0 s me rest h
    cases me with
    | text f t => cases h1
    | ast path file m =>
      have hap : astPaths (ModEnt.ast path file m :: rest) = path :: astPaths rest := rfl
      rw [hap] at hnd hfresh
      have hstep : s0.addModule m path = .ok s1 := h1
      have hI1 : ModInv s1 ∧ Listed s1 :=
        modInvListed_closed.addMod s0 s1 m path
          (fun xvals doc => ⟨modInv_putModule s0 path _ rfl h0.1,
            listed_putModule s0 path _ h0.2 (hfresh path List.mem_cons_self)⟩) hstep
      obtain ⟨hk1, _, _⟩ := addModule_keys s0 s1 m path hstep
      refine ih s1 h2 (List.nodup_cons.mp hnd).2 ?_ hI1
      intro p hp
      rcases hfresh p (List.mem_cons_of_mem _ hp) with h3 | h3
      · exact Or.inl h3
      · right
        intro hmem
        rcases hk1 p hmem with e | e
        · subst e
          exact (List.nodup_cons.mp hnd).1 hp
        · exact h3 e

/-- every module path of the case is the key of a stored module -/
theorem keys_fold (l : List ModEnt) (s0 s : State) (h : Res.foldlM modStep s0 l = .ok s) :
    (∀ k ∈ s0.modules.map (·.1), k ∈ s.modules.map (·.1)) ∧ ∀ p ∈ astPaths l, p ∈ s.modules.map (·.1) := by
  induction l generalizing s0 with
  | nil => simp only [Res.foldlM, Res.ok.injEq] at h; subst h; exact ⟨fun k hk => hk, fun p hp => by cases hp⟩
  | cons me rest ih =>
    obtain ⟨s1, h1, h2⟩ := C14.foldlM_cons_ok modStep s0 s me rest h
    cases me with
    | text f t => cases h1
    | ast path file m =>
      have hstep : s0.addModule m path = .ok s1 := h1
      obtain ⟨_, hk2, hk3⟩ := addModule_keys s0 s1 m path hstep
      obtain ⟨i1, i2⟩ := ih s1 h2
      refine ⟨fun k hk => i1 k (hk2 k hk), ?_⟩
      intro p hp
      have hap : astPaths (ModEnt.ast path file m :: rest) = path :: astPaths rest := rfl
      rw [hap] at hp
      rcases List.mem_cons.mp hp with rfl | hp
      · exact i1 p hk3
      · exact i2 p hp

theorem keysSup_closed (K : List Path) : Closed (fun t : State => ∀ k ∈ K, k ∈ t.modules.map (·.1)) :=
  ⟨fun t t' i ht ha => by rw [keys_addItem t t' i ha]; exact ht, fun _ _ _ ht => ht⟩

theorem mem_astPaths (l : List ModEnt) (path : Path) (file : String) (m : G.Module) (h : ModEnt.ast path file m ∈ l) :
    path ∈ astPaths l := List.mem_filterMap.mpr ⟨_, h, rfl⟩

/-- **every module of the case is stored**: for every module written in the case, the final state holds a module under
    its path -/
theorem case_modules_present (c : Case) (s : State) (h : c.run = .ok s) (path : Path) (file : String) (m : G.Module)
    (hm : ModEnt.ast path file m ∈ c.modules) : ∃ md, (path, md) ∈ s.modules := by
  unfold Case.run at h
  split at h
  · next s0 hs0 =>
    rw [initialState_eq] at hs0
    obtain ⟨_, hall⟩ := keys_fold c.modules _ s0 hs0
    obtain ⟨s1, hl, ms, hms, rfl⟩ := C09.build_ok_inv s0 c.prio s h
    have h1 := (keysSup_closed [path]).loop c.prio _ s0
      (fun k hk => by simp at hk; subst hk; exact hall _ (mem_astPaths c.modules k file m hm)) s1 hl
    obtain ⟨hk, _⟩ := final_modules s1.reg s1.modules ms hms
    have : path ∈ ms.map (·.1) := by rw [hk]; exact h1 path (by simp)
    obtain ⟨e, he, rfl⟩ := List.mem_map.mp this
    exact ⟨e.2, he⟩
  · cases h
  · cases h
  · cases h

theorem keysEq_closed (K : List Path) : Closed (fun t : State => t.modules.map (·.1) = K) :=
  ⟨fun t t' i ht ha => by rw [keys_addItem t t' i ha]; exact ht, fun _ _ _ ht => ht⟩

/-- **every item of a non-root module is listed in its module**, for every accepted case whose module paths are
    pairwise distinct -/
theorem case_listed (c : Case) (hnd : (astPaths c.modules).Nodup) (s : State) (h : c.run = .ok s) : Listed s := by
  unfold Case.run at h
  split at h
  · next s0 hs0 =>
    rw [initialState_eq] at hs0
    have hnew : ModInv (State.new c.ps) ∧ Listed (State.new c.ps) := by
      refine modInvListed_closed.init c.ps ⟨⟨(by simp), (by intro e he; simp at he; subst he; exact List.nodup_nil),
        (by intro e he q hq; simp at he; subst he; cases hq), (by intro e he q hq; simp at he; subst he; cases hq)⟩, ?_⟩
      intro q i par hg
      cases hg
    have hkeys0 : (State.new c.ps).modules.map (·.1) = [[]] :=
      (keysEq_closed [[]]).init c.ps rfl
    have h0 := listed_fold c.modules _ s0 hs0 hnd (by
      intro p _
      rw [hkeys0]
      by_cases e : p = []
      · exact Or.inl e
      · exact Or.inr (by simpa using e)) hnew
    obtain ⟨s1, hl, ms, hms, rfl⟩ := C09.build_ok_inv s0 c.prio s h
    have h1 := modInvListed_closed.loop c.prio _ s0 h0 s1 hl
    obtain ⟨_, hdp⟩ := final_modules s1.reg s1.modules ms hms
    intro q i par hg hp hne
    obtain ⟨md, hmd, hq⟩ := h1.2 q i par hg hp hne
    obtain ⟨e', he', hfe⟩ := mem_of_map_eq _ _ _ hdp.symm (par, md) hmd
    simp only [Prod.mk.injEq] at hfe
    refine ⟨e'.2, ?_, by rw [← hfe.2]; exact hq⟩
    have : e' = (par, e'.2) := by rw [hfe.1]
    rw [← this]; exact he'
  · cases h
  · cases h
  · cases h

theorem distinct_of_nodup (l : List ModEnt) (hnd : (astPaths l).Nodup) :
    ∀ path f1 m1 f2 m2, ModEnt.ast path f1 m1 ∈ l → ModEnt.ast path f2 m2 ∈ l → m1 = m2 := by
  induction l with
  | nil => intro path f1 m1 f2 m2 h1; cases h1
  | cons me rest ih =>
    intro path f1 m1 f2 m2 h1 h2
    have hrest : (astPaths rest).Nodup := by
      cases me with
      | ast p f m => exact (List.nodup_cons.mp (show (p :: astPaths rest).Nodup from hnd)).2
      | text f t => exact hnd
    rcases List.mem_cons.mp h1 with e1 | e1
    · rcases List.mem_cons.mp h2 with e2 | e2
      · rw [← e1] at e2; cases e2; rfl
      · subst e1
        exact absurd (mem_astPaths rest path f2 m2 e2) (List.nodup_cons.mp (show (path :: astPaths rest).Nodup from hnd)).1
    · rcases List.mem_cons.mp h2 with e2 | e2
      · subst e2
        exact absurd (mem_astPaths rest path f1 m1 e1) (List.nodup_cons.mp (show (path :: astPaths rest).Nodup from hnd)).1
      · exact ih hrest path f1 m1 f2 m2 e1 e2

theorem distinctModulePaths_of_nodup (c : Case) (hnd : (astPaths c.modules).Nodup) : DistinctModulePaths c :=
  distinct_of_nodup c.modules hnd

/-- a stored non-root module has a file -/
theorem moduleFile_mem_files (s : State) (e : Path × Mod) (he : e ∈ s.modules) (hne : e.1 ≠ []) :
    Emit.moduleFile s e.1 e.2 ∈ Emit.files s := by
  unfold Emit.files Emit.sortBy
  refine List.mem_map.mpr ⟨e, List.mem_mergeSort.mpr (List.mem_filter.mpr ⟨he, ?_⟩), rfl⟩
  cases h : e.1 with
  | nil => exact absurd h hne
  | cons a l => rfl

/-- the items printed for a listed entry are items of the module's file -/
theorem itemItems_in_file (s : State) (key : Path) (md : Mod) (q : Path) (i : ItemDef) (hq : q ∈ md.defPaths)
    (hg : s.reg.get q = some i) : ∀ x ∈ Emit.itemItems s.reg i, x ∈ fileItems (Emit.moduleFile s key md) := by
  intro x hx
  rw [fileItems_moduleFile]
  simp only [List.mem_append]
  left; left; right
  simp only [List.mem_flatMap, Emit.sortBy, List.mem_mergeSort, List.mem_filterMap]
  exact ⟨i, ⟨q, hq, hg⟩, hx⟩


end PyxisVerif.CaseLift2
