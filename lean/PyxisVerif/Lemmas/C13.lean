import PyxisVerif.Spec.C13
/-! helper lemmas for C13 -/
namespace PyxisVerif.C13
end PyxisVerif.C13
