import PyxisVerif.Spec.C13
/-! helper lemmas for C13 -/
namespace PyxisVerif.C13
open Gen

theorem cast_ne_ok {α β} (r : Res α) (b : β) : (r.cast : Res β) ≠ .ok b := by
  cases r <;> simp [Res.cast]

/-! ## `Res.foldlM` -/

/-- an invariant of the steps is an invariant of the loop -/
theorem foldlM_inv {α β} (f : β → α → Res β) (P : β → Prop)
    (hstep : ∀ b a b', P b → f b a = .ok b' → P b') :
    ∀ (l : List α) (b b' : β), P b → Res.foldlM f b l = .ok b' → P b' := by
  intro l
  induction l with
  | nil =>
    intro b b' hb h
    simp only [Res.foldlM, Res.ok.injEq] at h
    exact h ▸ hb
  | cons a as ih =>
    intro b b' hb h
    unfold Res.foldlM at h
    split at h
    · rename_i b1 h1
      exact ih b1 b' (hstep b a b1 hb h1) h
    all_goals cases h

/-- a loop over a `Unit` accumulator that succeeds has succeeded in every iteration -/
theorem foldlM_unit_ok {α} (f : Unit → α → Res Unit) :
    ∀ (l : List α), Res.foldlM f () l = .ok () → ∀ a ∈ l, f () a = .ok () := by
  intro l
  induction l with
  | nil => intro _ a ha; cases ha
  | cons x xs ih =>
    intro h a ha
    unfold Res.foldlM at h
    split at h
    · rename_i b1 h1
      cases List.mem_cons.mp ha with
      | inl e => subst e; exact h1
      | inr e => exact ih h a e
    all_goals cases h

/-! ## the statement loop of `type_definition::build` -/

/-- what one accepted statement does to the list of pending regions -/
theorem stmtStep_pending (reg : Registry) (scope : List Path) (acc acc' : StmtAcc) (idx : Nat) (st : G.Stmt)
    (h : stmtStep reg scope acc (idx, st) = .ok acc') :
    acc'.pending = acc.pending ∨
    ∃ a r, acc'.pending = acc.pending ++ [(a, r)] ∧ (r.isBase = true → r.name.isSome = true) ∧
      (∀ n, r.name = some n → ∀ p ∈ acc.pending, p.2.name ≠ some n) := by
  unfold stmtStep at h
  simp only at h
  split at h
  · rename_i vis name ty hfield
    split at h
    · cases h
    · rename_i doc hdoc
      split at h
      · rename_i fa hfa
        split at h
        · cases h
        · rename_i hbase
          split at h
          · rename_i t ht
            generalize hid : (if (name != "_") = true then some name else none : Option String) = ident at h
            split at h
            · cases h
            · rename_i hdup
              cases h
              refine .inr ⟨fa.address, _, rfl, ?_, ?_⟩
              · intro hb
                simp only at hb
                simp only [hb, Bool.true_and, beq_iff_eq] at hbase
                rw [← hid]
                simp [hbase]
              · intro n hn p hp hpn
                simp only at hn
                apply hdup
                simp only [Bool.and_eq_true, List.any_eq_true, beq_iff_eq]
                refine ⟨by rw [hn]; rfl, p, hp, ?_⟩
                rw [hpn, hn]
          · exact absurd h (cast_ne_ok _ _)
      · exact absurd h (cast_ne_ok _ _)
  · split at h
    · cases h
    · split at h
      · cases h
      · split at h
        · split at h
          · cases h; exact .inl rfl
          · exact absurd h (cast_ne_ok _ _)
        · exact absurd h (cast_ne_ok _ _)

/-- the invariant of the statement loop -/
def PendingOk (acc : StmtAcc) : Prop :=
  (acc.pending.filterMap (·.2.name)).Nodup ∧ ∀ p ∈ acc.pending, p.2.isBase = true → p.2.name.isSome = true

theorem pendingOk_step (reg : Registry) (scope : List Path) (acc : StmtAcc) (ist : Nat × G.Stmt) (acc' : StmtAcc)
    (hacc : PendingOk acc) (h : stmtStep reg scope acc ist = .ok acc') : PendingOk acc' := by
  obtain ⟨idx, st⟩ := ist
  cases stmtStep_pending reg scope acc acc' idx st h with
  | inl e => unfold PendingOk; rw [e]; exact hacc
  | inr e =>
    obtain ⟨a, r, e, hb, hn⟩ := e
    unfold PendingOk
    rw [e]
    refine ⟨?_, ?_⟩
    · rw [List.filterMap_append, List.nodup_append]
      refine ⟨hacc.1, ?_, ?_⟩
      · cases hr : r.name <;> simp [hr]
      · intro x hx y hy hxy
        subst hxy
        rw [List.mem_filterMap] at hx hy
        obtain ⟨p, hp, hpx⟩ := hx
        obtain ⟨q, hq, hqx⟩ := hy
        rw [List.mem_singleton] at hq
        subst hq
        exact hn x hqx p hp hpx
    · intro p hp
      rw [List.mem_append, List.mem_singleton] at hp
      cases hp with
      | inl hp => exact hacc.2 p hp
      | inr hp => subst hp; exact hb

theorem pendingOk_loop (reg : Registry) (scope : List Path) (stmts : List (Nat × G.Stmt)) (sa : StmtAcc)
    (h : Res.foldlM (stmtStep reg scope) {} stmts = .ok sa) : PendingOk sa := by
  refine foldlM_inv (stmtStep reg scope) PendingOk (pendingOk_step reg scope) stmts {} sa ?_ h
  exact ⟨List.nodup_nil, fun p hp => by cases hp⟩

/-! ## the case loop of `enum_definition::build` -/

theorem enumStmtStep_fields (range : Int × Int) (acc acc' : EnumAcc) (st : G.EnumStmt)
    (h : enumStmtStep range acc st = .ok acc') :
    ∃ value, acc'.fields = acc.fields ++ [(st.name, value)] ∧
      acc.fields.any (fun nv => nv.1 == st.name || nv.2 == value) = false := by
  unfold enumStmtStep at h
  split at h
  · rename_i value hv
    split at h
    · cases h
    · split at h
      · cases h
      · rename_i hdup
        simp only at h
        generalize (if value + 1 > isizeMax then none else some (value + 1) : Option Int) = last at h
        split at h
        · cases h
          exact ⟨value, rfl, Bool.eq_false_iff.mpr hdup⟩
        · exact absurd h (cast_ne_ok _ _)
  · exact absurd h (cast_ne_ok _ _)

/-- the invariant of the case loop: distinct names, distinct values -/
def CasesOk (acc : EnumAcc) : Prop := (acc.fields.map (·.1)).Nodup ∧ (acc.fields.map (·.2)).Nodup

theorem casesOk_step (range : Int × Int) (acc : EnumAcc) (st : G.EnumStmt) (acc' : EnumAcc)
    (hacc : CasesOk acc) (h : enumStmtStep range acc st = .ok acc') : CasesOk acc' := by
  obtain ⟨value, e, hn⟩ := enumStmtStep_fields range acc acc' st h
  have hn' : ∀ nv ∈ acc.fields, nv.1 ≠ st.name ∧ nv.2 ≠ value := by
    intro nv hnv
    have := List.any_eq_false.mp hn nv hnv
    simpa using this
  unfold CasesOk
  rw [e, List.map_append, List.map_append, List.nodup_append, List.nodup_append]
  refine ⟨⟨hacc.1, by simp, ?_⟩, ⟨hacc.2, by simp, ?_⟩⟩
  · intro x hx y hy
    rw [List.mem_map] at hx
    obtain ⟨nv, hnv, rfl⟩ := hx
    simp only [List.map_cons, List.map_nil, List.mem_singleton] at hy
    subst hy
    exact (hn' nv hnv).1
  · intro x hx y hy
    rw [List.mem_map] at hx
    obtain ⟨nv, hnv, rfl⟩ := hx
    simp only [List.map_cons, List.map_nil, List.mem_singleton] at hy
    subst hy
    exact (hn' nv hnv).2

theorem enum_fields_length (range : Int × Int) :
    ∀ (stmts : List G.EnumStmt) (acc acc' : EnumAcc), Res.foldlM (enumStmtStep range) acc stmts = .ok acc' →
      acc'.fields.length = acc.fields.length + stmts.length := by
  intro stmts
  induction stmts with
  | nil =>
    intro acc acc' h
    simp only [Res.foldlM, Res.ok.injEq] at h
    subst h; rfl
  | cons st rest ih =>
    intro acc acc' h
    unfold Res.foldlM at h
    split at h
    · rename_i acc1 h1
      obtain ⟨value, e, _⟩ := enumStmtStep_fields range acc acc1 st h1
      rw [ih acc1 acc' h, e]
      simp only [List.length_append, List.length_cons, List.length_nil]
      omega
    all_goals cases h

/-- inversion of `enum_definition::build`: the case loop ran on a non-empty list of cases -/
theorem buildEnum_cases (s : State) (p : Path) (d : G.EnumDef) (r : Resolved) (h : buildEnum s p d = .ok r) :
    ∃ range acc ed, d.stmts.isEmpty = false ∧ Res.foldlM (enumStmtStep range) {} d.stmts = .ok acc ∧
      r.inner = .enum ed ∧ ed.fields = acc.fields := by
  unfold buildEnum at h
  split at h
  · cases h
  · split at h
    · split at h
      · cases h
      · split at h
        · cases h
        · rename_i range hrange
          split at h
          · cases h
          · rename_i hne
            split at h
            · rename_i acc hacc
              split at h
              · cases h
              · split at h
                · split at h
                  · cases h
                  · split at h
                    · cases h
                    · split at h
                      · cases h
                      · cases h
                        exact ⟨range, acc, _, Bool.eq_false_iff.mpr hne, hacc, rfl, rfl⟩
                · exact absurd h (cast_ne_ok _ _)
            · exact absurd h (cast_ne_ok _ _)
      · exact absurd h (cast_ne_ok _ _)
    · exact absurd h (cast_ne_ok _ _)

/-! ## name lookup -/

theorem resolveString_raw (r : Registry) (scope : List Path) (name : String) (t : DTy)
    (h : r.resolveString scope name = some t) : ∃ p, t = .raw p ∧ r.contains p = true := by
  unfold Registry.resolveString at h
  simp only at h
  split at h
  · rename_i p' hf
    cases h
    have hm := List.mem_of_find?_eq_some hf
    rw [List.mem_reverse, List.mem_filter] at hm
    exact ⟨p', rfl, hm.2⟩
  · split at h
    · rename_i p' hf
      cases h
      exact ⟨p', rfl, List.find?_some hf⟩
    · cases h

theorem resolveTy_paths (reg : Registry) (scope : List Path) :
    ∀ (g : G.Ty) (t : DTy), reg.resolveTy scope g = .ok t → ∀ p ∈ rawPaths t, reg.contains p = true := by
  intro g
  induction g with
  | cptr g ih =>
    intro t h
    unfold Registry.resolveTy at h
    split at h
    · rename_i t1 h1
      cases h
      exact ih t1 h1
    · rename_i hne
      exact absurd h (hne t)
  | mptr g ih =>
    intro t h
    unfold Registry.resolveTy at h
    split at h
    · rename_i t1 h1
      cases h
      exact ih t1 h1
    · rename_i hne
      exact absurd h (hne t)
  | arr g n ih =>
    intro t h
    unfold Registry.resolveTy at h
    split at h
    · rename_i t1 h1
      cases h
      exact ih t1 h1
    · rename_i hne
      exact absurd h (hne t)
  | ident s =>
    intro t h
    unfold Registry.resolveTy at h
    split at h
    · rename_i t1 h1
      cases h
      obtain ⟨p, rfl, hp⟩ := resolveString_raw reg scope s _ h1
      intro q hq
      simp only [rawPaths, List.mem_singleton] at hq
      subst hq; exact hp
    · cases h
  | unk n =>
    intro t h
    unfold Registry.resolveTy Registry.paddingType at h
    split at h
    · rename_i t1 h1
      cases h
      obtain ⟨p, rfl, hp⟩ := resolveString_raw reg [] "u8" _ h1
      intro q hq
      simp only [rawPaths, List.mem_singleton] at hq
      subst hq; exact hp
    · cases h

end PyxisVerif.C13
