import PyxisVerif.Props.C09Case
import PyxisVerif.Lemmas.C19
import PyxisVerif.Lemmas.C07
/-!
# helper lemmas for the end-to-end frame theorem of C19 (`Props/C19Frame.lean`)

`t` is the registry `s` plus entries *directly under* a module path `path` (`RegExt path s t`).  A lookup made
with a scope none of whose members is `path` or a child of `path` (`GoodScope`) never inspects one of the new
entries, and everything an attempt reads afterwards is an entry the lookup answered with.  Hence an attempt on an
old item behaves identically in both registries (sections A–D), every run of the old state is a run of the new
state (section F), and the final registries agree on the old paths (section G).  Section H shows that the fuel of
`dfs_hierarchy` (the number of registry entries, which differs between the two states) is never exhausted, so that
the emitted items agree too.
-/
namespace PyxisVerif.C19
open C09 Work Layout Mono

/-! ## A. registries that differ directly under `path` only -/

/-- `q` is `path` or a child of `path` -/
def Near (path q : Path) : Prop := q = path ∨ ∃ x, q = path ++ [x]

/-- `q` is not a child of `path` -/
def NotNew (path q : Path) : Prop := ∀ x, q ≠ path ++ [x]

/-- no member of the scope is `path` or a child of `path` -/
def GoodScope (path : Path) (scope : List Path) : Prop := ∀ u ∈ scope, ¬ Near path u

/-- `t` is `s` plus entries directly under `path` -/
structure RegExt (path : Path) (s t : Registry) : Prop where
  ps : t.ps = s.ps
  old : ∀ q, s.contains q = true → t.get q = s.get q
  new : ∀ q, t.contains q = true → s.contains q = true ∨ ∃ x, q = path ++ [x]

theorem contains_false_get {r : Registry} {q : Path} (h : r.contains q = false) : r.get q = none := by
  unfold Registry.contains at h
  cases hg : r.get q with
  | none => rfl
  | some i => rw [hg] at h; cases h

theorem contains_of_get {r : Registry} {q : Path} {i : ItemDef} (h : r.get q = some i) : r.contains q = true := by
  simp [Registry.contains, h]

theorem RegExt.get_notNew {path : Path} {s t : Registry} (h : RegExt path s t) {q : Path} (hq : NotNew path q) :
    t.get q = s.get q := by
  cases hs : s.contains q with
  | true => exact h.old q hs
  | false =>
    cases ht : t.contains q with
    | true =>
      rcases h.new q ht with h1 | ⟨x, hx⟩
      · rw [hs] at h1; cases h1
      · exact absurd hx (hq x)
    | false => rw [contains_false_get hs, contains_false_get ht]

theorem RegExt.contains_notNew {path : Path} {s t : Registry} (h : RegExt path s t) {q : Path} (hq : NotNew path q) :
    t.contains q = s.contains q := by
  unfold Registry.contains; rw [h.get_notNew hq]

theorem RegExt.get_ext {path : Path} {s t : Registry} (h : RegExt path s t) {q : Path} {i : ItemDef}
    (hi : s.get q = some i) : t.get q = some i := by
  rw [h.old q (contains_of_get hi), hi]

theorem RegExt.refl (path : Path) (s : Registry) : RegExt path s s :=
  ⟨rfl, fun _ _ => rfl, fun _ h => .inl h⟩

theorem cand_notNew {path : Path} (hne : path ≠ []) {scope : List Path} (hs : GoodScope path scope) {name : String}
    {q : Path} (hq : q ∈ candidates scope name) : NotNew path q := by
  intro x hx
  simp only [candidates, List.mem_append, List.mem_singleton, List.mem_map] at hq
  rcases hq with (hq | hq) | ⟨u, hu, rfl⟩
  · exact hs q hq (.inr ⟨x, hx⟩)
  · subst hq
    have := (List.append_inj' (s₁ := []) (t₁ := [name]) hx rfl).1
    exact hne this.symm
  · have := (List.append_inj' hx rfl).1
    exact hs u hu (.inl this)

theorem goodScope_nil (path : Path) : GoodScope path [] := fun _ h => by cases h

section readers
variable {path : Path} {s t : Registry} (h : RegExt path s t) (hne : path ≠ [])
include h hne

theorem resolveString_ext {scope : List Path} (hs : GoodScope path scope) (name : String) :
    t.resolveString scope name = s.resolveString scope name :=
  lookup_local_lem s t scope name (fun _ hp => h.contains_notNew (cand_notNew hne hs hp))

theorem paddingType_ext : t.paddingType = s.paddingType := by
  funext n
  simp only [Registry.paddingType, resolveString_ext h hne (goodScope_nil path)]

theorem resolveTy_ext {scope : List Path} (hs : GoodScope path scope) : t.resolveTy scope = s.resolveTy scope := by
  funext ty
  induction ty with
  | cptr t ih => simp only [Registry.resolveTy, ih]
  | mptr t ih => simp only [Registry.resolveTy, ih]
  | arr t n ih => simp only [Registry.resolveTy, ih]
  | ident nm => simp only [Registry.resolveTy, resolveString_ext h hne hs]
  | unk n => simp only [Registry.resolveTy, paddingType_ext h hne]

end readers

/-! the answers of lookups are not new -/

theorem resolveString_raw (r : Registry) (scope : List Path) (name : String) (d : DTy)
    (h : r.resolveString scope name = some d) : ∃ p, d = .raw p := by
  unfold Registry.resolveString at h
  simp only at h
  split at h
  · cases h; exact ⟨_, rfl⟩
  · split at h
    · cases h; exact ⟨_, rfl⟩
    · cases h

/-- the by-value dependencies of `d` are not children of `path` -/
def NotNewD (path : Path) (d : DTy) : Prop := ∀ q ∈ byValue d, NotNew path q

def NotNewR (path : Path) : RTy → Prop
  | .data d => NotNewD path d
  | .fn .. => True

theorem resolveString_notNew {path : Path} (hne : path ≠ []) (r : Registry) {scope : List Path}
    (hs : GoodScope path scope) (name : String) (d : DTy) (h : r.resolveString scope name = some d) :
    NotNewD path d := by
  obtain ⟨p, rfl⟩ := resolveString_raw r scope name d h
  intro q hq
  simp only [byValue, List.mem_singleton] at hq
  subst hq
  exact cand_notNew hne hs (lookup_answer_lem r scope name q h).1

theorem paddingType_notNew {path : Path} (hne : path ≠ []) (r : Registry) (n : Nat) (d : DTy)
    (h : r.paddingType n = .ok d) : NotNewD path d := by
  unfold Registry.paddingType at h
  split at h
  · next t0 ht0 =>
    cases h
    exact resolveString_notNew hne r (goodScope_nil path) "u8" t0 ht0
  · cases h

theorem resolveTy_notNew {path : Path} (hne : path ≠ []) (r : Registry) {scope : List Path}
    (hs : GoodScope path scope) (ty : G.Ty) (d : DTy) (h : r.resolveTy scope ty = .ok d) : NotNewD path d := by
  induction ty generalizing d with
  | cptr t ih =>
    simp only [Registry.resolveTy] at h
    split at h
    · cases h; intro q hq; simp [byValue] at hq
    · next hx => exact absurd h (hx d)
  | mptr t ih =>
    simp only [Registry.resolveTy] at h
    split at h
    · cases h; intro q hq; simp [byValue] at hq
    · next hx => exact absurd h (hx d)
  | arr t n ih =>
    simp only [Registry.resolveTy] at h
    split at h
    · next t' ht' => cases h; exact ih t' ht'
    · next hx => exact absurd h (hx d)
  | ident nm =>
    simp only [Registry.resolveTy] at h
    split at h
    · next t' ht' => cases h; exact resolveString_notNew hne r hs nm _ ht'
    · cases h
  | unk n =>
    simp only [Registry.resolveTy] at h
    exact paddingType_notNew hne r n d h

/-! ## B. readers of entries: congruence on the by-value dependencies -/

/-- the two registries have the same entries at the by-value dependencies of `d` -/
def AgreeD (s t : Registry) (d : DTy) : Prop := ∀ q ∈ byValue d, t.get q = s.get q

def AgreeR (s t : Registry) : RTy → Prop
  | .data d => AgreeD s t d
  | .fn .. => True

theorem RegExt.agree_notNewD {path : Path} {s t : Registry} (h : RegExt path s t) {d : DTy} (hd : NotNewD path d) :
    AgreeD s t d := fun q hq => h.get_notNew (hd q hq)

theorem RegExt.agree_notNewR {path : Path} {s t : Registry} (h : RegExt path s t) {r : RTy} (hr : NotNewR path r) :
    AgreeR s t r := by
  cases r with
  | data d => exact h.agree_notNewD hr
  | fn cc args ret => trivial

theorem RegExt.agree_knownR {path : Path} {s t : Registry} (h : RegExt path s t) {r : RTy} (hk : KnownR s r) :
    AgreeR s t r := by
  cases r with
  | data d =>
    intro q hq
    obtain ⟨i, _, hi, _⟩ := hk q hq
    rw [h.get_ext hi, hi]
  | fn cc args ret => trivial

section agree
variable {s t : Registry} (hps : t.ps = s.ps)
include hps

theorem rsize_agree {r : RTy} (hr : AgreeR s t r) : r.size t = r.size s ∧ r.align t = r.align s := by
  cases r with
  | data d => exact size_local_lem s t d hps hr
  | fn cc args ret => simp only [RTy.size, RTy.align, hps, and_self]

theorem toPField_agree (addr : Option Nat) {r : Region} (hr : AgreeR s t r.ty) : toPField t addr r = toPField s addr r := by
  unfold toPField
  rw [(rsize_agree hps hr).1, (rsize_agree hps hr).2]

end agree

theorem regionNameAndTypeDef_agree {s t : Registry} {r : Region} (hr : AgreeR s t r.ty) :
    regionNameAndTypeDef t r = regionNameAndTypeDef s r := by
  unfold regionNameAndTypeDef
  cases hn : r.name with
  | none => rfl
  | some name =>
    simp only []
    cases hty : r.ty with
    | fn cc args ret => rfl
    | data d =>
      cases d with
      | raw p =>
        rw [hty] at hr
        have e : t.get p = s.get p := hr p (by simp [byValue])
        simp only [e]
      | cptr d => rfl
      | mptr d => rfl
      | arr d n => rfl

theorem checkDefaultable_agree {s t : Registry} (regions : List Region) (hk : ∀ r ∈ regions, AgreeR s t r.ty) :
    checkDefaultable t regions = checkDefaultable s regions := by
  unfold checkDefaultable
  apply Mono.foldlM_congr
  intro _ reg hreg
  cases hd : defaultablePath reg.ty with
  | none => rfl
  | some p =>
    simp only []
    have e : t.get p = s.get p := by
      cases hty : reg.ty with
      | fn cc args ret => rw [hty] at hd; simp [defaultablePath] at hd
      | data d =>
        rw [hty] at hd
        have := hk reg hreg
        rw [hty] at this
        exact this p (Mono.defaultablePath_mem d p hd)
    simp only [e]

theorem injectBases_agree {s t : Registry} (regions : List Region) (acc : InjAcc)
    (hk : ∀ r ∈ regions, AgreeR s t r.ty) : injectBases t regions acc = injectBases s regions acc := by
  unfold injectBases
  apply Mono.foldlM_congr
  intro acc ib hib
  have hmem : ib.2 ∈ regions := by
    obtain ⟨p, hp, rfl⟩ := List.mem_map.mp hib
    obtain ⟨x, i⟩ := p
    rw [List.mem_zipIdx_iff_getElem?] at hp
    exact (List.mem_filter.mp (List.mem_of_getElem? hp)).1
  simp only [regionNameAndTypeDef_agree (hk _ hmem)]

theorem baseVftable_agree {s t : Registry} (fb : Option Region) (hk : ∀ b, fb = some b → AgreeR s t b.ty) :
    baseVftable t fb = baseVftable s fb := by
  unfold baseVftable
  cases fb with
  | none => rfl
  | some b => simp only [regionNameAndTypeDef_agree (hk b rfl)]

/-! ## C. functions that only look names up, for a fixed scope -/

section fixedScope
variable {s t : Registry} {scope : List Path} (hTy : t.resolveTy scope = s.resolveTy scope)
include hTy

theorem buildArg_ext : buildArg t scope = buildArg s scope := by
  funext a
  cases a <;> simp only [buildArg, hTy]

theorem buildFunction_ext : buildFunction t scope = buildFunction s scope := by
  funext isV f
  unfold buildFunction
  simp only [buildArg_ext hTy, hTy]

theorem convertVfuncs_ext : convertVfuncs t scope = convertVfuncs s scope := by
  funext size fns
  unfold convertVfuncs
  simp only [buildFunction_ext hTy]

theorem stmtStep_ext : stmtStep t scope = stmtStep s scope := by
  funext acc ist
  unfold stmtStep
  simp only [convertVfuncs_ext hTy, hTy]

theorem addImplFns_ext : addImplFns t scope = addImplFns s scope := by
  funext impl acc
  unfold addImplFns
  simp only [buildFunction_ext hTy]

end fixedScope

theorem nameRegions_ext {s t : Registry} (hp : t.paddingType = s.paddingType) : nameRegions t = nameRegions s := by
  funext off ps
  induction ps generalizing off with
  | nil => simp only [nameRegions]
  | cons p ps ih =>
    unfold nameRegions
    simp only [hp, ih]


/-! ## D. one attempt on an old item -/

/-- the by-value dependencies of the pending fields are not children of `path` -/
def PendNN (path : Path) (acc : StmtAcc) : Prop := ∀ p ∈ acc.pending, NotNewR path p.2.ty

theorem stmtStep_notNew {path : Path} (hne : path ≠ []) (reg : Registry) {scope : List Path}
    (hs : GoodScope path scope) (acc acc' : StmtAcc) (ist : Nat × G.Stmt)
    (ha : PendNN path acc) (h : stmtStep reg scope acc ist = .ok acc') : PendNN path acc' := by
  obtain ⟨idx, st⟩ := ist
  unfold stmtStep at h
  simp only [] at h
  split at h
  · rename_i vis name ty hf
    split at h
    · cases h
    · split at h
      · rename_i fa _
        split at h
        · cases h
        · split at h
          · next t0 ht0 =>
            have hnn := resolveTy_notNew hne reg hs ty t0 ht0
            generalize (if (name != "_") = true then some name else none) = ident at h
            split at h
            · cases h
            · cases h
              intro p hp
              rcases List.mem_append.mp hp with hp | hp
              · exact ha p hp
              · simp only [List.mem_singleton] at hp
                subst hp
                exact hnn
          · exact absurd h (C01.cast_ne_ok _ _)
      · exact absurd h (C01.cast_ne_ok _ _)
  · split at h
    · cases h
    · split at h
      · cases h
      · split at h
        · split at h
          · cases h; exact ha
          · exact absurd h (C01.cast_ne_ok _ _)
        · exact absurd h (C01.cast_ne_ok _ _)

theorem stmts_fold_notNew {path : Path} (hne : path ≠ []) (reg : Registry) {scope : List Path}
    (hs : GoodScope path scope) (l : List (Nat × G.Stmt)) (sa : StmtAcc)
    (h : Res.foldlM (stmtStep reg scope) {} l = .ok sa) : PendNN path sa :=
  (C12.PO.foldlM_inv (S := fun _ => True) (PendNN path) (stmtStep reg scope) l {}
    (fun p hp => by cases hp)
    (fun acc ist _ hacc => ⟨fun _ _ => trivial, fun acc' h' => stmtStep_notNew hne reg hs acc acc' ist hacc h'⟩)).2 sa h

theorem rrPure_agree {s t : Registry} (hps : t.ps = s.ps) (hpad : t.paddingType = s.paddingType)
    (target : Option Nat) (pending : List (Option Nat × Region)) (hk : ∀ p ∈ pending, AgreeR s t p.2.ty) :
    rrPure t target pending = rrPure s target pending := by
  unfold rrPure
  have hfb : ∀ b, (pending.map (·.2)).find? (·.isBase) = some b → AgreeR s t b.ty := by
    intro b hb
    obtain ⟨p, hp, rfl⟩ := List.mem_map.mp (List.mem_of_find?_eq_some hb)
    exact hk p hp
  have e2 : ∀ fb : Option Region, (∀ b, fb = some b → AgreeR s t b.ty) → inheritedVft t fb = inheritedVft s fb := by
    intro fb hfb
    unfold inheritedVft
    rw [baseVftable_agree _ hfb]
  have e3 : (pending.map fun p => toPField t p.1 p.2) = (pending.map fun p => toPField s p.1 p.2) :=
    List.map_congr_left (fun p hp => toPField_agree hps p.1 (hk p hp))
  rw [e3, nameRegions_ext hpad]
  revert hfb
  generalize (pending.map (·.2)).find? (·.isBase) = fb
  intro hfb
  rw [e2 fb hfb]
  cases fb with
  | none => rfl
  | some b => simp only [(rsize_agree hps (hfb b rfl)).1]

theorem btTail_agree {s t : Registry} (hps : t.ps = s.ps) (module1 : Mod)
    (hTy : t.resolveTy module1.scope = s.resolveTy module1.scope) (path : Path) (doc : Option String)
    (ta : TypeAttrs) (regions : List Region) (vft : Option Vft) (size : Nat) (placed : List (Placed Region))
    (hk : ∀ r ∈ regions, AgreeR s t r.ty) :
    btTail t module1 path doc ta regions vft size placed = btTail s module1 path doc ta regions vft size placed := by
  unfold btTail
  simp only [fun acc => injectBases_agree regions acc hk, addImplFns_ext hTy, checkDefaultable_agree regions hk, hps]

/-- **`type_definition::build` is local** (types without `vftable` block): the same answer in a registry with
    additional entries directly under `path`, when the module's scope does not mention `path` or a child of it -/
theorem btPure_ext {path : Path} {s t : Registry} (h : RegExt path s t) (hne : path ≠ []) (hu : U8 s)
    (module : Mod) (hs : GoodScope path module.scope) (k : Path) (d : G.TypeDef) :
    btPure t (some module) k d = btPure s (some module) k d := by
  have hTy := resolveTy_ext h hne hs
  unfold btPure
  simp only []
  cases G.docOf d.attrs with
  | none => rfl
  | some doc =>
    simp only []
    cases Res.foldlM typeAttrStep {} d.attrs with
    | ok ta =>
      simp only []
      rw [stmtStep_ext hTy]
      cases hsa : Res.foldlM (stmtStep s module.scope) {} (d.stmts.zipIdx.map fun p => (p.2, p.1)) with
      | ok sa =>
        simp only []
        have hnn := stmts_fold_notNew hne s hs _ sa hsa
        rw [rrPure_agree h.ps (paddingType_ext h hne) ta.targetSize sa.pending
          (fun p hp => h.agree_notNewR (hnn p hp))]
        cases hrr : rrPure s ta.targetSize sa.pending with
        | ok x =>
          obtain ⟨regions, vft, size, placed⟩ := x
          simp only []
          exact btTail_agree h.ps module hTy k doc ta regions vft size placed
            (fun r hr => h.agree_knownR (rrPure_known s hu _ _ _ _ _ _ hrr r hr))
        | defer => rfl
        | err m => rfl
        | panic m => rfl
      | defer => rfl
      | err m => rfl
      | panic m => rfl
    | defer => rfl
    | err m => rfl
    | panic m => rfl

/-- **`enum_definition::build` is local** -/
theorem buildEnum_ext {path : Path} {ss ts : State} (h : RegExt path ss.reg ts.reg) (hne : path ≠ [])
    (k : Path) (hm : ts.moduleFor k = ss.moduleFor k)
    (hs : ∀ module, ss.moduleFor k = some module → GoodScope path module.scope) (d : G.EnumDef) :
    buildEnum ts k d = buildEnum ss k d := by
  unfold buildEnum
  rw [hm]
  cases hmod : ss.moduleFor k with
  | none => rfl
  | some module =>
    simp only []
    have hgs := hs module hmod
    rw [resolveTy_ext h hne hgs]
    cases hty : ss.reg.resolveTy module.scope d.ty with
    | ok ty =>
      simp only []
      have ha := h.agree_notNewD (resolveTy_notNew hne ss.reg hgs d.ty ty hty)
      have e := size_local_lem ss.reg ts.reg ty h.ps ha
      rw [e.1, e.2]
    | defer => rfl
    | err m => rfl
    | panic m => rfl


/-! ## E. what `add_module` does to a state; invariants of the initial state -/

/-- a resolved item without regions (predefined and extern types) -/
def FlatItem (i : ItemDef) : Prop := ∀ r td, i.state = .res r → r.inner = .type td → td.regions = []

/-- every resolved type of the registry has no regions: true before the resolution loop starts -/
def Flat (s : State) : Prop := ∀ p i, s.reg.get p = some i → FlatItem i

/-- invariants of a state relative to a module path `path` that is not there (yet) -/
structure FrameInv (path : Path) (s : State) : Prop where
  scopes : ∀ e ∈ s.modules, GoodScope path e.2.scope
  nokey : ∀ e ∈ s.modules, e.1 ≠ path
  defs : ∀ e ∈ s.modules, ∀ p ∈ e.2.defPaths, ∃ x, p = e.1 ++ [x]

theorem parent_concat (mp : Path) (x : String) : Path.parent? (mp ++ [x]) = some mp := by
  simp [Path.parent?]

theorem map_replace_none (mp : Path) (M' : Mod) (rest : List (Path × Mod)) (hrest : ∀ e ∈ rest, e.1 ≠ mp) :
    rest.map (fun e => if e.1 == mp then (e.1, M') else e) = rest := by
  conv => rhs; rw [← List.map_id rest]
  apply List.map_congr_left
  intro e he
  have : (e.1 == mp) = false := by simpa using hrest e he
  simp [this]

/-- `add_item` of an item directly under `mp`, when the module `mp` is the head of the module list -/
theorem addItem_under (mp : Path) (s s' : State) (i : ItemDef) (x : String) (hp : i.path = mp ++ [x])
    (M : Mod) (rest : List (Path × Mod)) (hm : s.modules = (mp, M) :: rest) (hrest : ∀ e ∈ rest, e.1 ≠ mp)
    (h : s.addItem i = .ok s') :
    s'.reg = s.reg.add i ∧ ∃ M', s'.modules = (mp, M') :: rest ∧ M'.path = M.path ∧ M'.uses = M.uses ∧
      (∀ p ∈ M'.defPaths, p ∈ M.defPaths ∨ p = i.path) := by
  have hg : s.getModule mp = some M := by simp [State.getModule, hm]
  unfold State.addItem at h
  rw [hp, parent_concat] at h
  simp only [hg, Res.ok.injEq] at h
  subst h
  refine ⟨rfl, ?_⟩
  simp only [hm, List.map_cons, BEq.rfl, if_true]
  rw [map_replace_none mp _ rest hrest]
  refine ⟨_, rfl, rfl, rfl, ?_⟩
  intro p hpm
  simp only at hpm
  split at hpm
  · exact .inl hpm
  · rcases List.mem_cons.mp hpm with e | e
    · exact .inr (by rw [e, hp])
    · exact .inl e

/-- a loop body of `add_module`: adds one item directly under `mp` that was not there -/
def AddsUnder {α} (mp : Path) (f : State → α → Res State) : Prop :=
  ∀ s a s', f s a = .ok s' →
    ∃ i x, i.path = mp ++ [x] ∧ s.reg.contains i.path = false ∧ s.addItem i = .ok s' ∧ FlatItem i

theorem defStep_addsUnder (mp : Path) : AddsUnder mp (C14.defStep mp) := by
  intro s d s' h
  unfold C14.defStep at h
  split at h
  · cases h
  · next hc => exact ⟨_, d.name, rfl, by simpa using hc, h, fun r td hr => by cases hr⟩

theorem xtypeStep_addsUnder (mp : Path) : AddsUnder mp (C14.xtypeStep mp) := by
  intro s xt s' h
  unfold C14.xtypeStep at h
  split at h
  · split at h
    · cases h
    · split at h
      · cases h
      · split at h
        · cases h
        · split at h
          · cases h
          · next hc =>
            refine ⟨_, xt.1, rfl, by simpa using hc, h, ?_⟩
            intro r td hr hin
            simp only [IState.res.injEq] at hr
            subst hr
            simp only [SInner.type.injEq] at hin
            subst hin
            rfl
  · exact (C14.cast_ne_ok _ _ h).elim

/-- the loop invariant of `add_module mp`, relative to the state `s0` it started from -/
structure AddInv (mp : Path) (uses : List Path) (rest : List (Path × Mod)) (s0 cur : State) : Prop where
  reg : RegExt mp s0.reg cur.reg
  flat : Flat s0 → Flat cur
  mods : ∃ M, cur.modules = (mp, M) :: rest ∧ M.path = mp ∧ M.uses = uses ∧ ∀ p ∈ M.defPaths, ∃ x, p = mp ++ [x]

theorem addInv_step {α} {mp : Path} {uses : List Path} {rest : List (Path × Mod)} (hrest : ∀ e ∈ rest, e.1 ≠ mp)
    {f : State → α → Res State} (hf : AddsUnder mp f) {s0 cur nxt : State} (a : α)
    (hi : AddInv mp uses rest s0 cur) (h : f cur a = .ok nxt) : AddInv mp uses rest s0 nxt := by
  obtain ⟨i, x, hp, hnc, hadd, hflat⟩ := hf cur a nxt h
  obtain ⟨M, hM, hMp, hMu, hMd⟩ := hi.mods
  obtain ⟨hreg, M', hM', hp', hu', hd'⟩ := addItem_under mp cur nxt i x hp M rest hM hrest hadd
  refine ⟨⟨?_, ?_, ?_⟩, ?_, ⟨M', hM', hp'.trans hMp, hu'.trans hMu, ?_⟩⟩
  · rw [hreg]; exact hi.reg.ps
  · intro q hq
    have e := hi.reg.old q hq
    have hne : q ≠ i.path := by
      intro e'
      subst e'
      have : cur.reg.contains i.path = true := by
        unfold Registry.contains; rw [e]; exact hq
      rw [this] at hnc; cases hnc
    rw [hreg, C14.get_add, if_neg hne, e]
  · intro q hq
    rw [hreg, C14.contains_add] at hq
    rcases hq with hq | hq
    · exact hi.reg.new q hq
    · exact .inr ⟨x, by rw [hq, hp]⟩
  · intro hs0 p j hj
    rw [hreg, C14.get_add] at hj
    by_cases e : p = i.path
    · rw [if_pos e] at hj; cases hj; exact hflat
    · rw [if_neg e] at hj; exact hi.flat hs0 p j hj
  · intro p hpm
    rcases hd' p hpm with e | e
    · exact hMd p e
    · exact ⟨x, by rw [e, hp]⟩

theorem addInv_fold {α} {mp : Path} {uses : List Path} {rest : List (Path × Mod)} (hrest : ∀ e ∈ rest, e.1 ≠ mp)
    {f : State → α → Res State} (hf : AddsUnder mp f) {s0 cur nxt : State} (l : List α)
    (hi : AddInv mp uses rest s0 cur) (h : Res.foldlM f cur l = .ok nxt) : AddInv mp uses rest s0 nxt :=
  (C12.PO.foldlM_inv (S := fun _ => True) (AddInv mp uses rest s0) f l cur hi
    (fun _ a _ hb => ⟨fun _ _ => trivial, fun _ hb' => addInv_step hrest hf a hb hb'⟩)).2 nxt h

/-- **what `add_module` does**: the registry gets entries directly under `mp`, nothing else changes in it; the
    module list gets the new module in front (replacing an earlier module of that path) -/
theorem addModule_shape (s s' : State) (m : G.Module) (mp : Path) (h : s.addModule m mp = .ok s') :
    AddInv mp m.uses (s.modules.filter fun e => e.1 != mp) s s' := by
  obtain ⟨xvals, doc, s2, _, h1, h2⟩ := C14.addModule_inv s s' m mp h
  have hrest : ∀ e ∈ (s.modules.filter fun e => e.1 != mp), e.1 ≠ mp := by
    intro e he
    simpa using (List.mem_filter.mp he).2
  have k0 : AddInv mp m.uses (s.modules.filter fun e => e.1 != mp) s (s.putModule mp (C14.newMod m mp xvals doc)) :=
    ⟨RegExt.refl mp s.reg, fun hs => hs, ⟨_, rfl, rfl, rfl, fun p hp => by cases hp⟩⟩
  exact addInv_fold hrest (xtypeStep_addsUnder mp) m.xtypes
    (addInv_fold hrest (defStep_addsUnder mp) m.defs k0 h1) h2

theorem filter_ne_self (path : Path) (l : List (Path × Mod)) (h : ∀ e ∈ l, e.1 ≠ path) :
    l.filter (fun e => e.1 != path) = l := by
  rw [List.filter_eq_self]
  intro e he
  simpa using h e he

/-! ### the initial state of a case -/

/-- the modules `l` are AST modules whose path and `use`s are neither `path` nor a child of `path` -/
def UnrelatedMods (path : Path) (l : List ModEnt) : Prop :=
  ∀ me ∈ l, match me with
    | .ast mp _ m => ¬ Near path mp ∧ ∀ u ∈ m.uses, ¬ Near path u
    | .text .. => False

theorem not_near_nil {path : Path} (hne : path ≠ []) : ¬ Near path [] := by
  rintro (e | ⟨x, e⟩)
  · exact hne e.symm
  · simp at e

theorem addModule_frameInv {path : Path} (s s' : State) (m : G.Module) (mp : Path)
    (hmp : ¬ Near path mp) (hu : ∀ u ∈ m.uses, ¬ Near path u) (hs : FrameInv path s)
    (h : s.addModule m mp = .ok s') : FrameInv path s' := by
  obtain ⟨M, hM, hMp, hMu, hMd⟩ := (addModule_shape s s' m mp h).mods
  have hsub : ∀ e ∈ s'.modules, e = (mp, M) ∨ e ∈ s.modules := by
    intro e he
    rw [hM] at he
    rcases List.mem_cons.mp he with e' | e'
    · exact .inl e'
    · exact .inr (List.mem_filter.mp e').1
  refine ⟨?_, ?_, ?_⟩
  · intro e he
    rcases hsub e he with rfl | he
    · intro u hu'
      simp only [Mod.scope, hMp, hMu, List.mem_cons] at hu'
      rcases hu' with rfl | hu'
      · exact hmp
      · exact hu u hu'
    · exact hs.scopes e he
  · intro e he
    rcases hsub e he with rfl | he
    · intro e'; exact hmp (.inl e')
    · exact hs.nokey e he
  · intro e he
    rcases hsub e he with rfl | he
    · exact hMd
    · exact hs.defs e he

theorem addModule_flat (s s' : State) (m : G.Module) (mp : Path) (hs : Flat s)
    (h : s.addModule m mp = .ok s') : Flat s' := (addModule_shape s s' m mp h).flat hs

theorem predefItem_flat (nm : String × Nat) : FlatItem (C02.predefItem nm) := by
  intro r td hr hin
  simp only [C02.predefItem, IState.res.injEq] at hr
  subst hr
  simp only [SInner.type.injEq] at hin
  subst hin
  rfl

/-- `SemanticState::new`: one module (the root), all of whose definition paths are directly under it; every item
    is a predefined one -/
theorem new_shape (ps : Nat) :
    Flat (State.new ps) ∧ ∃ M, (State.new ps).modules = [([], M)] ∧ M.path = [] ∧ M.uses = [] ∧
      ∀ p ∈ M.defPaths, ∃ x, p = [] ++ [x] := by
  rw [C02.new_eq]
  have : ∀ (l : List (String × Nat)) (s : State), Flat s →
      (∃ M, s.modules = [([], M)] ∧ M.path = [] ∧ M.uses = [] ∧ ∀ p ∈ M.defPaths, ∃ x, p = [] ++ [x]) →
      Flat (l.foldl C02.newStep s) ∧
      ∃ M, (l.foldl C02.newStep s).modules = [([], M)] ∧ M.path = [] ∧ M.uses = [] ∧
        ∀ p ∈ M.defPaths, ∃ x, p = [] ++ [x] := by
    intro l
    induction l with
    | nil => intro s h1 h2; exact ⟨h1, h2⟩
    | cons nm l ih =>
      intro s h1 h2
      simp only [List.foldl_cons]
      apply ih
      · unfold C02.newStep
        split
        · next s' hadd =>
          obtain ⟨M, hM, _⟩ := h2
          obtain ⟨hreg, _⟩ := addItem_under [] s s' (C02.predefItem nm) nm.1 rfl M [] hM (fun _ h => by cases h) hadd
          intro p j hj
          rw [hreg, C14.get_add] at hj
          by_cases e : p = (C02.predefItem nm).path
          · rw [if_pos e] at hj; cases hj; exact predefItem_flat nm
          · rw [if_neg e] at hj; exact h1 p j hj
        · exact h1
      · unfold C02.newStep
        split
        · next s' hadd =>
          obtain ⟨M, hM, hMp, hMu, hMd⟩ := h2
          obtain ⟨_, M', hM', hp', hu', hd'⟩ :=
            addItem_under [] s s' (C02.predefItem nm) nm.1 rfl M [] hM (fun _ h => by cases h) hadd
          refine ⟨M', hM', hp'.trans hMp, hu'.trans hMu, ?_⟩
          intro p hpm
          rcases hd' p hpm with e | e
          · exact hMd p e
          · exact ⟨nm.1, e⟩
        · exact h2
  exact this _ _ (fun p i hi => by cases hi) ⟨{}, rfl, rfl, rfl, fun p hp => by cases hp⟩

theorem new_frameInv {path : Path} (hne : path ≠ []) (ps : Nat) : FrameInv path (State.new ps) := by
  obtain ⟨_, M, hM, hMp, hMu, hMd⟩ := new_shape ps
  refine ⟨?_, ?_, ?_⟩
  · intro e he
    rw [hM, List.mem_singleton] at he
    subst he
    intro u hu
    simp only [Mod.scope, hMp, hMu, List.mem_singleton] at hu
    subst hu
    exact not_near_nil hne
  · intro e he
    rw [hM, List.mem_singleton] at he
    subst he
    exact fun e => hne e.symm
  · intro e he
    rw [hM, List.mem_singleton] at he
    subst he
    exact hMd

theorem initialState_frameInv {path : Path} (hne : path ≠ []) (c : Case) (hu : UnrelatedMods path c.modules)
    (s : State) (h : c.initialState = .ok s) : FrameInv path s := by
  unfold Case.initialState at h
  refine (C12.PO.foldlM_inv (S := fun _ => True) (FrameInv path) _ c.modules _ (new_frameInv hne c.ps) ?_).2 s h
  intro b me hme hb
  have hm := hu me hme
  cases me with
  | ast mp file m => exact ⟨fun _ _ => trivial, fun b' hb' => addModule_frameInv b b' m mp hm.1 hm.2 hb hb'⟩
  | text f t => exact hm.elim

theorem initialState_flat (c : Case) (s : State) (h : c.initialState = .ok s) : Flat s := by
  unfold Case.initialState at h
  refine (C12.PO.foldlM_inv (S := fun _ => True) Flat _ c.modules _ (new_shape c.ps).1 ?_).2 s h
  intro b me _ hb
  cases me with
  | ast mp file m => exact ⟨fun _ _ => trivial, fun b' hb' => addModule_flat b b' m mp hb hb'⟩
  | text f t => exact ⟨fun _ _ => trivial, fun _ h => by cases h⟩

/-- state-level: `t` is `s` plus the module `path` and items directly under it -/
structure StExt (path : Path) (s t : State) : Prop where
  reg : RegExt path s.reg t.reg
  mods : ∃ M, t.modules = (path, M) :: s.modules

theorem addModule_stExt {path : Path} (s t : State) (m : G.Module) (hs : FrameInv path s)
    (h : s.addModule m path = .ok t) : StExt path s t := by
  have hsh := addModule_shape s t m path h
  obtain ⟨M, hM, _⟩ := hsh.mods
  rw [filter_ne_self path s.modules hs.nokey] at hM
  exact ⟨hsh.reg, M, hM⟩


/-! ## F. every run of the old state is a run of the new state -/

theorem contains_stateOf (s0 : State) (R : Reg Path Resolved) (q : Path) :
    (stateOf s0 R).reg.contains q = s0.reg.contains q := by
  simp only [Registry.contains, get_stateOf, Option.isSome_map]

theorem regExt_stateOf {path : Path} {s0 t0 : State} (h : RegExt path s0.reg t0.reg) (R : Reg Path Resolved) :
    RegExt path (stateOf s0 R).reg (stateOf t0 R).reg := by
  refine ⟨h.ps, ?_, ?_⟩
  · intro q hq
    rw [contains_stateOf] at hq
    rw [get_stateOf, get_stateOf, h.old q hq]
  · intro q hq
    rw [contains_stateOf] at hq
    rw [contains_stateOf]
    exact h.new q hq

theorem moduleFor_ext {path : Path} {s0 t0 : State} (hx : StExt path s0 t0) (hf : FrameInv path s0) (k : Path)
    (m : Mod) (hm : s0.moduleFor k = some m) : t0.moduleFor k = some m ∧ GoodScope path m.scope := by
  unfold State.moduleFor at hm ⊢
  split at hm
  · cases hm
  · next parent hp =>
    have hmem := C14.mem_of_lookup _ _ _ hm
    have hne : parent ≠ path := hf.nokey _ hmem
    obtain ⟨M, hM⟩ := hx.mods
    refine ⟨?_, hf.scopes _ hmem⟩
    unfold State.getModule at hm ⊢
    have : (parent == path) = false := by simpa using hne
    simp only [hM, List.lookup_cons, this]
    exact hm

/-- **one attempt on an old item is local**: the same answer from the old state and from the state that
    additionally contains the module `path` and its items, for the same abstract registry -/
theorem attempt_ext {path : Path} (hne : path ≠ []) {s0 t0 : State} (hx : StExt path s0 t0)
    (hf : FrameInv path s0) (hok : C12.StateOk s0) (hv : NoVftS s0) (R : Reg Path Resolved) (k : Path)
    (hk : s0.reg.contains k = true) : attempt t0 R k = attempt s0 R k := by
  have hg : t0.reg.get k = s0.reg.get k := hx.reg.old k hk
  have hu := u8_of_ok hok
  have hxr := regExt_stateOf hx.reg R
  have hus : U8 (stateOf s0 R).reg := stateOf_u8 s0 R hu
  have hut : (stateOf t0 R).reg.contains ["u8"] = true := by
    obtain ⟨i, _, hi, _⟩ := hus
    exact contains_of_get (hxr.get_ext hi)
  unfold attempt
  rw [hg]
  cases hi : s0.reg.get k with
  | none => rfl
  | some i =>
    simp only []
    cases hpre : i.isPredefined with
    | true => simp only [if_true]
    | false =>
      simp only [Bool.false_eq_true, if_false]
      obtain ⟨m, hm⟩ := hok.parents k i hi (by simp [hpre])
      obtain ⟨hmt, hgs⟩ := moduleFor_ext hx hf k m hm
      have hms' : (stateOf s0 R).moduleFor k = some m := hm
      have hmt' : (stateOf t0 R).moduleFor k = some m := hmt
      cases hst : i.state with
      | res r => rfl
      | unres d =>
        simp only []
        cases hin : d.inner with
        | type td =>
          simp only []
          have hfo := hv k i d td hi hst hin
          rw [buildType_pure (stateOf s0 R) k d.vis td hfo hus.contains,
            buildType_pure (stateOf t0 R) k d.vis td hfo hut, hms', hmt', btPure_ext hxr hne hus m hgs k td]
        | enum ed =>
          simp only []
          rw [buildEnum_ext hxr hne k (hmt'.trans hms'.symm)
            (fun module hmod => by rw [hms'] at hmod; cases hmod; exact hgs) ed]

theorem run_transport {path : Path} (hne : path ≠ []) {s0 t0 : State} (hx : StExt path s0 t0)
    (hf : FrameInv path s0) (hok : C12.StateOk s0) (hv : NoVftS s0) {R : Reg Path Resolved}
    (r : Run (attempt s0) R0 R) : Run (attempt t0) R0 R := by
  induction r with
  | start => exact Run.start
  | step R k v _ hk ha ih =>
    refine Run.step R k v ih hk ?_
    obtain ⟨i, _, hi, _, _⟩ := attempt_pending s0 R k (by rw [ha]; intro e; cases e)
    rw [attempt_ext hne hx hf hok hv R k (contains_of_get hi)]
    exact ha

/-! ## G. the final registries agree on the old paths -/

theorem pending_ext {path : Path} {s0 t0 : State} (hx : StExt path s0 t0) (q : Path)
    (hq : s0.reg.contains q = true) : Pending t0 q ↔ Pending s0 q := by
  unfold Pending
  rw [hx.reg.old q hq]

/-- two total runs, one of the old and one of the new state, end in registries that agree on the old paths -/
theorem final_regExt {path : Path} {s0 t0 : State} (hx : StExt path s0 t0)
    (hm : Mono (attempt t0)) {R1 R2 : Reg Path Resolved}
    (r1 : Run (attempt s0) R0 R1) (r1' : Run (attempt t0) R0 R1) (r2 : Run (attempt t0) R0 R2)
    (t1 : Total s0 R1) (t2 : Total t0 R2) :
    RegExt path (stateOf s0 R1).reg (stateOf t0 R2).reg := by
  refine ⟨hx.reg.ps, ?_, ?_⟩
  · intro q hq
    rw [contains_stateOf] at hq
    rw [get_stateOf, get_stateOf, hx.reg.old q hq]
    cases hi : s0.reg.get q with
    | none => rfl
    | some i =>
      simp only [Option.map_some, Option.some.injEq]
      cases hst : i.state with
      | res r => rw [resItem_res R2 q i r hst, resItem_res R1 q i r hst]
      | unres d =>
        cases h1 : R1 q with
        | none =>
          cases h2 : R2 q with
          | none => rw [resItem_none R2 q i h2, resItem_none R1 q i h1]
          | some v2 =>
            have := t1 q ((pending_ext hx q hq).mp (Run.dom t0 r2 q v2 h2))
            rw [h1] at this; cases this
        | some v1 =>
          cases h2 : R2 q with
          | none =>
            have := t2 q ((pending_ext hx q hq).mpr (Run.dom s0 r1 q v1 h1))
            rw [h2] at this; cases this
          | some v2 =>
            have e := Run.compat hm r1' r2 q v1 v2 h1 h2
            subst e
            rw [resItem_some R2 q i d v1 hst h2, resItem_some R1 q i d v1 hst h1]
  · intro q hq
    rw [contains_stateOf] at hq
    rw [contains_stateOf]
    exact hx.reg.new q hq

/-! ### the modules after `resolve_extern_values` -/

theorem resolveXVals_ext {path : Path} {s t : Registry} (h : RegExt path s t) (hne : path ≠ []) (m : Mod)
    (hs : GoodScope path m.scope) : resolveXVals t m = resolveXVals s m := by
  unfold resolveXVals
  rw [resolveTy_ext h hne hs]

theorem resolveXVals_defPaths (reg : Registry) (m m' : Mod) (h : resolveXVals reg m = .ok m') :
    m'.defPaths = m.defPaths ∧ m'.path = m.path ∧ m'.uses = m.uses := by
  unfold resolveXVals at h
  split at h
  · cases h; exact ⟨rfl, rfl, rfl⟩
  · exact absurd h (C01.cast_ne_ok _ _)

/-- the step of the last loop of `SemanticState::build` -/
def xvStep (reg : Registry) (e : Path × Mod) : Res (Path × Mod) :=
  match resolveXVals reg e.2 with
  | .ok m => Res.ok (e.1, m)
  | x => x.cast

theorem xvStep_inv (reg : Registry) (e e' : Path × Mod) (h : xvStep reg e = .ok e') :
    e'.1 = e.1 ∧ resolveXVals reg e.2 = .ok e'.2 := by
  unfold xvStep at h
  split at h
  · next m hm => cases h; exact ⟨rfl, hm⟩
  · exact absurd h (C01.cast_ne_ok _ _)

theorem mapM'_congr {α β} (f g : α → Res β) (l : List α) (h : ∀ a ∈ l, f a = g a) :
    Res.mapM' f l = Res.mapM' g l := by
  induction l with
  | nil => rfl
  | cons a l ih =>
    unfold Res.mapM'
    rw [h a List.mem_cons_self, ih (fun x hx => h x (List.mem_cons_of_mem _ hx))]

theorem mapM'_cons_ok {α β} (f : α → Res β) (a : α) (l : List α) (bs : List β)
    (h : Res.mapM' f (a :: l) = .ok bs) : ∃ b bs', f a = .ok b ∧ Res.mapM' f l = .ok bs' ∧ bs = b :: bs' := by
  unfold Res.mapM' at h
  split at h
  · next b hb =>
    split at h
    · next bs' hbs => cases h; exact ⟨b, bs', hb, hbs, rfl⟩
    · cases h
    · cases h
    · cases h
  · cases h
  · cases h
  · cases h

theorem mapM'_mem {α β} (f : α → Res β) (l : List α) (bs : List β) (h : Res.mapM' f l = .ok bs)
    (b : β) (hb : b ∈ bs) : ∃ a ∈ l, f a = .ok b := by
  induction l generalizing bs with
  | nil => simp only [Res.mapM', Res.ok.injEq] at h; subst h; cases hb
  | cons a l ih =>
    obtain ⟨b0, bs', h1, h2, rfl⟩ := mapM'_cons_ok f a l bs h
    rcases List.mem_cons.mp hb with rfl | hb
    · exact ⟨a, List.mem_cons_self, h1⟩
    · obtain ⟨a', ha', h'⟩ := ih bs' h2 hb
      exact ⟨a', List.mem_cons_of_mem _ ha', h'⟩

/-- `resolve_extern_values` keeps the path, the `use`s and the definition paths of every module -/
theorem xvals_frameInv {path : Path} (reg reg' : Registry) (mods ms : List (Path × Mod))
    (hf : FrameInv path ⟨mods, reg⟩) (h : Res.mapM' (xvStep reg') mods = .ok ms) : FrameInv path ⟨ms, reg⟩ := by
  have key : ∀ e' ∈ ms, ∃ e ∈ mods, e'.1 = e.1 ∧ e'.2.defPaths = e.2.defPaths ∧ e'.2.scope = e.2.scope := by
    intro e' he'
    obtain ⟨e, he, hxe⟩ := mapM'_mem _ _ _ h e' he'
    obtain ⟨h1, h2⟩ := xvStep_inv reg' e e' hxe
    obtain ⟨h3, h4, h5⟩ := resolveXVals_defPaths reg' e.2 e'.2 h2
    exact ⟨e, he, h1, h3, by simp only [Mod.scope, h4, h5]⟩
  refine ⟨?_, ?_, ?_⟩
  · intro e' he'
    obtain ⟨e, he, _, _, h3⟩ := key e' he'
    rw [h3]; exact hf.scopes e he
  · intro e' he'
    obtain ⟨e, he, h1, _, _⟩ := key e' he'
    rw [h1]; exact hf.nokey e he
  · intro e' he'
    obtain ⟨e, he, h1, h2, _⟩ := key e' he'
    rw [h1, h2]; exact hf.defs e he

/-- the module lists of the two final states: the new one is the old one plus the new module in front -/
theorem xvals_modules {path : Path} {s t : Registry} (h : RegExt path s t) (hne : path ≠ [])
    (mods : List (Path × Mod)) (hgs : ∀ e ∈ mods, GoodScope path e.2.scope) (M : Mod) (ms1 ms2 : List (Path × Mod))
    (h1 : Res.mapM' (xvStep s) mods = .ok ms1) (h2 : Res.mapM' (xvStep t) ((path, M) :: mods) = .ok ms2) :
    ∃ M', ms2 = (path, M') :: ms1 := by
  obtain ⟨b, bs', hb, hbs, rfl⟩ := mapM'_cons_ok _ _ _ _ h2
  have e : Res.mapM' (xvStep t) mods = Res.mapM' (xvStep s) mods := by
    apply mapM'_congr
    intro a ha
    unfold xvStep
    rw [resolveXVals_ext h hne a.2 (hgs a ha)]
  rw [e, h1] at hbs
  cases hbs
  obtain ⟨hb1, _⟩ := xvStep_inv t _ b hb
  obtain ⟨b1, b2⟩ := b
  simp only at hb1
  subst hb1
  exact ⟨b2, rfl⟩


/-! ## H. the fuel of `dfs_hierarchy` is never exhausted

`build_type` walks the base-class hierarchy with fuel `number of registry entries + 1`, a number that differs
between the old and the new state.  A type is resolved only after the types of all its fields are (so in
particular its bases); along a run, the depth of the hierarchy below a resolved type is therefore bounded by the
number of entries resolved so far, and the walk gives the same list for every larger fuel and in every registry
that keeps the resolved entries. -/

/-- `t` keeps the resolved entries of `s` -/
def ResLe (s t : Registry) : Prop :=
  ∀ q i res, s.get q = some i → i.resolved? = some res → ∃ i', t.get q = some i' ∧ i'.resolved? = some res

theorem ResLe.refl (s : Registry) : ResLe s s := fun _ i _ hi hr => ⟨i, hi, hr⟩

theorem ResLe.trans {s t u : Registry} (h1 : ResLe s t) (h2 : ResLe t u) : ResLe s u := by
  intro q i res hi hr
  obtain ⟨i', hi', hr'⟩ := h1 q i res hi hr
  exact h2 q i' res hi' hr'

theorem ResLe.of_regLe {s t : Registry} (h : RegLe s t) : ResLe s t :=
  fun q i res hi hr => get_resolved_mono s t h q i res hi hr

theorem ResLe.of_regExt {path : Path} {s t : Registry} (h : RegExt path s t) : ResLe s t :=
  fun _ i _ hi hr => ⟨i, h.get_ext hi, hr⟩

theorem regionNameAndTypeDef_resLe {s t : Registry} (hle : ResLe s t) (reg : Region) (hk : KnownR s reg.ty) :
    regionNameAndTypeDef t reg = regionNameAndTypeDef s reg := by
  unfold regionNameAndTypeDef
  cases hn : reg.name with
  | none => rfl
  | some name =>
    simp only []
    cases hty : reg.ty with
    | fn cc args ret => rfl
    | data d =>
      cases d with
      | raw p =>
        rw [hty] at hk
        obtain ⟨i, res, hi, hres⟩ := hk p (by simp [byValue])
        obtain ⟨i', hi', hres'⟩ := hle p i res hi hres
        simp only [hi, hi', hres, hres']
      | cptr d => rfl
      | mptr d => rfl
      | arr d n => rfl

/-- the type definition a base lookup answers with is the definition of a resolved entry -/
theorem regionName_source (reg : Registry) (r : Region) (name : String) (btd : TypeDefn)
    (h : regionNameAndTypeDef reg r = .ok (some (name, btd))) :
    ∃ p i res, reg.get p = some i ∧ i.resolved? = some res ∧ res.inner = .type btd := by
  unfold regionNameAndTypeDef at h
  split at h
  · cases h
  · split at h
    · next p _ =>
      split at h
      · cases h
      · next item hitem =>
        split at h
        · cases h
        · next res hres =>
          split at h
          · next td htd =>
            simp only [Res.ok.injEq, Option.some.injEq, Prod.mk.injEq] at h
            obtain ⟨_, rfl⟩ := h
            exact ⟨p, item, res, hitem, hres, htd⟩
          · cases h
    · cases h

/-- from fuel `n` on, and in every registry that keeps the resolved entries of `reg`, the walk below `td` gives
    one and the same list -/
def Settled (reg : Registry) (n : Nat) (td : TypeDefn) : Prop :=
  ∃ val : List String → List (List String × RTy), ∀ reg', ResLe reg reg' → ∀ m, n ≤ m → ∀ fp,
    Emit.dfsHierarchy reg' m td fp = val fp

theorem Settled.mono {reg reg2 : Registry} {n n2 : Nat} {td : TypeDefn} (h : Settled reg n td)
    (hle : ResLe reg reg2) (hn : n ≤ n2) : Settled reg2 n2 td := by
  obtain ⟨val, hval⟩ := h
  exact ⟨val, fun reg' hle' m hm fp => hval reg' (hle.trans hle') m (Nat.le_trans hn hm) fp⟩

theorem settled_flat (reg : Registry) (td : TypeDefn) (h : td.regions = []) : Settled reg 0 td := by
  refine ⟨fun _ => [], ?_⟩
  intro reg' _ m _ fp
  cases m with
  | zero => simp only [Emit.dfsHierarchy]
  | succ m => simp only [Emit.dfsHierarchy, h, List.filter_nil, List.flatMap_nil]

/-- every resolved type of the registry is settled from fuel `n` on -/
def AllSettled (reg : Registry) (n : Nat) : Prop :=
  ∀ p i res td, reg.get p = some i → i.resolved? = some res → res.inner = .type td → Settled reg n td

theorem settled_step (reg : Registry) (n : Nat) (td : TypeDefn) (hk : ∀ r ∈ td.regions, KnownR reg r.ty)
    (hb : AllSettled reg n) : Settled reg (n + 1) td := by
  refine ⟨fun fp => Emit.dfsHierarchy reg (n + 1) td fp, ?_⟩
  intro reg' hle m hm fp
  obtain ⟨m', rfl⟩ : ∃ m', m = m' + 1 := ⟨m - 1, by omega⟩
  simp only []
  rw [C07.dfs_unfold_lem, C07.dfs_unfold_lem]
  apply flatMap_congr'
  intro r hr
  have hr' := (List.mem_filter.mp hr).1
  rw [regionNameAndTypeDef_resLe hle r (hk r hr')]
  cases hreg : regionNameAndTypeDef reg r with
  | ok o =>
    cases o with
    | none => rfl
    | some x =>
      obtain ⟨name, btd⟩ := x
      simp only []
      obtain ⟨p, i, res, hi, hres, hin⟩ := regionName_source reg r name btd hreg
      obtain ⟨val, hval⟩ := hb p i res btd hi hres hin
      rw [hval reg' hle m' (by omega), hval reg (ResLe.refl reg) n (Nat.le_refl n)]
  | defer => rfl
  | err m => rfl
  | panic m => rfl

/-! ### counting the resolved entries along a run -/

theorem countP_lt {α} (p q : α → Bool) (l : List α) (hpq : ∀ x ∈ l, p x = true → q x = true)
    (hw : ∃ x ∈ l, p x = false ∧ q x = true) : l.countP p + 1 ≤ l.countP q := by
  induction l with
  | nil => obtain ⟨x, hx, _⟩ := hw; cases hx
  | cons a l ih =>
    have hmono : l.countP p ≤ l.countP q :=
      List.countP_mono_left (fun x hx => hpq x (List.mem_cons_of_mem _ hx))
    simp only [List.countP_cons]
    obtain ⟨x, hx, hpx, hqx⟩ := hw
    rcases List.mem_cons.mp hx with rfl | hx
    · simp only [hpx, hqx, Bool.false_eq_true, if_false, if_true]
      omega
    · have := ih (fun x hx => hpq x (List.mem_cons_of_mem _ hx)) ⟨x, hx, hpx, hqx⟩
      have ha := hpq a List.mem_cons_self
      cases hpa : p a with
      | false => simp only [Bool.false_eq_true, if_false]; split <;> omega
      | true => simp only [ha hpa, if_true]; omega

/-- the number of resolved entries of `stateOf s0 R` -/
def cnt (s0 : State) (R : Reg Path Resolved) : Nat :=
  s0.reg.types.countP (fun e => (resItem R e.1 e.2).isResolved)

theorem cnt_le (s0 : State) (R : Reg Path Resolved) : cnt s0 R ≤ (stateOf s0 R).reg.types.length := by
  simp only [cnt, stateOf, List.length_map]
  exact List.countP_le_length

theorem resItem_upd_ne (R : Reg Path Resolved) (k : Path) (v : Resolved) (p : Path) (i : ItemDef) (h : p ≠ k) :
    resItem (upd R k v) p i = resItem R p i := by
  unfold resItem
  simp [upd, h]

theorem cnt_step (s0 : State) (R : Reg Path Resolved) (k : Path) (v : Resolved) (hp : Pending s0 k)
    (hR : R k = none) : cnt s0 R + 1 ≤ cnt s0 (upd R k v) := by
  obtain ⟨i, d, hi, _, hst⟩ := hp
  apply countP_lt
  · intro e _ he
    cases hst' : e.2.state with
    | res r =>
      rw [resItem_res _ e.1 e.2 r hst']
      rw [resItem_res R e.1 e.2 r hst'] at he
      exact he
    | unres d' =>
      by_cases hk : e.1 = k
      · rw [hk, resItem_none R k e.2 hR] at he
        simp [ItemDef.isResolved, ItemDef.resolved?, hst'] at he
      · rw [resItem_upd_ne R k v e.1 e.2 hk]; exact he
  · refine ⟨(k, i), C14.mem_of_lookup _ _ _ hi, ?_, ?_⟩
    · simp only [resItem_none R k i hR]
      simp [ItemDef.isResolved, ItemDef.resolved?, hst]
    · simp only [resItem_some (upd R k v) k i d v hst (by simp [upd])]
      simp [ItemDef.isResolved, ItemDef.resolved?]


theorem resItem_upd_ne' (R : Reg Path Resolved) (k : Path) (v : Resolved) (p : Path) (h : p ≠ k) :
    resItem (upd R k v) p = resItem R p := by
  funext i; exact resItem_upd_ne R k v p i h

theorem toOut_done {x : Res Resolved} {v : Resolved} (h : toOut x = .done v) : x = .ok v := by
  cases x with
  | ok r => simp only [toOut, Out.done.injEq] at h; rw [h]
  | defer => cases h
  | err m => cases h
  | panic m => cases h

theorem state_of_resolved {i : ItemDef} {res : Resolved} (h : i.resolved? = some res) : i.state = .res res := by
  unfold ItemDef.resolved? at h
  split at h
  · next r hr => cases h; exact hr
  · cases h

/-- the regions of a type that an attempt resolves have resolved by-value dependencies -/
theorem attempt_done_known (s0 : State) (hok : C12.StateOk s0) (hv : NoVftS s0) (R : Reg Path Resolved) (k : Path)
    (v : Resolved) (td : TypeDefn) (ha : attempt s0 R k = .done v) (hin : v.inner = .type td) :
    ∀ r ∈ td.regions, KnownR (stateOf s0 R).reg r.ty := by
  have hus : U8 (stateOf s0 R).reg := stateOf_u8 s0 R (u8_of_ok hok)
  obtain ⟨i0, d0, hi0, hpre, hst0⟩ := attempt_pending s0 R k (by rw [ha]; intro e; cases e)
  unfold attempt at ha
  simp only [hi0, hpre, hst0, Bool.false_eq_true, if_false] at ha
  cases hinn : d0.inner with
  | type td0 =>
    simp only [hinn] at ha
    have hfo := hv k i0 d0 td0 hi0 hst0 hinn
    have hbt : buildType (stateOf s0 R) k d0.vis td0 = (stateOf s0 R, .ok v) := by
      rw [buildType_pure (stateOf s0 R) k d0.vis td0 hfo hus.contains] at ha ⊢
      have ha' := toOut_done ha
      simp only at ha'
      rw [ha']
    obtain ⟨module, ta, sa, regions, vft, placed, td', hsa, hrr, _, hin', hregs, _⟩ :=
      C01.buildType_inv (stateOf s0 R) _ k d0.vis td0 v hbt
    have hvf := ((stmts_fold_novft (stateOf s0 R).reg module.scope td0 hfo hus.contains).2 sa hsa).1
    rw [hvf, resolveRegions_none] at hrr
    simp only [Prod.mk.injEq, true_and] at hrr
    rw [hin] at hin'
    cases hin'
    rw [hregs]
    exact rrPure_known (stateOf s0 R).reg hus _ _ _ _ _ _ hrr
  | enum ed =>
    simp only [hinn] at ha
    obtain ⟨e, _, he, _⟩ := C02.buildEnum_inv (stateOf s0 R) k ed v (toOut_done ha)
    rw [hin] at he
    cases he

/-- **along a run every resolved type is settled from fuel "number of resolved entries" on** -/
theorem run_settled (s0 : State) (hok : C12.StateOk s0) (hv : NoVftS s0) (hflat : Flat s0)
    {R : Reg Path Resolved} (r : Run (attempt s0) R0 R) : AllSettled (stateOf s0 R).reg (cnt s0 R) := by
  induction r with
  | start =>
    intro p i res td hi hres hin
    rw [stateOf_R0] at hi ⊢
    exact (settled_flat s0.reg td (hflat p i hi res td (state_of_resolved hres) hin)).mono
      (ResLe.refl _) (Nat.zero_le _)
  | step R k v _ hk ha ih =>
    have hpend := attempt_pending s0 R k (by rw [ha]; intro e; cases e)
    have hle : ResLe (stateOf s0 R).reg (stateOf s0 (upd R k v)).reg :=
      ResLe.of_regLe (stateOf_le s0 R (upd R k v) (le_upd R k v hk))
    have hc := cnt_step s0 R k v hpend hk
    intro p i res td hi hres hin
    rw [get_stateOf] at hi
    by_cases hpk : p = k
    · subst hpk
      obtain ⟨i0, d0, hi0, _, hst0⟩ := hpend
      rw [hi0] at hi
      simp only [Option.map_some, Option.some.injEq] at hi
      rw [resItem_some (upd R p v) p i0 d0 v hst0 (by simp [upd])] at hi
      subst hi
      simp only [ItemDef.resolved?, Option.some.injEq] at hres
      subst hres
      exact (settled_step _ (cnt s0 R) td (attempt_done_known s0 hok hv R p v td ha hin) ih).mono hle hc
    · rw [resItem_upd_ne' R k v p hpk, ← get_stateOf] at hi
      exact (ih p i res td hi hres hin).mono hle (by omega)

/-! ### the emitted items -/

theorem typeItems_settled {sreg treg : Registry} (hle : ResLe sreg treg) {n1 n2 : Nat} {td : TypeDefn}
    (h1 : Settled sreg n1 td) (h2 : Settled treg n2 td) (hn1 : n1 ≤ sreg.types.length) (hn2 : n2 ≤ treg.types.length)
    (path : Path) (size align : Nat) (vis : Vis) :
    Emit.typeItems treg path size align vis td = Emit.typeItems sreg path size align vis td := by
  obtain ⟨val1, hv1⟩ := h1
  obtain ⟨val2, hv2⟩ := h2
  have hd : Emit.dfsHierarchy treg (treg.types.length + 1) td [] = Emit.dfsHierarchy sreg (sreg.types.length + 1) td [] := by
    rw [hv1 sreg (ResLe.refl _) _ (by omega), hv2 treg (ResLe.refl _) _ (by omega),
      ← hv1 treg hle (n1 + (treg.types.length + 1)) (by omega), hv2 treg (ResLe.refl _) _ (by omega)]
  simp only [Emit.typeItems, hd]

theorem itemItems_settled {sreg treg : Registry} (hle : ResLe sreg treg) {n1 n2 : Nat}
    (h1 : AllSettled sreg n1) (h2 : AllSettled treg n2) (hn1 : n1 ≤ sreg.types.length) (hn2 : n2 ≤ treg.types.length)
    (p : Path) (i : ItemDef) (hs : sreg.get p = some i) (ht : treg.get p = some i) :
    Emit.itemItems treg i = Emit.itemItems sreg i := by
  unfold Emit.itemItems
  cases hr : i.resolved? with
  | none => cases i.cat <;> rfl
  | some r =>
    cases hc : i.cat with
    | defined =>
      simp only []
      cases hin : r.inner with
      | type td =>
        simp only []
        exact typeItems_settled hle (h1 p i r td hs hr hin) (h2 p i r td ht hr hin) hn1 hn2 _ _ _ _
      | enum ed => rfl
    | predefined => rfl
    | extern => rfl

/-! ## I. the frame property for states -/

theorem notNew_of_parent {path mp : Path} (h : mp ≠ path) (x : String) : NotNew path (mp ++ [x]) := by
  intro y hy
  exact h (List.append_inj' hy rfl).1

/-- **frame, for states**: `t0` is `s0` plus a module `path` that no scope of `s0` mentions; when both builds succeed
    (under any two priorities), the final registries agree on everything that is not directly under `path`, the
    final module list of `t0` is that of `s0` plus the new module, and every module of the old final state is
    printed identically from the new final state -/
theorem frame_states {path : Path} (hne : path ≠ []) {s0 t0 : State} (hx : StExt path s0 t0)
    (hf : FrameInv path s0) (hoks : C12.StateOkB s0) (hokt : C12.StateOkB t0) (hvs : NoVftS s0) (hvt : NoVftS t0)
    (hfs : Flat s0) (hft : Flat t0) (p1 p2 : List Path) (s s' : State)
    (h : s0.build p1 = .ok s) (h' : t0.build p2 = .ok s') :
    RegExt path s.reg s'.reg ∧ (∃ M', s'.modules = (path, M') :: s.modules) ∧ FrameInv path s ∧
    (∀ e ∈ s.modules, Emit.moduleFile s' e.1 e.2 = Emit.moduleFile s e.1 e.2) := by
  obtain ⟨s1, l1, ms1, m1, rfl⟩ := build_ok_inv s0 p1 s h
  obtain ⟨s2, l2, ms2, m2, rfl⟩ := build_ok_inv t0 p2 s' h'
  have hns := hoks.ok.reg.keys
  have hnt := hokt.ok.reg.keys
  have q1 := resolveLoop_sim s0 hns hvs p1 (2 * (s0.reg.types.filter fun e => !e.2.isResolved).length + 2) R0
    Run.start (by rw [stateOf_R0]; exact hoks)
  have q2 := resolveLoop_sim t0 hnt hvt p2 (2 * (t0.reg.types.filter fun e => !e.2.isResolved).length + 2) R0
    Run.start (by rw [stateOf_R0]; exact hokt)
  rw [stateOf_R0, l1] at q1
  rw [stateOf_R0, l2] at q2
  obtain ⟨R1, r1, rfl, u1⟩ := q1
  obtain ⟨R2, r2, rfl, u2⟩ := q2
  have t1 := total_of_unresolved_nil s0 hns R1 p1 u1
  have t2 := total_of_unresolved_nil t0 hnt R2 p2 u2
  have hm := attempt_mono t0 (u8_of_ok hokt.ok) hvt
  have r1' := run_transport hne hx hf hoks.ok hvs r1
  have hfin := final_regExt hx hm r1 r1' r2 t1 t2
  have m1' : Res.mapM' (xvStep (stateOf s0 R1).reg) s0.modules = .ok ms1 := m1
  obtain ⟨M, hM⟩ := hx.mods
  have m2' : Res.mapM' (xvStep (stateOf t0 R2).reg) ((path, M) :: s0.modules) = .ok ms2 := by
    rw [← hM]; exact m2
  obtain ⟨M', hms2⟩ := xvals_modules hfin hne s0.modules hf.scopes M ms1 ms2 m1' m2'
  have hfinv : FrameInv path ⟨ms1, (stateOf s0 R1).reg⟩ :=
    xvals_frameInv (stateOf s0 R1).reg (stateOf s0 R1).reg s0.modules ms1 ⟨hf.scopes, hf.nokey, hf.defs⟩ m1'
  have a1 := run_settled s0 hoks.ok hvs hfs r1
  have a2 := run_settled t0 hokt.ok hvt hft r2
  refine ⟨hfin, ⟨M', hms2⟩, hfinv, ?_⟩
  intro e he
  apply module_file_lem
  · intro p hp
    obtain ⟨x, rfl⟩ := hfinv.defs e he p hp
    exact hfin.get_notNew (notNew_of_parent (hfinv.nokey e he) x)
  · intro p hp i hi
    exact itemItems_settled (ResLe.of_regExt hfin) a1 a2 (cnt_le s0 R1) (cnt_le t0 R2) p i hi (hfin.get_ext hi)


/-! ## J. the modules of a case are there in the final state -/

theorem addModule_getModule (s s' : State) (m : G.Module) (mp : Path) (h : s.addModule m mp = .ok s') :
    (s'.getModule mp).isSome = true ∧ ∀ k, (s.getModule k).isSome = true → (s'.getModule k).isSome = true := by
  obtain ⟨M, hM, _⟩ := (addModule_shape s s' m mp h).mods
  unfold State.getModule
  rw [hM]
  refine ⟨by simp, ?_⟩
  intro k hk
  by_cases e : k = mp
  · subst e; simp
  · have : (k == mp) = false := by simpa using e
    simp only [List.lookup_cons, this]
    rw [C14.lookup_filter_ne _ _ _ e]
    exact hk

theorem initialState_getModule (c : Case) (s : State) (h : c.initialState = .ok s) (mp : Path) (f : String)
    (m : G.Module) (hm : ModEnt.ast mp f m ∈ c.modules) : (s.getModule mp).isSome = true := by
  unfold Case.initialState at h
  have : ∀ (l : List ModEnt) (b s : State),
      Res.foldlM (fun (s : State) (me : ModEnt) =>
        match me with
        | .ast path _ m => s.addModule m path
        | .text _ _ => .err "tmodule: text modules are handled by the parser model") b l = .ok s →
      (∀ k, (b.getModule k).isSome = true → (s.getModule k).isSome = true) ∧
      (∀ mp f m, ModEnt.ast mp f m ∈ l → (s.getModule mp).isSome = true) := by
    intro l
    induction l with
    | nil =>
      intro b s h
      simp only [Res.foldlM, Res.ok.injEq] at h
      subst h
      exact ⟨fun _ hk => hk, fun _ _ _ hm => by cases hm⟩
    | cons me l ih =>
      intro b s h
      obtain ⟨b1, h1, h2⟩ := C14.foldlM_cons_ok _ b s me l h
      obtain ⟨ih1, ih2⟩ := ih b1 s h2
      cases me with
      | text f t => cases h1
      | ast mp0 f0 m0 =>
        simp only at h1
        obtain ⟨g1, g2⟩ := addModule_getModule b b1 m0 mp0 h1
        refine ⟨fun k hk => ih1 k (g2 k hk), ?_⟩
        intro mp f m hm
        rcases List.mem_cons.mp hm with e | hm
        · simp only [ModEnt.ast.injEq] at e
          obtain ⟨rfl, _, _⟩ := e
          exact ih1 mp g1
        · exact ih2 mp f m hm
  exact (this c.modules _ s h).2 mp f m hm

theorem lookup_mapM' {α} (f : Path × α → Res (Path × α)) (hf : ∀ a b, f a = .ok b → b.1 = a.1)
    (l bs : List (Path × α)) (h : Res.mapM' f l = .ok bs) (k : Path) :
    (List.lookup k bs).isSome = (List.lookup k l).isSome := by
  induction l generalizing bs with
  | nil => simp only [Res.mapM', Res.ok.injEq] at h; subst h; rfl
  | cons a l ih =>
    obtain ⟨b, bs', h1, h2, rfl⟩ := mapM'_cons_ok f a l bs h
    obtain ⟨a1, a2⟩ := a
    obtain ⟨b1, b2⟩ := b
    have e : b1 = a1 := hf _ _ h1
    subst e
    simp only [List.lookup_cons]
    cases k == b1 with
    | true => rfl
    | false => exact ih bs' h2

/-- a successful build keeps the set of module paths -/
theorem build_getModule (s0 : State) (hoks : C12.StateOkB s0) (hvs : NoVftS s0) (p : List Path) (s : State)
    (h : s0.build p = .ok s) (k : Path) : (s.getModule k).isSome = (s0.getModule k).isSome := by
  obtain ⟨s1, l1, ms1, m1, rfl⟩ := build_ok_inv s0 p s h
  have q1 := resolveLoop_sim s0 hoks.ok.reg.keys hvs p (2 * (s0.reg.types.filter fun e => !e.2.isResolved).length + 2) R0
    Run.start (by rw [stateOf_R0]; exact hoks)
  rw [stateOf_R0, l1] at q1
  obtain ⟨R1, _, rfl, _⟩ := q1
  have m1' : Res.mapM' (xvStep (stateOf s0 R1).reg) s0.modules = .ok ms1 := m1
  exact lookup_mapM' _ (fun a b hab => (xvStep_inv _ a b hab).1) s0.modules ms1 m1' k

end PyxisVerif.C19
