import PyxisVerif.Props.C09Novft
import PyxisVerif.Props.C12
import PyxisVerif.Lemmas.C02
import PyxisVerif.Lemmas.C14
/-! helper lemmas for the case-level C09 statements (`Props/C09Case.lean`):
the vftable-free fragment is established by `SemanticState::new` and preserved by `add_module` -/
namespace PyxisVerif.C09

/-- a definition without a `vftable` block: an enum, or a type all of whose statements are fields
    (the same condition `NoVft` puts on the unresolved items of a registry) -/
def DefNoVft (d : G.Item) : Prop :=
  match d.inner with
  | .type td => ∀ st ∈ td.stmts, (match st.field with | .vftable _ => False | .field .. => True)
  | .enum _ => True

/-- no type definition of the module has a `vftable` block -/
def ModNoVft (m : G.Module) : Prop := ∀ d ∈ m.defs, DefNoVft d

/-- every module of the case is given as an AST (not text) and has no vftable block -/
def CaseNoVft (c : Case) : Prop :=
  ∀ me ∈ c.modules, match me with | .ast _ _ m => ModNoVft m | .text .. => False

/-- the condition of `NoVft` and `NoVftResolved` on one registry item -/
def ItemClean (i : ItemDef) : Prop :=
  (∀ d, i.state = .unres d → DefNoVft d) ∧
  (∀ r td, i.state = .res r → r.inner = .type td → td.vft = none)

/-- `NoVft` and `NoVftResolved` together, item by item -/
def Clean (s : State) : Prop := ∀ p i, s.reg.get p = some i → ItemClean i

theorem Clean.noVft {s : State} (h : Clean s) : NoVft s :=
  fun p i d hi hd => (h p i hi).1 d hd

theorem Clean.noVftResolved {s : State} (h : Clean s) : NoVftResolved s :=
  fun p i r td hi hr hin => (h p i hi).2 r td hr hin

theorem clean_iff (s : State) : Clean s ↔ NoVft s ∧ NoVftResolved s :=
  ⟨fun h => ⟨h.noVft, h.noVftResolved⟩,
   fun h p i hi => ⟨fun d hd => h.1 p i d hi hd, fun r td hr hin => h.2 p i r td hi hr hin⟩⟩

/-! ## `add_item` -/

theorem addItem_clean (s s' : State) (i : ItemDef) (hs : Clean s) (hi : ItemClean i)
    (h : s.addItem i = .ok s') : Clean s' := by
  have hreg := C14.addItem_reg s s' i h
  intro p j hj
  rw [hreg, C14.get_add] at hj
  by_cases hp : p = i.path
  · rw [if_pos hp] at hj; cases hj; exact hi
  · rw [if_neg hp] at hj; exact hs p j hj

/-! ## `SemanticState::new` -/

theorem predefItem_clean (nm : String × Nat) : ItemClean (C02.predefItem nm) := by
  refine ⟨?_, ?_⟩
  · intro d hd; cases hd
  · intro r td hr hin
    simp only [C02.predefItem, IState.res.injEq] at hr
    subst hr
    simp only [SInner.type.injEq] at hin
    subst hin
    rfl

/-- every item of the initial registry is a predefined one: resolved, without vftable
    (any pointer width) -/
theorem new_clean (ps : Nat) : Clean (State.new ps) := by
  rw [C02.new_eq]
  have : ∀ (l : List (String × Nat)) (s : State), (s.getModule []).isSome = true → Clean s →
      Clean (l.foldl C02.newStep s) := by
    intro l
    induction l with
    | nil => intro s _ hs; exact hs
    | cons x l ih =>
      intro s hm hs
      obtain ⟨h1, h2⟩ := C02.newStep_spec s x hm
      refine ih _ h1 ?_
      intro p j hj
      rw [h2, C14.get_add] at hj
      by_cases hp : p = (C02.predefItem x).path
      · rw [if_pos hp] at hj; cases hj; exact predefItem_clean x
      · rw [if_neg hp] at hj; exact hs p j hj
  refine this _ _ rfl ?_
  intro p i hi
  cases hi

theorem new_noVft (ps : Nat) : NoVft (State.new ps) := (new_clean ps).noVft

theorem new_noVftResolved (ps : Nat) : NoVftResolved (State.new ps) := (new_clean ps).noVftResolved

/-! ## `add_module` -/

theorem defStep_clean (path : Path) (s s' : State) (d : G.Item) (hs : Clean s) (hd : DefNoVft d)
    (h : C14.defStep path s d = .ok s') : Clean s' := by
  unfold C14.defStep at h
  split at h
  · cases h
  · refine addItem_clean s s' _ hs ⟨?_, ?_⟩ h
    · intro d' hd'
      simp only [IState.unres.injEq] at hd'
      subst hd'
      exact hd
    · intro r td hr; cases hr

theorem xtypeStep_clean (path : Path) (s s' : State) (xt : String × List G.Attr) (hs : Clean s)
    (h : C14.xtypeStep path s xt = .ok s') : Clean s' := by
  unfold C14.xtypeStep at h
  split at h
  · split at h
    · cases h
    · split at h
      · cases h
      · split at h
        · cases h
        · split at h
          · cases h
          · refine addItem_clean s s' _ hs ⟨?_, ?_⟩ h
            · intro d hd; cases hd
            · intro r td hr hin
              simp only [IState.res.injEq] at hr
              subst hr
              simp only [SInner.type.injEq] at hin
              subst hin
              rfl
  · exact (C14.cast_ne_ok _ _ h).elim

/-- `add_module` keeps the fragment: the new unresolved items are the module's definitions (no vftable
    blocks), the new resolved items are extern types (no vftable) -/
theorem addModule_clean (s s' : State) (m : G.Module) (path : Path) (hs : Clean s) (hm : ModNoVft m)
    (h : s.addModule m path = .ok s') : Clean s' := by
  obtain ⟨xvals, doc, s2, _, h1, h2⟩ := C14.addModule_inv s s' m path h
  have k0 : Clean (s.putModule path (C14.newMod m path xvals doc)) := hs
  have k2 : Clean s2 :=
    (C12.PO.foldlM_inv (S := fun _ => True) Clean (C14.defStep path) m.defs _ k0
      (fun b d hdm hb => ⟨fun _ _ => trivial, fun b' hb' => defStep_clean path b b' d hb (hm d hdm) hb'⟩)).2 s2 h1
  exact (C12.PO.foldlM_inv (S := fun _ => True) Clean (C14.xtypeStep path) m.xtypes _ k2
      (fun b xt _ hb => ⟨fun _ _ => trivial, fun b' hb' => xtypeStep_clean path b b' xt hb hb'⟩)).2 s' h2

theorem addModule_noVft (s s' : State) (m : G.Module) (path : Path) (hv : NoVft s) (hr : NoVftResolved s)
    (hm : ModNoVft m) (h : s.addModule m path = .ok s') : NoVft s' ∧ NoVftResolved s' :=
  (clean_iff s').mp (addModule_clean s s' m path ((clean_iff s).mpr ⟨hv, hr⟩) hm h)

/-! ## whole cases -/

theorem initialState_clean (c : Case) (hv : CaseNoVft c) (s : State) (h : c.initialState = .ok s) :
    Clean s := by
  unfold Case.initialState at h
  refine (C12.PO.foldlM_inv (S := fun _ => True) Clean _ c.modules _ (new_clean c.ps) ?_).2 s h
  intro b me hme hb
  have hm := hv me hme
  cases me with
  | ast path file m => exact ⟨fun _ _ => trivial, fun b' hb' => addModule_clean b b' m path hb hm hb'⟩
  | text f t => exact hm.elim

/-- the priority list plays no part in adding the modules -/
theorem initialState_prio (c : Case) (prio' : List Path) :
    ({ c with prio := prio' } : Case).initialState = c.initialState := rfl

/-! ## the state-level theorem, on success -/

theorem noVftS_of_noVft {s : State} (hv : NoVft s) : Mono.NoVftS s := by
  intro p i d td hi hst hin st hmem
  have h := hv p i d hi hst
  rw [hin] at h
  have h2 := h st hmem
  unfold C01.isFieldStmt
  cases hf : st.field with
  | vftable fns => rw [hf] at h2; exact h2.elim
  | field v n t => rfl

/-- a successful build is a successful resolution loop followed by the extern values -/
theorem build_ok_inv (s : State) (p : List Path) (s1 : State) (h : s.build p = .ok s1) :
    ∃ s', resolveLoop p (2 * (s.reg.types.filter fun e => !e.2.isResolved).length + 2) s = .ok s' ∧
      ∃ ms, Res.mapM' (fun (e : Path × Mod) =>
              match resolveXVals s'.reg e.2 with
              | .ok m => Res.ok (e.1, m)
              | x => x.cast) s'.modules = .ok ms ∧
        s1 = { s' with modules := ms } := by
  unfold State.build at h
  simp only [] at h
  split at h
  · next s' hs' =>
    refine ⟨s', hs', ?_⟩
    split at h
    · next ms hms =>
      simp only [BuildOutcome.ok.injEq] at h
      exact ⟨ms, hms, h.symm⟩
    · cases h
    · cases h
    · cases h
  · next hne => exact (hne s1 h).elim


/-! ## stepping the resolution loop by hand

`List.mergeSort` (well-founded recursion) does not reduce in the kernel, so a concrete run of
`resolveLoop` is checked round by round: the list of unresolved items is computed without the sort and
shown to be sorted already, each round is evaluated by `decide +kernel`. -/

theorem resolveLoop_step (prio : List Path) (n : Nat) (s s1 : State) (l : List Path)
    (hu : s.reg.unresolved prio = l) (hne : l.isEmpty = false) (hr : runRound s l = (s1, .ok ()))
    (hprog : (l == s1.reg.unresolved prio && s.reg.types.length == s1.reg.types.length) = false) :
    resolveLoop prio (n + 1) s = resolveLoop prio n s1 := by
  conv => lhs; unfold resolveLoop
  simp only [hu, hne, hr, hprog]
  rfl

theorem resolveLoop_done (prio : List Path) (n : Nat) (s : State) (hu : s.reg.unresolved prio = []) :
    resolveLoop prio (n + 1) s = .ok s := by
  unfold resolveLoop
  simp only [hu]
  rfl

theorem unresolved_of_sorted (r : Registry) (prio : List Path) (l : List Path) (h : C10.ulist r = l)
    (hs : l.Pairwise (fun a b => prioLe prio a b = true)) : r.unresolved prio = l := by
  rw [C10.unresolved_eq, h]
  exact List.mergeSort_of_pairwise hs

/-- "the build was accepted" -/
def isOkB : BuildOutcome → Bool | .ok _ => true | _ => false

theorem isOkB_iff (o : BuildOutcome) : isOkB o = true ↔ ∃ s, o = .ok s := by
  cases o <;> simp [isOkB]

end PyxisVerif.C09
