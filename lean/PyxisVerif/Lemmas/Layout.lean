import PyxisVerif.Spec.C03
/-!
# Helper lemmas about the layout core (`Model/Layout.lean`)
-/
namespace PyxisVerif.Layout

end PyxisVerif.Layout
