import PyxisVerif.Spec.C03
/-!
# Helper lemmas about the layout core (`Model/Layout.lean`)

Structure: `specRegs` / `specAll` give the region list of a `TypeSpec` in closed form; `place_spec` /
`resolve_spec` show that the executable placement loop produces exactly that list (or an error);
the remaining lemmas establish the properties of the closed form that the alignment block inspects.
-/
namespace PyxisVerif.Layout
open PyxisVerif.C03

/-! ## powers of two -/

theorem isPow2_iff (n : Nat) : isPow2 n = true ↔ ∃ k, n = 2 ^ k := by
  unfold isPow2
  constructor
  · intro h
    simp only [Bool.and_eq_true, bne_iff_ne, ne_eq, beq_iff_eq] at h
    exact ⟨n.log2, h.2.symm⟩
  · rintro ⟨k, rfl⟩
    simp [Nat.log2_two_pow]

theorem pow2_pos {n : Nat} (h : ∃ k, n = 2 ^ k) : 1 ≤ n := by
  obtain ⟨k, rfl⟩ := h
  exact Nat.two_pow_pos k

/-! ## the closed form of the region list -/

/-- what one `push` appends -/
def reg (s : Nat) (al : Option Nat) (arr : Bool) (src : Option Nat) : List (Placed Nat) :=
  if s = 0 ∧ arr = true then [] else [⟨s, al, src⟩]

/-- regions produced by the placement loop for fields `fs` numbered from `i`, starting at offset `e` -/
def specRegs : Nat → Nat → List FieldSpec → List (Placed Nat)
  | _, _, [] => []
  | e, i, f :: fs =>
    reg (fieldOffset e f - e) (some 1) true none ++
      (reg f.size (some f.align) f.isArray (some (i + 1)) ++
        specRegs (fieldOffset e f + f.size) (i + 1) fs)

def headRegs (ps : Nat) (t : TypeSpec) : List (Placed Nat) :=
  if t.vft then [⟨ps, some ps, some 0⟩] else []

def tailRegs (ps : Nat) (t : TypeSpec) : List (Placed Nat) :=
  reg (totalSize ps t - naturalEnd (start ps t) t.fields) (some 1) true none

def specAll (ps : Nat) (t : TypeSpec) : List (Placed Nat) :=
  headRegs ps t ++ (specRegs (start ps t) 0 t.fields ++ tailRegs ps t)

/-- the pending fields of `fs` numbered from `i` -/
def pf (i : Nat) (fs : List FieldSpec) : List (PField Nat) :=
  (fs.zipIdx i).map fun p => p.1.toPField (p.2 + 1)

theorem pfields_eq (t : TypeSpec) : pfields t = pf 0 t.fields := rfl

theorem pf_cons (i : Nat) (f : FieldSpec) (fs : List FieldSpec) :
    pf i (f :: fs) = f.toPField (i + 1) :: pf (i + 1) fs := rfl

/-- the crude weight used by `bound` -/
def wt (fs : List FieldSpec) : Nat := (fs.map fun f => f.addr.getD 0 + f.size).sum

theorem wt_cons (f : FieldSpec) (fs : List FieldSpec) :
    wt (f :: fs) = f.addr.getD 0 + f.size + wt fs := by
  simp [wt]

theorem fieldOffset_le (e : Nat) (f : FieldSpec) : fieldOffset e f ≤ e + f.addr.getD 0 := by
  unfold fieldOffset
  cases f.addr <;> simp

theorem naturalEnd_le (e : Nat) (fs : List FieldSpec) : naturalEnd e fs ≤ e + wt fs := by
  induction fs generalizing e with
  | nil => simp [naturalEnd, wt]
  | cons f fs ih =>
    have h1 := ih (fieldOffset e f + f.size)
    have h2 := fieldOffset_le e f
    rw [wt_cons]
    simp only [naturalEnd]
    omega

/-! ## `push`, `place`, `resolve` compute the closed form -/

theorem push_ok (rs : List (Placed Nat)) (e s : Nat) (al : Option Nat) (arr : Bool) (src : Option Nat)
    (h : e + s ≤ usizeMax) :
    push (rs, e) (.ok (some s)) al arr src = .ok (rs ++ reg s al arr src, e + s) := by
  unfold push reg
  by_cases c : s = 0 ∧ arr = true
  · simp [c]
  · simp [c, h]

theorem sumSizes_append (a b : List (Placed Nat)) : sumSizes (a ++ b) = sumSizes a + sumSizes b := by
  simp [sumSizes]

theorem sumSizes_reg (s : Nat) (al : Option Nat) (arr : Bool) (src : Option Nat) :
    sumSizes (reg s al arr src) = s := by
  unfold reg
  by_cases c : s = 0 ∧ arr = true
  · simp [c, sumSizes]
  · simp [c, sumSizes]

theorem sumSizes_specRegs (e i : Nat) (fs : List FieldSpec) (h : NonOverlap e fs) :
    sumSizes (specRegs e i fs) + e = naturalEnd e fs := by
  induction fs generalizing e i with
  | nil => simp [specRegs, naturalEnd, sumSizes]
  | cons f fs ih =>
    obtain ⟨h1, h2⟩ := h
    have := ih _ (i + 1) h2
    have hle : e ≤ fieldOffset e f := by
      unfold fieldOffset
      cases ha : f.addr with
      | none => simp
      | some a => simpa using h1 a ha
    simp only [specRegs, naturalEnd, sumSizes_append, sumSizes_reg]
    omega

theorem nonOverlap_le (e : Nat) (f : FieldSpec) (fs : List FieldSpec) (h : NonOverlap e (f :: fs)) :
    e ≤ fieldOffset e f := by
  unfold fieldOffset
  cases ha : f.addr with
  | none => simp
  | some a => simpa using h.1 a ha

theorem place_spec (rs : List (Placed Nat)) (e i : Nat) (fs : List FieldSpec)
    (hb : e + wt fs ≤ usizeMax) :
    (NonOverlap e fs → place (rs, e) (pf i fs) = .ok (rs ++ specRegs e i fs, naturalEnd e fs)) ∧
    (¬ NonOverlap e fs → ∃ m, place (rs, e) (pf i fs) = .err m) := by
  induction fs generalizing rs e i with
  | nil => simp [pf, place, specRegs, naturalEnd, NonOverlap]
  | cons f fs ih =>
    rw [wt_cons] at hb
    rw [pf_cons]
    unfold place
    cases ha : f.addr with
    | none =>
      have hp : pushField (rs, e) (f.toPField (i + 1)) =
          .ok (rs ++ reg f.size (some f.align) f.isArray (some (i + 1)), e + f.size) :=
        push_ok rs e f.size _ _ _ (by omega)
      have hfo : fieldOffset e f = e := by simp [fieldOffset, ha]
      have ih' := ih (rs ++ reg f.size (some f.align) f.isArray (some (i + 1))) (e + f.size) (i + 1)
        (by omega)
      simp only [FieldSpec.toPField, ha] at hp ⊢
      simp only [hp, NonOverlap, ha, naturalEnd, specRegs, hfo, Nat.sub_self]
      refine ⟨fun h => ?_, fun h => ?_⟩
      · rw [ih'.1 h.2]; simp [reg]
      · exact ih'.2 (fun h' => h ⟨by simp, h'⟩)
    | some a =>
      have hfo : fieldOffset e f = a := by simp [fieldOffset, ha]
      simp only [FieldSpec.toPField, ha]
      by_cases hlt : a < e
      · simp only [hlt, if_true]
        refine ⟨fun h => ?_, fun _ => ⟨_, rfl⟩⟩
        have := h.1 a ha
        omega
      · simp only [hlt, if_false]
        have ha0 : f.addr.getD 0 = a := by simp [ha]
        have hp1 : pushPad (rs, e) (a - e) = .ok (rs ++ reg (a - e) (some 1) true none, a) := by
          have := push_ok rs e (a - e) (some 1) true none (by omega)
          rw [show e + (a - e) = a by omega] at this
          exact this
        have hp2 : pushField (rs ++ reg (a - e) (some 1) true none, a) (f.toPField (i + 1)) =
            .ok (rs ++ reg (a - e) (some 1) true none ++
              reg f.size (some f.align) f.isArray (some (i + 1)), a + f.size) :=
          push_ok _ a f.size _ _ _ (by omega)
        simp only [FieldSpec.toPField, ha] at hp2
        have ih' := ih (rs ++ reg (a - e) (some 1) true none ++
              reg f.size (some f.align) f.isArray (some (i + 1))) (a + f.size) (i + 1) (by omega)
        simp only [hp1, hp2, NonOverlap, naturalEnd, specRegs, hfo]
        refine ⟨fun h => ?_, fun h => ?_⟩
        · rw [ih'.1 h.2]; simp [List.append_assoc]
        · refine ih'.2 (fun h' => h ⟨?_, h'⟩)
          intro a' ha'
          rw [ha] at ha'
          cases ha'
          omega

/-- the checks of `resolve_regions`: no overlap, declared size not exceeded -/
def Pre (ps : Nat) (t : TypeSpec) : Prop :=
  NonOverlap (start ps t) t.fields ∧
    ∀ ts, t.size? = some ts → naturalEnd (start ps t) t.fields ≤ ts

theorem sumSizes_specAll (ps : Nat) (t : TypeSpec) (h : Pre ps t) :
    sumSizes (specAll ps t) = totalSize ps t := by
  have h1 := sumSizes_specRegs (start ps t) 0 t.fields h.1
  have h3 : naturalEnd (start ps t) t.fields ≤ totalSize ps t := by
    unfold totalSize
    cases hs : t.size? with
    | none => simp
    | some ts => simpa using h.2 ts hs
  have h2 : sumSizes (headRegs ps t) = start ps t := by
    unfold headRegs start
    cases t.vft <;> simp [sumSizes]
  simp only [specAll, tailRegs, sumSizes_append, sumSizes_reg, h2]
  omega

theorem padTail_spec (ps : Nat) (t : TypeSpec) (rs : List (Placed Nat))
    (hsm : t.size?.getD 0 ≤ usizeMax)
    (h : ∀ ts, t.size? = some ts → naturalEnd (start ps t) t.fields ≤ ts) :
    padTail (rs, naturalEnd (start ps t) t.fields) t.size? =
      .ok (rs ++ tailRegs ps t, totalSize ps t) := by
  unfold padTail tailRegs totalSize
  cases hs : t.size? with
  | none => simp [reg]
  | some ts =>
    have hle := h ts hs
    simp only [hs, Option.getD_some] at hsm ⊢
    by_cases c : naturalEnd (start ps t) t.fields < ts
    · simp only [c, if_true]
      have := push_ok rs (naturalEnd (start ps t) t.fields) (ts - naturalEnd (start ps t) t.fields)
        (some 1) true none (by omega)
      rw [show naturalEnd (start ps t) t.fields + (ts - naturalEnd (start ps t) t.fields) = ts by omega]
        at this
      exact this
    · have : ts - naturalEnd (start ps t) t.fields = 0 := by omega
      have e : naturalEnd (start ps t) t.fields = ts := by omega
      simp [reg, e]

/-- `resolve` after the vftable-pointer push -/
def resolveTail (st0 : St Nat) (fields : List (PField Nat)) (target : Option Nat) :
    Res (List (Placed Nat) × Nat) :=
  match place st0 fields with
  | .ok st1 =>
    match padTail st1 target with
    | .ok st2 =>
      let size := sumSizes st2.1
      match target with
      | some t => if size ≠ t then .err "calculated size does not match target size" else .ok (st2.1, size)
      | none => .ok (st2.1, size)
    | .defer => .defer
    | .err m => .err m
    | .panic s => .panic s
  | .defer => .defer
  | .err m => .err m
  | .panic s => .panic s

theorem resolve_none (fields : List (PField Nat)) (target : Option Nat) :
    resolve none fields target = resolveTail ([], 0) fields target := by
  unfold resolve resolveTail
  simp only []
  cases place ([], 0) fields with
  | ok st1 =>
    simp only []
    cases padTail st1 target with
    | ok st2 => cases target <;> rfl
    | _ => rfl
  | _ => rfl

theorem resolve_some (v : PField Nat) (st0 : St Nat) (fields : List (PField Nat)) (target : Option Nat)
    (h : pushField ([], 0) v = .ok st0) :
    resolve (some v) fields target = resolveTail st0 fields target := by
  unfold resolve resolveTail
  simp only [h]
  cases place st0 fields with
  | ok st1 =>
    simp only []
    cases padTail st1 target with
    | ok st2 => cases target <;> rfl
    | _ => rfl
  | _ => rfl

theorem resolve_head (ps : Nat) (t : TypeSpec) (hps : ps ≤ usizeMax) :
    resolve (if t.vft then some (vptrField ps) else none) (pfields t) t.size? =
      resolveTail (headRegs ps t, start ps t) (pf 0 t.fields) t.size? := by
  rw [pfields_eq]
  unfold headRegs start
  cases t.vft
  · exact resolve_none _ _
  · refine resolve_some _ _ _ _ ?_
    have := push_ok [] 0 ps (some ps) false (some 0) (by omega)
    simpa [pushField, vptrField, reg] using this

theorem resolve_spec (ps : Nat) (t : TypeSpec)
    (hsm : ps + wt t.fields + t.size?.getD 0 ≤ usizeMax) :
    (Pre ps t → resolve (if t.vft then some (vptrField ps) else none) (pfields t) t.size? =
        .ok (specAll ps t, totalSize ps t)) ∧
    (¬ Pre ps t → ∃ m, resolve (if t.vft then some (vptrField ps) else none) (pfields t) t.size? =
        .err m) := by
  have hpl := place_spec (headRegs ps t) (start ps t) 0 t.fields
    (by unfold start; split <;> omega)
  rw [resolve_head ps t (by omega)]
  unfold resolveTail
  by_cases hno : NonOverlap (start ps t) t.fields
  · rw [hpl.1 hno]
    simp only []
    by_cases hsz : ∀ ts, t.size? = some ts → naturalEnd (start ps t) t.fields ≤ ts
    · have hpre : Pre ps t := ⟨hno, hsz⟩
      rw [padTail_spec ps t _ (by omega) hsz]
      simp only []
      refine ⟨fun _ => ?_, fun h => absurd hpre h⟩
      have hsum : sumSizes (headRegs ps t ++ specRegs (start ps t) 0 t.fields ++ tailRegs ps t)
          = totalSize ps t := by
        rw [List.append_assoc]; exact sumSizes_specAll ps t hpre
      rw [hsum]
      cases hs : t.size? with
      | none => simp [specAll]
      | some ts => simp [specAll, totalSize, hs]
    · refine ⟨fun h => absurd h.2 hsz, fun _ => ?_⟩
      have hex : ∃ ts, t.size? = some ts ∧ ts < naturalEnd (start ps t) t.fields := by
        cases hs : t.size? with
        | none => exact absurd (by intro ts h; simp [hs] at h) hsz
        | some ts =>
          refine ⟨ts, rfl, ?_⟩
          apply Classical.byContradiction
          intro hc
          apply hsz
          intro ts' h'
          rw [hs] at h'
          cases h'
          omega
      obtain ⟨ts, hs, hlt⟩ := hex
      have h2 : sumSizes (headRegs ps t) = start ps t := by
        unfold headRegs start
        cases t.vft <;> simp [sumSizes]
      have hsum : sumSizes (headRegs ps t ++ specRegs (start ps t) 0 t.fields) ≠ ts := by
        have := sumSizes_specRegs (start ps t) 0 t.fields hno
        rw [sumSizes_append, h2]
        omega
      have hnlt : ¬ naturalEnd (start ps t) t.fields < ts := by omega
      simp [hs, padTail, hnlt, hsum]
  · obtain ⟨m, hm⟩ := hpl.2 hno
    rw [hm]
    exact ⟨fun h => absurd h.1 hno, fun _ => ⟨m, rfl⟩⟩

/-! ## alignments of the closed form -/

/-- the alignments of the domain -/
def PA (a : Nat) : Prop := a = 1 ∨ a = 2 ∨ a = 4 ∨ a = 8 ∨ a = 16

/-- every region has an alignment, and it is one of the domain's -/
def AllP (rs : List (Placed Nat)) : Prop := ∀ r ∈ rs, ∃ a, r.align = some a ∧ PA a

theorem allP_nil : AllP [] := by intro r h; cases h

theorem allP_append {a b : List (Placed Nat)} (ha : AllP a) (hb : AllP b) : AllP (a ++ b) := by
  intro r h
  rcases List.mem_append.mp h with h | h
  · exact ha r h
  · exact hb r h

theorem allP_reg (s a : Nat) (arr : Bool) (src : Option Nat) (h : PA a) :
    AllP (reg s (some a) arr src) := by
  unfold reg
  split
  · exact allP_nil
  · intro r hr
    simp only [List.mem_singleton] at hr
    subst hr
    exact ⟨a, rfl, h⟩

theorem PA_one : PA 1 := Or.inl rfl

theorem allP_specRegs (e i : Nat) (fs : List FieldSpec) (hal : ∀ f ∈ fs, PA f.align) :
    AllP (specRegs e i fs) := by
  induction fs generalizing e i with
  | nil => exact allP_nil
  | cons f fs ih =>
    simp only [specRegs]
    exact allP_append (allP_reg _ _ _ _ PA_one)
      (allP_append (allP_reg _ _ _ _ (hal f (by simp)))
        (ih _ _ (fun g hg => hal g (by simp [hg]))))

theorem allP_specAll (ps : Nat) (t : TypeSpec) (hps : ps = 4 ∨ ps = 8)
    (hal : ∀ f ∈ t.fields, PA f.align) : AllP (specAll ps t) := by
  unfold specAll
  refine allP_append ?_ (allP_append (allP_specRegs _ _ _ hal) (allP_reg _ _ _ _ PA_one))
  unfold headRegs
  split
  · intro r hr
    simp only [List.mem_singleton] at hr
    subst hr
    refine ⟨ps, rfl, ?_⟩
    unfold PA; omega
  · exact allP_nil

/-! ## `lcmAll` -/

def lcmFrom (acc : Nat) (rs : List (Placed Nat)) : Res Nat :=
  Res.foldlM (fun acc (r : Placed Nat) => match r.align with | some a => lcmStep acc a | none => .ok acc)
    acc rs

theorem lcmAll_eq (rs : List (Placed Nat)) : lcmAll rs = lcmFrom 1 rs := rfl

theorem lcmStep_spec (acc x : Nat) (ha : PA acc) (hx : PA x) :
    ∃ m, lcmStep acc x = .ok m ∧ PA m ∧ ∀ A, m ≤ A ↔ acc ≤ A ∧ x ≤ A := by
  refine ⟨max acc x, ?_, ?_, ?_⟩
  · unfold PA at ha hx
    rcases ha with rfl | rfl | rfl | rfl | rfl <;> rcases hx with rfl | rfl | rfl | rfl | rfl <;>
      simp [lcmStep, usizeMax]
  · unfold PA at ha hx ⊢; omega
  · intro A; omega

theorem lcmFrom_spec (acc : Nat) (rs : List (Placed Nat)) (hrs : AllP rs) (ha : PA acc) :
    ∃ m, lcmFrom acc rs = .ok m ∧ PA m ∧
      ∀ A, m ≤ A ↔ acc ≤ A ∧ ∀ r ∈ rs, ∀ a, r.align = some a → a ≤ A := by
  induction rs generalizing acc with
  | nil => exact ⟨acc, rfl, ha, by simp⟩
  | cons r rs ih =>
    obtain ⟨a, hra, hpa⟩ := hrs r (by simp)
    obtain ⟨m1, h1, hp1, hm1⟩ := lcmStep_spec acc a ha hpa
    obtain ⟨m, h2, hp2, hm2⟩ := ih m1 (fun r' hr' => hrs r' (by simp [hr'])) hp1
    refine ⟨m, ?_, hp2, ?_⟩
    · unfold lcmFrom Res.foldlM
      simp only [hra, h1]
      exact h2
    · intro A
      rw [hm2, hm1]
      simp only [List.mem_cons, forall_eq_or_imp, hra, Option.some.injEq, forall_eq']
      exact and_assoc

theorem emitted_iff (f : FieldSpec) : f.emitted = true ↔ ¬ (f.size = 0 ∧ f.isArray = true) := by
  unfold FieldSpec.emitted
  cases f.isArray <;> simp

theorem aligns_reg (s a A : Nat) (arr : Bool) (src : Option Nat) :
    (∀ r ∈ reg s (some a) arr src, ∀ a', r.align = some a' → a' ≤ A) ↔
      ((s = 0 ∧ arr = true) ∨ a ≤ A) := by
  unfold reg
  by_cases c : s = 0 ∧ arr = true
  · simp [c]
  · simp [c]

theorem aligns_specRegs (e i A : Nat) (fs : List FieldSpec) (hA : 1 ≤ A) :
    (∀ r ∈ specRegs e i fs, ∀ a, r.align = some a → a ≤ A) ↔
      ∀ f ∈ fs, f.emitted = true → f.align ≤ A := by
  induction fs generalizing e i with
  | nil => simp [specRegs]
  | cons f fs ih =>
    simp only [specRegs, List.mem_append, or_imp, forall_and, aligns_reg, ih, List.mem_cons,
      forall_eq, emitted_iff]
    constructor
    · rintro ⟨_, h2, h3⟩
      exact ⟨fun hn => h2.resolve_left hn, h3⟩
    · rintro ⟨h2, h3⟩
      refine ⟨Or.inr hA, ?_, h3⟩
      by_cases c : f.size = 0 ∧ f.isArray = true
      · exact Or.inl c
      · exact Or.inr (h2 c)

theorem aligns_head (ps : Nat) (t : TypeSpec) (A : Nat) :
    (∀ r ∈ headRegs ps t, ∀ a, r.align = some a → a ≤ A) ↔ (t.vft = true → ps ≤ A) := by
  unfold headRegs
  cases t.vft
  · simp
  · simp

theorem emittedAligns_le (ps : Nat) (t : TypeSpec) (A : Nat) :
    (∀ a ∈ emittedAligns ps t, a ≤ A) ↔
      ((t.vft = true → ps ≤ A) ∧ ∀ f ∈ t.fields, f.emitted = true → f.align ≤ A) := by
  have hf : (∀ a ∈ (t.fields.filter (·.emitted)).map (·.align), a ≤ A) ↔
      ∀ f ∈ t.fields, f.emitted = true → f.align ≤ A := by
    constructor
    · intro h f hf he
      exact h _ (List.mem_map.mpr ⟨f, List.mem_filter.mpr ⟨hf, he⟩, rfl⟩)
    · intro h a ha
      obtain ⟨f, hf, rfl⟩ := List.mem_map.mp ha
      obtain ⟨hf1, hf2⟩ := List.mem_filter.mp hf
      exact h f hf1 hf2
  unfold emittedAligns
  simp only [List.mem_append, or_imp, forall_and, hf]
  cases t.vft
  · simp
  · simp

theorem aligns_specAll (ps : Nat) (t : TypeSpec) (A : Nat) (hA : 1 ≤ A) :
    (∀ r ∈ specAll ps t, ∀ a, r.align = some a → a ≤ A) ↔ ∀ a ∈ emittedAligns ps t, a ≤ A := by
  rw [emittedAligns_le]
  unfold specAll tailRegs
  simp only [List.mem_append, or_imp, forall_and, aligns_reg, aligns_specRegs _ _ _ _ hA, aligns_head]
  constructor
  · rintro ⟨h1, h2, _⟩; exact ⟨h1, h2⟩
  · rintro ⟨h1, h2⟩; exact ⟨h1, h2, Or.inr hA⟩

theorem lcmAll_specAll (ps : Nat) (t : TypeSpec) (hps : ps = 4 ∨ ps = 8)
    (hal : ∀ f ∈ t.fields, PA f.align) :
    ∃ m, lcmAll (specAll ps t) = .ok m ∧
      ∀ A, 1 ≤ A → (m ≤ A ↔ ∀ a ∈ emittedAligns ps t, a ≤ A) := by
  obtain ⟨m, h1, _, h3⟩ := lcmFrom_spec 1 (specAll ps t) (allP_specAll ps t hps hal) PA_one
  refine ⟨m, by rw [lcmAll_eq]; exact h1, ?_⟩
  intro A hA
  rw [h3, aligns_specAll ps t A hA]
  simp [hA]

/-! ## `fieldsAligned` -/

theorem fieldsAligned_reg (off s a : Nat) (arr : Bool) (src : Option Nat) (rest : List (Placed Nat))
    (ha : a ≠ 0) (hs : off + s ≤ usizeMax) :
    ((s = 0 ∧ arr = true) ∨ off % a = 0 →
      fieldsAligned off (reg s (some a) arr src ++ rest) = fieldsAligned (off + s) rest) ∧
    (¬ ((s = 0 ∧ arr = true) ∨ off % a = 0) →
      ∃ m, fieldsAligned off (reg s (some a) arr src ++ rest) = .err m) := by
  unfold reg
  by_cases c : s = 0 ∧ arr = true
  · simp [c]
  · have hs' : ¬ off + s > usizeMax := by omega
    by_cases hm : off % a = 0
    · simp [c, hm, fieldsAligned, ha, hs']
    · simp [c, hm, fieldsAligned, ha]

theorem fieldsAligned_specRegs (e i : Nat) (fs : List FieldSpec) (tl : List (Placed Nat))
    (hal : ∀ f ∈ fs, PA f.align) (hno : NonOverlap e fs) (hb : e + wt fs ≤ usizeMax) :
    (FieldsDivisible e fs →
      fieldsAligned e (specRegs e i fs ++ tl) = fieldsAligned (naturalEnd e fs) tl) ∧
    (¬ FieldsDivisible e fs → ∃ m, fieldsAligned e (specRegs e i fs ++ tl) = .err m) := by
  induction fs generalizing e i with
  | nil => simp [specRegs, naturalEnd, FieldsDivisible]
  | cons f fs ih =>
    have hle := nonOverlap_le e f fs hno
    have hub := fieldOffset_le e f
    rw [wt_cons] at hb
    have hpa : PA f.align := hal f (by simp)
    have hfa : f.align ≠ 0 := by unfold PA at hpa; omega
    have ih' := ih (fieldOffset e f + f.size) (i + 1) (fun g hg => hal g (by simp [hg])) hno.2
      (by omega)
    simp only [specRegs, List.append_assoc, naturalEnd, FieldsDivisible]
    have g1 := (fieldsAligned_reg e (fieldOffset e f - e) 1 true none
      (reg f.size (some f.align) f.isArray (some (i + 1)) ++
        (specRegs (fieldOffset e f + f.size) (i + 1) fs ++ tl)) (by decide) (by omega)).1
      (Or.inr (Nat.mod_one e))
    rw [g1, show e + (fieldOffset e f - e) = fieldOffset e f by omega]
    have g2 := fieldsAligned_reg (fieldOffset e f) f.size f.align f.isArray (some (i + 1))
      (specRegs (fieldOffset e f + f.size) (i + 1) fs ++ tl) hfa (by omega)
    have hem : f.emitted = false ↔ (f.size = 0 ∧ f.isArray = true) := by
      have := emitted_iff f
      cases h : f.emitted
      · simp only [true_iff]
        rw [h] at this
        apply Classical.byContradiction
        intro hc
        exact absurd (this.mpr hc) (by simp)
      · rw [h] at this
        simp only [Bool.true_eq_false, false_iff]
        exact this.mp rfl
    rw [hem]
    refine ⟨fun h => ?_, fun h => ?_⟩
    · rw [g2.1 h.1]; exact ih'.1 h.2
    · by_cases c : (f.size = 0 ∧ f.isArray = true) ∨ fieldOffset e f % f.align = 0
      · rw [g2.1 c]; exact ih'.2 (fun h' => h ⟨c, h'⟩)
      · exact g2.2 c

theorem fieldsAligned_specAll (ps : Nat) (t : TypeSpec) (hps : ps = 4 ∨ ps = 8)
    (hal : ∀ f ∈ t.fields, PA f.align) (hsm : ps + wt t.fields + t.size?.getD 0 ≤ usizeMax)
    (hpre : Pre ps t) :
    (FieldsDivisible (start ps t) t.fields → fieldsAligned 0 (specAll ps t) = .ok ()) ∧
    (¬ FieldsDivisible (start ps t) t.fields → ∃ m, fieldsAligned 0 (specAll ps t) = .err m) := by
  have hst : start ps t + wt t.fields ≤ usizeMax := by unfold start; split <;> omega
  have hhead : ∀ rest, fieldsAligned 0 (headRegs ps t ++ rest) = fieldsAligned (start ps t) rest := by
    intro rest
    unfold headRegs start
    cases t.vft
    · simp
    · have h1 : ps ≠ 0 := by omega
      have h2 : ¬ ps > usizeMax := by omega
      simp [fieldsAligned, h1, h2]
  have hts : totalSize ps t ≤ usizeMax := by
    unfold totalSize
    cases hs : t.size? with
    | none =>
      have := naturalEnd_le (start ps t) t.fields
      simp only [Option.getD_none]
      omega
    | some ts => simp only [hs, Option.getD_some] at hsm ⊢; omega
  have hne : naturalEnd (start ps t) t.fields ≤ totalSize ps t := by
    unfold totalSize
    cases hs : t.size? with
    | none => simp
    | some ts => simpa using hpre.2 ts hs
  have htail : fieldsAligned (naturalEnd (start ps t) t.fields) (tailRegs ps t) = .ok () := by
    have := (fieldsAligned_reg (naturalEnd (start ps t) t.fields)
      (totalSize ps t - naturalEnd (start ps t) t.fields) 1 true none [] (by decide) (by omega)).1
      (Or.inr (Nat.mod_one _))
    rw [List.append_nil] at this
    unfold tailRegs
    rw [this]
    rfl
  have hmid := fieldsAligned_specRegs (start ps t) 0 t.fields (tailRegs ps t) hal hpre.1 hst
  unfold specAll
  rw [hhead]
  exact ⟨fun h => by rw [hmid.1 h, htail], hmid.2⟩

/-! ## the requested alignment is the declarative effective alignment -/

/-- the non-padding regions -/
def real (rs : List (Placed Nat)) : List (Option Nat) := (rs.filter (·.src.isSome)).map (·.align)

theorem real_append (a b : List (Placed Nat)) : real (a ++ b) = real a ++ real b := by
  simp [real]

theorem real_reg_none (s : Nat) (al : Option Nat) (arr : Bool) : real (reg s al arr none) = [] := by
  unfold reg real
  split <;> simp

theorem real_reg_some (s : Nat) (al : Option Nat) (arr : Bool) (j : Nat) :
    real (reg s al arr (some j)) = if s = 0 ∧ arr = true then [] else [al] := by
  unfold reg real
  split <;> simp

theorem length_reg (s : Nat) (al : Option Nat) (arr : Bool) (src : Option Nat) :
    (reg s al arr src).length = if s = 0 ∧ arr = true then 0 else 1 := by
  unfold reg
  split <;> simp

theorem real_specRegs (e i : Nat) (fs : List FieldSpec) :
    real (specRegs e i fs) = ((fs.filter (·.emitted)).map (·.align)).map some := by
  induction fs generalizing e i with
  | nil => simp [specRegs, real]
  | cons f fs ih =>
    simp only [specRegs, real_append, real_reg_none, real_reg_some, ih, List.nil_append]
    by_cases c : f.size = 0 ∧ f.isArray = true
    · have : f.emitted = false := by
        cases h : f.emitted
        · rfl
        · exact absurd c ((emitted_iff f).mp h)
      simp [c, this]
    · have : f.emitted = true := (emitted_iff f).mpr c
      simp [c, this]

theorem real_specAll (ps : Nat) (t : TypeSpec) :
    real (specAll ps t) = (emittedAligns ps t).map some := by
  unfold specAll tailRegs emittedAligns
  rw [real_append, real_append, real_reg_none, real_specRegs, List.append_nil, List.map_append]
  congr 1
  unfold headRegs
  cases t.vft <;> simp [real]

theorem pad_specRegs (e i : Nat) (fs : List FieldSpec) :
    ∀ r ∈ specRegs e i fs, r.src = none → r.align = some 1 := by
  induction fs generalizing e i with
  | nil => simp [specRegs]
  | cons f fs ih =>
    intro r hr hs
    simp only [specRegs, List.mem_append] at hr
    rcases hr with hr | hr | hr
    · unfold reg at hr
      split at hr
      · cases hr
      · simp only [List.mem_singleton] at hr; subst hr; rfl
    · unfold reg at hr
      split at hr
      · cases hr
      · simp only [List.mem_singleton] at hr; subst hr; cases hs
    · exact ih _ _ r hr hs

theorem pad_specAll (ps : Nat) (t : TypeSpec) :
    ∀ r ∈ specAll ps t, r.src = none → r.align = some 1 := by
  intro r hr hs
  simp only [specAll, List.mem_append] at hr
  rcases hr with hr | hr | hr
  · unfold headRegs at hr
    split at hr
    · simp only [List.mem_singleton] at hr; subst hr; cases hs
    · cases hr
  · exact pad_specRegs _ _ _ r hr hs
  · unfold tailRegs reg at hr
    split at hr
    · cases hr
    · simp only [List.mem_singleton] at hr; subst hr; rfl

theorem length_specRegs (e i : Nat) (fs : List FieldSpec) (hno : NonOverlap e fs) :
    (specRegs e i fs).length = (fs.filter (·.emitted)).length + gapCount e fs := by
  induction fs generalizing e i with
  | nil => simp [specRegs, gapCount]
  | cons f fs ih =>
    have hle := nonOverlap_le e f fs hno
    simp only [specRegs, List.length_append, length_reg, ih _ _ hno.2, gapCount, List.filter_cons]
    have h1 : (if fieldOffset e f - e = 0 ∧ True then 0 else 1) =
        (if e < fieldOffset e f then 1 else 0) := by
      by_cases c : e < fieldOffset e f
      · have : ¬ (fieldOffset e f - e = 0) := by omega
        simp [c, this]
      · have : fieldOffset e f - e = 0 := by omega
        simp [c, this]
    rw [h1]
    by_cases c : f.size = 0 ∧ f.isArray = true
    · have : f.emitted = false := by
        cases h : f.emitted
        · rfl
        · exact absurd c ((emitted_iff f).mp h)
      simp only [c, this, and_self, if_true, Bool.false_eq_true, if_false]
      omega
    · have : f.emitted = true := (emitted_iff f).mpr c
      simp only [c, this, if_true, if_false, List.length_cons]
      omega

theorem length_specAll (ps : Nat) (t : TypeSpec) (hpre : Pre ps t) :
    (specAll ps t).length = regionCount ps t := by
  have hne : naturalEnd (start ps t) t.fields ≤ totalSize ps t := by
    unfold totalSize
    cases hs : t.size? with
    | none => simp
    | some ts => simpa using hpre.2 ts hs
  have h1 : (headRegs ps t).length = if t.vft then 1 else 0 := by
    unfold headRegs; cases t.vft <;> simp
  have h2 : (tailRegs ps t).length =
      if naturalEnd (start ps t) t.fields < totalSize ps t then 1 else 0 := by
    unfold tailRegs
    rw [length_reg]
    by_cases c : naturalEnd (start ps t) t.fields < totalSize ps t
    · have : ¬ (totalSize ps t - naturalEnd (start ps t) t.fields = 0) := by omega
      simp [c, this]
    · have : totalSize ps t - naturalEnd (start ps t) t.fields = 0 := by omega
      simp [c, this]
  unfold specAll regionCount
  simp only [List.length_append, h1, h2, length_specRegs _ _ _ hpre.1]
  omega

theorem requestedAlign_none_ne_one (ps : Nat) (rs : List (Placed Nat)) (h : rs.length ≠ 1) :
    requestedAlign ps none rs = ps := by
  unfold requestedAlign
  match rs, h with
  | [], _ => rfl
  | [_], h => exact absurd rfl h
  | _ :: _ :: _, _ => rfl

theorem requestedAlign_specAll (ps : Nat) (t : TypeSpec) (hpre : Pre ps t) :
    requestedAlign ps t.align? (specAll ps t) = effAlign ps t := by
  unfold effAlign
  cases ha : t.align? with
  | some a => rfl
  | none =>
    simp only []
    have hlen := length_specAll ps t hpre
    by_cases c : regionCount ps t = 1
    · simp only [c, if_true]
      have hreal := real_specAll ps t
      have hpad := pad_specAll ps t
      rw [c] at hlen
      match hR : specAll ps t, hlen with
      | [r], _ =>
        rw [hR] at hreal hpad
        cases hs : r.src with
        | none =>
          have h1 : r.align = some 1 := hpad r (by simp) hs
          have h2 : emittedAligns ps t = [] := by
            simpa [real, hs] using hreal.symm
          simp [requestedAlign, h1, h2]
        | some j =>
          have h2 : (emittedAligns ps t).map some = [r.align] := by
            simpa [real, hs] using hreal.symm
          cases hE : emittedAligns ps t with
          | nil => rw [hE] at h2; simp at h2
          | cons a l =>
            rw [hE] at h2
            simp only [List.map_cons, List.cons.injEq, List.map_eq_nil_iff] at h2
            obtain ⟨h2a, h2b⟩ := h2
            subst h2b
            simp [requestedAlign, ← h2a]
    · simp only [c, if_false]
      exact requestedAlign_none_ne_one ps _ (by rw [hlen]; exact c)

/-! ## the alignment block and the verdict -/

/-- the non-packed clauses of `Realisable` -/
def AlignOK (ps : Nat) (t : TypeSpec) : Prop :=
  FieldsDivisible (start ps t) t.fields
    ∧ IsPow2 (effAlign ps t)
    ∧ (∀ a ∈ emittedAligns ps t, a ≤ effAlign ps t)
    ∧ totalSize ps t % effAlign ps t = 0

theorem alignCheck_unpacked (ps : Nat) (t : TypeSpec) (hps : ps = 4 ∨ ps = 8)
    (hal : ∀ f ∈ t.fields, PA f.align) (hsm : ps + wt t.fields + t.size?.getD 0 ≤ usizeMax)
    (hpre : Pre ps t) :
    (AlignOK ps t →
      alignCheck ps false t.align? (specAll ps t) (totalSize ps t) = .ok (effAlign ps t)) ∧
    (¬ AlignOK ps t →
      ∃ m, alignCheck ps false t.align? (specAll ps t) (totalSize ps t) = .err m) := by
  have hfold : ∀ (h1 : FieldsDivisible (start ps t) t.fields) (h2 : IsPow2 (effAlign ps t))
      (h3 : ∀ a ∈ emittedAligns ps t, a ≤ effAlign ps t)
      (h4 : totalSize ps t % effAlign ps t = 0), AlignOK ps t := fun h1 h2 h3 h4 => ⟨h1, h2, h3, h4⟩
  have hunf : AlignOK ps t → FieldsDivisible (start ps t) t.fields ∧ IsPow2 (effAlign ps t) ∧
      (∀ a ∈ emittedAligns ps t, a ≤ effAlign ps t) ∧ totalSize ps t % effAlign ps t = 0 := id
  generalize AlignOK ps t = G at hfold hunf ⊢
  unfold alignCheck
  simp only [Bool.false_eq_true, if_false, requestedAlign_specAll ps t hpre]
  by_cases h2 : isPow2 (effAlign ps t) = true
  · have hpow : IsPow2 (effAlign ps t) := (isPow2_iff _).mp h2
    have hA1 : 1 ≤ effAlign ps t := pow2_pos hpow
    have hA0 : effAlign ps t ≠ 0 := by omega
    obtain ⟨m, hm, hmA⟩ := lcmAll_specAll ps t hps hal
    have hmA' := hmA _ hA1
    have hfa := fieldsAligned_specAll ps t hps hal hsm hpre
    simp only [h2, Bool.not_true, Bool.false_eq_true, if_false, hm]
    by_cases hle : m ≤ effAlign ps t
    · have hgt : ¬ m > effAlign ps t := by omega
      simp only [hgt, if_false]
      by_cases hfd : FieldsDivisible (start ps t) t.fields
      · rw [hfa.1 hfd]
        simp only [hA0, if_false]
        by_cases hmod : totalSize ps t % effAlign ps t = 0
        · have hG : G := hfold hfd hpow (hmA'.mp hle) hmod
          simp only [hmod, ne_eq, not_true_eq_false, if_false]
          exact ⟨fun _ => trivial, fun h => absurd hG h⟩
        · have hG : ¬ G := fun h => hmod (hunf h).2.2.2
          simp only [ne_eq, hmod, not_false_eq_true, if_true]
          exact ⟨fun h => absurd h hG, fun _ => ⟨_, rfl⟩⟩
      · obtain ⟨e, he⟩ := hfa.2 hfd
        rw [he]
        exact ⟨fun h => absurd (hunf h).1 hfd, fun _ => ⟨_, rfl⟩⟩
    · have hgt : m > effAlign ps t := by omega
      simp only [hgt, if_true]
      exact ⟨fun h => absurd (hmA'.mpr (hunf h).2.2.1) hle, fun _ => ⟨_, rfl⟩⟩
  · have h2' : isPow2 (effAlign ps t) = false := by
      cases h : isPow2 (effAlign ps t)
      · rfl
      · exact absurd h h2
    simp only [h2', Bool.not_false, if_true]
    exact ⟨fun h => absurd ((isPow2_iff _).mpr (hunf h).2.1) h2, fun _ => ⟨_, rfl⟩⟩

theorem alignCheck_packed_none (ps : Nat) (rs : List (Placed Nat)) (s : Nat) :
    alignCheck ps true none rs s = .ok 1 := by
  simp [alignCheck]

theorem alignCheck_packed_some (ps a : Nat) (rs : List (Placed Nat)) (s : Nat) :
    alignCheck ps true (some a) rs s = .err "cannot specify both packed and align" := by
  simp [alignCheck]

theorem realisable_iff (ps : Nat) (t : TypeSpec) :
    Realisable ps t ↔ Pre ps t ∧ (if t.packed then t.align? = none else AlignOK ps t) := by
  unfold Realisable Pre AlignOK
  exact and_assoc.symm

/-- the verdict in the domain: the declared (or natural) size and the effective alignment when the
    description is realisable, an error otherwise -/
theorem verdict_spec (ps : Nat) (t : TypeSpec) (hps : ps = 4 ∨ ps = 8)
    (hal : ∀ f ∈ t.fields, PA f.align) (hsm : ps + wt t.fields + t.size?.getD 0 ≤ usizeMax) :
    (Realisable ps t →
      verdict ps t = .ok (totalSize ps t, if t.packed then 1 else effAlign ps t)) ∧
    (¬ Realisable ps t → ∃ m, verdict ps t = .err m) := by
  rw [realisable_iff]
  have hres := resolve_spec ps t hsm
  unfold verdict
  by_cases hpre : Pre ps t
  · rw [hres.1 hpre]
    simp only []
    cases hpk : t.packed with
    | true =>
      simp only [if_true]
      cases ha : t.align? with
      | none =>
        rw [alignCheck_packed_none]
        exact ⟨fun _ => rfl, fun h => absurd ⟨hpre, rfl⟩ h⟩
      | some a =>
        rw [alignCheck_packed_some]
        refine ⟨fun h => ?_, fun _ => ⟨_, rfl⟩⟩
        have := h.2
        cases this
    | false =>
      simp only [Bool.false_eq_true, if_false]
      have hac := alignCheck_unpacked ps t hps hal hsm hpre
      by_cases hok : AlignOK ps t
      · rw [hac.1 hok]
        exact ⟨fun _ => rfl, fun h => absurd ⟨hpre, hok⟩ h⟩
      · obtain ⟨m, hm⟩ := hac.2 hok
        rw [hm]
        exact ⟨fun h => absurd h.2 hok, fun _ => ⟨_, rfl⟩⟩
  · obtain ⟨m, hm⟩ := hres.2 hpre
    rw [hm]
    exact ⟨fun h => absurd h.1 hpre, fun _ => ⟨_, rfl⟩⟩

/-- `verdict_spec` with the size hypothesis in the form of `C03.bound … < 2 ^ 32` -/
theorem verdict_spec_of_small (ps : Nat) (t : TypeSpec) (hps : ps = 4 ∨ ps = 8)
    (hal : ∀ f ∈ t.fields, PA f.align)
    (hsm : ps + (t.fields.map fun f => f.addr.getD 0 + f.size).sum + t.size?.getD 0
      + t.align?.getD 0 < 2 ^ 32) :
    (Realisable ps t →
      verdict ps t = .ok (totalSize ps t, if t.packed then 1 else effAlign ps t)) ∧
    (¬ Realisable ps t → ∃ m, verdict ps t = .err m) :=
  verdict_spec ps t hps hal (by unfold wt usizeMax; omega)

/-! ## the executable oracle -/

theorem nonOverlapB_iff (e : Nat) (fs : List FieldSpec) : nonOverlapB e fs = true ↔ NonOverlap e fs := by
  induction fs generalizing e with
  | nil => simp [nonOverlapB, NonOverlap]
  | cons f fs ih =>
    simp only [nonOverlapB, NonOverlap, Bool.and_eq_true, ih]
    cases f.addr <;> simp

theorem fieldsDivisibleB_iff (e : Nat) (fs : List FieldSpec) :
    fieldsDivisibleB e fs = true ↔ FieldsDivisible e fs := by
  induction fs generalizing e with
  | nil => simp [fieldsDivisibleB, FieldsDivisible]
  | cons f fs ih =>
    simp only [fieldsDivisibleB, FieldsDivisible, Bool.and_eq_true, ih, Bool.or_eq_true, beq_iff_eq]

theorem realisableB_spec (ps : Nat) (t : TypeSpec) : realisableB ps t = true ↔ Realisable ps t := by
  unfold realisableB Realisable
  simp only [Bool.and_eq_true, nonOverlapB_iff, and_assoc]
  refine and_congr Iff.rfl (and_congr ?_ ?_)
  · cases t.size? <;> simp
  · cases t.packed
    · simp only [Bool.false_eq_true, if_false, Bool.and_eq_true, fieldsDivisibleB_iff, isPow2B,
        isPow2_iff, List.all_eq_true, decide_eq_true_eq, beq_iff_eq, IsPow2, and_assoc]
    · cases t.align? <;> simp

end PyxisVerif.Layout
