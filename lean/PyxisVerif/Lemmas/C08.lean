import PyxisVerif.Spec.C08
/-! helper lemmas for C08 -/
namespace PyxisVerif.C08
open Gen

theorem cast_ne_ok {α β} (r : Res α) (b : β) : (r.cast : Res β) ≠ .ok b := by
  cases r <;> simp [Res.cast]

/-! ## modelled rustc: `as` casts -/

theorem two_pow_eq (bits : Nat) (hb : 0 < bits) : (2 : Int) ^ bits = 2 * 2 ^ (bits - 1) := by
  obtain ⟨k, rfl⟩ : ∃ k, bits = k + 1 := ⟨bits - 1, by omega⟩
  rw [Int.pow_succ, Nat.add_sub_cancel, Int.mul_comm]

theorem cast_of_fits' (signed : Bool) (bits : Nat) (hb : 0 < bits) (v : Int) (h : Fits signed bits v) :
    cast signed bits v = v := by
  have hP := two_pow_eq bits hb
  have hH : (0 : Int) < 2 ^ (bits - 1) := Int.pow_pos (by decide)
  unfold Fits rustRange at h
  unfold cast
  generalize (2 : Int) ^ bits = P at *
  generalize (2 : Int) ^ (bits - 1) = H at *
  cases signed
  · simp only [Bool.false_eq_true, ↓reduceIte, Bool.false_and] at h ⊢
    exact Int.emod_eq_of_lt h.1 (by omega)
  · simp only [↓reduceIte, Bool.true_and, decide_eq_true_eq] at h ⊢
    by_cases hv : 0 ≤ v
    · have hm : v % P = v := Int.emod_eq_of_lt hv (by omega)
      rw [hm]
      split <;> omega
    · have hm : v % P = v + P := by
        rw [← Int.add_emod_right]
        exact Int.emod_eq_of_lt (by omega) (by omega)
      rw [hm]
      split <;> omega

/-! ## the base type -/

set_option linter.unusedSimpArgs false in
theorem intTypeRange_spec (ty : DTy) (range : Int × Int) (h : intTypeRange ty = some range) :
    ∃ name signed bits, ty = .raw [name] ∧ (name, signed, bits) ∈ intTypes ∧ 0 < bits ∧
      -(2 ^ (bits - 1)) ≤ range.1 ∧ range.2 < 2 ^ bits ∧
      (signed = true → range = rustRange true bits) := by
  unfold intTypeRange at h
  split at h
  · rename_i name
    simp only at h
    by_cases h0 : name = "u8"
    · rw [if_pos h0] at h
      simp only [Nat.reduceEqDiff, Bool.false_eq_true, ↓reduceIte, Option.some.injEq] at h
      subst h
      refine ⟨"u8", false, 8, by rw [h0], by simp [intTypes], by decide, ?_, ?_, ?_⟩ <;> simp [rustRange]
    rw [if_neg h0] at h
    by_cases h1 : name = "u16"
    · rw [if_pos h1] at h
      simp only [Nat.reduceEqDiff, Bool.false_eq_true, ↓reduceIte, Option.some.injEq] at h
      subst h
      refine ⟨"u16", false, 16, by rw [h1], by simp [intTypes], by decide, ?_, ?_, ?_⟩ <;> simp [rustRange]
    rw [if_neg h1] at h
    by_cases h2 : name = "u32"
    · rw [if_pos h2] at h
      simp only [Nat.reduceEqDiff, Bool.false_eq_true, ↓reduceIte, Option.some.injEq] at h
      subst h
      refine ⟨"u32", false, 32, by rw [h2], by simp [intTypes], by decide, ?_, ?_, ?_⟩ <;> simp [rustRange]
    rw [if_neg h2] at h
    by_cases h3 : name = "u64"
    · rw [if_pos h3] at h
      simp only [Nat.reduceEqDiff, Bool.false_eq_true, ↓reduceIte, Option.some.injEq] at h
      subst h
      refine ⟨"u64", false, 64, by rw [h3], by simp [intTypes], by decide, ?_, ?_, ?_⟩ <;> simp [rustRange]
    rw [if_neg h3] at h
    by_cases h4 : name = "u128"
    · rw [if_pos h4] at h
      simp only [Nat.reduceEqDiff, Bool.false_eq_true, ↓reduceIte, Option.some.injEq] at h
      subst h
      refine ⟨"u128", false, 128, by rw [h4], by simp [intTypes], by decide, ?_, ?_, ?_⟩ <;> simp [rustRange]
    rw [if_neg h4] at h
    by_cases h5 : name = "i8"
    · rw [if_pos h5] at h
      simp only [Nat.reduceEqDiff, Bool.false_eq_true, ↓reduceIte, Option.some.injEq] at h
      subst h
      refine ⟨"i8", true, 8, by rw [h5], by simp [intTypes], by decide, ?_, ?_, ?_⟩ <;> simp [rustRange]
    rw [if_neg h5] at h
    by_cases h6 : name = "i16"
    · rw [if_pos h6] at h
      simp only [Nat.reduceEqDiff, Bool.false_eq_true, ↓reduceIte, Option.some.injEq] at h
      subst h
      refine ⟨"i16", true, 16, by rw [h6], by simp [intTypes], by decide, ?_, ?_, ?_⟩ <;> simp [rustRange]
    rw [if_neg h6] at h
    by_cases h7 : name = "i32"
    · rw [if_pos h7] at h
      simp only [Nat.reduceEqDiff, Bool.false_eq_true, ↓reduceIte, Option.some.injEq] at h
      subst h
      refine ⟨"i32", true, 32, by rw [h7], by simp [intTypes], by decide, ?_, ?_, ?_⟩ <;> simp [rustRange]
    rw [if_neg h7] at h
    by_cases h8 : name = "i64"
    · rw [if_pos h8] at h
      simp only [Nat.reduceEqDiff, Bool.false_eq_true, ↓reduceIte, Option.some.injEq] at h
      subst h
      refine ⟨"i64", true, 64, by rw [h8], by simp [intTypes], by decide, ?_, ?_, ?_⟩ <;> simp [rustRange]
    rw [if_neg h8] at h
    by_cases h9 : name = "i128"
    · rw [if_pos h9] at h
      simp only [Nat.reduceEqDiff, Bool.false_eq_true, ↓reduceIte, Option.some.injEq] at h
      subst h
      refine ⟨"i128", true, 128, by rw [h9], by simp [intTypes], by decide, ?_, ?_, ?_⟩ <;> simp [rustRange]
    rw [if_neg h9] at h
    cases h
  · cases h

/-! ## the statement loop -/

/-- the inner `#[default]` loop of one statement -/
theorem defaultLoop (k : Nat) (attrs : List G.Attr) (di di' : Option Nat)
    (h : Res.foldlM (fun (di : Option Nat) (a : G.Attr) =>
        match a with
        | .ident "default" => if di.isSome then Res.err "enum has multiple default variants" else .ok (some k)
        | _ => .ok di) di attrs = .ok di') :
    if attrs.any (· == .ident "default") then di = none ∧ di' = some k else di' = di := by
  induction attrs generalizing di with
  | nil =>
    simp only [Res.foldlM, Res.ok.injEq] at h
    simp [h]
  | cons a as ih =>
    simp only [Res.foldlM] at h
    split at h
    · rename_i di1 h1
      have ih1 := ih di1 h
      split at h1
      · split at h1
        · cases h1
        · rename_i hn
          cases h1
          simp only [reduceCtorEq, false_and] at ih1
          split at ih1
          · exact ih1.elim
          · cases di with
            | none => simp [ih1]
            | some _ => simp at hn
      · rename_i hne
        cases h1
        have hf : (a == G.Attr.ident "default") = false := by
          simp only [beq_eq_false_iff_ne, ne_eq]
          exact fun he => hne he
        simp only [List.any_cons, hf, Bool.false_or]
        exact ih1
    all_goals cases h

theorem enumStmtStep_ok (range : Int × Int) (acc acc' : EnumAcc) (st : G.EnumStmt)
    (h : enumStmtStep range acc st = .ok acc') :
    ∃ value, (st.expr = some (.int value) ∨ (st.expr = none ∧ acc.last = some value)) ∧
      range.1 ≤ value ∧ value ≤ range.2 ∧
      acc'.fields = acc.fields ++ [(st.name, value)] ∧
      acc'.last = (if value + 1 > isizeMax then none else some (value + 1)) ∧
      (if hasMarker st then acc.defaultIdx = none ∧ acc'.defaultIdx = some acc.fields.length
       else acc'.defaultIdx = acc.defaultIdx) := by
  unfold enumStmtStep at h
  have tail : ∀ value, (if (decide (value < range.1) || decide (value > range.2)) = true then
        Res.err "value does not fit in the enum's base type"
      else if (acc.fields.any fun nv => nv.1 == st.name || nv.2 == value) = true then
        Res.err "case has the same name or value as an earlier case"
      else
        match Res.foldlM (fun (di : Option Nat) (a : G.Attr) =>
            match a with
            | .ident "default" =>
              if di.isSome then Res.err "enum has multiple default variants"
              else .ok (some ((acc.fields ++ [(st.name, value)]).length - 1))
            | _ => .ok di) acc.defaultIdx st.attrs with
        | .ok di =>
          .ok { fields := acc.fields ++ [(st.name, value)],
                last := if value + 1 > isizeMax then none else some (value + 1), defaultIdx := di }
        | e => e.cast) = Res.ok acc' →
      range.1 ≤ value ∧ value ≤ range.2 ∧
      acc'.fields = acc.fields ++ [(st.name, value)] ∧
      acc'.last = (if value + 1 > isizeMax then none else some (value + 1)) ∧
      (if hasMarker st then acc.defaultIdx = none ∧ acc'.defaultIdx = some acc.fields.length
       else acc'.defaultIdx = acc.defaultIdx) := by
    intro value h
    split at h
    · cases h
    · rename_i hr
      split at h
      · cases h
      · split at h
        · rename_i di hdi
          cases h
          have hd := defaultLoop _ _ _ _ hdi
          simp only [Bool.or_eq_true, decide_eq_true_eq, not_or, Int.not_lt] at hr
          refine ⟨hr.1, by omega, rfl, rfl, ?_⟩
          simpa [hasMarker] using hd
        · exact absurd h (cast_ne_ok _ _)
  cases he : st.expr with
  | none =>
    cases hl : acc.last with
    | none => simp only [he, hl] at h; cases h
    | some v =>
      simp only [he, hl] at h
      exact ⟨v, Or.inr ⟨rfl, rfl⟩, tail v h⟩
  | some e =>
    cases e with
    | int v =>
      simp only [he] at h
      exact ⟨v, Or.inl rfl, tail v h⟩
    | str _ => simp only [he] at h; cases h
    | ident _ => simp only [he] at h; cases h

/-- `markerIdxs` with an explicit first index -/
def markerFrom (n : Nat) (stmts : List G.EnumStmt) : List Nat :=
  ((stmts.zipIdx n).filter fun p => hasMarker p.1).map (·.2)

theorem markerIdxs_eq (stmts : List G.EnumStmt) : markerIdxs stmts = markerFrom 0 stmts := rfl

theorem markerFrom_cons (n : Nat) (st : G.EnumStmt) (rest : List G.EnumStmt) :
    markerFrom n (st :: rest) =
      if hasMarker st then n :: markerFrom (n + 1) rest else markerFrom (n + 1) rest := by
  simp only [markerFrom, List.zipIdx_cons, List.filter_cons]
  split <;> simp

theorem specValues_cons (nxt value : Int) (st : G.EnumStmt) (rest : List G.EnumStmt)
    (hv : st.expr = some (.int value) ∨ (st.expr = none ∧ value = nxt)) :
    specValues nxt (st :: rest) = (st.name, value) :: specValues (value + 1) rest := by
  rcases hv with hv | ⟨hv, rfl⟩ <;> simp [specValues, hv]

/-- the statement loop: fields, range and default index, against the declarative folds -/
theorem enumLoop (range : Int × Int) (stmts : List G.EnumStmt) (acc acc' : EnumAcc) (nxt : Int)
    (hl : ∀ v, acc.last = some v → v = nxt)
    (h : Res.foldlM (enumStmtStep range) acc stmts = .ok acc') :
    acc'.fields = acc.fields ++ specValues nxt stmts ∧
    ((∀ nv ∈ acc.fields, range.1 ≤ nv.2 ∧ nv.2 ≤ range.2) →
      ∀ nv ∈ acc'.fields, range.1 ≤ nv.2 ∧ nv.2 ≤ range.2) ∧
    acc'.defaultIdx.toList = acc.defaultIdx.toList ++ markerFrom acc.fields.length stmts := by
  induction stmts generalizing acc nxt with
  | nil =>
    simp only [Res.foldlM, Res.ok.injEq] at h
    subst h
    simp [specValues, markerFrom]
  | cons st rest ih =>
    simp only [Res.foldlM] at h
    split at h
    · rename_i acc1 h1
      obtain ⟨value, hv, hlo, hhi, hf, hlast, hdef⟩ := enumStmtStep_ok range acc acc1 st h1
      have hl1 : ∀ v, acc1.last = some v → v = value + 1 := by
        intro v hv1
        rw [hlast] at hv1
        split at hv1
        · cases hv1
        · exact (Option.some.inj hv1).symm
      obtain ⟨i1, i2, i3⟩ := ih acc1 (value + 1) hl1 h
      have hv' : st.expr = some (.int value) ∨ (st.expr = none ∧ value = nxt) := by
        rcases hv with hv | ⟨hv, hv2⟩
        · exact Or.inl hv
        · exact Or.inr ⟨hv, hl _ hv2⟩
      refine ⟨?_, ?_, ?_⟩
      · rw [i1, hf, specValues_cons nxt value st rest hv', List.append_assoc]
        rfl
      · intro hacc
        apply i2
        intro nv hnv
        rw [hf, List.mem_append] at hnv
        rcases hnv with hnv | hnv
        · exact hacc nv hnv
        · simp only [List.mem_singleton] at hnv
          subst hnv
          exact ⟨hlo, hhi⟩
      · rw [i3, hf, markerFrom_cons, List.length_append, List.length_singleton]
        split at hdef
        · rename_i hm
          rw [hdef.1, hdef.2, if_pos hm]
          rfl
        · rename_i hm
          rw [hdef, if_neg hm]
    all_goals cases h

/-! ## the attribute loop -/

theorem enumAttrStep_defaultable (st st' : EnumAttrs) (a : G.Attr) (h : enumAttrStep st a = .ok st') :
    st'.defaultable = (st.defaultable || (a == .ident "defaultable")) := by
  unfold enumAttrStep at h
  split at h
  · cases h; simp
  · cases h; simp
  · cases h; simp
  · rename_i v
    cases ht : tryUsize v with
    | none => simp only [ht] at h; cases h
    | some n => simp only [ht] at h; cases h; simp
  · rename_i h1 h2 h3 h4
    cases h
    have hf : (a == G.Attr.ident "defaultable") = false := by
      simp only [beq_eq_false_iff_ne, ne_eq]
      exact fun he => h3 he
    simp [hf]

theorem enumAttrLoop (attrs : List G.Attr) (st st' : EnumAttrs)
    (h : Res.foldlM enumAttrStep st attrs = .ok st') :
    st'.defaultable = (st.defaultable || isDefaultable attrs) := by
  induction attrs generalizing st with
  | nil =>
    simp only [Res.foldlM, Res.ok.injEq] at h
    subst h
    simp [isDefaultable]
  | cons a as ih =>
    simp only [Res.foldlM] at h
    split at h
    · rename_i st1 h1
      rw [ih st1 h, enumAttrStep_defaultable st st1 a h1]
      simp [isDefaultable, Bool.or_assoc]
    all_goals cases h

/-! ## `enum_definition::build` -/

theorem buildEnum_ok (s : State) (p : Path) (d : G.EnumDef) (r : Resolved) (h : buildEnum s p d = .ok r) :
    ∃ ty range acc ea doc,
      intTypeRange ty = some range ∧ DTy.size s.reg ty = .ok (some r.size) ∧
      DTy.align s.reg ty = some r.align ∧
      Res.foldlM (enumStmtStep range) {} d.stmts = .ok acc ∧
      Res.foldlM enumAttrStep {} d.attrs = .ok ea ∧
      (ea.defaultable && acc.defaultIdx.isNone) = false ∧
      (!ea.defaultable && acc.defaultIdx.isSome) = false ∧
      r.inner = .enum { ty, doc, fields := acc.fields, singleton := ea.singleton,
                        copyable := ea.copyable, cloneable := ea.cloneable,
                        defaultable := ea.defaultable, defaultIdx := acc.defaultIdx } := by
  unfold buildEnum at h
  split at h
  · cases h
  · split at h
    · rename_i ty hty
      split at h
      · cases h
      · rename_i size hsize
        split at h
        · cases h
        · rename_i range hrange
          split at h
          · cases h
          · split at h
            · rename_i acc hacc
              split at h
              · cases h
              · rename_i doc hdoc
                split at h
                · rename_i ea hea
                  split at h
                  · cases h
                  · rename_i hc1
                    split at h
                    · cases h
                    · rename_i hc2
                      split at h
                      · cases h
                      · rename_i al hal
                        cases h
                        exact ⟨ty, range, acc, ea, doc, hrange, hsize, hal, hacc, hea,
                          Bool.eq_false_iff.mpr hc1, Bool.eq_false_iff.mpr hc2, rfl⟩
                · exact absurd h (cast_ne_ok _ _)
            · exact absurd h (cast_ne_ok _ _)
      · exact absurd h (cast_ne_ok _ _)
    · exact absurd h (cast_ne_ok _ _)

/-! ## the properties -/

theorem empty_last (v : Int) (hv : ({} : EnumAcc).last = some v) : v = 0 := by
  cases hv; rfl

theorem values' (s : State) (p : Path) (d : G.EnumDef) (r : Resolved) (h : buildEnum s p d = .ok r) :
    ∃ ed, r.inner = .enum ed ∧ ed.fields = specValues 0 d.stmts := by
  obtain ⟨ty, range, acc, ea, doc, hrange, hsize, hal, hacc, hea, hc1, hc2, hr⟩ := buildEnum_ok s p d r h
  obtain ⟨i1, i2, i3⟩ := enumLoop range d.stmts {} acc 0 empty_last hacc
  exact ⟨_, hr, by simpa using i1⟩

theorem repr' (s : State) (p : Path) (d : G.EnumDef) (r : Resolved) (h : buildEnum s p d = .ok r) :
    ∃ ed name signed bits, r.inner = .enum ed ∧ ed.ty = .raw [name] ∧ (name, signed, bits) ∈ intTypes
      ∧ DTy.size s.reg ed.ty = .ok (some r.size) ∧ DTy.align s.reg ed.ty = some r.align := by
  obtain ⟨ty, range, acc, ea, doc, hrange, hsize, hal, hacc, hea, hc1, hc2, hr⟩ := buildEnum_ok s p d r h
  obtain ⟨name, signed, bits, hty, hmem, _⟩ := intTypeRange_spec ty range hrange
  exact ⟨_, name, signed, bits, hr, hty, hmem, hsize, hal⟩

theorem default_marker' (s : State) (p : Path) (d : G.EnumDef) (r : Resolved) (h : buildEnum s p d = .ok r) :
    ∃ ed, r.inner = .enum ed ∧ ed.defaultable = isDefaultable d.attrs ∧
      (match ed.defaultIdx with
       | some i => markerIdxs d.stmts = [i] ∧ ed.defaultable = true
       | none => markerIdxs d.stmts = [] ∧ ed.defaultable = false) := by
  obtain ⟨ty, range, acc, ea, doc, hrange, hsize, hal, hacc, hea, hc1, hc2, hr⟩ := buildEnum_ok s p d r h
  obtain ⟨i1, i2, i3⟩ := enumLoop range d.stmts {} acc 0 empty_last hacc
  have hd := enumAttrLoop d.attrs {} ea hea
  refine ⟨_, hr, by simpa using hd, ?_⟩
  rw [markerIdxs_eq]
  have i3 : acc.defaultIdx.toList = markerFrom 0 d.stmts := by simpa using i3
  show (match acc.defaultIdx with
       | some i => markerFrom 0 d.stmts = [i] ∧ ea.defaultable = true
       | none => markerFrom 0 d.stmts = [] ∧ ea.defaultable = false)
  cases hdi : acc.defaultIdx with
  | none =>
    rw [hdi] at i3 hc1
    exact ⟨i3.symm, by simpa using hc1⟩
  | some i =>
    rw [hdi] at i3 hc2
    exact ⟨i3.symm, by simpa using hc2⟩

theorem marker_consistent (s : State) (p : Path) (d : G.EnumDef) (r : Resolved) (hb : buildEnum s p d = .ok r)
    (h : (markerIdxs d.stmts).length ≥ 2 ∨ (isDefaultable d.attrs = true ∧ markerIdxs d.stmts = [])
       ∨ (isDefaultable d.attrs = false ∧ markerIdxs d.stmts ≠ [])) : False := by
  obtain ⟨ed, hr, hdef, hm⟩ := default_marker' s p d r hb
  cases hdi : ed.defaultIdx with
  | none =>
    rw [hdi] at hm
    obtain ⟨hm1, hm2⟩ := hm
    rw [hm1] at h
    rw [hdef] at hm2
    rcases h with h | h | h
    · simp at h
    · rw [hm2] at h; cases h.1
    · exact h.2 rfl
  | some i =>
    rw [hdi] at hm
    obtain ⟨hm1, hm2⟩ := hm
    rw [hm1] at h
    rw [hdef] at hm2
    rcases h with h | h | h
    · simp at h
    · cases h.2
    · rw [hm2] at h; cases h.1

theorem fit_facts (s : State) (p : Path) (d : G.EnumDef) (r : Resolved) (h : buildEnum s p d = .ok r) :
    ∃ ed name signed bits, r.inner = .enum ed ∧ ed.ty = .raw [name] ∧ (name, signed, bits) ∈ intTypes ∧
      0 < bits ∧
      ∀ nv ∈ ed.fields, -(2 ^ (bits - 1)) ≤ nv.2 ∧ nv.2 < 2 ^ bits ∧ (signed = true → Fits signed bits nv.2) := by
  obtain ⟨ty, range, acc, ea, doc, hrange, hsize, hal, hacc, hea, hc1, hc2, hr⟩ := buildEnum_ok s p d r h
  obtain ⟨i1, i2, i3⟩ := enumLoop range d.stmts {} acc 0 empty_last hacc
  obtain ⟨name, signed, bits, hty, hmem, hpos, hlo, hhi, hsg⟩ := intTypeRange_spec ty range hrange
  refine ⟨_, name, signed, bits, hr, hty, hmem, hpos, ?_⟩
  intro nv hnv
  obtain ⟨h1, h2⟩ := i2 (by intro nv hnv; cases hnv) nv hnv
  refine ⟨Int.le_trans hlo h1, Int.lt_of_le_of_lt h2 hhi, ?_⟩
  intro hs
  subst hs
  rw [hsg rfl] at h1 h2
  exact ⟨h1, h2⟩

theorem discriminant' (s : State) (p : Path) (d : G.EnumDef) (r : Resolved)
    (h : buildEnum s p d = .ok r) :
    ∃ ed name signed bits, r.inner = .enum ed ∧ ed.ty = .raw [name] ∧ (name, signed, bits) ∈ intTypes ∧
      ∀ nv ∈ ed.fields, (signed = true ∨ 0 ≤ nv.2) → cast signed bits nv.2 = nv.2 := by
  obtain ⟨ed, name, signed, bits, hr, hty, hmem, hpos, hall⟩ := fit_facts s p d r h
  refine ⟨ed, name, signed, bits, hr, hty, hmem, ?_⟩
  intro nv hnv hcase
  obtain ⟨h1, h2, h3⟩ := hall nv hnv
  apply cast_of_fits' signed bits hpos
  cases signed with
  | true => exact h3 rfl
  | false =>
    have h0 : 0 ≤ nv.2 := by
      rcases hcase with hc | hc
      · cases hc
      · exact hc
    unfold Fits rustRange
    simp only [Bool.false_eq_true, ↓reduceIte]
    generalize (2 : Int) ^ bits = P at *
    omega

theorem emitted' (path : Path) (size : Nat) (vis : Vis) (ed : EnumDefn) :
    ∃ docs derives tl, Emit.enumItems path size vis ed =
      Sexp.mk "enum" ([docs, derives, Sexp.mk "repr" [.str (Emit.tyStr ed.ty)], Emit.visS vis,
          .str (path.getLast?.getD "")] ++
        ed.fields.zipIdx.map fun ((n, v), idx) =>
          Sexp.mk "var" [.str n, Sexp.ofOpt .int (some v), Sexp.ofBool (ed.defaultIdx == some idx)]) :: tl := by
  unfold Emit.enumItems
  exact ⟨_, _, _, rfl⟩

theorem negative_in_unsigned' :
    intTypeRange (.raw ["u8"]) = some (-128, 255) ∧ cast false 8 (-2) = 254 ∧ ¬ Fits false 8 (-2) := by
  refine ⟨by decide, by decide, ?_⟩
  unfold Fits rustRange
  decide

end PyxisVerif.C08
