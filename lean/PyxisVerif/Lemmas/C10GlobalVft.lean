import PyxisVerif.Lemmas.C10Global
import PyxisVerif.Lemmas.C19FrameVft
/-!
# helper lemmas for the converse statements of C10 WITH vftable blocks (`Props/C10GlobalVft.lean`)

`Lemmas/C10Global.lean` (parts 5 and 7) proves "names defined ∧ acyclic ⇒ a build that gives up does so for an overflow"
and "accepted ⇒ names defined ∧ acyclic" for descriptions without `vftable` blocks: there every state the rounds reach
has the keys and the modules of the initial state (`Ext`), so the dependency relation read off the definitions
(`WaitsOn`) and the two dependency-graph causes (`Active … (.missing n)`, `Active … (.waitsFor q)`) of a later state
are those of the initial state.

With `vftable` blocks the key set grows (generated `<T>Vftable` items, registered resolved) and the modules change in
their definition paths.  Under `C09.NoGenRefs` every state the rounds reach REPRESENTS (`C09.Rep`, `Lemmas/MonoVft.lean`)
a registry of the abstract worklist over the initial state: it is `Mono.stateOf s0 R` plus generated items.  Then

* an unresolved entry of a later state is an unresolved entry of the initial state (generated items are resolved),
  with the same module scope (`rep_unres`, `rep_scopeOf`);
* the lookups made for the type expressions of an unresolved definition (`usedTys`) inspect no generated path
  (`usedTy_clean`, from `NoGenRefs.defs` / `NoGenRefs.scopes`), so they answer in the later state what they answer in the
  initial state (`rep_waitsOn`, `rep_active`): under `NoGenRefs` the relation `WaitsOn` / `AllDefined` is about user
  names only, exactly as the model treats them – in particular a type whose first `#[base]` field has no size yet
  defers BEFORE `vftable::build`, with its generated item not registered, and this changes nothing: the cause is the
  unresolved base, an old key;
* a successful attempt (with or without a `vftable` block) has resolved every field type with a known size, read in the
  registry BEFORE the registration of the generated item (`btV_ok_deps`: the pending fields do not embed a generated
  path by value).
-/
namespace PyxisVerif.C10
open C09 Work Layout Mono

/-! ## 1. every state the rounds reach represents a run of the abstract worklist -/

theorem runRound_rep {s0 : State} (cx : Ctx s0) (prio : List Path) {R : Reg Path Resolved} {s s1 : State}
    (hrun : Run (attempt s0) R0 R) (hrep : Rep s0 R s) (hn : (keys s.reg).Nodup)
    (hr : runRound s (s.reg.unresolved prio) = (s1, .ok ())) :
    ∃ R', Run (attempt s0) R0 R' ∧ Rep s0 R' s1 := by
  obtain ⟨R', h1, _, h4, _⟩ := runRound_simV cx (s.reg.unresolved prio)
    (fun k hk => ((hrep.mem_unresolved cx hn prio k).mp hk).1) R hrun s hrep
  rw [hr] at h4
  exact ⟨R', h1, h4 rfl⟩

theorem Rounds.rep {s0 : State} (cx : Ctx s0) {prio : List Path} {s s' : State} (h : Rounds prio s s')
    {R : Reg Path Resolved} (hrun : Run (attempt s0) R0 R) (hrep : Rep s0 R s) (hok : C12.StateOkB s) :
    ∃ R', Run (attempt s0) R0 R' ∧ Rep s0 R' s' := by
  induction h generalizing R with
  | refl s => exact ⟨R, hrun, hrep⟩
  | head s s1 s' hr _ ih =>
    obtain ⟨R', h1, h2⟩ := runRound_rep cx prio hrun hrep hok.ok.reg.keys hr
    have hok1 := (C12.runRound_shape (s.reg.unresolved prio) s hok).1
    rw [hr] at hok1
    exact ih h1 h2 hok1

/-! ## 2. the dependency relation of a later state is the one of the initial state -/

/-- an unresolved entry of a state that represents `R` is an unresolved entry of the initial state -/
theorem rep_unres {s0 : State} {R : Reg Path Resolved} {s : State} (hrep : Rep s0 R s) {q : Path} {j : ItemDef}
    (hj : s.reg.get q = some j) (hu : j.isResolved = false) : s0.reg.get q = some j := by
  rcases hrep.entries q with e | ⟨_, T, item, hg, hp, e⟩
  · rw [e, get_stateOf] at hj
    cases h0 : s0.reg.get q with
    | none => rw [h0] at hj; cases hj
    | some i0 =>
      rw [h0] at hj
      simp only [Option.map_some, Option.some.injEq] at hj
      cases hst : i0.state with
      | res r => rw [resItem_res R q i0 r hst] at hj; rw [hj]
      | unres d =>
        cases hR : R q with
        | none => rw [resItem_none R q i0 hR] at hj; rw [hj]
        | some v =>
          rw [resItem_some R q i0 d v hst hR] at hj
          subst hj
          simp [ItemDef.isResolved, ItemDef.resolved?] at hu
  · rw [e] at hj
    cases hj
    obtain ⟨res, hres⟩ := hg.resolved
    simp [ItemDef.isResolved, hres] at hu

theorem rep_scopeOf {s0 : State} {R : Reg Path Resolved} {s : State} (hrep : Rep s0 R s) (q : Path) :
    scopeOf s q = scopeOf s0 q := by
  unfold scopeOf
  cases hm : s0.moduleFor q with
  | none => rw [hrep.moduleFor_none q hm]
  | some m0 =>
    obtain ⟨dp, h⟩ := hrep.moduleFor q m0 hm
    rw [h]
    rfl

theorem rep_pend {s0 : State} {R : Reg Path Resolved} {s : State} (hrep : Rep s0 R s) {p : Path} {d : G.Item}
    {sc : List Path} (hp : Pend s p d sc) : Pend s0 p d sc := by
  obtain ⟨i, hg, hu, hsc⟩ := hp
  exact ⟨i, rep_unres hrep hg (by simp [ItemDef.isResolved, ItemDef.resolved?, hu]), hu,
    by rw [← rep_scopeOf hrep p]; exact hsc⟩

/-- the lookups made for the type expressions an unresolved definition waits for inspect no generated path -/
theorem usedTy_clean {s0 : State} (cx : Ctx s0) {p : Path} {d : G.Item} {sc : List Path} {t : G.Ty}
    (hp : Pend s0 p d sc) (ht : t ∈ usedTys d) : CleanTy (genPaths s0) sc t := by
  obtain ⟨i, hg, hu, hsc⟩ := hp
  unfold scopeOf at hsc
  cases hm : s0.moduleFor p with
  | none => rw [hm] at hsc; cases hsc
  | some m =>
    rw [hm] at hsc
    simp only [Option.map_some, Option.some.injEq] at hsc
    subst hsc
    cases hin : d.inner with
    | type td =>
      simp only [usedTys, hin, List.mem_filterMap] at ht
      obtain ⟨st, hst, hft⟩ := ht
      have := cx.stmts hg hu hin hm st hst
      unfold CleanStmt at this
      cases hf : st.field with
      | vftable fns => rw [hf] at hft; cases hft
      | field vis n ty =>
        rw [hf] at hft this
        simp only [Option.some.injEq] at hft
        subst hft
        exact this
    | enum ed =>
      simp only [usedTys, hin, List.mem_singleton] at ht
      subst ht
      exact cx.enumTy hg hu hin hm

theorem cleanName_of_tyName {Gs : List Path} {sc : List Path} (t : G.Ty) (n : String) (hn : tyName t = some n)
    (hc : CleanTy Gs sc t) : CleanName Gs sc n := by
  induction t with
  | cptr t ih => exact ih hn hc
  | mptr t ih => exact ih hn hc
  | arr t k ih => exact ih hn hc
  | ident s =>
    simp only [tyName, Option.some.injEq] at hn
    subst hn
    exact hc
  | unk k => cases hn

/-- a clean type expression resolves in a state that represents `R` as it does in the initial state -/
theorem rep_resolveTy {s0 : State} (cx : Ctx s0) {R : Reg Path Resolved} {s : State} (hrep : Rep s0 R s)
    {sc : List Path} {t : G.Ty} (hc : CleanTy (genPaths s0) sc t) : s.reg.resolveTy sc t = s0.reg.resolveTy sc t := by
  rw [resolveTy_out (hrep.agree cx) cx.u8 hc]
  exact resolveTy_congr s0.reg (stateOf s0 R).reg (C19.contains_stateOf s0 R) sc t

theorem rep_resolveString {s0 : State} (cx : Ctx s0) {R : Reg Path Resolved} {s : State} (hrep : Rep s0 R s)
    {sc : List Path} {n : String} (hc : CleanName (genPaths s0) sc n) :
    s.reg.resolveString sc n = s0.reg.resolveString sc n := by
  rw [resolveString_out (hrep.agree cx) hc]
  exact resolveString_congr s0.reg (stateOf s0 R).reg sc n (fun q _ => C19.contains_stateOf s0 R q)
    (fun q _ => C19.contains_stateOf s0 R q)

/-- the dependency relation of a later state is the one of the initial state -/
theorem rep_waitsOn {s0 : State} (cx : Ctx s0) {R : Reg Path Resolved} {s : State} (hrep : Rep s0 R s) {p : Path}
    {c : Cause} (hw : WaitsOn s p c) : WaitsOn s0 p c := by
  cases hw with
  | missing d sc ty n hp ht hn => exact .missing d sc ty n (rep_pend hrep hp) ht hn
  | waitsFor d sc ty dt q hp ht hr hq =>
    have hp0 := rep_pend hrep hp
    exact .waitsFor d sc ty dt q hp0 ht (by rw [← rep_resolveTy cx hrep (usedTy_clean cx hp0 ht)]; exact hr) hq
  | overflow d sc hp => exact .overflow d sc (rep_pend hrep hp)

/-- an undefined name / an unresolved dependency of a later state is one of the initial state -/
theorem rep_active {s0 : State} (cx : Ctx s0) {R : Reg Path Resolved} {s : State} (hrep : Rep s0 R s) {p : Path}
    {c : Cause} (hw : WaitsOn s p c) (hc : c ≠ .overflow) (ha : Active s p c) : Active s0 p c := by
  cases hw with
  | missing d sc ty n hp ht hn =>
    have hp0 := rep_pend hrep hp
    obtain ⟨sc', hsc', hnone⟩ := ha
    have e : sc' = sc := by
      obtain ⟨_, _, _, hsc⟩ := hp
      rw [hsc] at hsc'
      cases hsc'
      rfl
    subst e
    refine ⟨sc', by rw [← rep_scopeOf hrep p]; exact hsc', ?_⟩
    rw [← rep_resolveString cx hrep (cleanName_of_tyName ty n hn (usedTy_clean cx hp0 ht))]
    exact hnone
  | waitsFor d sc ty dt q hp ht hr hq =>
    obtain ⟨j, hj, hu⟩ := ha
    exact ⟨j, rep_unres hrep hj hu, hu⟩
  | overflow d sc hp => exact absurd rfl hc

/-- **names defined and by-value embedding acyclic ⇒ a build that gives up does so for a size beyond `usize::MAX`**
    (with `vftable` blocks, nothing mentioning a generated name) -/
theorem acyclic_defined_stuck_overflowV (s : State) (prio : List Path) (hs : C12.StateOkB s)
    (hp : PredefResolved s) (hg : C09.NoGenRefs s)
    (hdef : ∀ p n, WaitsOn s p (.missing n) → ¬ Active s p (.missing n))
    (rank : Path → Nat)
    (hacyc : ∀ p q, WaitsOn s p (.waitsFor q) → Active s p (.waitsFor q) → rank q < rank p)
    (l : List Path) (h : s.build prio = .nonterm l) :
    ∃ s', Rounds prio s s' ∧ StuckAt prio s' l ∧ ∃ p ∈ l, Overflow s' p := by
  have cx : Ctx s := ⟨hs, hg⟩
  obtain ⟨s', hr, hst, hcause⟩ := stuck_has_cause_lem s prio hs hp l h
  obtain ⟨R, _, hrep⟩ := hr.rep cx Run.start (Rep.init cx) hs
  refine ⟨s', hr, hst, ?_⟩
  obtain ⟨p, hpl, hmin⟩ := exists_min_rank rank l hst.ne
  obtain ⟨c, hw, ha, hin⟩ := hcause p hpl
  cases c with
  | missing n => exact absurd (rep_active cx hrep hw (by simp) ha) (hdef p n (rep_waitsOn cx hrep hw))
  | waitsFor q =>
    have := hacyc p q (rep_waitsOn cx hrep hw) (rep_active cx hrep hw (by simp) ha)
    have := hmin q hin
    omega
  | overflow => exact ⟨p, hpl, ha⟩

/-! ## 3. an accepted description has all names defined and no by-value cycle -/

theorem resolve_ok_knownV {β} (vptr : Option (PField β)) (fields : List (PField β)) (target : Option Nat)
    (x : List (Placed β) × Nat) (h : Layout.resolve vptr fields target = .ok x) : ∀ f ∈ fields, Known f := by
  unfold Layout.resolve at h
  split at h
  · next st0 _ =>
    split at h
    · next st1 hp => exact place_ok_known fields _ st1 hp
    · cases h
    · cases h
    · cases h
  · cases h
  · cases h
  · cases h

/-- **a type that resolves (with or without a vftable block) has every field type resolved with a known size**, read in
    the registry the attempt started from -/
theorem btV_ok_deps {Gs : List Path} (hu8 : ["u8"] ∉ Gs) (reg : Registry) (m : Mod) (path : Path) (vis : Vis)
    (td : G.TypeDef) (r : Resolved) (hcl : ∀ st ∈ td.stmts, CleanStmt Gs m.scope st)
    (hgen : ∀ sa, foldStmts reg m.scope td = .ok sa → ∀ item, genItem reg path vis sa.vfns = some item → item.path ∈ Gs)
    (h : btV reg (some m) path vis td = .ok r) :
    ∀ st ∈ td.stmts, ∀ v n t, st.field = .field v n t →
      ∃ dt k, reg.resolveTy m.scope t = .ok dt ∧ dt.size reg = .ok (some k) := by
  obtain ⟨doc, ta, sa, regions, vft, size, placed, hsa, hrr, _⟩ := C19.btV_inv h
  have hcov := stmts_fold_covers reg m.scope td.stmts sa hsa
  have hcl' : ∀ ist ∈ (td.stmts.zipIdx.map fun p => (p.2, p.1)), CleanStmt Gs m.scope ist.2 :=
    fun ist hist => hcl _ (mem_stmts_of_swapped td.stmts ist hist)
  have hpo : PendOut Gs sa := stmts_fold_pendOut hu8 reg _ hcl' sa hsa
  obtain ⟨vregion, _, hres, _⟩ := rrV_inv hrr
  -- the two registries agree outside `Gs`
  have hag : AgreeOut Gs reg (regAfter reg path vis sa.vfns) := by
    unfold regAfter
    cases hgi : genItem reg path vis sa.vfns with
    | none => exact AgreeOut.refl Gs reg
    | some item => exact (AgreeOut.refl Gs reg).add_right item (hgen sa hsa item hgi)
  have hknown : ∀ f ∈ sa.pending, ∃ k, f.2.ty.size reg = .ok (some k) := by
    intro f hf
    obtain ⟨k, hk⟩ := resolve_ok_knownV _ _ _ _ hres (toPField (regAfter reg path vis sa.vfns) f.1 f.2)
      (List.mem_map.mpr ⟨f, hf, rfl⟩)
    refine ⟨k, ?_⟩
    rw [← (C19.rsize_agree hag.ps (hag.agreeR (hpo f hf))).1]
    exact hk
  intro st hst v n t hft
  obtain ⟨dt, hdt, f, hf, hty⟩ := hcov st hst v n t hft
  obtain ⟨k, hk⟩ := hknown f hf
  rw [hty] at hk
  exact ⟨dt, k, hdt, hk⟩

/-- **what a successful attempt tells about the initial state** (with `vftable` blocks, nothing mentioning a generated
    name): every name the definition of `k` uses resolves, and every item it embeds by value that was unresolved
    initially has been resolved by the run before `k` -/
theorem attempt_done_depsV {s : State} (cx : Ctx s) (R : Work.Reg Path Resolved) (k : Path) (v : Resolved)
    (h : Mono.attempt s R k = .done v) :
    (∀ n, WaitsOn s k (.missing n) → ¬ Active s k (.missing n)) ∧
    (∀ q, WaitsOn s k (.waitsFor q) → Active s k (.waitsFor q) → (R q).isSome = true) := by
  obtain ⟨i, d, hg, hpre, hst⟩ := attempt_pending s R k (by rw [h]; intro e; cases e)
  unfold Mono.attempt at h
  simp only [hg, hpre, hst, Bool.false_eq_true, if_false] at h
  -- the state the attempt ran in has the keys and modules of `s`
  have hkeys : ∀ q, (Mono.stateOf s R).reg.contains q = s.reg.contains q := C19.contains_stateOf s R
  have hresolved : ∀ q j, s.reg.get q = some j → j.isResolved = false →
      (∃ j', (Mono.stateOf s R).reg.get q = some j' ∧ j'.isResolved = true) → (R q).isSome = true := by
    intro q j hj hjr ⟨j', hj', hjr'⟩
    rw [Mono.get_stateOf, hj] at hj'
    simp only [Option.map_some, Option.some.injEq] at hj'
    subst hj'
    cases hR : R q with
    | some r => rfl
    | none => rw [Mono.resItem_none R q j hR, hjr] at hjr'; cases hjr'
  obtain ⟨m, hm⟩ := cx.ok.ok.parents k i hg (by simp [hpre])
  -- what the build function established for every used type
  have hall : ∀ t ∈ usedTys d, ∃ dt n,
      (Mono.stateOf s R).reg.resolveTy m.scope t = .ok dt ∧ dt.size (Mono.stateOf s R).reg = .ok (some n) := by
    cases hin : d.inner with
    | type td =>
      simp only [hin] at h
      rw [buildType_canon cx R hg hst hin] at h
      have hb := C19.toOut_done h
      rw [hm] at hb
      have hgen : ∀ sa, foldStmts (stateOf s R).reg m.scope td = .ok sa →
          ∀ item, genItem (stateOf s R).reg k d.vis sa.vfns = some item → item.path ∈ genPaths s := by
        intro sa hsa item hitem
        have e1 : genOf (stateOf s R).reg (some m) k d.vis td = some item := by
          simp only [genOf, vfnsOf, hsa]; exact hitem
        rw [genOf_keys s.reg (stateOf s R).reg hkeys rfl] at e1
        exact genOf_mem cx.ok.ok.u8c hg hst hin e1
      have hdeps := btV_ok_deps cx.u8 (stateOf s R).reg m k d.vis td v (cx.stmts hg hst hin hm) hgen hb
      intro t ht
      simp only [usedTys, hin, List.mem_filterMap] at ht
      obtain ⟨st, hstm, hft⟩ := ht
      cases hf : st.field with
      | vftable fns => rw [hf] at hft; cases hft
      | field vis n ty =>
        rw [hf] at hft
        simp only [Option.some.injEq] at hft
        subst hft
        exact hdeps st hstm vis n ty hf
    | enum ed =>
      simp only [hin] at h
      obtain ⟨m', dt, n, hm', hdt, hsz⟩ := buildEnum_ok_deps _ k ed v (C19.toOut_done h)
      have e : m' = m := by
        have : (Mono.stateOf s R).moduleFor k = s.moduleFor k := Mono.moduleFor_congr s _ rfl k
        rw [this, hm] at hm'
        cases hm'
        rfl
      subst e
      intro t ht
      simp only [usedTys, hin, List.mem_singleton] at ht
      subst ht
      exact ⟨dt, n, hdt, hsz⟩
  have hpend : ∀ d' sc', Pend s k d' sc' → d' = d ∧ sc' = m.scope := by
    intro d' sc' ⟨i', hg', hu', hsc'⟩
    rw [hg] at hg'; cases hg'
    rw [hst] at hu'; cases hu'
    simp only [scopeOf, hm, Option.map_some, Option.some.injEq] at hsc'
    exact ⟨rfl, hsc'.symm⟩
  constructor
  · intro n hw ⟨sc, hsc, hnone⟩
    cases hw with
    | missing d' sc' t _ hp ht hn =>
      obtain ⟨rfl, rfl⟩ := hpend d' sc' hp
      simp only [scopeOf, hm, Option.map_some, Option.some.injEq] at hsc
      subst hsc
      obtain ⟨dt, _, hdt, _⟩ := hall t ht
      rw [resolveTy_congr s.reg _ hkeys] at hdt
      have := resolveTy_ok_name s.reg m.scope t dt n hdt hn
      rw [hnone] at this
      cases this
  · intro q hw ⟨j, hj, hjr⟩
    cases hw with
    | waitsFor d' sc' t dt' _ hp ht hr hq =>
      obtain ⟨rfl, rfl⟩ := hpend d' sc' hp
      obtain ⟨dt, n, hdt, hsz⟩ := hall t ht
      rw [resolveTy_congr s.reg _ hkeys, hr] at hdt
      cases hdt
      exact hresolved q j hj hjr (known_size_resolved _ dt' n hsz q hq)

theorem run_rankedV {s : State} (cx : Ctx s)
    {R : Work.Reg Path Resolved} (r : Work.Run (Mono.attempt s) Mono.R0 R) : ∃ rank N, Ranked s R rank N := by
  induction r with
  | start => exact ⟨fun _ => 0, 0, fun k v h => by simp [Mono.R0] at h⟩
  | step R k v _ hk ha ih =>
    obtain ⟨rank, N, hR⟩ := ih
    obtain ⟨d1, d2⟩ := attempt_done_depsV cx R k v ha
    refine ⟨fun x => if x = k then N else rank x, N + 1, ?_⟩
    intro k' v' hk'
    have hsome_ne : ∀ q, (R q).isSome = true → q ≠ k := by
      intro q hq e; rw [e, hk] at hq; cases hq
    have hupd : ∀ q, (R q).isSome = true → (Work.upd R k v q).isSome = true := by
      intro q hq; simp only [Work.upd, if_neg (hsome_ne q hq)]; exact hq
    by_cases e : k' = k
    · subst e
      refine ⟨by simp, d1, ?_⟩
      intro q hw hact
      have hq := d2 q hw hact
      refine ⟨hupd q hq, ?_⟩
      simp only [if_neg (hsome_ne q hq), if_true]
      obtain ⟨vq, hvq⟩ := Option.isSome_iff_exists.mp hq
      exact (hR q vq hvq).1
    · have hk'' : R k' = some v' := by simpa [Work.upd, e] using hk'
      obtain ⟨h1, h2, h3⟩ := hR k' v' hk''
      refine ⟨by simp only [if_neg e]; omega, h2, ?_⟩
      intro q hw hact
      obtain ⟨hq, hlt⟩ := h3 q hw hact
      refine ⟨hupd q hq, ?_⟩
      simp only [if_neg (hsome_ne q hq), if_neg e]
      exact hlt

/-- **accepted ⇒ every used name is defined and by-value embedding among the unresolved items is acyclic** (with
    `vftable` blocks, nothing mentioning a generated name): the order of resolution is a rank -/
theorem accepted_defined_acyclic_lemV (s : State) (prio : List Path) (hs : C12.StateOkB s) (hp : PredefResolved s)
    (hg : C09.NoGenRefs s) (fuel : Nat) (s' : State) (h : resolveLoop prio fuel s = .ok s') :
    (∀ p n, WaitsOn s p (.missing n) → ¬ Active s p (.missing n)) ∧
    ∃ rank : Path → Nat, ∀ p q, WaitsOn s p (.waitsFor q) → Active s p (.waitsFor q) → rank q < rank p := by
  have cx : Ctx s := ⟨hs, hg⟩
  have hsim := resolveLoop_simV cx prio fuel Mono.R0 Work.Run.start s (Rep.init cx) hs.ok.reg.keys
  rw [h] at hsim
  obtain ⟨R', hrun, _, _, htotal⟩ := hsim
  obtain ⟨rank, N, hR⟩ := run_rankedV cx hrun
  -- every item that waits on something was resolved by the run
  have hres : ∀ p c, WaitsOn s p c → ∃ v, R' p = some v := by
    intro p c hw
    obtain ⟨d, sc, i, hg, hu, _⟩ := hw.pend
    have hpre : i.isPredefined = false := by
      cases hpi : i.isPredefined with
      | false => rfl
      | true =>
        have := hp p i hg hpi
        simp [ItemDef.isResolved, ItemDef.resolved?, hu] at this
    exact Option.isSome_iff_exists.mp (htotal p ⟨i, d, hg, hpre, hu⟩)
  refine ⟨?_, rank, ?_⟩
  · intro p n hw
    obtain ⟨v, hv⟩ := hres p _ hw
    exact (hR p v hv).2.1 n hw
  · intro p q hw ha
    obtain ⟨v, hv⟩ := hres p _ hw
    exact ((hR p v hv).2.2 q hw ha).2

end PyxisVerif.C10
