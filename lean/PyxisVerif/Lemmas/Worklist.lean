/-!
# Abstract resolution worklist: any two schedules agree when `attempt` is monotone

The development every schedule-independence statement (C09, C10, C19) instantiates.  Keys are
item paths, values resolved items; a registry is a partial map; `attempt R k` answers `done v`,
`fail` or `defer` from what is resolved so far.  `Run` is the set of registries reachable by
*some* schedule.
-/
namespace PyxisVerif.Work
variable {K V : Type} [DecidableEq K]

inductive Out (V : Type) | defer | done (v : V) | fail

abbrev Reg (K V : Type) := K → Option V

def Reg.le (R R' : Reg K V) : Prop := ∀ k v, R k = some v → R' k = some v

def Compat (R1 R2 : Reg K V) : Prop := ∀ k v1 v2, R1 k = some v1 → R2 k = some v2 → v1 = v2

def upd (R : Reg K V) (k : K) (v : V) : Reg K V := fun k' => if k' = k then some v else R k'

def union (R1 R2 : Reg K V) : Reg K V := fun k => match R1 k with | some v => some v | none => R2 k

/-- once an attempt answers `done v` or `fail`, it gives the same answer on every extension -/
structure Mono (attempt : Reg K V → K → Out V) : Prop where
  done : ∀ R R' k v, Reg.le R R' → attempt R k = .done v → attempt R' k = .done v
  fail : ∀ R R' k, Reg.le R R' → attempt R k = .fail → attempt R' k = .fail

/-- the registries reachable by *some* schedule: each step resolves one unresolved key whose
    attempt answers `done` (deferred attempts and re-orderings do not change the registry) -/
inductive Run (attempt : Reg K V → K → Out V) (R0 : Reg K V) : Reg K V → Prop
  | start : Run attempt R0 R0
  | step (R : Reg K V) (k : K) (v : V) :
      Run attempt R0 R → R k = none → attempt R k = .done v → Run attempt R0 (upd R k v)

omit [DecidableEq K] in
theorem le_union_left (R1 R2 : Reg K V) : Reg.le R1 (union R1 R2) := by
  intro k v h; simp [union, h]

omit [DecidableEq K] in
theorem le_union_right (R1 R2 : Reg K V) (c : Compat R1 R2) : Reg.le R2 (union R1 R2) := by
  intro k v h
  unfold union
  cases h1 : R1 k with
  | none => simpa using h
  | some v1 => simp [c k v1 v h1 h]

theorem le_upd (R : Reg K V) (k : K) (v : V) (h : R k = none) : Reg.le R (upd R k v) := by
  intro k' v' h'
  unfold upd
  by_cases e : k' = k
  · subst e; rw [h] at h'; cases h'
  · simp [e, h']

variable {attempt : Reg K V → K → Out V} {R0 : Reg K V}

theorem Run.base_le {R : Reg K V} (r : Run attempt R0 R) : Reg.le R0 R := by
  induction r with
  | start => intro _ _ h; exact h
  | step R k v _ hk _ ih => intro k' v' h'; exact le_upd R k v hk k' v' (ih k' v' h')

/-- any two runs, under any two schedules, never disagree on a value -/
theorem Run.compat (hm : Mono attempt) {R1 R2 : Reg K V}
    (r1 : Run attempt R0 R1) (r2 : Run attempt R0 R2) : Compat R1 R2 := by
  induction r1 generalizing R2 with
  | start =>
    intro k v1 v2 h1 h2
    have := r2.base_le k v1 h1
    rw [this] at h2; cases h2; rfl
  | step R k v rR hk ha ih =>
    intro k' v1 v2 h1 h2
    by_cases e : k' = k
    · subst e
      have hv : v1 = v := by simp [upd] at h1; exact h1.symm
      subst hv
      clear h1
      induction r2 with
      | start =>
        have := rR.base_le k' v2 h2
        rw [hk] at this; cases this
      | step R' k'' v'' rR' hk'' ha'' ih2 =>
        by_cases e2 : k' = k''
        · subst e2
          have hv2 : v2 = v'' := by simp [upd] at h2; exact h2.symm
          subst hv2
          have c : Compat R R' := ih rR'
          have e1 := hm.done R (union R R') k' v1 (le_union_left R R') ha
          have e2 := hm.done R' (union R R') k' v2 (le_union_right R R' c) ha''
          rw [e1] at e2; cases e2; rfl
        · have : R' k' = some v2 := by simpa [upd, e2] using h2
          exact ih2 this
    · have : R k' = some v1 := by simpa [upd, e] using h1
      exact ih r2 k' v1 v2 this h2

/-- successful builds are unique: two runs that both resolve every key of `ks` agree on `ks` -/
theorem Run.total_unique (hm : Mono attempt) {R1 R2 : Reg K V}
    (r1 : Run attempt R0 R1) (r2 : Run attempt R0 R2) (ks : List K)
    (t1 : ∀ k ∈ ks, (R1 k).isSome) (t2 : ∀ k ∈ ks, (R2 k).isSome) :
    ∀ k ∈ ks, R1 k = R2 k := by
  intro k hk
  have h1 := t1 k hk; have h2 := t2 k hk
  cases e1 : R1 k with
  | none => simp [e1] at h1
  | some v1 =>
    cases e2 : R2 k with
    | none => simp [e2] at h2
    | some v2 => rw [Run.compat hm r1 r2 k v1 v2 e1 e2]

/-- a hard error is final: if some run sees `fail` for `k`, no run of any schedule resolves `k` -/
theorem Run.fail_stable (hm : Mono attempt) {R1 R2 : Reg K V} {k : K}
    (r1 : Run attempt R0 R1) (hk : R1 k = none) (hf : attempt R1 k = .fail)
    (r2 : Run attempt R0 R2) : R2 k = none := by
  induction r2 with
  | start =>
    cases e : R0 k with
    | none => rfl
    | some v => have := r1.base_le k v e; rw [hk] at this; cases this
  | step R' k' v' rR' hk' ha' ih =>
    by_cases e : k = k'
    · subst e
      have c : Compat R1 R' := Run.compat hm r1 rR'
      have e1 := hm.fail R1 (union R1 R') k (le_union_left R1 R') hf
      have e2 := hm.done R' (union R1 R') k v' (le_union_right R1 R' c) ha'
      rw [e1] at e2; cases e2
    · simpa [upd, e] using ih

/-- a stuck registry (every unresolved key defers) contains every fact any schedule can derive,
    so the set of unresolved types named in the error is the same for all schedules -/
theorem Run.stuck_is_top (hm : Mono attempt) {R R2 : Reg K V}
    (r : Run attempt R0 R) (stuck : ∀ k, R k = none → attempt R k = .defer)
    (r2 : Run attempt R0 R2) : Reg.le R2 R := by
  induction r2 with
  | start => exact r.base_le
  | step R' k' v' rR' hk' ha' ih =>
    intro k v h
    by_cases e : k = k'
    · subst e
      have hv : v = v' := by simp [upd] at h; exact h.symm
      subst hv
      have a : attempt R k = .done v := hm.done R' R k v ih ha'
      cases hR : R k with
      | none => rw [stuck k hR] at a; cases a
      | some w =>
        have c := Run.compat hm r (Run.step R' k v rR' hk' ha') k w v hR (by simp [upd])
        rw [c]
    · have : R' k = some v := by simpa [upd, e] using h
      exact ih k v this

end PyxisVerif.Work
