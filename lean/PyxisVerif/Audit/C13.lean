import PyxisVerif.Props.C13
import PyxisVerif.Props.CaseLift2
#print axioms PyxisVerif.C13.field_names_distinct
#print axioms PyxisVerif.C13.vfuncs_have_receiver
#print axioms PyxisVerif.C13.base_fields_named
#print axioms PyxisVerif.C13.enum_cases_distinct
#print axioms PyxisVerif.C13.align_is_pow2
#print axioms PyxisVerif.C13.copy_implies_clone
#print axioms PyxisVerif.C13.defaultable_fields
#print axioms PyxisVerif.C13.printed_paths_exist
#print axioms PyxisVerif.C13.case_field_names_distinct
#print axioms PyxisVerif.C13.case_base_fields_named
#print axioms PyxisVerif.C13.case_enum_cases_distinct
#print axioms PyxisVerif.C13.case_align_is_pow2
#print axioms PyxisVerif.C13.case_align_is_pow2_block
#print axioms PyxisVerif.C13.case_copy_implies_clone
#print axioms PyxisVerif.C13.case_enum_copy_implies_clone
#print axioms PyxisVerif.C13.case_defaultable_fields
#print axioms PyxisVerif.C13.case_vfuncs_have_receiver
