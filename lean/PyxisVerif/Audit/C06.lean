import PyxisVerif.Props.C06
import PyxisVerif.Props.CaseLift
#print axioms PyxisVerif.C06.accept_implies_prefix
#print axioms PyxisVerif.C06.mutation_rejected
#print axioms PyxisVerif.C06.own_pointer
#print axioms PyxisVerif.C06.inherited
#print axioms PyxisVerif.C06.pointer_first
#print axioms PyxisVerif.C06.accessor_shape
#print axioms PyxisVerif.C06.case_own_pointer
#print axioms PyxisVerif.C06.case_pointer_first
#print axioms PyxisVerif.C06.case_inherited
#print axioms PyxisVerif.C06.case_accept_implies_prefix
