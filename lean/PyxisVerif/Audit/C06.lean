import PyxisVerif.Props.C06
#print axioms PyxisVerif.C06.accept_implies_prefix
#print axioms PyxisVerif.C06.mutation_rejected
#print axioms PyxisVerif.C06.own_pointer
#print axioms PyxisVerif.C06.inherited
#print axioms PyxisVerif.C06.pointer_first
#print axioms PyxisVerif.C06.accessor_shape
