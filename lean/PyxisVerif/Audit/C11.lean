import PyxisVerif.Props.C11
import PyxisVerif.Props.CaseLift2
#print axioms PyxisVerif.C11.resolve_spec_partial
#print axioms PyxisVerif.C11.own_path_is_type_refuted
#print axioms PyxisVerif.C11.lookup_sites
#print axioms PyxisVerif.C11.scope_is_own_then_uses
#print axioms PyxisVerif.C11.emitted_reference
#print axioms PyxisVerif.C11.layout_uses_binding
#print axioms PyxisVerif.C11.binding_exists
#print axioms PyxisVerif.C11.case_lookup_sites_fields
#print axioms PyxisVerif.C11.case_lookup_sites_functions
#print axioms PyxisVerif.C11.case_lookup_sites_enum
#print axioms PyxisVerif.C11.case_lookup_sites_xvals
#print axioms PyxisVerif.C11.case_layout_uses_binding
