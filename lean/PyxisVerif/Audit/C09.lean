import PyxisVerif.Props.C09
#print axioms PyxisVerif.C09.schedule_independent_partial
#print axioms PyxisVerif.C09.error_is_schedule_independent
#print axioms PyxisVerif.C09.stuck_set_is_schedule_independent
#print axioms PyxisVerif.C09.size_mono
#print axioms PyxisVerif.C09.align_mono
#print axioms PyxisVerif.C09.lookup_ignores_resolution
#print axioms PyxisVerif.C09.pfield_mono
#print axioms PyxisVerif.C09.pointer_size_immediate
#print axioms PyxisVerif.C09.worklist_order_independent
#print axioms PyxisVerif.C09.files_order_independent
#print axioms PyxisVerif.C09.setState_extends
#print axioms PyxisVerif.C09.build_schedule_independent_novft
#print axioms PyxisVerif.Mono.attempt_mono
#print axioms PyxisVerif.Mono.loops_agree
