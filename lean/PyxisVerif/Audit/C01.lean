import PyxisVerif.Props.C01
import PyxisVerif.Props.CaseLift
#print axioms PyxisVerif.C01.placed_at_spec
#print axioms PyxisVerif.C01.rustc_offsets
#print axioms PyxisVerif.C01.emitted_fields
#print axioms PyxisVerif.C01.buildType_layout
#print axioms PyxisVerif.C01.nameRegions_types
#print axioms PyxisVerif.C01.field_offsets_exact
#print axioms PyxisVerif.C01.case_field_offsets_exact
