import PyxisVerif.Props.C12
#print axioms PyxisVerif.C12.new_ok
#print axioms PyxisVerif.C12.addModule_ok
#print axioms PyxisVerif.C12.addModule_no_panic
#print axioms PyxisVerif.C12.attempt_ok
#print axioms PyxisVerif.C12.attempt_no_panic
#print axioms PyxisVerif.C12.build_total
#print axioms PyxisVerif.C12.run_total
#print axioms PyxisVerif.C12.alloc_only_for_huge_tables
