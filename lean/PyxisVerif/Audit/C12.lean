import PyxisVerif.Props.C12
#print axioms PyxisVerif.C12.new_ok
#print axioms PyxisVerif.C12.new_ok_bounded
#print axioms PyxisVerif.C12.addModule_ok_refuted
#print axioms PyxisVerif.C12.addModule_ok_partial
#print axioms PyxisVerif.C12.addModule_ok_partial_bounded
#print axioms PyxisVerif.C12.addModule_no_panic
#print axioms PyxisVerif.C12.attempt_ok_refuted
#print axioms PyxisVerif.C12.attempt_ok_partial
#print axioms PyxisVerif.C12.attempt_no_panic
#print axioms PyxisVerif.C12.build_total_refuted
#print axioms PyxisVerif.C12.build_total_partial
#print axioms PyxisVerif.C12.run_total_refuted
#print axioms PyxisVerif.C12.run_total_partial
#print axioms PyxisVerif.C12.alloc_only_for_huge_tables
#print axioms PyxisVerif.C12.parsed_module_bounded
#print axioms PyxisVerif.C12.text_build_total
