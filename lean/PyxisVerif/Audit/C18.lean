import PyxisVerif.Props.C18
#print axioms PyxisVerif.C18.parse_print_tokens_any
#print axioms PyxisVerif.C18.parse_print_tokens
#print axioms PyxisVerif.C18.parse_type_semi
#print axioms PyxisVerif.C18.lex_render_partial
#print axioms PyxisVerif.C18.parse_print
#print axioms PyxisVerif.C18.parse_print_no_trailing
#print axioms PyxisVerif.C18.lex_render
#print axioms PyxisVerif.C18.parse_render
#print axioms PyxisVerif.C18.int_value
#print axioms PyxisVerif.C18.int_value_in_context
#print axioms PyxisVerif.C18.int_value_canonical
#print axioms PyxisVerif.C18.int_value_separators
#print axioms PyxisVerif.C18.int_value_same
#print axioms PyxisVerif.C18.parse_error_has_position
