import PyxisVerif.Props.C18
#print axioms PyxisVerif.C18.parse_print_tokens_any
#print axioms PyxisVerif.C18.parse_print_tokens
