import PyxisVerif.Props.C08
import PyxisVerif.Props.CaseLift
#print axioms PyxisVerif.C08.values
#print axioms PyxisVerif.C08.repr
#print axioms PyxisVerif.C08.emitted
#print axioms PyxisVerif.C08.default_marker
#print axioms PyxisVerif.C08.marker_inconsistency_rejected
#print axioms PyxisVerif.C08.values_fit_width
#print axioms PyxisVerif.C08.cast_of_fits
#print axioms PyxisVerif.C08.discriminant_is_value_partial
#print axioms PyxisVerif.C08.negative_in_unsigned_accepted
#print axioms PyxisVerif.C08.case_values
#print axioms PyxisVerif.C08.case_repr
#print axioms PyxisVerif.C08.case_default_marker
#print axioms PyxisVerif.C08.case_values_fit_width
#print axioms PyxisVerif.C08.case_discriminant_is_value_partial
