import PyxisVerif.Props.C08
#print axioms PyxisVerif.C08.values
#print axioms PyxisVerif.C08.repr
#print axioms PyxisVerif.C08.emitted
#print axioms PyxisVerif.C08.default_marker
#print axioms PyxisVerif.C08.marker_inconsistency_rejected
#print axioms PyxisVerif.C08.values_fit_width
#print axioms PyxisVerif.C08.cast_of_fits
#print axioms PyxisVerif.C08.discriminant_is_value_partial
#print axioms PyxisVerif.C08.negative_in_unsigned_accepted
