import PyxisVerif.Props.C03
#print axioms PyxisVerif.C03.accepts_iff_realisable
#print axioms PyxisVerif.C03.rejects_with_error
#print axioms PyxisVerif.C03.accepted_size_align
#print axioms PyxisVerif.C03.realisableB_iff
