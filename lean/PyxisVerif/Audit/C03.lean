import PyxisVerif.Props.C03
import PyxisVerif.Props.CaseLift2
#print axioms PyxisVerif.C03.accepts_iff_realisable
#print axioms PyxisVerif.C03.rejects_with_error
#print axioms PyxisVerif.C03.accepted_size_align
#print axioms PyxisVerif.C03.realisableB_iff
#print axioms PyxisVerif.C03.case_verdict
#print axioms PyxisVerif.C03.case_accepts_iff_realisable
#print axioms PyxisVerif.C03.case_accepted_size_align
