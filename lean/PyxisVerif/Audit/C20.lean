import PyxisVerif.Props.C20
#print axioms PyxisVerif.C20.explicit_address_noop
#print axioms PyxisVerif.C20.explicit_address_noop_at
#print axioms PyxisVerif.C20.gap_vs_address
#print axioms PyxisVerif.C20.gap_region_named_like_padding
#print axioms PyxisVerif.C20.natural_size_noop
#print axioms PyxisVerif.C20.natural_index_noop
#print axioms PyxisVerif.C20.convertVfuncs_is_slotStep_fold
#print axioms PyxisVerif.C20.implicit_enum_value_noop
#print axioms PyxisVerif.C20.reorder_definitions
#print axioms PyxisVerif.C20.unresolved_order_independent
