import PyxisVerif.Props.C05
import PyxisVerif.Props.CaseLift2
import PyxisVerif.Props.Exec
#print axioms PyxisVerif.C05.built_shape
#print axioms PyxisVerif.C05.no_address_rejected
#print axioms PyxisVerif.C05.negative_address_rejected
#print axioms PyxisVerif.C05.unresolved_param_rejected
#print axioms PyxisVerif.C05.unresolved_return_rejected
#print axioms PyxisVerif.C05.wrapper_shape
#print axioms PyxisVerif.C05.impl_functions_all_present
#print axioms PyxisVerif.C05.impl_blocks_merged
#print axioms PyxisVerif.C05.hex_roundtrip
#print axioms PyxisVerif.Exec.address_wrapper_calls_declared_address
#print axioms PyxisVerif.Exec.address_wrapper_with_receiver
#print axioms PyxisVerif.Exec.address_wrapper_static
#print axioms PyxisVerif.Exec.built_type_address_methods
#print axioms PyxisVerif.Exec.case_address_methods
#print axioms PyxisVerif.C05.case_impl_functions_all_present
#print axioms PyxisVerif.C05.case_built_shape
#print axioms PyxisVerif.C05.case_declared_functions_present
#print axioms PyxisVerif.C05.case_wrapper_shape
#print axioms PyxisVerif.C05.case_wrapper_in_file
#print axioms PyxisVerif.C05.case_declared_functions_present_refuted
