import PyxisVerif.Props.C05
#print axioms PyxisVerif.C05.built_shape
#print axioms PyxisVerif.C05.no_address_rejected
#print axioms PyxisVerif.C05.negative_address_rejected
#print axioms PyxisVerif.C05.unresolved_param_rejected
#print axioms PyxisVerif.C05.unresolved_return_rejected
#print axioms PyxisVerif.C05.wrapper_shape
#print axioms PyxisVerif.C05.impl_functions_all_present
#print axioms PyxisVerif.C05.impl_blocks_merged
#print axioms PyxisVerif.C05.hex_roundtrip
