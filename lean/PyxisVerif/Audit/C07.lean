import PyxisVerif.Props.C07
import PyxisVerif.Props.CaseLift2
import PyxisVerif.Props.Exec
#print axioms PyxisVerif.C07.addFunctions_spec
#print axioms PyxisVerif.C07.every_public_reexposed
#print axioms PyxisVerif.C07.private_not_reexposed
#print axioms PyxisVerif.C07.injectBases_step
#print axioms PyxisVerif.C07.forwarder_shape
#print axioms PyxisVerif.C07.conversions_emitted
#print axioms PyxisVerif.C07.dfs_unfold
#print axioms PyxisVerif.Exec.forwarder_calls_original_on_subobject
#print axioms PyxisVerif.Exec.every_public_function_forwarded
#print axioms PyxisVerif.Exec.forwarder_on_built_type
#print axioms PyxisVerif.Exec.built_type_forwarders
#print axioms PyxisVerif.Exec.case_forwarders
#print axioms PyxisVerif.Exec.fieldOffsets_compiled
#print axioms PyxisVerif.C07.case_addFunctions_spec
#print axioms PyxisVerif.C07.case_every_public_reexposed
#print axioms PyxisVerif.C07.case_private_not_reexposed
#print axioms PyxisVerif.C07.case_conversions_emitted
