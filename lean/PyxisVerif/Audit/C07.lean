import PyxisVerif.Props.C07
#print axioms PyxisVerif.C07.addFunctions_spec
#print axioms PyxisVerif.C07.every_public_reexposed
#print axioms PyxisVerif.C07.private_not_reexposed
#print axioms PyxisVerif.C07.injectBases_step
#print axioms PyxisVerif.C07.forwarder_shape
#print axioms PyxisVerif.C07.conversions_emitted
#print axioms PyxisVerif.C07.dfs_unfold
