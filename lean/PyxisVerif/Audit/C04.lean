import PyxisVerif.Props.C04
#print axioms PyxisVerif.C04.slots
#print axioms PyxisVerif.C04.contradiction_rejected
#print axioms PyxisVerif.C04.placeholder_shape
#print axioms PyxisVerif.C04.vftable_item
#print axioms PyxisVerif.C04.slot_offset
#print axioms PyxisVerif.C04.wrapper_shape
#print axioms PyxisVerif.C04.vfunc_body
