import PyxisVerif.Props.C04
import PyxisVerif.Props.CaseLift2
import PyxisVerif.Props.Exec
#print axioms PyxisVerif.C04.slots
#print axioms PyxisVerif.C04.contradiction_rejected
#print axioms PyxisVerif.C04.placeholder_shape
#print axioms PyxisVerif.C04.vftable_item
#print axioms PyxisVerif.C04.slot_offset
#print axioms PyxisVerif.C04.wrapper_shape
#print axioms PyxisVerif.C04.vfunc_body
#print axioms PyxisVerif.Exec.vfunc_wrapper_calls_declared_slot
#print axioms PyxisVerif.Exec.vfunc_wrapper_with_receiver
#print axioms PyxisVerif.Exec.own_accessor_reads_pointer
#print axioms PyxisVerif.Exec.inherited_accessor_reads_base_pointer
#print axioms PyxisVerif.Exec.built_type_vfunc_wrappers
#print axioms PyxisVerif.Exec.built_type_accessor
#print axioms PyxisVerif.Exec.case_vfunc_wrappers
#print axioms PyxisVerif.Exec.case_accessor
#print axioms PyxisVerif.C04.case_slots
#print axioms PyxisVerif.C04.case_placeholder_shape
#print axioms PyxisVerif.C04.case_vftable_item
#print axioms PyxisVerif.C04.case_wrapper_shape
