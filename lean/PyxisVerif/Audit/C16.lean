import PyxisVerif.Props.C16
import PyxisVerif.Props.CaseLift
#print axioms PyxisVerif.C16.table_is_documented
#print axioms PyxisVerif.C16.fromStr_asStr
#print axioms PyxisVerif.C16.asStr_injective
#print axioms PyxisVerif.C16.defaults_are_documented
#print axioms PyxisVerif.C16.built_cc
#print axioms PyxisVerif.C16.unknown_rejected
#print axioms PyxisVerif.C16.placeholder_thiscall
#print axioms PyxisVerif.C16.slot_carries_cc
#print axioms PyxisVerif.C16.slot_printer
#print axioms PyxisVerif.C16.wrapper_printer
#print axioms PyxisVerif.C16.printers_agree_iff
#print axioms PyxisVerif.C16.inherited_same
#print axioms PyxisVerif.C16.case_built_cc
#print axioms PyxisVerif.C16.case_placeholder_thiscall
#print axioms PyxisVerif.C16.case_slot_carries_cc
#print axioms PyxisVerif.C16.case_inherited_same
