import PyxisVerif.Props.C10
#print axioms PyxisVerif.C10.rounds_bound_suffices
#print axioms PyxisVerif.C10.rounds_progress
#print axioms PyxisVerif.C10.nonterm_lists_unresolved
#print axioms PyxisVerif.C10.success_resolves_everything
#print axioms PyxisVerif.C10.size_known_iff
#print axioms PyxisVerif.C10.size_unknown_defers
#print axioms PyxisVerif.C10.unknown_field_name_defers
#print axioms PyxisVerif.C10.unknown_enum_base_defers
#print axioms PyxisVerif.C10.unknown_extern_value_type_rejected_refuted
#print axioms PyxisVerif.C10.unknown_extern_value_type_rejected_partial
#print axioms PyxisVerif.C10.unknown_extern_value_type_rejected_partial_err
