import PyxisVerif.Props.C15
import PyxisVerif.Props.CaseLift
#print axioms PyxisVerif.C15.type_singleton
#print axioms PyxisVerif.C15.enum_singleton
#print axioms PyxisVerif.C15.struct_getter_emitted
#print axioms PyxisVerif.C15.enum_getter_emitted
#print axioms PyxisVerif.C15.no_singleton_no_getter
#print axioms PyxisVerif.C15.extern_value_address
#print axioms PyxisVerif.C15.extern_without_address_rejected
#print axioms PyxisVerif.C15.extern_accessor_emitted
#print axioms PyxisVerif.C15.extern_value_type
#print axioms PyxisVerif.C15.getter_semantics
#print axioms PyxisVerif.C15.case_type_singleton
#print axioms PyxisVerif.C15.case_enum_singleton
#print axioms PyxisVerif.C15.case_struct_getter_emitted
#print axioms PyxisVerif.C15.case_enum_getter_emitted
#print axioms PyxisVerif.C15.case_no_singleton_no_getter
#print axioms PyxisVerif.C15.case_extern_value_address
#print axioms PyxisVerif.C15.case_extern_accessor_emitted
#print axioms PyxisVerif.C15.case_file_accessors
