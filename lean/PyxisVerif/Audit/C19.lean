import PyxisVerif.Props.C19
#print axioms PyxisVerif.C19.lookup_local
#print axioms PyxisVerif.C19.lookup_answer_is_candidate
#print axioms PyxisVerif.C19.size_local
#print axioms PyxisVerif.C19.enum_items_local
#print axioms PyxisVerif.C19.type_items_local
#print axioms PyxisVerif.C19.type_items_no_bases
#print axioms PyxisVerif.C19.module_file_local
