import PyxisVerif.Props.C19
#print axioms PyxisVerif.C19.lookup_local
#print axioms PyxisVerif.C19.lookup_answer_is_candidate
#print axioms PyxisVerif.C19.size_local
#print axioms PyxisVerif.C19.enum_items_local
#print axioms PyxisVerif.C19.type_items_local
#print axioms PyxisVerif.C19.type_items_no_bases
#print axioms PyxisVerif.C19.module_file_local
#print axioms PyxisVerif.C19.added_module_frame
#print axioms PyxisVerif.C19.added_module_frame_tight
#print axioms PyxisVerif.C19.added_module_core
#print axioms PyxisVerif.C19.added_module_files
#print axioms PyxisVerif.C19.added_module_o3
#print axioms PyxisVerif.C19.added_module_registry
#print axioms PyxisVerif.C19.Refute.added_module_registry_weak_refuted
#print axioms PyxisVerif.C19.Example.frame_applies
