import PyxisVerif.Props.C17
import PyxisVerif.Props.CaseLift
#print axioms PyxisVerif.C17.doc_join
#print axioms PyxisVerif.C17.doc_not_string_rejected
#print axioms PyxisVerif.C17.docs_line_for_line
#print axioms PyxisVerif.C17.docs_on_struct_and_fields
#print axioms PyxisVerif.C17.docs_on_wrapper
#print axioms PyxisVerif.C17.docs_on_slot
#print axioms PyxisVerif.C17.function_doc_vis
#print axioms PyxisVerif.C17.inherited_copy_keeps_doc
#print axioms PyxisVerif.C17.padding_private
#print axioms PyxisVerif.C17.placeholder_private
#print axioms PyxisVerif.C17.type_flags
#print axioms PyxisVerif.C17.enum_flags
#print axioms PyxisVerif.C17.packed_no_align
#print axioms PyxisVerif.C17.case_type_flags
#print axioms PyxisVerif.C17.case_enum_flags
#print axioms PyxisVerif.C17.case_docs_on_struct_and_fields
#print axioms PyxisVerif.C17.case_padding_private
#print axioms PyxisVerif.C17.case_docs_on_wrapper
#print axioms PyxisVerif.C17.case_docs_on_slot
#print axioms PyxisVerif.C17.case_packed_no_align
