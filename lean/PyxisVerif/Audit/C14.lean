import PyxisVerif.Props.C14
import PyxisVerif.Props.CaseLift2
import PyxisVerif.Props.CaseLift
#print axioms PyxisVerif.C14.files_per_module
#print axioms PyxisVerif.C14.file_name
#print axioms PyxisVerif.C14.file_content
#print axioms PyxisVerif.C14.other_backends_excluded
#print axioms PyxisVerif.C14.only_defined_emitted
#print axioms PyxisVerif.C14.defPaths_nodup
#print axioms PyxisVerif.C14.duplicate_definition_rejected
#print axioms PyxisVerif.C14.vftable_clash_rejected
#print axioms PyxisVerif.C14.vftable_item_path
#print axioms PyxisVerif.CaseLift.case_files_items
#print axioms PyxisVerif.C14.case_files_per_module
#print axioms PyxisVerif.C14.case_only_defined_emitted
#print axioms PyxisVerif.C14.case_defPaths_nodup
#print axioms PyxisVerif.C14.case_every_item_in_its_file
#print axioms PyxisVerif.C14.case_every_item_in_its_file_refuted
