import PyxisVerif.Props.C02
#print axioms PyxisVerif.C02.init_sound
#print axioms PyxisVerif.C02.init_complete
#print axioms PyxisVerif.C02.embedding_uses_recorded
#print axioms PyxisVerif.C02.struct_sound
#print axioms PyxisVerif.C02.placed_layouts
#print axioms PyxisVerif.C02.enum_sound
#print axioms PyxisVerif.C02.vftable_sound
#print axioms PyxisVerif.C02.size_check_emitted
