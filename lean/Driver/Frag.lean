import PyxisVerif.Model.Full
import PyxisVerif.Lemmas.MonoVft
import PyxisVerif.Lemmas.C09Case
/-!
`pxfrag`: for every case line, whether the case satisfies the (decidable) hypotheses of the whole-run theorems, so that the
evidence of a check can say which share of the cases it ran through the implementation is covered by a THEOREM and which
only by the correspondence: `bounded` (C12.CaseBounded: integer literals in `isize`, what the parser produces), `novft`
(C09.CaseNoVft: no vftable block), `nogenrefs` (C09.CaseNoGenRefs: nothing can see a generated vftable struct by name).
Text modules are parsed first (the model's parser); a case that does not parse is reported as `(frag unparsed)`.
-/
open PyxisVerif

def obsLine (id : String) (obs : Sexp) : String :=
  toString (Sexp.list [.sym "obs", .str id, .sym "frag", obs])

/-- executable over-approximation of `C12.CaseBounded`: every integer literal of every attribute / enum value lies in isize -/
partial def boundedSexp : Sexp → Bool
  | .list xs => xs.all boundedSexp
  | .int v => decide (-(2^63 : Int) ≤ v ∧ v < 2^63)
  | _ => true

def novftB (c : Case) : Bool :=
  c.modules.all fun me => match me with
    | .ast _ _ m => m.defs.all fun d => match d.inner with
        | .type td => td.stmts.all fun st => match st.field with | .vftable _ => false | .field .. => true
        | .enum _ => true
    | .text .. => false

def handle (line : String) : String :=
  match Sexp.parse line with
  | none => obsLine "?" (Sexp.mk "frag" [.sym "error"])
  | some sx =>
    match caseOfSexp sx with
    | none => obsLine "?" (Sexp.mk "frag" [.sym "error"])
    | some c =>
      match resolveTexts c with
      | .error _ => obsLine c.id (Sexp.mk "frag" [.sym "unparsed"])
      | .ok c' =>
        let b := boundedSexp sx
        let nv := novftB c'
        let ng := decide (C09.CaseNoGenRefs c')
        let f (x : Bool) : Sexp := .int (if x then 1 else 0)
        obsLine c.id (Sexp.mk "frag" [Sexp.mk "bounded" [f b], Sexp.mk "novft" [f nv], Sexp.mk "nogenrefs" [f ng]])

partial def loop (h : IO.FS.Stream) : IO Unit := do
  let line ← h.getLine
  if line.isEmpty then return ()
  let t := line.trimAscii.toString
  if t.isEmpty then loop h else
  IO.println (handle t)
  loop h

def main (_args : List String) : IO UInt32 := do
  loop (← IO.getStdin)
  return 0
