import PyxisVerif.Model.Obs
import PyxisVerif.Model.ParseObs
import PyxisVerif.Model.Full
import PyxisVerif.Spec.C03
/-!
# `pxmodel` – line-protocol driver of the model (PROTOCOL.md §4)
-/
open PyxisVerif

def obsLine (id : String) (point : String) (obs : Sexp) : String :=
  toString (Sexp.list [.sym "obs", .str id, .sym point, obs])

def resS {α} (f : α → Sexp) : Res α → Sexp
  | .ok a => Sexp.mk "ok" [f a]
  | .defer => Sexp.mk "defer" []
  | .err m => Sexp.mk "err" [.str m]
  | .panic m => Sexp.mk "panic" [.str m]

/-- property-specific predictions computed from the *input* by the declarative specs -/
def specObs (c : Case) : Sexp :=
  let c03 := match C03.specOfCase c with
    | some (ps, t) => [Sexp.mk "c03" [Sexp.mk "realisable" [Sexp.ofBool (C03.realisableB ps t)],
        Sexp.mk "verdict" [resS (fun (p : Nat × Nat) => Sexp.list [.int p.1, .int p.2]) (C03.verdict ps t)]]]
    | none => []
  Sexp.mk "spec" c03

/-- token kinds with everything that the grammar treats as optional spelling removed: a separator
    (`,` / `;`) directly before a closing delimiter, the spacing of punctuation, `type T {}` for `type T;`,
    and `#[a] #[b]` for `#[a, b]` -/
def normKinds : List Lex.K → List Lex.K
  | [] => []
  | .punct '#' _ :: .op .bracket :: .cl .bracket :: rest => normKinds rest            -- `#[]`: no attribute
  | .punct '#' _ :: .punct '!' _ :: .op .bracket :: .cl .bracket :: rest => normKinds rest
  | .punct '-' _ :: .int 0 :: rest => .int 0 :: normKinds rest                       -- `-0`
  | .cl .bracket :: .punct '#' _ :: .op .bracket :: .cl .bracket :: rest => normKinds (.cl .bracket :: rest)   -- `#[a] #[]`
  | .cl .bracket :: .punct '#' _ :: .punct '!' _ :: .op .bracket :: .cl .bracket :: rest => normKinds (.cl .bracket :: rest)
  | .cl .bracket :: .punct '#' _ :: .op .bracket :: rest => .punct ',' false :: normKinds rest
  | .cl .bracket :: .punct '#' _ :: .punct '!' _ :: .op .bracket :: rest => .punct ',' false :: normKinds rest
  | .ident "type" :: .ident x :: .op .brace :: .cl .brace :: rest =>
    .ident "type" :: .ident x :: .punct ';' false :: normKinds rest
  | .punct ':' _ :: rest => normKinds rest      -- `use a::::b`, `use ::a`: the path parser skips any run of `::`
  | .punct c _ :: rest =>
    match rest with
    | .cl _ :: _ => if c == ',' || c == ';' then normKinds rest else .punct c false :: normKinds rest
    | _ => .punct c false :: normKinds rest
  | k :: rest => k :: normKinds rest

/-- "the accepted text is a printing of its parse": the tokens of the original text equal the tokens
    of the printed module (the module given in the case is the *implementation's* parse of the text) -/
def tokeqObs (c : Case) : Sexp :=
  match c.extra? "orig", c.modules with
  | some [.str text], [.ast _ _ m] =>
    match Lex.lex text with
    | .error _ => Sexp.mk "tokeq" [.sym "lexerr"]
    | .ok ts =>
      -- the abstract module does not record the relative order of items of different kinds, so the two
      -- token lists are compared as multisets (canonical string per token, sorted)
      -- identifiers are compared by their characters only: `parse_type_ident` glues adjacent identifiers
      -- (`use F oo;` is the path `Foo`), a documented looseness of the grammar
      let key (k : Lex.K) : List String := match k with
        | .ident s => s.toList.map fun ch => "ident-char " ++ toString ch
        -- `<` and `>` are part of type names (`SharedPtr<T>` is ONE name for pyxis), the lexer sees them as punctuation
        | .punct '<' _ => ["ident-char <"]
        | .punct '>' _ => ["ident-char >"]
        | k => [reprStr k]
      let a := ((normKinds (ts.map (·.k))).flatMap key).mergeSort (· ≤ ·)
      let b := ((normKinds (Print.printK true m)).flatMap key).mergeSort (· ≤ ·)
      if a == b then Sexp.mk "tokeq" [.int 1]
      else
        let onlyA := a.filter (fun x => a.count x > b.count x) |>.eraseDups |>.take 4
        let onlyB := b.filter (fun x => b.count x > a.count x) |>.eraseDups |>.take 4
        Sexp.mk "tokeq" [.int 0, .str (toString onlyA), .str (toString onlyB)]
  | _, _ => Sexp.mk "tokeq" [.sym "na"]

def handleCase (points : List String) (line : String) : List String :=
  match Sexp.parse line with
  | none => [obsLine "?" "error" (.str "unparsable line")]
  | some sx =>
    match caseOfSexp sx with
    | none => [obsLine "?" "error" (.str "not a case")]
    | some c =>
      let c2 := resolveTexts c
      points.filterMap fun pt =>
        if pt == "o2" then some (obsLine c.id "o2" (match c2 with
          | .ok c' => c'.o2
          | .error m => Sexp.mk "err" [Sexp.mk "other" [.str m]]))
        else if pt == "o3" then some (obsLine c.id "o3" (match c2 with
          | .ok c' => c'.o3
          | .error m => Sexp.mk "err" [.str m]))
        else if pt == "o1" then some (obsLine c.id "o1" c.o1)
        else if pt == "o1text" then some (obsLine c.id "o1text" c.o1text)
        else if pt == "tokeq" then some (obsLine c.id "tokeq" (tokeqObs c))
        else if pt == "spec" then some (obsLine c.id "spec" (specObs c))
        else none

partial def loop (h : IO.FS.Stream) (out : IO.FS.Stream) (points : List String) : IO Unit := do
  let line ← h.getLine
  if line.isEmpty then return ()
  let l := line.trimAscii.toString
  if l.isEmpty || l.startsWith ";" then
    loop h out points
  else
    for o in handleCase points l do
      out.putStrLn o
    out.flush
    loop h out points

def main (args : List String) : IO UInt32 := do
  let points := match args with
    | ["run", "--points", ps] => ps.splitOn ","
    | _ => ["o2"]
  loop (← IO.getStdin) (← IO.getStdout) points
  return 0
