import PyxisVerif.Model.Obs
import PyxisVerif.Model.ParseObs
import PyxisVerif.Spec.C03
/-!
# `pxmodel` – line-protocol driver of the model (PROTOCOL.md §4)
-/
open PyxisVerif

def obsLine (id : String) (point : String) (obs : Sexp) : String :=
  toString (Sexp.list [.sym "obs", .str id, .sym point, obs])

def resS {α} (f : α → Sexp) : Res α → Sexp
  | .ok a => Sexp.mk "ok" [f a]
  | .defer => Sexp.mk "defer" []
  | .err m => Sexp.mk "err" [.str m]
  | .panic m => Sexp.mk "panic" [.str m]

/-- property-specific predictions computed from the *input* by the declarative specs -/
def specObs (c : Case) : Sexp :=
  let c03 := match C03.specOfCase c with
    | some (ps, t) => [Sexp.mk "c03" [Sexp.mk "realisable" [Sexp.ofBool (C03.realisableB ps t)],
        Sexp.mk "verdict" [resS (fun (p : Nat × Nat) => Sexp.list [.int p.1, .int p.2]) (C03.verdict ps t)]]]
    | none => []
  Sexp.mk "spec" c03

def handleCase (points : List String) (line : String) : List String :=
  match Sexp.parse line with
  | none => [obsLine "?" "error" (.str "unparsable line")]
  | some sx =>
    match caseOfSexp sx with
    | none => [obsLine "?" "error" (.str "not a case")]
    | some c =>
      points.filterMap fun pt =>
        if pt == "o2" then some (obsLine c.id "o2" c.o2)
        else if pt == "o3" then some (obsLine c.id "o3" c.o3)
        else if pt == "o1" then some (obsLine c.id "o1" c.o1)
        else if pt == "o1text" then some (obsLine c.id "o1text" c.o1text)
        else if pt == "spec" then some (obsLine c.id "spec" (specObs c))
        else none

partial def loop (h : IO.FS.Stream) (out : IO.FS.Stream) (points : List String) : IO Unit := do
  let line ← h.getLine
  if line.isEmpty then return ()
  let l := line.trimAscii.toString
  if l.isEmpty || l.startsWith ";" then
    loop h out points
  else
    for o in handleCase points l do
      out.putStrLn o
    out.flush
    loop h out points

def main (args : List String) : IO UInt32 := do
  let points := match args with
    | ["run", "--points", ps] => ps.splitOn ","
    | _ => ["o2"]
  loop (← IO.getStdin) (← IO.getStdout) points
  return 0
