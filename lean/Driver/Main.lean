import PyxisVerif.Model.Obs
import PyxisVerif.Model.ParseObs
import PyxisVerif.Spec.C03
/-!
# `pxmodel` – line-protocol driver of the model (PROTOCOL.md §4)
-/
open PyxisVerif

def obsLine (id : String) (point : String) (obs : Sexp) : String :=
  toString (Sexp.list [.sym "obs", .str id, .sym point, obs])

def resS {α} (f : α → Sexp) : Res α → Sexp
  | .ok a => Sexp.mk "ok" [f a]
  | .defer => Sexp.mk "defer" []
  | .err m => Sexp.mk "err" [.str m]
  | .panic m => Sexp.mk "panic" [.str m]

/-- property-specific predictions computed from the *input* by the declarative specs -/
def specObs (c : Case) : Sexp :=
  let c03 := match C03.specOfCase c with
    | some (ps, t) => [Sexp.mk "c03" [Sexp.mk "realisable" [Sexp.ofBool (C03.realisableB ps t)],
        Sexp.mk "verdict" [resS (fun (p : Nat × Nat) => Sexp.list [.int p.1, .int p.2]) (C03.verdict ps t)]]]
    | none => []
  Sexp.mk "spec" c03

/-- `ItemPath::from_path(rel)`: `with_extension("")` (drop what follows the last dot of the file name,
    unless that dot is its first character), then one segment per path component -/
def pathOfFile (file : String) : Path :=
  let comps := (file.splitOn "/").filter (· != "")
  match comps.reverse with
  | [] => []
  | last :: revInit =>
    let cs := last.toList
    let stem :=
      match cs.reverse.dropWhile (· != '.') with
      | [] => last
      | _ :: revStem => if revStem.isEmpty then last else String.ofList revStem.reverse
    revInit.reverse ++ [stem]

/-- text modules are parsed with the parser model first (as `SemanticState::add_file` does);
    a parse error is the error of the whole build, with file:line:column -/
def resolveTexts (c : Case) : Except String Case := do
  let mods ← c.modules.mapM fun me =>
    match me with
    | .ast .. => pure me
    | .text file text =>
      match Parse.parseStr text with
      | .ok m => pure (ModEnt.ast (pathOfFile file) file m)
      | .error (l, col) => throw s!"failed to parse {file}:{l}:{col + 1}"
  pure { c with modules := mods }

def handleCase (points : List String) (line : String) : List String :=
  match Sexp.parse line with
  | none => [obsLine "?" "error" (.str "unparsable line")]
  | some sx =>
    match caseOfSexp sx with
    | none => [obsLine "?" "error" (.str "not a case")]
    | some c =>
      let c2 := resolveTexts c
      points.filterMap fun pt =>
        if pt == "o2" then some (obsLine c.id "o2" (match c2 with
          | .ok c' => c'.o2
          | .error m => Sexp.mk "err" [Sexp.mk "other" [.str m]]))
        else if pt == "o3" then some (obsLine c.id "o3" (match c2 with
          | .ok c' => c'.o3
          | .error m => Sexp.mk "err" [.str m]))
        else if pt == "o1" then some (obsLine c.id "o1" c.o1)
        else if pt == "o1text" then some (obsLine c.id "o1text" c.o1text)
        else if pt == "spec" then some (obsLine c.id "spec" (specObs c))
        else none

partial def loop (h : IO.FS.Stream) (out : IO.FS.Stream) (points : List String) : IO Unit := do
  let line ← h.getLine
  if line.isEmpty then return ()
  let l := line.trimAscii.toString
  if l.isEmpty || l.startsWith ";" then
    loop h out points
  else
    for o in handleCase points l do
      out.putStrLn o
    out.flush
    loop h out points

def main (args : List String) : IO UInt32 := do
  let points := match args with
    | ["run", "--points", ps] => ps.splitOn ","
    | _ => ["o2"]
  loop (← IO.getStdin) (← IO.getStdout) points
  return 0
