import PyxisVerif.Sexp
import PyxisVerif.Model.Grammar
import PyxisVerif.Model.Basic
import PyxisVerif.Model.Sem
import PyxisVerif.Model.Layout
import PyxisVerif.Model.Build
import PyxisVerif.Model.Emit
import PyxisVerif.Model.Obs
