import PyxisVerif.Model.ParseObs
open PyxisVerif

partial def loop (h : IO.FS.Stream) : IO Unit := do
  let line ← h.getLine
  if line.isEmpty then return
  let l := line.trimAscii.toString
  if l.isEmpty || l.startsWith ";" then loop h else
  match Sexp.parse l with
  | none => IO.println "(obs \"?\" error \"unparsable line\")"
  | some s =>
    match caseOfSexp s with
    | none => IO.println "(obs \"?\" error \"not a case\")"
    | some c => IO.println (toString (Sexp.list [.sym "obs", .str c.id, .sym "o1", c.o1]))
  loop h

def main : IO Unit := do
  loop (← IO.getStdin)
