//! CASE lines (PROTOCOL.md section 2) <-> pyxis grammar values.

use pyxis::grammar::{
    Argument, Attribute, Attributes, Backend, EnumDefinition, EnumStatement, Expr, ExternValue,
    Function, FunctionBlock, Ident, ItemDefinition, ItemDefinitionInner, ItemPath, Module, Type,
    TypeDefinition, TypeField, TypeStatement, Visibility,
};

use crate::sexp::{int, opt, st, sym, tagged, Sexp};

pub enum ModEnt {
    /// `(module PATH "rel/file.pyxis" MODULE)`
    Ast {
        path: ItemPath,
        file: String,
        module: Module,
    },
    /// `(tmodule "rel/file.pyxis" "TEXT")`
    Text { file: String, text: String },
}
impl ModEnt {
    pub fn file(&self) -> &str {
        match self {
            ModEnt::Ast { file, .. } | ModEnt::Text { file, .. } => file,
        }
    }
}

pub struct Case {
    pub id: String,
    pub ps: usize,
    pub prio: Vec<ItemPath>,
    pub modules: Vec<ModEnt>,
    pub nohook: bool,
    /// O3: add the files through the API in the order of the case instead of `pyxis::build`'s sorted discovery
    pub api_order: bool,
}

type R<T> = Result<T, String>;

// ---- decoding ---------------------------------------------------------------

/// Best effort: the ID of a case line that may be malformed further on.
pub fn peek_id(s: &Sexp) -> Option<String> {
    match s.as_list().ok()?.get(1)? {
        Sexp::Str(id) => Some(id.clone()),
        _ => None,
    }
}

pub fn decode_case(s: &Sexp) -> R<Case> {
    let items = s.expect("case")?;
    if items.len() < 4 {
        return Err("case needs an id, (ps N), (prio ...) and (modules ...)".to_string());
    }
    let id = items[0].as_str()?.to_string();
    let ps = match items[1].expect("ps")? {
        [n] => to_usize(n)?,
        _ => return Err("expected (ps N)".to_string()),
    };
    let prio = items[2]
        .expect("prio")?
        .iter()
        .map(decode_path)
        .collect::<R<Vec<_>>>()?;
    let modules = items[3]
        .expect("modules")?
        .iter()
        .map(decode_modent)
        .collect::<R<Vec<_>>>()?;
    let mut nohook = false;
    let mut api_order = false;
    for extra in &items[4..] {
        extra.as_list()?; // EXTRA := any other list
        if extra.head() == Some("nohook") {
            nohook = true;
        }
        if extra.head() == Some("api-order") {
            api_order = true;
        }
    }
    Ok(Case {
        id,
        ps,
        prio,
        modules,
        nohook,
        api_order,
    })
}

fn check_rel_file(file: &str) -> R<()> {
    use std::path::{Component, Path};
    let p = Path::new(file);
    if file.is_empty()
        || file.contains('\0')
        || !p
            .components()
            .all(|c| matches!(c, Component::Normal(_) | Component::CurDir))
    {
        return Err(format!(
            "file name {file:?} must be a non-empty relative path without `..`"
        ));
    }
    Ok(())
}

fn decode_modent(s: &Sexp) -> R<ModEnt> {
    match s.head() {
        Some("module") => match s.expect("module")? {
            [path, file, module] => {
                let file = file.as_str()?.to_string();
                check_rel_file(&file)?;
                Ok(ModEnt::Ast {
                    path: decode_path(path)?,
                    file,
                    module: decode_module(module)?,
                })
            }
            _ => Err("expected (module PATH \"file\" MODULE)".to_string()),
        },
        Some("tmodule") => match s.expect("tmodule")? {
            [file, text] => {
                let file = file.as_str()?.to_string();
                check_rel_file(&file)?;
                Ok(ModEnt::Text {
                    file,
                    text: text.as_str()?.to_string(),
                })
            }
            _ => Err("expected (tmodule \"file\" \"TEXT\")".to_string()),
        },
        _ => Err(format!("expected (module ...) or (tmodule ...), found {s}")),
    }
}

fn to_usize(s: &Sexp) -> R<usize> {
    usize::try_from(s.as_int()?).map_err(|_| format!("{s} does not fit usize"))
}
fn to_isize(s: &Sexp) -> R<isize> {
    isize::try_from(s.as_int()?).map_err(|_| format!("{s} does not fit isize"))
}
fn ident(s: &Sexp) -> R<Ident> {
    Ok(Ident(s.as_str()?.to_string()))
}

pub fn decode_path(s: &Sexp) -> R<ItemPath> {
    s.expect("p")?
        .iter()
        .map(|seg| Ok(seg.as_str()?.to_string().into()))
        .collect::<R<ItemPath>>()
}

fn decode_vis(s: &Sexp) -> R<Visibility> {
    match s.as_sym()? {
        "pub" => Ok(Visibility::Public),
        "priv" => Ok(Visibility::Private),
        other => Err(format!("expected pub or priv, found {other}")),
    }
}

fn decode_opt<'a>(s: &'a Sexp) -> R<Option<&'a Sexp>> {
    if let Sexp::Sym(n) = s {
        if n == "none" {
            return Ok(None);
        }
    }
    match s.expect("some") {
        Ok([x]) => Ok(Some(x)),
        _ => Err(format!("expected none or (some X), found {s}")),
    }
}

/// Nesting limit for TYPE, so that a hostile case line cannot overflow the stack of the
/// (unprotected) parent process.
const MAX_TYPE_DEPTH: usize = 256;

fn decode_type(s: &Sexp) -> R<Type> {
    decode_type_at(s, 0)
}

fn decode_type_at(s: &Sexp, depth: usize) -> R<Type> {
    if depth > MAX_TYPE_DEPTH {
        return Err(format!("TYPE nested deeper than {MAX_TYPE_DEPTH} levels"));
    }
    let inner = |t: &Sexp| decode_type_at(t, depth + 1).map(Box::new);
    let items = s.as_list()?;
    match (s.head(), &items[1.min(items.len())..]) {
        (Some("cptr"), [t]) => Ok(Type::ConstPointer(inner(t)?)),
        (Some("mptr"), [t]) => Ok(Type::MutPointer(inner(t)?)),
        (Some("arr"), [t, n]) => Ok(Type::Array(inner(t)?, to_usize(n)?)),
        (Some("id"), [n]) => Ok(Type::Ident(ident(n)?)),
        (Some("unk"), [n]) => Ok(Type::Unknown(to_usize(n)?)),
        _ => Err(format!("malformed TYPE {s}")),
    }
}

fn decode_expr(s: &Sexp) -> R<Expr> {
    let items = s.as_list()?;
    match (s.head(), &items[1.min(items.len())..]) {
        (Some("int"), [n]) => Ok(Expr::IntLiteral(to_isize(n)?)),
        (Some("str"), [t]) => Ok(Expr::StringLiteral(t.as_str()?.to_string())),
        (Some("ident"), [n]) => Ok(Expr::Ident(ident(n)?)),
        _ => Err(format!("malformed EXPR {s}")),
    }
}

fn decode_attrs(s: &Sexp) -> R<Attributes> {
    s.expect("attrs")?
        .iter()
        .map(|a| {
            let items = a.as_list()?;
            match (a.head(), &items[1.min(items.len())..]) {
                (Some("ai"), [n]) => Ok(Attribute::Ident(ident(n)?)),
                (Some("af"), [n, exprs @ ..]) => Ok(Attribute::Function(
                    ident(n)?,
                    exprs.iter().map(decode_expr).collect::<R<Vec<_>>>()?,
                )),
                (Some("aa"), [n, e]) => Ok(Attribute::Assign(ident(n)?, decode_expr(e)?)),
                _ => Err(format!("malformed attribute {a}")),
            }
        })
        .collect::<R<Vec<_>>>()
        .map(Attributes)
}

fn decode_fn(s: &Sexp) -> R<Function> {
    match s.expect("fn")? {
        [vis, name, attrs, args, ret] => Ok(Function {
            visibility: decode_vis(vis)?,
            name: ident(name)?,
            attributes: decode_attrs(attrs)?,
            arguments: args
                .expect("args")?
                .iter()
                .map(|a| match a {
                    Sexp::Sym(n) if n == "self" => Ok(Argument::ConstSelf),
                    Sexp::Sym(n) if n == "mutself" => Ok(Argument::MutSelf),
                    _ => match a.expect("arg")? {
                        [n, t] => Ok(Argument::Named(ident(n)?, decode_type(t)?)),
                        _ => Err(format!("malformed ARG {a}")),
                    },
                })
                .collect::<R<Vec<_>>>()?,
            return_type: decode_opt(ret)?.map(decode_type).transpose()?,
        }),
        _ => Err(format!("malformed FN {s}")),
    }
}

fn decode_def(s: &Sexp) -> R<ItemDefinition> {
    let [vis, name, inner] = s.expect("def")? else {
        return Err(format!("malformed DEF {s}"));
    };
    let inner = match inner.head() {
        Some("type") => {
            let [attrs, stmts @ ..] = inner.expect("type")? else {
                return Err(format!("malformed type definition {inner}"));
            };
            let statements = stmts
                .iter()
                .map(|st| match st.head() {
                    Some("field") => match st.expect("field")? {
                        [vis, name, ty, attrs] => Ok(TypeStatement {
                            field: TypeField::Field(
                                decode_vis(vis)?,
                                ident(name)?,
                                decode_type(ty)?,
                            ),
                            attributes: decode_attrs(attrs)?,
                        }),
                        _ => Err(format!("malformed field {st}")),
                    },
                    Some("vftable") => match st.expect("vftable")? {
                        [attrs, fns @ ..] => Ok(TypeStatement {
                            field: TypeField::Vftable(
                                fns.iter().map(decode_fn).collect::<R<Vec<_>>>()?,
                            ),
                            attributes: decode_attrs(attrs)?,
                        }),
                        _ => Err(format!("malformed vftable {st}")),
                    },
                    _ => Err(format!("malformed STMT {st}")),
                })
                .collect::<R<Vec<_>>>()?;
            ItemDefinitionInner::Type(TypeDefinition {
                statements,
                attributes: decode_attrs(attrs)?,
            })
        }
        Some("enum") => {
            let [ty, attrs, stmts @ ..] = inner.expect("enum")? else {
                return Err(format!("malformed enum definition {inner}"));
            };
            let statements = stmts
                .iter()
                .map(|es| match es.expect("es")? {
                    [name, expr, attrs] => Ok(EnumStatement {
                        name: ident(name)?,
                        expr: decode_opt(expr)?.map(decode_expr).transpose()?,
                        attributes: decode_attrs(attrs)?,
                    }),
                    _ => Err(format!("malformed enum statement {es}")),
                })
                .collect::<R<Vec<_>>>()?;
            ItemDefinitionInner::Enum(EnumDefinition {
                type_: decode_type(ty)?,
                statements,
                attributes: decode_attrs(attrs)?,
            })
        }
        _ => return Err(format!("malformed definition body {inner}")),
    };
    Ok(ItemDefinition {
        visibility: decode_vis(vis)?,
        name: ident(name)?,
        inner,
    })
}

fn decode_optstr(s: &Sexp) -> R<Option<String>> {
    decode_opt(s)?
        .map(|x| x.as_str().map(str::to_string))
        .transpose()
}

pub fn decode_module(s: &Sexp) -> R<Module> {
    let [attrs, uses, xtypes, xvals, defs, impls, backends] = s.expect("m")? else {
        return Err("malformed MODULE: expected 7 sections".to_string());
    };
    Ok(Module {
        attributes: decode_attrs(attrs)?,
        uses: uses
            .expect("uses")?
            .iter()
            .map(decode_path)
            .collect::<R<Vec<_>>>()?,
        extern_types: xtypes
            .expect("xtypes")?
            .iter()
            .map(|x| match x.expect("xt")? {
                [name, attrs] => Ok((ident(name)?, decode_attrs(attrs)?)),
                _ => Err(format!("malformed extern type {x}")),
            })
            .collect::<R<Vec<_>>>()?,
        extern_values: xvals
            .expect("xvals")?
            .iter()
            .map(|x| match x.expect("xv")? {
                [vis, name, ty, attrs] => Ok(ExternValue {
                    visibility: decode_vis(vis)?,
                    name: ident(name)?,
                    type_: decode_type(ty)?,
                    attributes: decode_attrs(attrs)?,
                }),
                _ => Err(format!("malformed extern value {x}")),
            })
            .collect::<R<Vec<_>>>()?,
        definitions: defs
            .expect("defs")?
            .iter()
            .map(decode_def)
            .collect::<R<Vec<_>>>()?,
        impls: impls
            .expect("impls")?
            .iter()
            .map(|x| match x.expect("impl")? {
                [name, attrs, fns @ ..] => Ok(FunctionBlock {
                    name: ident(name)?,
                    attributes: decode_attrs(attrs)?,
                    functions: fns.iter().map(decode_fn).collect::<R<Vec<_>>>()?,
                }),
                _ => Err(format!("malformed impl {x}")),
            })
            .collect::<R<Vec<_>>>()?,
        backends: backends
            .expect("backends")?
            .iter()
            .map(|x| match x.expect("be")? {
                [name, pro, epi] => Ok(Backend {
                    name: ident(name)?,
                    prologue: decode_optstr(pro)?,
                    epilogue: decode_optstr(epi)?,
                }),
                _ => Err(format!("malformed backend {x}")),
            })
            .collect::<R<Vec<_>>>()?,
    })
}

// ---- encoding (used by O1 and by `mkcase`) --------------------------------------

pub fn path_sexp(p: &ItemPath) -> Sexp {
    tagged("p", p.iter().map(|s| st(s.as_str())))
}

pub fn vis_sexp(v: Visibility) -> Sexp {
    sym(match v {
        Visibility::Public => "pub",
        Visibility::Private => "priv",
    })
}

fn type_sexp(t: &Type) -> Sexp {
    match t {
        Type::ConstPointer(t) => tagged("cptr", [type_sexp(t)]),
        Type::MutPointer(t) => tagged("mptr", [type_sexp(t)]),
        Type::Array(t, n) => tagged("arr", [type_sexp(t), int(*n)]),
        Type::Ident(i) => tagged("id", [st(i.as_str())]),
        Type::Unknown(n) => tagged("unk", [int(*n)]),
    }
}

fn expr_sexp(e: &Expr) -> Sexp {
    match e {
        Expr::IntLiteral(n) => tagged("int", [int(*n)]),
        Expr::StringLiteral(s) => tagged("str", [st(s)]),
        Expr::Ident(i) => tagged("ident", [st(i.as_str())]),
    }
}

fn attrs_sexp(a: &Attributes) -> Sexp {
    tagged(
        "attrs",
        a.0.iter().map(|a| match a {
            Attribute::Ident(n) => tagged("ai", [st(n.as_str())]),
            Attribute::Function(n, exprs) => tagged(
                "af",
                std::iter::once(st(n.as_str())).chain(exprs.iter().map(expr_sexp)),
            ),
            Attribute::Assign(n, e) => tagged("aa", [st(n.as_str()), expr_sexp(e)]),
        }),
    )
}

fn fn_sexp(f: &Function) -> Sexp {
    tagged(
        "fn",
        [
            vis_sexp(f.visibility),
            st(f.name.as_str()),
            attrs_sexp(&f.attributes),
            tagged(
                "args",
                f.arguments.iter().map(|a| match a {
                    Argument::ConstSelf => sym("self"),
                    Argument::MutSelf => sym("mutself"),
                    Argument::Named(n, t) => tagged("arg", [st(n.as_str()), type_sexp(t)]),
                }),
            ),
            opt(f.return_type.as_ref().map(type_sexp)),
        ],
    )
}

fn def_sexp(d: &ItemDefinition) -> Sexp {
    let inner = match &d.inner {
        ItemDefinitionInner::Type(td) => tagged(
            "type",
            std::iter::once(attrs_sexp(&td.attributes)).chain(td.statements.iter().map(|s| {
                match &s.field {
                    TypeField::Field(v, n, t) => tagged(
                        "field",
                        [
                            vis_sexp(*v),
                            st(n.as_str()),
                            type_sexp(t),
                            attrs_sexp(&s.attributes),
                        ],
                    ),
                    TypeField::Vftable(fns) => tagged(
                        "vftable",
                        std::iter::once(attrs_sexp(&s.attributes)).chain(fns.iter().map(fn_sexp)),
                    ),
                }
            })),
        ),
        ItemDefinitionInner::Enum(ed) => tagged(
            "enum",
            [type_sexp(&ed.type_), attrs_sexp(&ed.attributes)]
                .into_iter()
                .chain(ed.statements.iter().map(|s| {
                    tagged(
                        "es",
                        [
                            st(s.name.as_str()),
                            opt(s.expr.as_ref().map(expr_sexp)),
                            attrs_sexp(&s.attributes),
                        ],
                    )
                })),
        ),
    };
    tagged("def", [vis_sexp(d.visibility), st(d.name.as_str()), inner])
}

pub fn module_sexp(m: &Module) -> Sexp {
    tagged(
        "m",
        [
            attrs_sexp(&m.attributes),
            tagged("uses", m.uses.iter().map(path_sexp)),
            tagged(
                "xtypes",
                m.extern_types
                    .iter()
                    .map(|(n, a)| tagged("xt", [st(n.as_str()), attrs_sexp(a)])),
            ),
            tagged(
                "xvals",
                m.extern_values.iter().map(|x| {
                    tagged(
                        "xv",
                        [
                            vis_sexp(x.visibility),
                            st(x.name.as_str()),
                            type_sexp(&x.type_),
                            attrs_sexp(&x.attributes),
                        ],
                    )
                }),
            ),
            tagged("defs", m.definitions.iter().map(def_sexp)),
            tagged(
                "impls",
                m.impls.iter().map(|b| {
                    tagged(
                        "impl",
                        [st(b.name.as_str()), attrs_sexp(&b.attributes)]
                            .into_iter()
                            .chain(b.functions.iter().map(fn_sexp)),
                    )
                }),
            ),
            tagged(
                "backends",
                m.backends.iter().map(|b| {
                    tagged(
                        "be",
                        [
                            st(b.name.as_str()),
                            opt(b.prologue.as_ref().map(st)),
                            opt(b.epilogue.as_ref().map(st)),
                        ],
                    )
                }),
            ),
        ],
    )
}

/// `(case "ID" (ps N) (prio) (modules (tmodule "file" "text")*))`
pub fn text_case_sexp(id: &str, ps: usize, files: &[(String, String)]) -> Sexp {
    tagged(
        "case",
        [
            st(id),
            tagged("ps", [int(ps)]),
            tagged("prio", []),
            tagged(
                "modules",
                files
                    .iter()
                    .map(|(f, t)| tagged("tmodule", [st(f), st(t)])),
            ),
        ],
    )
}
