//! Small helpers shared by the observers.

use std::panic::{catch_unwind, AssertUnwindSafe};

use pyxis::grammar::ItemPath;

use crate::{
    case::Case,
    sexp::{st, tagged, Sexp},
};

/// Installs the `pyxis_verif` priority hook for the lifetime of the guard.
pub struct HookGuard {
    installed: bool,
}
impl HookGuard {
    pub fn install(case: &Case) -> HookGuard {
        if case.nohook {
            pyxis::semantic::verif::set_priority(None);
            HookGuard { installed: false }
        } else {
            pyxis::semantic::verif::set_priority(Some(case.prio.clone()));
            HookGuard { installed: true }
        }
    }
}
impl Drop for HookGuard {
    fn drop(&mut self) {
        if self.installed {
            pyxis::semantic::verif::set_priority(None);
        }
    }
}

/// At most the first 200 bytes of `s`, cut back to a character boundary.
pub fn first_200(s: &str) -> &str {
    let mut end = s.len().min(200);
    while !s.is_char_boundary(end) {
        end -= 1;
    }
    &s[..end]
}

/// Runs `f`; a panic becomes `(panic "first line of message")`.
pub fn guarded(f: impl FnOnce() -> Sexp) -> Sexp {
    match catch_unwind(AssertUnwindSafe(f)) {
        Ok(s) => s,
        Err(payload) => {
            let msg = if let Some(s) = payload.downcast_ref::<&'static str>() {
                (*s).to_string()
            } else if let Some(s) = payload.downcast_ref::<String>() {
                s.clone()
            } else {
                "non-string panic payload".to_string()
            };
            tagged("panic", [st(msg.lines().next().unwrap_or(""))])
        }
    }
}

/// `a::b::C` -> path; the empty string is the root.
pub fn path_from_display(s: &str) -> ItemPath {
    if s.is_empty() {
        ItemPath::empty()
    } else {
        ItemPath::from(s)
    }
}
