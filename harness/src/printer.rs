//! Renders a `grammar::Module` as `.pyxis` text that `pyxis::parser::parse_str` reads back
//! to the same AST (for identifiers that are not Rust keywords and backend texts that are
//! already trimmed).

use std::fmt::Write as _;

use pyxis::grammar::{
    Argument, Attribute, Attributes, Expr, Function, ItemDefinitionInner, ItemPath, Module, Type,
    TypeField, Visibility,
};

pub fn print_module(m: &Module) -> String {
    let mut out = String::new();
    for a in &m.attributes {
        let _ = writeln!(out, "#![{}]", attr_body(a));
    }
    for u in &m.uses {
        let _ = writeln!(out, "use {};", path(u));
    }
    for (name, attrs) in &m.extern_types {
        attrs_lines(&mut out, attrs, "");
        let _ = writeln!(out, "extern type {name};");
    }
    for xv in &m.extern_values {
        attrs_lines(&mut out, &xv.attributes, "");
        let _ = writeln!(
            out,
            "{}extern {}: {};",
            vis(xv.visibility),
            xv.name,
            type_(&xv.type_)
        );
    }
    for d in &m.definitions {
        match &d.inner {
            ItemDefinitionInner::Type(td) => {
                attrs_lines(&mut out, &td.attributes, "");
                let _ = writeln!(out, "{}type {} {{", vis(d.visibility), d.name);
                for s in &td.statements {
                    attrs_lines(&mut out, &s.attributes, "    ");
                    match &s.field {
                        TypeField::Field(v, name, ty) => {
                            let _ = writeln!(out, "    {}{}: {},", vis(*v), name, type_(ty));
                        }
                        TypeField::Vftable(fns) => {
                            out.push_str("    vftable {\n");
                            for f in fns {
                                function(&mut out, f, "        ");
                            }
                            out.push_str("    },\n");
                        }
                    }
                }
                out.push_str("}\n");
            }
            ItemDefinitionInner::Enum(ed) => {
                attrs_lines(&mut out, &ed.attributes, "");
                let _ = writeln!(
                    out,
                    "{}enum {}: {} {{",
                    vis(d.visibility),
                    d.name,
                    type_(&ed.type_)
                );
                for s in &ed.statements {
                    attrs_lines(&mut out, &s.attributes, "    ");
                    match &s.expr {
                        Some(e) => {
                            let _ = writeln!(out, "    {} = {},", s.name, expr(e));
                        }
                        None => {
                            let _ = writeln!(out, "    {},", s.name);
                        }
                    }
                }
                out.push_str("}\n");
            }
        }
    }
    for b in &m.impls {
        attrs_lines(&mut out, &b.attributes, "");
        let _ = writeln!(out, "impl {} {{", b.name);
        for f in &b.functions {
            function(&mut out, f, "    ");
        }
        out.push_str("}\n");
    }
    for b in &m.backends {
        let _ = writeln!(out, "backend {} {{", b.name);
        if let Some(p) = &b.prologue {
            let _ = writeln!(out, "    prologue {};", raw_string(p));
        }
        if let Some(e) = &b.epilogue {
            let _ = writeln!(out, "    epilogue {};", raw_string(e));
        }
        out.push_str("}\n");
    }
    out
}

fn vis(v: Visibility) -> &'static str {
    match v {
        Visibility::Public => "pub ",
        Visibility::Private => "",
    }
}

fn path(p: &ItemPath) -> String {
    p.iter().map(|s| s.as_str()).collect::<Vec<_>>().join("::")
}

fn type_(t: &Type) -> String {
    match t {
        Type::ConstPointer(t) => format!("*const {}", type_(t)),
        Type::MutPointer(t) => format!("*mut {}", type_(t)),
        Type::Array(t, n) => format!("[{}; {}]", type_(t), n),
        Type::Ident(i) => i.as_str().to_string(),
        Type::Unknown(n) => format!("unknown<{n}>"),
    }
}

fn expr(e: &Expr) -> String {
    match e {
        Expr::IntLiteral(n) => n.to_string(),
        Expr::StringLiteral(s) => string_literal(s),
        Expr::Ident(i) => i.as_str().to_string(),
    }
}

fn attr_body(a: &Attribute) -> String {
    match a {
        Attribute::Ident(n) => n.as_str().to_string(),
        Attribute::Function(n, exprs) => format!(
            "{}({})",
            n,
            exprs.iter().map(expr).collect::<Vec<_>>().join(", ")
        ),
        Attribute::Assign(n, e) => format!("{} = {}", n, expr(e)),
    }
}

fn attrs_lines(out: &mut String, attrs: &Attributes, indent: &str) {
    for a in attrs {
        let _ = writeln!(out, "{indent}#[{}]", attr_body(a));
    }
}

fn function(out: &mut String, f: &Function, indent: &str) {
    attrs_lines(out, &f.attributes, indent);
    let args = f
        .arguments
        .iter()
        .map(|a| match a {
            Argument::ConstSelf => "&self".to_string(),
            Argument::MutSelf => "&mut self".to_string(),
            Argument::Named(n, t) => format!("{}: {}", n, type_(t)),
        })
        .collect::<Vec<_>>()
        .join(", ");
    let _ = write!(out, "{indent}{}fn {}({})", vis(f.visibility), f.name, args);
    if let Some(r) = &f.return_type {
        let _ = write!(out, " -> {}", type_(r));
    }
    out.push_str(";\n");
}

/// A cooked Rust string literal.
fn string_literal(s: &str) -> String {
    let mut out = String::from("\"");
    for c in s.chars() {
        match c {
            '"' => out.push_str("\\\""),
            '\\' => out.push_str("\\\\"),
            '\n' => out.push_str("\\n"),
            '\r' => out.push_str("\\r"),
            '\t' => out.push_str("\\t"),
            '\0' => out.push_str("\\0"),
            c if c.is_control() => {
                let _ = write!(out, "\\u{{{:x}}}", c as u32);
            }
            c => out.push(c),
        }
    }
    out.push('"');
    out
}

/// A raw string literal with enough `#`s; falls back to a cooked literal when the text
/// contains a carriage return (not allowed in raw strings).
fn raw_string(s: &str) -> String {
    if s.contains('\r') {
        return string_literal(s);
    }
    let mut longest = 0usize;
    let mut chars = s.chars().peekable();
    while let Some(c) = chars.next() {
        if c == '"' {
            let mut run = 0;
            while chars.peek() == Some(&'#') {
                chars.next();
                run += 1;
            }
            longest = longest.max(run + 1);
        }
    }
    let hashes = "#".repeat(longest.max(1));
    format!("r{hashes}\"{s}\"{hashes}")
}
