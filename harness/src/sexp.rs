//! S-expression reader/writer, PROTOCOL.md section 1.

use std::fmt::Write as _;

#[derive(Debug, Clone, PartialEq, Eq)]
pub enum Sexp {
    Int(i128),
    Sym(String),
    Str(String),
    List(Vec<Sexp>),
}

// ---- construction helpers -------------------------------------------------

pub fn sym(s: &str) -> Sexp {
    Sexp::Sym(s.to_string())
}
pub fn st(s: impl AsRef<str>) -> Sexp {
    Sexp::Str(s.as_ref().to_string())
}
pub fn int(n: impl TryInto<i128>) -> Sexp {
    Sexp::Int(n.try_into().unwrap_or(i128::MAX))
}
pub fn boolean(b: bool) -> Sexp {
    Sexp::Int(if b { 1 } else { 0 })
}
/// `(head item*)`
pub fn tagged(head: &str, items: impl IntoIterator<Item = Sexp>) -> Sexp {
    let mut v = vec![sym(head)];
    v.extend(items);
    Sexp::List(v)
}
pub fn opt(x: Option<Sexp>) -> Sexp {
    match x {
        None => sym("none"),
        Some(x) => tagged("some", [x]),
    }
}

// ---- accessors ------------------------------------------------------------

impl Sexp {
    pub fn as_list(&self) -> Result<&[Sexp], String> {
        match self {
            Sexp::List(v) => Ok(v),
            other => Err(format!("expected a list, found {other}")),
        }
    }
    pub fn as_str(&self) -> Result<&str, String> {
        match self {
            Sexp::Str(s) => Ok(s),
            other => Err(format!("expected a string, found {other}")),
        }
    }
    pub fn as_int(&self) -> Result<i128, String> {
        match self {
            Sexp::Int(n) => Ok(*n),
            other => Err(format!("expected an integer, found {other}")),
        }
    }
    pub fn as_sym(&self) -> Result<&str, String> {
        match self {
            Sexp::Sym(s) => Ok(s),
            other => Err(format!("expected a symbol, found {other}")),
        }
    }
    /// The head symbol of a list, if it has one.
    pub fn head(&self) -> Option<&str> {
        match self {
            Sexp::List(v) => match v.first() {
                Some(Sexp::Sym(s)) => Some(s),
                _ => None,
            },
            _ => None,
        }
    }
    /// Expects `(head …)` and returns the elements after the head.
    pub fn expect(&self, head: &str) -> Result<&[Sexp], String> {
        if self.head() == Some(head) {
            Ok(&self.as_list()?[1..])
        } else {
            Err(format!("expected ({head} ...), found {self}"))
        }
    }
}

// ---- writer ---------------------------------------------------------------

impl std::fmt::Display for Sexp {
    fn fmt(&self, f: &mut std::fmt::Formatter<'_>) -> std::fmt::Result {
        let mut out = String::new();
        write_sexp(&mut out, self);
        f.write_str(&out)
    }
}

pub fn write_sexp(out: &mut String, s: &Sexp) {
    match s {
        Sexp::Int(n) => {
            let _ = write!(out, "{n}");
        }
        Sexp::Sym(s) => out.push_str(s),
        Sexp::Str(s) => write_str(out, s),
        Sexp::List(items) => {
            out.push('(');
            for (i, item) in items.iter().enumerate() {
                if i > 0 {
                    out.push(' ');
                }
                write_sexp(out, item);
            }
            out.push(')');
        }
    }
}

fn write_str(out: &mut String, s: &str) {
    out.push('"');
    for &b in s.as_bytes() {
        match b {
            b'"' => out.push_str("\\\""),
            b'\\' => out.push_str("\\\\"),
            0x20..=0x7E => out.push(b as char),
            _ => {
                let _ = write!(out, "\\x{b:02X}");
            }
        }
    }
    out.push('"');
}

// ---- reader ---------------------------------------------------------------

struct Reader<'a> {
    bytes: &'a [u8],
    pos: usize,
}

/// Parses exactly one S-expression from a line (surrounding blanks allowed).
pub fn parse_line(line: &str) -> Result<Sexp, String> {
    let mut r = Reader {
        bytes: line.as_bytes(),
        pos: 0,
    };
    r.skip_ws();
    let s = r.parse()?;
    r.skip_ws();
    if r.pos != r.bytes.len() {
        return Err(format!("trailing input at byte {}", r.pos));
    }
    Ok(s)
}

impl Reader<'_> {
    fn skip_ws(&mut self) {
        while self.pos < self.bytes.len() && matches!(self.bytes[self.pos], b' ' | b'\t' | b'\r') {
            self.pos += 1;
        }
    }

    fn parse(&mut self) -> Result<Sexp, String> {
        // Iterative on lists to keep the stack flat for deep inputs.
        let mut stack: Vec<Vec<Sexp>> = vec![];
        loop {
            self.skip_ws();
            let Some(&c) = self.bytes.get(self.pos) else {
                return Err("unexpected end of line".to_string());
            };
            let atom = match c {
                b'(' => {
                    self.pos += 1;
                    stack.push(vec![]);
                    continue;
                }
                b')' => {
                    self.pos += 1;
                    let Some(done) = stack.pop() else {
                        return Err(format!("unbalanced ')' at byte {}", self.pos - 1));
                    };
                    Sexp::List(done)
                }
                b'"' => self.parse_str()?,
                b'-' | b'0'..=b'9' => self.parse_int()?,
                b'A'..=b'Z' | b'a'..=b'z' | b'_' => self.parse_sym(),
                other => {
                    return Err(format!(
                        "unexpected byte 0x{other:02X} at byte {}",
                        self.pos
                    ))
                }
            };
            match stack.last_mut() {
                Some(top) => top.push(atom),
                None => return Ok(atom),
            }
        }
    }

    fn at_delimiter(&self) -> bool {
        match self.bytes.get(self.pos) {
            None => true,
            Some(b) => matches!(b, b' ' | b'\t' | b'\r' | b'(' | b')' | b'"'),
        }
    }

    fn parse_int(&mut self) -> Result<Sexp, String> {
        let start = self.pos;
        if self.bytes[self.pos] == b'-' {
            self.pos += 1;
        }
        let digits_start = self.pos;
        while self.pos < self.bytes.len() && self.bytes[self.pos].is_ascii_digit() {
            self.pos += 1;
        }
        if self.pos == digits_start || !self.at_delimiter() {
            return Err(format!("malformed integer at byte {start}"));
        }
        let text = std::str::from_utf8(&self.bytes[start..self.pos]).unwrap();
        text.parse::<i128>()
            .map(Sexp::Int)
            .map_err(|_| format!("integer out of the i128 range at byte {start}"))
    }

    fn parse_sym(&mut self) -> Sexp {
        let start = self.pos;
        while self.pos < self.bytes.len()
            && matches!(self.bytes[self.pos], b'A'..=b'Z' | b'a'..=b'z' | b'0'..=b'9' | b'_' | b'-')
        {
            self.pos += 1;
        }
        Sexp::Sym(String::from_utf8_lossy(&self.bytes[start..self.pos]).into_owned())
    }

    fn parse_str(&mut self) -> Result<Sexp, String> {
        let start = self.pos;
        self.pos += 1; // opening quote
        let mut out: Vec<u8> = vec![];
        loop {
            let Some(&b) = self.bytes.get(self.pos) else {
                return Err(format!("unterminated string starting at byte {start}"));
            };
            self.pos += 1;
            match b {
                b'"' => break,
                b'\\' => {
                    let Some(&e) = self.bytes.get(self.pos) else {
                        return Err(format!("unterminated escape in string at byte {start}"));
                    };
                    self.pos += 1;
                    match e {
                        b'"' => out.push(b'"'),
                        b'\\' => out.push(b'\\'),
                        b'n' => out.push(b'\n'),
                        b'r' => out.push(b'\r'),
                        b't' => out.push(b'\t'),
                        b'x' => {
                            let hex = self
                                .bytes
                                .get(self.pos..self.pos + 2)
                                .filter(|h| h.iter().all(|c| c.is_ascii_hexdigit()))
                                .and_then(|h| std::str::from_utf8(h).ok())
                                .and_then(|h| u8::from_str_radix(h, 16).ok())
                                .ok_or_else(|| {
                                    format!("malformed \\x escape at byte {}", self.pos - 2)
                                })?;
                            self.pos += 2;
                            out.push(hex);
                        }
                        other => {
                            return Err(format!(
                                "unknown escape \\{} at byte {}",
                                other as char,
                                self.pos - 2
                            ))
                        }
                    }
                }
                0x20..=0x7E => out.push(b),
                other => {
                    return Err(format!(
                        "unescaped byte 0x{other:02X} in string at byte {}",
                        self.pos - 1
                    ))
                }
            }
        }
        String::from_utf8(out)
            .map(Sexp::Str)
            .map_err(|_| format!("string starting at byte {start} is not valid UTF-8"))
    }
}
