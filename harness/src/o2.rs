//! O2: resolve observer (in-process `SemanticState`).

use std::{collections::BTreeSet, path::Path};

use pyxis::{
    grammar::ItemPath,
    semantic::{
        types::{
            Argument, EnumDefinition, Function, FunctionBody, ItemCategory, ItemDefinition,
            ItemDefinitionInner, ItemState, Region, Type, TypeDefinition, Visibility,
        },
        ResolvedSemanticState, SemanticState,
    },
};

use crate::{
    case::{path_sexp, Case, ModEnt},
    common::{first_200, guarded, path_from_display, HookGuard},
    sexp::{boolean, int, opt, st, sym, tagged, Sexp},
};

pub fn observe(case: &Case) -> Sexp {
    guarded(|| {
        let _hook = HookGuard::install(case);
        match run(case) {
            Ok(resolved) => dump(&resolved),
            Err(e) => tagged("err", [classify(&format!("{e:#}"))]),
        }
    })
}

fn run(case: &Case) -> anyhow::Result<ResolvedSemanticState> {
    let mut state = SemanticState::new(case.ps);
    for ent in &case.modules {
        match ent {
            ModEnt::Ast { path, module, .. } => state.add_module(module, path)?,
            ModEnt::Text { file, text } => {
                let module = pyxis::parser::parse_str(text).map_err(|e| {
                    let start = e.span().start();
                    anyhow::Error::new(e).context(format!(
                        "failed to parse {}:{}:{}",
                        file,
                        start.line,
                        start.column + 1
                    ))
                })?;
                state.add_module(&module, &ItemPath::from_path(Path::new(file)))?;
            }
        }
    }
    state.build()
}

const NONTERM: &str = "type resolution will not terminate, failed on types: [";

pub fn classify(text: &str) -> Sexp {
    if let Some(pos) = text.find(NONTERM) {
        if let Some(mut paths) = parse_quoted_list(&text[pos + NONTERM.len()..]) {
            paths.sort();
            return tagged("nonterm", paths.iter().map(path_sexp));
        }
    }
    tagged("other", [st(first_200(text))])
}

/// Parses `"a::b", "c"]…` (the `{:?}` of a `Vec<String>`, after the opening bracket).
fn parse_quoted_list(rest: &str) -> Option<Vec<ItemPath>> {
    let mut paths = vec![];
    let mut chars = rest.chars();
    loop {
        match chars.next()? {
            ']' => return Some(paths),
            ',' | ' ' => {}
            '"' => {
                let mut item = String::new();
                loop {
                    match chars.next()? {
                        '"' => break,
                        '\\' => item.push(chars.next()?),
                        c => item.push(c),
                    }
                }
                paths.push(path_from_display(&item));
            }
            _ => return None,
        }
    }
}

fn dump(resolved: &ResolvedSemanticState) -> Sexp {
    let registry = resolved.type_registry();

    let mut paths: BTreeSet<&ItemPath> = BTreeSet::new();
    for module in resolved.modules().values() {
        paths.extend(module.definition_paths());
    }
    let items = paths
        .into_iter()
        .filter_map(|p| registry.get(p))
        .filter(|d| d.category != ItemCategory::Predefined)
        .map(item_sexp);

    let mut xvals = vec![];
    let mut module_paths: Vec<&ItemPath> = resolved.modules().keys().collect();
    module_paths.sort();
    for mp in module_paths {
        let mut evs: Vec<_> = resolved.modules()[mp].verif_extern_values().iter().collect();
        evs.sort_by(|a, b| a.name.cmp(&b.name)); // stable: ties keep source order
        for ev in evs {
            xvals.push(tagged(
                "xvr",
                [
                    path_sexp(mp),
                    vis_sexp(ev.visibility),
                    st(&ev.name),
                    type_sexp(&ev.type_),
                    int(ev.address),
                ],
            ));
        }
    }

    tagged(
        "resolved",
        [tagged("items", items), tagged("xvals", xvals)],
    )
}

fn vis_sexp(v: Visibility) -> Sexp {
    sym(match v {
        Visibility::Public => "pub",
        Visibility::Private => "priv",
    })
}

fn optstr(s: Option<&str>) -> Sexp {
    opt(s.map(st))
}
fn optn(n: Option<usize>) -> Sexp {
    opt(n.map(int))
}

fn type_sexp(t: &Type) -> Sexp {
    match t {
        Type::Unresolved(_) => tagged("unresolved", []),
        Type::Raw(p) => tagged("raw", [path_sexp(p)]),
        Type::ConstPointer(t) => tagged("cptr", [type_sexp(t)]),
        Type::MutPointer(t) => tagged("mptr", [type_sexp(t)]),
        Type::Array(t, n) => tagged("arr", [type_sexp(t), int(*n)]),
        Type::Function(cc, args, ret) => tagged(
            "fnp",
            [
                st(cc.as_str()),
                tagged(
                    "args",
                    args.iter()
                        .map(|(n, t)| tagged("a", [st(n), type_sexp(t)])),
                ),
                opt(ret.as_ref().map(|t| type_sexp(t))),
            ],
        ),
    }
}

fn fn_sexp(f: &Function) -> Sexp {
    tagged(
        "f",
        [
            vis_sexp(f.visibility),
            st(&f.name),
            optstr(f.doc.as_deref()),
            st(f.calling_convention.as_str()),
            tagged(
                "args",
                f.arguments.iter().map(|a| match a {
                    Argument::ConstSelf => sym("self"),
                    Argument::MutSelf => sym("mutself"),
                    Argument::Field(n, t) => tagged("arg", [st(n), type_sexp(t)]),
                }),
            ),
            opt(f.return_type.as_ref().map(type_sexp)),
            match &f.body {
                FunctionBody::Address { address } => tagged("addr", [int(*address)]),
                FunctionBody::Field {
                    field,
                    function_name,
                } => tagged("field", [st(field), st(function_name)]),
                FunctionBody::Vftable { function_name } => tagged("slot", [st(function_name)]),
            },
        ],
    )
}

fn region_sexp(r: &Region) -> Sexp {
    tagged(
        "r",
        [
            vis_sexp(r.visibility),
            optstr(r.name.as_deref()),
            optstr(r.doc.as_deref()),
            type_sexp(&r.type_ref),
            boolean(r.is_base),
        ],
    )
}

fn type_def_sexp(td: &TypeDefinition) -> Sexp {
    tagged(
        "ty",
        [
            tagged("regions", td.regions.iter().map(region_sexp)),
            optstr(td.doc.as_deref()),
            tagged("fns", td.associated_functions.iter().map(fn_sexp)),
            opt(td.vftable.as_ref().map(|v| {
                tagged(
                    "vft",
                    [
                        tagged("fns", v.functions.iter().map(fn_sexp)),
                        optstr(v.base_field.as_deref()),
                        type_sexp(&v.type_),
                    ],
                )
            })),
            optn(td.singleton),
            tagged(
                "flags",
                [
                    boolean(td.copyable),
                    boolean(td.cloneable),
                    boolean(td.defaultable),
                    boolean(td.packed),
                ],
            ),
        ],
    )
}

fn enum_def_sexp(ed: &EnumDefinition) -> Sexp {
    tagged(
        "en",
        [
            type_sexp(&ed.type_),
            optstr(ed.doc.as_deref()),
            tagged(
                "vals",
                ed.fields
                    .iter()
                    .map(|(n, v)| tagged("v", [st(n), int(*v)])),
            ),
            optn(ed.default_index),
            optn(ed.singleton),
            tagged(
                "flags",
                [
                    boolean(ed.copyable),
                    boolean(ed.cloneable),
                    boolean(ed.defaultable),
                ],
            ),
        ],
    )
}

fn item_sexp(d: &ItemDefinition) -> Sexp {
    let cat = sym(match d.category {
        ItemCategory::Defined => "defined",
        ItemCategory::Extern => "extern",
        ItemCategory::Predefined => "predefined", // filtered out by the caller
    });
    let (size, align, inner) = match &d.state {
        ItemState::Resolved(r) => (
            r.size,
            r.alignment,
            match &r.inner {
                ItemDefinitionInner::Type(td) => type_def_sexp(td),
                ItemDefinitionInner::Enum(ed) => enum_def_sexp(ed),
            },
        ),
        // Cannot happen after a successful build(); see the implementation notes.
        ItemState::Unresolved(_) => (0, 0, tagged("unresolved", [])),
    };
    tagged(
        "item",
        [
            path_sexp(&d.path),
            vis_sexp(d.visibility),
            cat,
            int(size),
            int(align),
            inner,
        ],
    )
}
