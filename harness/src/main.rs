fn main() {}
