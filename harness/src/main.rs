//! `pxharness`: runs the real pyxis crate in-process on CASE lines and prints canonical
//! observation lines (see /verif/PROTOCOL.md).

mod case;
mod common;
mod o1;
#[cfg(feature = "deep")]
mod o2;
mod o3;
mod printer;
mod sexp;

use std::{
    io::{BufRead, Write},
    path::{Path, PathBuf},
    time::{Duration, Instant},
};

use case::Case;
use sexp::{st, sym, tagged, Sexp};

#[derive(Clone, Copy, PartialEq, Eq)]
enum Point {
    O1,
    O2,
    O3,
}
impl Point {
    fn name(self) -> &'static str {
        match self {
            Point::O1 => "o1",
            Point::O2 => "o2",
            Point::O3 => "o3",
        }
    }
}

struct Opts {
    points: Vec<Point>,
    isolate: bool,
    timeout_ms: u64,
    work: PathBuf,
}

const USAGE: &str = "usage:
  pxharness run --points o1,o2,o3 [--isolate] [--timeout-ms N] [--work DIR]   < cases > observations
  pxharness mkcase [--ps N] FILE.pyxis...      (one raw-text case per file, for the self test)";

fn die(msg: &str) -> ! {
    eprintln!("pxharness: {msg}\n{USAGE}");
    std::process::exit(2)
}

fn main() {
    let args: Vec<String> = std::env::args().skip(1).collect();
    match args.first().map(String::as_str) {
        Some("run") => run(parse_run_opts(&args[1..])),
        Some("mkcase") => mkcase(&args[1..]),
        _ => die("expected a subcommand"),
    }
}

fn parse_run_opts(args: &[String]) -> Opts {
    let mut opts = Opts {
        points: vec![Point::O1, Point::O2, Point::O3],
        isolate: false,
        timeout_ms: 5000,
        work: PathBuf::from("/verif/.work/tmp"),
    };
    let mut it = args.iter();
    while let Some(arg) = it.next() {
        let mut value = |name: &str| -> String {
            it.next()
                .cloned()
                .unwrap_or_else(|| die(&format!("{name} needs a value")))
        };
        match arg.as_str() {
            "--points" => {
                let list = value("--points");
                let mut points = vec![];
                // always reported in the order o1, o2, o3
                for p in [Point::O1, Point::O2, Point::O3] {
                    if list.split(',').any(|s| s.trim() == p.name()) {
                        points.push(p);
                    }
                }
                if let Some(bad) = list
                    .split(',')
                    .map(str::trim)
                    .find(|s| !matches!(*s, "o1" | "o2" | "o3"))
                {
                    die(&format!("unknown point {bad:?}"));
                }
                opts.points = points;
            }
            "--isolate" => opts.isolate = true,
            "--timeout-ms" => {
                opts.timeout_ms = value("--timeout-ms")
                    .parse()
                    .unwrap_or_else(|_| die("--timeout-ms needs a number"))
            }
            "--work" => opts.work = PathBuf::from(value("--work")),
            other => die(&format!("unknown argument {other:?}")),
        }
    }
    opts
}

fn obs_line(id: &str, point: Point, obs: Sexp) -> String {
    tagged("obs", [st(id), sym(point.name()), obs]).to_string()
}

fn observe(case: &Case, point: Point, case_dir: &Path) -> Sexp {
    match point {
        Point::O1 => common::guarded(|| o1::observe(case)),
        #[cfg(feature = "deep")]
        Point::O2 => o2::observe(case),
        #[cfg(not(feature = "deep"))]
        Point::O2 => sexp::tagged("unavailable", []),
        Point::O3 => o3::observe(case, case_dir),
    }
}

fn run(opts: Opts) {
    std::panic::set_hook(Box::new(|_| {}));
    let stdin = std::io::stdin();
    let stdout = std::io::stdout();
    let mut seq = 0u64;
    for line in stdin.lock().split(b'\n') {
        let Ok(line) = line else { break };
        let line = String::from_utf8_lossy(&line);
        let line = line.trim();
        if line.is_empty() || line.starts_with(';') {
            continue;
        }
        let mut out = stdout.lock();
        let case = match sexp::parse_line(line).and_then(|s| {
            case::decode_case(&s).map_err(|e| match case::peek_id(&s) {
                Some(id) => format!("case {id:?}: {e}"),
                None => e,
            })
        }) {
            Ok(case) => case,
            Err(msg) => {
                let _ = writeln!(out, "{}", tagged("obs", [st("?"), sym("error"), st(msg)]));
                let _ = out.flush();
                continue;
            }
        };
        seq += 1;
        let case_dir = opts.work.join(format!("c{}-{}", std::process::id(), seq));
        let lines = if opts.isolate {
            run_isolated(&case, &opts, &case_dir)
        } else {
            opts.points
                .iter()
                .map(|&p| obs_line(&case.id, p, observe(&case, p, &case_dir)))
                .collect()
        };
        let _ = std::fs::remove_dir_all(&case_dir);
        for l in lines {
            let _ = writeln!(out, "{l}");
        }
        let _ = out.flush();
    }
}

// ---- --isolate ---------------------------------------------------------------

const ADDRESS_SPACE_LIMIT: libc::rlim_t = 2 << 30;

fn run_isolated(case: &Case, opts: &Opts, case_dir: &Path) -> Vec<String> {
    let _ = std::io::stdout().flush();
    let _ = std::io::stderr().flush();

    let mut fds = [0 as libc::c_int; 2];
    if unsafe { libc::pipe(fds.as_mut_ptr()) } != 0 {
        return fill_missing(case, opts, vec![], "abort");
    }
    let (rfd, wfd) = (fds[0], fds[1]);

    let pid = unsafe { libc::fork() };
    if pid < 0 {
        unsafe {
            libc::close(rfd);
            libc::close(wfd);
        }
        return fill_missing(case, opts, vec![], "abort");
    }
    if pid == 0 {
        // child: one line per point, written as soon as it is known
        unsafe {
            libc::close(rfd);
            let lim = libc::rlimit {
                rlim_cur: ADDRESS_SPACE_LIMIT,
                rlim_max: ADDRESS_SPACE_LIMIT,
            };
            libc::setrlimit(libc::RLIMIT_AS, &lim);
        }
        for &p in &opts.points {
            let mut line = obs_line(&case.id, p, observe(case, p, case_dir));
            line.push('\n');
            let mut bytes = line.as_bytes();
            while !bytes.is_empty() {
                let n = unsafe { libc::write(wfd, bytes.as_ptr().cast(), bytes.len()) };
                if n <= 0 {
                    unsafe { libc::_exit(3) };
                }
                bytes = &bytes[n as usize..];
            }
        }
        unsafe { libc::_exit(0) };
    }

    // parent
    unsafe { libc::close(wfd) };
    let deadline = Instant::now() + Duration::from_millis(opts.timeout_ms);
    let mut buf: Vec<u8> = vec![];
    let mut timed_out = false;
    loop {
        let remaining = deadline.saturating_duration_since(Instant::now());
        if remaining.is_zero() {
            timed_out = true;
            break;
        }
        let mut pfd = libc::pollfd {
            fd: rfd,
            events: libc::POLLIN,
            revents: 0,
        };
        let ms = remaining.as_millis().clamp(1, i32::MAX as u128) as libc::c_int;
        let r = unsafe { libc::poll(&mut pfd, 1, ms) };
        if r < 0 {
            if std::io::Error::last_os_error().kind() == std::io::ErrorKind::Interrupted {
                continue;
            }
            break;
        }
        if r == 0 {
            continue; // deadline is re-checked at the top
        }
        let mut chunk = [0u8; 65536];
        let n = unsafe { libc::read(rfd, chunk.as_mut_ptr().cast(), chunk.len()) };
        if n < 0 {
            if std::io::Error::last_os_error().kind() == std::io::ErrorKind::Interrupted {
                continue;
            }
            break;
        }
        if n == 0 {
            break; // end of file: the child is gone (or going)
        }
        buf.extend_from_slice(&chunk[..n as usize]);
    }
    unsafe { libc::close(rfd) };

    // reap the child, killing it at the deadline
    let mut status: libc::c_int = 0;
    loop {
        let r = unsafe { libc::waitpid(pid, &mut status, libc::WNOHANG) };
        if r == pid {
            break;
        }
        if r < 0 && std::io::Error::last_os_error().kind() != std::io::ErrorKind::Interrupted {
            break;
        }
        if timed_out || Instant::now() >= deadline {
            timed_out = true;
            unsafe {
                libc::kill(pid, libc::SIGKILL);
                libc::waitpid(pid, &mut status, 0);
            }
            break;
        }
        std::thread::sleep(Duration::from_millis(1));
    }

    // complete lines only
    let text = String::from_utf8_lossy(&buf);
    let mut lines: Vec<String> = vec![];
    let mut rest: &str = &text;
    while let Some(pos) = rest.find('\n') {
        lines.push(rest[..pos].to_string());
        rest = &rest[pos + 1..];
    }
    fill_missing(case, opts, lines, if timed_out { "timeout" } else { "abort" })
}

/// The lines the child managed to deliver, then `(timeout)` / `(panic "abort")` for the
/// points it did not reach.
fn fill_missing(case: &Case, opts: &Opts, mut lines: Vec<String>, why: &str) -> Vec<String> {
    lines.truncate(opts.points.len());
    for &p in &opts.points[lines.len()..] {
        let obs = if why == "timeout" {
            tagged("timeout", [])
        } else {
            tagged("panic", [st("abort")])
        };
        lines.push(obs_line(&case.id, p, obs));
    }
    lines
}

// ---- mkcase ------------------------------------------------------------------

fn mkcase(args: &[String]) {
    let mut ps = 4usize;
    let mut files = vec![];
    let mut it = args.iter();
    while let Some(arg) = it.next() {
        if arg == "--ps" {
            ps = it
                .next()
                .and_then(|v| v.parse().ok())
                .unwrap_or_else(|| die("--ps needs a number"));
        } else {
            files.push(arg.clone());
        }
    }
    for f in files {
        let path = Path::new(&f);
        let text = std::fs::read_to_string(path)
            .unwrap_or_else(|e| die(&format!("cannot read {f}: {e}")));
        let name = path
            .file_name()
            .map(|n| n.to_string_lossy().into_owned())
            .unwrap_or_else(|| die("bad file name"));
        let id = path
            .file_stem()
            .map(|n| n.to_string_lossy().into_owned())
            .unwrap_or_default();
        println!("{}", case::text_case_sexp(&id, ps, &[(name, text)]));
    }
}
