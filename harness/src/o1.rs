//! O1: parse observer.

use crate::{
    case::{module_sexp, Case, ModEnt},
    printer::print_module,
    sexp::{int, st, tagged, Sexp},
};

/// The text handed to the real parser for a module entry.
pub fn text_of(ent: &ModEnt) -> String {
    match ent {
        ModEnt::Ast { module, .. } => print_module(module),
        ModEnt::Text { text, .. } => text.clone(),
    }
}

pub fn observe(case: &Case) -> Sexp {
    let mut results = vec![];
    for ent in &case.modules {
        let text = text_of(ent);
        match pyxis::parser::parse_str(&text) {
            Ok(parsed) => {
                if let ModEnt::Ast { module, file, .. } = ent {
                    if &parsed != module {
                        eprintln!(
                            "pxharness: WARNING: case {:?} file {:?}: parse(print(ast)) != ast (printer round trip failed)",
                            case.id, file
                        );
                    }
                }
                results.push(tagged("parsed", [st(ent.file()), module_sexp(&parsed)]));
            }
            Err(e) => {
                if let ModEnt::Ast { file, .. } = ent {
                    eprintln!(
                        "pxharness: WARNING: case {:?} file {:?}: printed AST does not parse: {e}",
                        case.id, file
                    );
                }
                let start = e.span().start();
                results.push(tagged(
                    "perr",
                    [st(ent.file()), int(start.line), int(start.column)],
                ));
            }
        }
    }
    tagged("o1", results)
}
