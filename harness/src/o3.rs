//! O3: emit observer (`pyxis::build` on real directories, output re-parsed with `syn`).
//!
//! Template matching works in two steps: the parameters of a shape (names, types, the
//! address literal, …) are dug out of the `syn` tree structurally, then the shape is rebuilt
//! from those parameters with `quote!` and its token string is compared with the token
//! string of the node (modulo trailing commas, which prettyplease inserts when it breaks a
//! list over several lines).  Anything that does not compare equal stays `(opaque …)` /
//! `(raw …)`.

use std::path::Path;

use proc_macro2::{Group, TokenStream, TokenTree};
use quote::{quote, ToTokens};
use syn::{
    punctuated::Punctuated, Attribute, Block, Expr, FnArg, GenericArgument, ImplItem, ImplItemFn,
    Item, ItemConst, ItemEnum, ItemFn, ItemImpl, ItemStruct, Lit, LitInt, Member, Meta, Pat,
    PathArguments, ReturnType, Stmt, Token, Type, UnOp,
};

use crate::{
    case::{Case, ModEnt},
    common::{first_200, guarded, HookGuard},
    o1::text_of,
    sexp::{boolean, int, opt, st, sym, tagged, Sexp},
};

// ---- driver ------------------------------------------------------------------

pub fn observe(case: &Case, dir: &Path) -> Sexp {
    let in_dir = dir.join("in");
    let out_dir = dir.join("out");
    let obs = guarded(|| {
        if let Err(e) = write_inputs(case, &in_dir, &out_dir) {
            return tagged("err", [st(format!("harness: {e:#}"))]);
        }
        let result = {
            let _hook = HookGuard::install(case);
            if case.api_order {
                build_in_case_order(case, &in_dir, &out_dir)
            } else {
                pyxis::build(&in_dir, &out_dir, case.ps)
            }
        };
        match result {
            Err(e) => tagged("err", [st(format!("{e:#}"))]),
            Ok(()) => {
                let mut files = vec![];
                collect_files(&out_dir, "", &mut files);
                files.sort_by(|a, b| a.0.as_bytes().cmp(b.0.as_bytes()));
                tagged(
                    "files",
                    files.into_iter().map(|(rel, bytes)| file_sexp(&rel, &bytes)),
                )
            }
        }
    });
    // Error and panic texts must not mention the per-process scratch directory.
    match (obs.head(), &obs) {
        (Some(head @ ("err" | "panic")), Sexp::List(items)) => match items.get(1) {
            Some(Sexp::Str(text)) => {
                let text = text
                    .replace(&in_dir.display().to_string(), "<in>")
                    .replace(&out_dir.display().to_string(), "<out>");
                tagged(head, [st(first_200(&text))])
            }
            _ => obs,
        },
        _ => obs,
    }
}

/// What `pyxis::build` does, with the files added in the order the case lists them (the property quantifies over
/// the order in which modules are added; `pyxis::build` itself always adds them in sorted order).
fn build_in_case_order(case: &Case, in_dir: &Path, out_dir: &Path) -> anyhow::Result<()> {
    let mut state = pyxis::semantic::SemanticState::new(case.ps);
    for ent in &case.modules {
        let file: &str = match ent {
            ModEnt::Ast { file, .. } | ModEnt::Text { file, .. } => file,
        };
        state.add_file(in_dir, &in_dir.join(file))?;
    }
    let resolved = state.build()?;
    for (key, module) in resolved.modules() {
        pyxis::backends::rust::write_module(out_dir, key, &resolved, module)?;
    }
    Ok(())
}

fn write_inputs(case: &Case, in_dir: &Path, out_dir: &Path) -> anyhow::Result<()> {
    std::fs::create_dir_all(in_dir)?;
    std::fs::create_dir_all(out_dir)?;
    for ent in &case.modules {
        let file: &str = match ent {
            ModEnt::Ast { file, .. } | ModEnt::Text { file, .. } => file,
        };
        let path = in_dir.join(file);
        if let Some(parent) = path.parent() {
            std::fs::create_dir_all(parent)?;
        }
        std::fs::write(&path, text_of(ent))?;
    }
    Ok(())
}

fn collect_files(dir: &Path, prefix: &str, out: &mut Vec<(String, Vec<u8>)>) {
    let Ok(entries) = std::fs::read_dir(dir) else {
        return;
    };
    for entry in entries.flatten() {
        let name = entry.file_name().to_string_lossy().into_owned();
        let rel = if prefix.is_empty() {
            name
        } else {
            format!("{prefix}/{name}")
        };
        let path = entry.path();
        if path.is_dir() {
            collect_files(&path, &rel, out);
        } else if let Ok(bytes) = std::fs::read(&path) {
            out.push((rel, bytes));
        }
    }
}

fn fnv1a64(bytes: &[u8]) -> u64 {
    let mut h: u64 = 0xcbf29ce484222325;
    for &b in bytes {
        h ^= b as u64;
        h = h.wrapping_mul(0x100000001b3);
    }
    h
}

fn file_sexp(rel: &str, bytes: &[u8]) -> Sexp {
    let body = std::str::from_utf8(bytes)
        .ok()
        .and_then(|text| syn::parse_file(text).ok())
        .map(|file| {
            let inner = file.attrs.iter().map(|a| match doc_value(a) {
                Some(line) => tagged("doc", [st(line)]),
                None => tagged("attr", [st(tok(a))]),
            });
            tagged(
                "rs",
                std::iter::once(tagged("inner", inner)).chain(file.items.iter().map(item_sexp)),
            )
        })
        .unwrap_or_else(|| tagged("unparsable", []));
    // with PXHARNESS_TEXT set the raw text is included too (used by the checks that hand the
    // emitted files to the real Rust compiler)
    let mut parts = vec![
        st(rel),
        tagged("hash", [st(format!("{:016x}", fnv1a64(bytes)))]),
    ];
    if std::env::var_os("PXHARNESS_TEXT").is_some() {
        parts.push(tagged("text", [st(String::from_utf8_lossy(bytes).into_owned())]));
    }
    parts.push(body);
    tagged("file", parts)
}

// ---- token helpers -------------------------------------------------------------

fn tok(t: &impl ToTokens) -> String {
    t.to_token_stream().to_string()
}

/// Drops every `,` that is the last token of a group or is directly followed by `>`.
fn strip_trailing_commas(ts: TokenStream) -> TokenStream {
    let trees: Vec<TokenTree> = ts.into_iter().collect();
    let mut out = vec![];
    for (i, tt) in trees.iter().enumerate() {
        match tt {
            TokenTree::Punct(p) if p.as_char() == ',' => {
                let dropped = match trees.get(i + 1) {
                    None => true,
                    Some(TokenTree::Punct(n)) => n.as_char() == '>',
                    Some(_) => false,
                };
                if !dropped {
                    out.push(tt.clone());
                }
            }
            TokenTree::Group(g) => {
                let inner = strip_trailing_commas(g.stream());
                out.push(TokenTree::Group(Group::new(g.delimiter(), inner)));
            }
            other => out.push(other.clone()),
        }
    }
    out.into_iter().collect()
}

/// Token equality modulo trailing commas.
fn same(node: &impl ToTokens, template: TokenStream) -> bool {
    strip_trailing_commas(node.to_token_stream()).to_string()
        == strip_trailing_commas(template).to_string()
}

fn lit_int(e: &Expr) -> Option<(i128, &LitInt)> {
    match e {
        Expr::Lit(l) if l.attrs.is_empty() => match &l.lit {
            Lit::Int(i) => Some((i.base10_parse::<i128>().ok()?, i)),
            _ => None,
        },
        _ => None,
    }
}

fn is_self(e: &Expr) -> bool {
    matches!(e, Expr::Path(p) if p.attrs.is_empty() && p.qself.is_none() && p.path.is_ident("self"))
}

fn simple_type_ident(t: &Type) -> Option<&syn::Ident> {
    match t {
        Type::Path(p) if p.qself.is_none() => p.path.get_ident(),
        _ => None,
    }
}

fn vis_sexp(v: &syn::Visibility) -> Option<Sexp> {
    match v {
        syn::Visibility::Public(_) => Some(sym("pub")),
        syn::Visibility::Inherited => Some(sym("priv")),
        syn::Visibility::Restricted(_) => None,
    }
}

fn no_generics(g: &syn::Generics) -> bool {
    g.lt_token.is_none() && g.params.is_empty() && g.where_clause.is_none()
}

// ---- attributes ------------------------------------------------------------------

fn doc_value(a: &Attribute) -> Option<String> {
    let Meta::NameValue(nv) = &a.meta else {
        return None;
    };
    if !nv.path.is_ident("doc") {
        return None;
    }
    match &nv.value {
        Expr::Lit(l) if l.attrs.is_empty() => match &l.lit {
            Lit::Str(s) => Some(s.value()),
            _ => None,
        },
        _ => None,
    }
}

#[derive(Default)]
struct Attrs {
    docs: Vec<String>,
    derives: Vec<String>,
    repr: Vec<String>,
    default: bool,
}
impl Attrs {
    fn docs_sexp(&self) -> Sexp {
        tagged("docs", self.docs.iter().map(st))
    }
}

/// Sorts outer attributes into docs / derives / repr arguments / `#[default]`; `None` when
/// an attribute is not one of `allowed` or is not of the expected form.
fn classify_attrs(attrs: &[Attribute], allowed: &[&str]) -> Option<Attrs> {
    let mut out = Attrs::default();
    for a in attrs {
        if !matches!(a.style, syn::AttrStyle::Outer) {
            return None;
        }
        let name = a.path().get_ident()?.to_string();
        if !allowed.contains(&name.as_str()) {
            return None;
        }
        match name.as_str() {
            "doc" => out.docs.push(doc_value(a)?),
            "derive" => {
                let paths = a
                    .parse_args_with(Punctuated::<syn::Path, Token![,]>::parse_terminated)
                    .ok()?;
                out.derives.extend(paths.iter().map(tok));
            }
            "repr" => {
                let Meta::List(l) = &a.meta else { return None };
                if !matches!(l.delimiter, syn::MacroDelimiter::Paren(_)) {
                    return None;
                }
                let mut current = TokenStream::new();
                let mut pieces = vec![];
                for tt in l.tokens.clone() {
                    match &tt {
                        TokenTree::Punct(p) if p.as_char() == ',' => {
                            pieces.push(std::mem::take(&mut current));
                        }
                        _ => current.extend([tt]),
                    }
                }
                if !current.is_empty() {
                    pieces.push(current);
                }
                for piece in pieces {
                    if piece.is_empty() {
                        return None;
                    }
                    // `C`, `packed`, `align(8)`, `u32`, `crate::m::T`: tokens without blanks;
                    // any other type (pyxis puts the enum base type here): its TY string.
                    out.repr.push(if syn::parse2::<Meta>(piece.clone()).is_ok() {
                        piece.to_string().split_whitespace().collect::<String>()
                    } else if let Ok(t) = syn::parse2::<Type>(piece.clone()) {
                        ty_str(&t)
                    } else {
                        piece.to_string()
                    });
                }
            }
            "default" => {
                if !matches!(a.meta, Meta::Path(_)) || out.default {
                    return None;
                }
                out.default = true;
            }
            _ => return None,
        }
    }
    Some(out)
}

// ---- canonical types ----------------------------------------------------------------

pub fn ty_str(t: &Type) -> String {
    try_ty(t).unwrap_or_else(|| format!("?{}", tok(t)))
}

fn try_ty(t: &Type) -> Option<String> {
    match t {
        Type::Path(p) if p.qself.is_none() => {
            let mut out = String::new();
            if p.path.leading_colon.is_some() {
                out.push_str("::");
            }
            for (i, seg) in p.path.segments.iter().enumerate() {
                if i > 0 {
                    out.push_str("::");
                }
                out.push_str(&seg.ident.to_string());
                match &seg.arguments {
                    PathArguments::None => {}
                    PathArguments::AngleBracketed(ab) => {
                        let args: Vec<String> = ab
                            .args
                            .iter()
                            .map(|a| match a {
                                GenericArgument::Type(t) => ty_str(t),
                                GenericArgument::Lifetime(l) => l.to_string(),
                                other => format!("?{}", tok(other)),
                            })
                            .collect();
                        out.push('<');
                        out.push_str(&args.join(","));
                        out.push('>');
                    }
                    PathArguments::Parenthesized(_) => return None,
                }
            }
            Some(out)
        }
        Type::Ptr(p) => Some(format!(
            "{} {}",
            if p.mutability.is_some() { "*mut" } else { "*const" },
            ty_str(&p.elem)
        )),
        Type::Array(a) => {
            let (n, _) = lit_int(&a.len)?;
            Some(format!("[{};{}]", ty_str(&a.elem), n))
        }
        Type::Reference(r) => {
            let mut out = String::from("&");
            if let Some(l) = &r.lifetime {
                out.push_str(&l.to_string());
                out.push(' ');
            }
            if r.mutability.is_some() {
                out.push_str("mut ");
            }
            out.push_str(&ty_str(&r.elem));
            Some(out)
        }
        Type::BareFn(f) => {
            if f.lifetimes.is_some() || f.variadic.is_some() {
                return None;
            }
            let mut out = String::new();
            if f.unsafety.is_some() {
                out.push_str("unsafe ");
            }
            if let Some(abi) = &f.abi {
                out.push_str("extern ");
                if let Some(name) = &abi.name {
                    out.push_str(&format!("\"{}\" ", name.value()));
                }
            }
            out.push_str("fn(");
            let args: Vec<String> = f
                .inputs
                .iter()
                .map(|a| match &a.name {
                    Some((n, _)) => format!("{}:{}", n, ty_str(&a.ty)),
                    None => ty_str(&a.ty),
                })
                .collect();
            out.push_str(&args.join(","));
            out.push(')');
            if let ReturnType::Type(_, r) = &f.output {
                out.push_str("->");
                out.push_str(&ty_str(r));
            }
            Some(out)
        }
        _ => None,
    }
}

// ---- items ------------------------------------------------------------------------

fn item_sexp(item: &Item) -> Sexp {
    let recognised = match item {
        Item::Struct(s) => struct_item(s),
        Item::Enum(e) => enum_item(e),
        Item::Fn(f) => sizecheck(f).or_else(|| xaccessor(f)),
        Item::Impl(i) => impl_item(i),
        Item::Const(c) => conflict(c),
        _ => None,
    };
    recognised.unwrap_or_else(|| tagged("opaque", [st(tok(item))]))
}

fn struct_item(s: &ItemStruct) -> Option<Sexp> {
    if !no_generics(&s.generics) {
        return None;
    }
    let attrs = classify_attrs(&s.attrs, &["doc", "derive", "repr"])?;
    let syn::Fields::Named(fields) = &s.fields else {
        return None;
    };
    let mut out = vec![
        attrs.docs_sexp(),
        tagged("derives", attrs.derives.iter().map(st)),
        tagged("repr", attrs.repr.iter().map(st)),
        vis_sexp(&s.vis)?,
        st(s.ident.to_string()),
    ];
    for f in &fields.named {
        let fa = classify_attrs(&f.attrs, &["doc"])?;
        out.push(tagged(
            "fld",
            [
                fa.docs_sexp(),
                vis_sexp(&f.vis)?,
                st(f.ident.as_ref()?.to_string()),
                st(ty_str(&f.ty)),
            ],
        ));
    }
    Some(tagged("struct", out))
}

fn enum_item(e: &ItemEnum) -> Option<Sexp> {
    if !no_generics(&e.generics) {
        return None;
    }
    let attrs = classify_attrs(&e.attrs, &["doc", "derive", "repr"])?;
    let mut out = vec![
        attrs.docs_sexp(),
        tagged("derives", attrs.derives.iter().map(st)),
        tagged("repr", attrs.repr.iter().map(st)),
        vis_sexp(&e.vis)?,
        st(e.ident.to_string()),
    ];
    for v in &e.variants {
        let va = classify_attrs(&v.attrs, &["default"])?;
        if !matches!(v.fields, syn::Fields::Unit) {
            return None;
        }
        let value = match &v.discriminant {
            None => None,
            Some((_, Expr::Cast(c))) if c.attrs.is_empty() && matches!(*c.ty, Type::Infer(_)) => {
                match &*c.expr {
                    Expr::Unary(u) if u.attrs.is_empty() && matches!(u.op, UnOp::Neg(_)) => {
                        Some(lit_int(&u.expr)?.0.checked_neg()?)
                    }
                    other => Some(lit_int(other)?.0),
                }
            }
            Some(_) => return None,
        };
        out.push(tagged(
            "var",
            [
                st(v.ident.to_string()),
                opt(value.map(int)),
                boolean(va.default),
            ],
        ));
    }
    Some(tagged("enum", out))
}

/// `fn f() { unsafe { ::std::mem::transmute::<[u8; N], TY>([0u8; N]); } unreachable!() }`
fn sizecheck(f: &ItemFn) -> Option<Sexp> {
    let name = &f.sig.ident;
    let Stmt::Expr(Expr::Unsafe(u), None) = f.block.stmts.first()? else {
        return None;
    };
    let Stmt::Expr(Expr::Call(call), Some(_)) = u.block.stmts.first()? else {
        return None;
    };
    let Expr::Path(func) = &*call.func else {
        return None;
    };
    let PathArguments::AngleBracketed(ab) = &func.path.segments.last()?.arguments else {
        return None;
    };
    let args: Vec<&GenericArgument> = ab.args.iter().collect();
    let [GenericArgument::Type(Type::Array(arr)), GenericArgument::Type(ty)] = args[..] else {
        return None;
    };
    let (n, lit) = lit_int(&arr.len)?;
    let template = quote! {
        fn #name() {
            unsafe {
                ::std::mem::transmute::<[u8; #lit], #ty>([0u8; #lit]);
            }
            unreachable!()
        }
    };
    same(f, template).then(|| {
        tagged(
            "sizecheck",
            [st(name.to_string()), st(ty_str(ty)), int(n)],
        )
    })
}

/// `VIS unsafe fn get_x() -> &'static mut TY { unsafe { &mut *(N as *mut TY) } }`
fn xaccessor(f: &ItemFn) -> Option<Sexp> {
    let vis = &f.vis;
    let name = &f.sig.ident;
    let ReturnType::Type(_, ret) = &f.sig.output else {
        return None;
    };
    let Type::Reference(r) = &**ret else {
        return None;
    };
    let ty = &*r.elem;
    let Stmt::Expr(Expr::Unsafe(u), None) = f.block.stmts.first()? else {
        return None;
    };
    let Stmt::Expr(Expr::Reference(re), None) = u.block.stmts.first()? else {
        return None;
    };
    let Expr::Unary(un) = &*re.expr else {
        return None;
    };
    let Expr::Paren(p) = &*un.expr else {
        return None;
    };
    let Expr::Cast(c) = &*p.expr else {
        return None;
    };
    let (n, lit) = lit_int(&c.expr)?;
    let template = quote! {
        #vis unsafe fn #name() -> &'static mut #ty {
            unsafe { &mut *(#lit as *mut #ty) }
        }
    };
    same(f, template).then(|| {
        Some(tagged(
            "xaccessor",
            [vis_sexp(vis)?, st(name.to_string()), st(ty_str(ty)), int(n)],
        ))
    })?
}

/// `const NAME: () = ();`
fn conflict(c: &ItemConst) -> Option<Sexp> {
    let attrs = classify_attrs(&c.attrs, &["doc"])?;
    let name = &c.ident;
    let bare = ItemConst {
        attrs: vec![],
        ..c.clone()
    };
    same(&bare, quote! { const #name: () = (); })
        .then(|| tagged("conflict", [st(name.to_string()), attrs.docs_sexp()]))
}

fn impl_item(i: &ItemImpl) -> Option<Sexp> {
    let name = simple_type_ident(&i.self_ty)?;
    if i.trait_.is_some() {
        return as_ref_impl(i, name);
    }
    if let Some(s) = singleton_impl(i, name) {
        return Some(s);
    }
    if !i.attrs.is_empty()
        || i.defaultness.is_some()
        || i.unsafety.is_some()
        || !no_generics(&i.generics)
    {
        return None;
    }
    let mut out = vec![st(name.to_string())];
    let mut items = i.items.iter().peekable();
    let acc = match items.peek() {
        Some(ImplItem::Fn(m)) => vftable_accessor(m),
        _ => None,
    };
    if acc.is_some() {
        items.next();
    }
    out.push(opt(acc));
    for item in items {
        let ImplItem::Fn(m) = item else { return None };
        out.push(method(m)?);
    }
    Some(tagged("impl", out))
}

/// `impl std::convert::AsRef<TY> for Name { fn as_ref(&self) -> &TY { &self.f1.f2 } }` and
/// the `AsMut` twin; the body is plain `self` for the reflexive impls.
fn as_ref_impl(i: &ItemImpl, name: &syn::Ident) -> Option<Sexp> {
    let (None, trait_path, _) = i.trait_.as_ref()? else {
        return None;
    };
    let last = trait_path.segments.last()?;
    let PathArguments::AngleBracketed(ab) = &last.arguments else {
        return None;
    };
    let args: Vec<&GenericArgument> = ab.args.iter().collect();
    let [GenericArgument::Type(ty)] = args[..] else {
        return None;
    };
    let [ImplItem::Fn(m)] = &i.items[..] else {
        return None;
    };
    let [Stmt::Expr(body, None)] = &m.block.stmts[..] else {
        return None;
    };
    let mut fields: Vec<&syn::Ident> = vec![];
    if !is_self(body) {
        let Expr::Reference(r) = body else {
            return None;
        };
        let mut cur = &*r.expr;
        loop {
            match cur {
                Expr::Field(f) => {
                    let Member::Named(id) = &f.member else {
                        return None;
                    };
                    fields.push(id);
                    cur = &f.base;
                }
                e if is_self(e) => break,
                _ => return None,
            }
        }
        fields.reverse();
        if fields.is_empty() {
            return None;
        }
    }
    let is_mut = last.ident == "AsMut";
    let template = match (is_mut, fields.is_empty()) {
        (false, true) => quote! {
            impl std::convert::AsRef<#ty> for #name { fn as_ref(&self) -> & #ty { self } }
        },
        (false, false) => quote! {
            impl std::convert::AsRef<#ty> for #name { fn as_ref(&self) -> & #ty { &self #(. #fields)* } }
        },
        (true, true) => quote! {
            impl std::convert::AsMut<#ty> for #name { fn as_mut(&mut self) -> &mut #ty { self } }
        },
        (true, false) => quote! {
            impl std::convert::AsMut<#ty> for #name { fn as_mut(&mut self) -> &mut #ty { &mut self #(. #fields)* } }
        },
    };
    same(i, template).then(|| {
        tagged(
            if is_mut { "asmut" } else { "asref" },
            [
                st(name.to_string()),
                st(ty_str(ty)),
                tagged("fp", fields.iter().map(|f| st(f.to_string()))),
            ],
        )
    })
}

/// The two `get()` singleton accessors.
fn singleton_impl(i: &ItemImpl, name: &syn::Ident) -> Option<Sexp> {
    let [ImplItem::Fn(m)] = &i.items[..] else {
        return None;
    };
    let vis = &m.vis;
    let [Stmt::Expr(Expr::Unsafe(u), None)] = &m.block.stmts[..] else {
        return None;
    };
    // `*(N as …)`, through a real parenthesised expression
    let deref_cast_lit = |e: &Expr| -> Option<(i128, LitInt)> {
        let Expr::Unary(un) = e else { return None };
        let Expr::Paren(p) = &*un.expr else {
            return None;
        };
        let Expr::Cast(c) = &*p.expr else { return None };
        lit_int(&c.expr).map(|(n, l)| (n, l.clone()))
    };
    match &u.block.stmts[..] {
        [Stmt::Local(l), _] => {
            let (n, lit) = deref_cast_lit(&l.init.as_ref()?.expr)?;
            let template = quote! {
                impl #name {
                    #vis unsafe fn get() -> Option<&'static mut Self> {
                        unsafe {
                            let ptr: *mut Self = *(#lit as *mut *mut Self);
                            ptr.as_mut()
                        }
                    }
                }
            };
            same(i, template).then(|| {
                Some(tagged(
                    "singleton-struct",
                    [st(name.to_string()), vis_sexp(vis)?, int(n)],
                ))
            })?
        }
        [Stmt::Expr(e, None)] => {
            let (n, lit) = deref_cast_lit(e)?;
            let template = quote! {
                impl #name {
                    #vis unsafe fn get() -> Self {
                        unsafe { *(#lit as *const Self) }
                    }
                }
            };
            same(i, template).then(|| {
                Some(tagged(
                    "singleton-enum",
                    [st(name.to_string()), vis_sexp(vis)?, int(n)],
                ))
            })?
        }
        _ => None,
    }
}

/// `pub fn vftable(&self) -> TY { self.vftable as TY }` or `{ self.BASE.vftable() as TY }`
fn vftable_accessor(m: &ImplItemFn) -> Option<Sexp> {
    if m.sig.ident != "vftable" {
        return None;
    }
    let ReturnType::Type(_, ty) = &m.sig.output else {
        return None;
    };
    let [Stmt::Expr(Expr::Cast(c), None)] = &m.block.stmts[..] else {
        return None;
    };
    let (base, template) = match &*c.expr {
        Expr::Field(_) => (
            None,
            quote! { pub fn vftable(&self) -> #ty { self.vftable as #ty } },
        ),
        Expr::MethodCall(mc) => {
            let Expr::Field(f) = &*mc.receiver else {
                return None;
            };
            let Member::Named(base) = &f.member else {
                return None;
            };
            (
                Some(base.to_string()),
                quote! { pub fn vftable(&self) -> #ty { self.#base.vftable() as #ty } },
            )
        }
        _ => return None,
    };
    same(m, template).then(|| tagged("vftacc", [st(ty_str(ty)), opt(base.map(st))]))
}

/// `VIS unsafe fn name(params) -> ret { body }`
fn method(m: &ImplItemFn) -> Option<Sexp> {
    let attrs = classify_attrs(&m.attrs, &["doc"])?;
    let sig = &m.sig;
    if m.defaultness.is_some()
        || sig.constness.is_some()
        || sig.asyncness.is_some()
        || sig.unsafety.is_none()
        || sig.abi.is_some()
        || sig.variadic.is_some()
        || !no_generics(&sig.generics)
    {
        return None;
    }
    let mut params = vec![];
    for input in &sig.inputs {
        params.push(match input {
            FnArg::Receiver(r) => {
                let (_, lifetime) = r.reference.as_ref()?;
                if !r.attrs.is_empty() || lifetime.is_some() || r.colon_token.is_some() {
                    return None;
                }
                sym(if r.mutability.is_some() { "mutself" } else { "self" })
            }
            FnArg::Typed(t) => {
                let Pat::Ident(p) = &*t.pat else { return None };
                if !t.attrs.is_empty()
                    || !p.attrs.is_empty()
                    || p.by_ref.is_some()
                    || p.mutability.is_some()
                    || p.subpat.is_some()
                {
                    return None;
                }
                tagged("arg", [st(p.ident.to_string()), st(ty_str(&t.ty))])
            }
        });
    }
    let ret = match &sig.output {
        ReturnType::Default => None,
        ReturnType::Type(_, t) => Some(st(ty_str(t))),
    };
    let body = call_addr(&m.block)
        .or_else(|| call_field(&m.block))
        .or_else(|| call_slot(&m.block))
        .unwrap_or_else(|| tagged("raw", [st(tok(&m.block))]));
    Some(tagged(
        "method",
        [
            attrs.docs_sexp(),
            vis_sexp(&m.vis)?,
            st(sig.ident.to_string()),
            tagged("params", params),
            opt(ret),
            body,
        ],
    ))
}

/// `self as *const Self as _` | `self as *mut Self as _` | identifier
fn call_args<'a>(args: impl IntoIterator<Item = &'a Expr>) -> Option<Vec<Sexp>> {
    let selfconst = quote!(self as *const Self as _).to_string();
    let selfmut = quote!(self as *mut Self as _).to_string();
    args.into_iter()
        .map(|a| {
            let text = tok(a);
            if text == selfconst {
                Some(sym("selfconst"))
            } else if text == selfmut {
                Some(sym("selfmut"))
            } else {
                match a {
                    Expr::Path(p) if p.attrs.is_empty() && p.qself.is_none() => {
                        let id = p.path.get_ident()?;
                        (id != "self" && id != "Self").then(|| tagged("v", [st(id.to_string())]))
                    }
                    _ => None,
                }
            }
        })
        .collect()
}

/// `let f: unsafe extern "ABI" fn(sig) -> ret = ::std::mem::transmute(N as usize); f(args)`
fn call_addr(block: &Block) -> Option<Sexp> {
    let [Stmt::Local(l), Stmt::Expr(Expr::Call(call), None)] = &block.stmts[..] else {
        return None;
    };
    let Pat::Type(pt) = &l.pat else { return None };
    let fn_ty = &*pt.ty;
    let Type::BareFn(bf) = fn_ty else { return None };
    if bf.lifetimes.is_some() || bf.unsafety.is_none() || bf.variadic.is_some() {
        return None;
    }
    let abi = bf.abi.as_ref()?.name.as_ref()?.value();
    let this_const = quote!(*const Self).to_string();
    let this_mut = quote!(*mut Self).to_string();
    let mut sig = vec![];
    for a in &bf.inputs {
        if !a.attrs.is_empty() {
            return None;
        }
        let (name, _) = a.name.as_ref()?;
        let ty_tokens = tok(&a.ty);
        sig.push(if name == "this" && ty_tokens == this_const {
            tagged("this", [sym("const")])
        } else if name == "this" && ty_tokens == this_mut {
            tagged("this", [sym("mut")])
        } else {
            tagged("arg", [st(name.to_string()), st(ty_str(&a.ty))])
        });
    }
    let ret = match &bf.output {
        ReturnType::Default => None,
        ReturnType::Type(_, t) => Some(st(ty_str(t))),
    };
    let Expr::Call(init) = &*l.init.as_ref()?.expr else {
        return None;
    };
    let Expr::Cast(cast) = init.args.first()? else {
        return None;
    };
    let (n, lit) = lit_int(&cast.expr)?;
    let args_sexp = call_args(&call.args)?;
    let args = call.args.iter();
    let template = quote! {
        {
            let f: #fn_ty = ::std::mem::transmute(#lit as usize);
            f(#(#args),*)
        }
    };
    same(block, template).then(|| {
        tagged(
            "call-addr",
            [
                int(n),
                st(abi),
                tagged("sig", sig),
                opt(ret),
                tagged("args", args_sexp),
            ],
        )
    })
}

/// `self.field.fn(args)`
fn call_field(block: &Block) -> Option<Sexp> {
    let [Stmt::Expr(Expr::MethodCall(mc), None)] = &block.stmts[..] else {
        return None;
    };
    let Expr::Field(f) = &*mc.receiver else {
        return None;
    };
    let Member::Named(field) = &f.member else {
        return None;
    };
    let function = &mc.method;
    let args_sexp = call_args(&mc.args)?;
    let args = mc.args.iter();
    let template = quote! { { self.#field.#function(#(#args),*) } };
    same(block, template).then(|| {
        tagged(
            "call-field",
            [
                st(field.to_string()),
                st(function.to_string()),
                tagged("args", args_sexp),
            ],
        )
    })
}

/// `let f = std::ptr::addr_of!((*self.vftable()).fn).read(); f(args)`
fn call_slot(block: &Block) -> Option<Sexp> {
    let [Stmt::Local(l), Stmt::Expr(Expr::Call(call), None)] = &block.stmts[..] else {
        return None;
    };
    let Expr::MethodCall(read) = &*l.init.as_ref()?.expr else {
        return None;
    };
    let Expr::Macro(mac) = &*read.receiver else {
        return None;
    };
    if !mac.attrs.is_empty()
        || tok(&mac.mac.path) != quote!(std::ptr::addr_of).to_string()
        || !matches!(mac.mac.delimiter, syn::MacroDelimiter::Paren(_))
    {
        return None;
    }
    // the macro argument, through a real parenthesised expression
    let Expr::Field(slot) = mac.mac.parse_body::<Expr>().ok()? else {
        return None;
    };
    let Member::Named(function) = &slot.member else {
        return None;
    };
    if !matches!(&*slot.base, Expr::Paren(_))
        || !same(&slot, quote! { (*self.vftable()).#function })
    {
        return None;
    }
    let args_sexp = call_args(&call.args)?;
    let args = call.args.iter();
    // everything around the macro argument
    let mut hollow = l.clone();
    if let Some(init) = &mut hollow.init {
        if let Expr::MethodCall(read) = &mut *init.expr {
            if let Expr::Macro(mac) = &mut *read.receiver {
                mac.mac.tokens = TokenStream::new();
            }
        }
    }
    let rest_ok = same(&hollow, quote! { let f = std::ptr::addr_of!().read(); })
        && same(call, quote! { f(#(#args),*) });
    rest_ok.then(|| {
        tagged(
            "call-slot",
            [st(function.to_string()), tagged("args", args_sexp)],
        )
    })
}
