#!/bin/sh
# Self test for pxharness: build, run the pyxis codegen inputs (raw-text cases) and the
# hand-written AST cases through o1,o2,o3, and report anything that was not recognised.
set -eu
HERE=$(cd "$(dirname "$0")" && pwd)
REPO=${VERIF_REPO:-/repo}
WORK=${VERIF_WORK:-/verif/.work}
BIN=$WORK/harness-target/debug/pxharness
OUT=$WORK/selftest
mkdir -p "$OUT"

echo "== build"
(cd "$HERE" && CARGO_NET_OFFLINE=true cargo build --offline)

echo "== cases"
"$BIN" mkcase --ps 4 "$REPO"/codegen_tests/input/*.pyxis > "$OUT/cases.sexp"
cat "$HERE/selftest/cases.sexp" >> "$OUT/cases.sexp"
grep -c '^(case' "$OUT/cases.sexp" | sed 's/$/ cases/'

echo "== run (in-process)"
"$BIN" run --points o1,o2,o3 --work "$OUT/tmp" < "$OUT/cases.sexp" > "$OUT/obs.sexp" 2> "$OUT/stderr.txt"
echo "== run again (determinism) and under --isolate"
"$BIN" run --points o1,o2,o3 --work "$OUT/tmp" < "$OUT/cases.sexp" > "$OUT/obs2.sexp" 2> /dev/null
"$BIN" run --points o1,o2,o3 --work "$OUT/tmp" --isolate < "$OUT/cases.sexp" > "$OUT/obs3.sexp" 2> /dev/null
"$BIN" run --points o1,o2 --isolate --timeout-ms 300 < "$HERE/selftest/isolate.sexp" > "$OUT/obs-isolate.sexp" 2> /dev/null

fail=0
check() { # description, command that must succeed
    if eval "$2" > /dev/null 2>&1; then echo "ok    $1"; else echo "FAIL  $1"; fail=1; fi
}
ncases=$(grep -c '^(case' "$OUT/cases.sexp")
check "three observation lines per case" "[ \$(wc -l < $OUT/obs.sexp) -eq $((ncases * 3)) ]"
check "second run identical"             "cmp $OUT/obs.sexp $OUT/obs2.sexp"
check "--isolate run identical"          "cmp $OUT/obs.sexp $OUT/obs3.sexp"
check "printer round trip (no warnings on stderr)" "[ ! -s $OUT/stderr.txt ]"
check "no unparsable output file"        "! grep -q '(unparsable)' $OUT/obs.sexp"
check "no (raw ...) method body"         "! grep -q '(raw \"' $OUT/obs.sexp"
check "no harness error line"            "! grep -q '^(obs \"?\" error' $OUT/obs.sexp"
check "overlap is rejected"              "grep -q '^(obs \"f-overlap\" o2 (err (other ' $OUT/obs.sexp"
check "unknown type does not terminate"  "grep -q '^(obs \"g-nonterm\" o2 (err (nonterm (p \"nt\" \"deep\" \"Alpha\") (p \"nt\" \"deep\" \"Zeta\")))' $OUT/obs.sexp"
check "overflow inside pyxis is a panic" "grep -q '^(obs \"i-overflow\" o2 (panic \"attempt to multiply with overflow\"))' $OUT/obs.sexp"
check "syntax error position"            "grep -q '^(obs \"j-perr\" o1 (o1 (perr \"broken.pyxis\" 2 8)))' $OUT/obs.sexp"
check "runaway child is killed"          "grep -q '^(obs \"k-hog\" o2 (timeout))' $OUT/obs-isolate.sexp"
check "next case after a kill still runs" "grep -q '^(obs \"l-after\" o2 (resolved ' $OUT/obs-isolate.sexp"
check "scratch directories removed"      "[ -z \"\$(ls -A $OUT/tmp 2>/dev/null)\" ]"

echo "== opaque items (expected: only backend prologue/epilogue content of case e-extern)"
grep -o '(opaque "[^"]*\(\\"[^"]*\)*"' "$OUT/obs.sexp" | sort | uniq -c || true
[ -s "$OUT/stderr.txt" ] && { echo "== stderr"; cat "$OUT/stderr.txt"; }

echo "== item shapes seen"
grep -o '(\(struct\|enum\|sizecheck\|singleton-struct\|singleton-enum\|impl\|asref\|asmut\|conflict\|xaccessor\|opaque\|call-addr\|call-field\|call-slot\|vftacc\|method\) ' "$OUT/obs.sexp" | sort | uniq -c

echo "observations: $OUT/obs.sexp"
[ $fail -eq 0 ] && echo "SELFTEST OK" || { echo "SELFTEST FAILED"; exit 1; }
