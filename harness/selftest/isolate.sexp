; Cases that are only safe under --isolate (they exhaust memory or time inside pyxis).
(case "k-hog" (ps 4) (prio) (modules (module (p "hog") "hog.pyxis" (m (attrs) (uses) (xtypes) (xvals) (defs (def pub "Hog" (type (attrs) (vftable (attrs (af "size" (int 1099511627776))) (fn pub "f" (attrs) (args self) none))))) (impls) (backends)))))
(case "l-after" (ps 4) (prio) (modules (tmodule "ok.pyxis" "pub type Ok { pub x: u32 }")))
